(* C05: per-object keys and data round trips (RC4 / AES), the permission table, the gates, minimum
   versions; Algorithm 2.B agreement. Lemmas named *_lemma become theorems of Props/Properties_C05.v. *)
From QV Require Import Base.Bytes Crypto.Nib Filters.Filters Filters.C15ProofsB.
From QV Require Import Crypto.MD5 Crypto.SHA2Fast Crypto.AES Crypto.AesPdf Crypto.KeyDeriv Crypto.IsoRef Crypto.Perms.
From QV Require Import Crypto.C05Proofs Crypto.CbcProofs.
Local Open Scope N_scope.

(* the revision R of the dictionary and the /V the writer passes to compute_data_key are on the
   same side of 5 (V = 5 <-> R in {5, 6}) *)
Definition rv_consistent (R V : N) : Prop := (5 <=? R) = (5 <=? V).

Lemma firstn_min_length {A} : forall n (l : list A), firstn n l = firstn (Nat.min n (length l)) l.
Proof.
  intros n l. destruct (Nat.le_ge_cases n (length l)) as [H|H].
  - rewrite Nat.min_l by exact H. reflexivity.
  - rewrite Nat.min_r by exact H. rewrite !firstn_all2; [reflexivity|lia|exact H].
Qed.

Lemma obj_bytes_agree : forall num gen,
  [N.land num 255; N.land (N.shiftr num 8) 255; N.land (N.shiftr num 16) 255; N.land gen 255; N.land (N.shiftr gen 8) 255]
  = [num mod 256; (num / 256) mod 256; (num / 65536) mod 256; gen mod 256; (gen / 256) mod 256].
Proof.
  intros. change 255 with (N.ones 8). rewrite !N.land_ones, !N.shiftr_div_pow2. reflexivity.
Qed.

(* Algorithm 1 / 1.A as the reader computes it = QPDF::compute_data_key, for RC4 with any key
   length and for AES with keys of at least 11 bytes (the writer uses 16) *)
Lemma object_key_agrees : forall d key aes num gen V,
  rv_consistent (iso_R d) V -> (aes = false \/ (11 <= length key)%nat) ->
  iso_object_key d key aes num gen = kd_compute_data_key key num gen aes V.
Proof.
  intros d key aes num gen V Hrv Hk. unfold iso_object_key, kd_compute_data_key.
  unfold rv_consistent in Hrv. rewrite Hrv. destruct (5 <=? V); [reflexivity|].
  rewrite obj_bytes_agree.
  set (ext := key ++ _ ++ _).
  rewrite (firstn_min_length (length ext)), (firstn_min_length (Nat.min _ _)), length_md5.
  f_equal. subst ext. rewrite !app_length. cbn [length].
  destruct Hk as [-> | Hk]; [cbn [length]; lia|]. destruct aes; cbn [length]; lia.
Qed.

(* data_roundtrip_rc4: what the reference reader's RC4 decryption makes of the bytes the writer
   emits for a string or stream of object (num, gen), under any file key *)
Lemma data_roundtrip_rc4_lemma : forall d key V num gen iv s,
  rv_consistent (iso_R d) V ->
  iso_decrypt_data d key false num gen (opt_bytes (kd_encrypt_data key V false num gen iv s)) = Some s.
Proof.
  intros d key V num gen iv s Hrv. unfold iso_decrypt_data, kd_encrypt_data. cbn [opt_bytes].
  rewrite (object_key_agrees d key false num gen V Hrv) by (left; reflexivity).
  rewrite rc4_involutive_lemma. reflexivity.
Qed.

(* ---------------------------------------------------------------- Algorithm 2.B *)
Lemma be_value_mod3_gen : forall l a a', a mod 3 = a' mod 3 ->
  fold_left (fun acc b => acc * 256 + b) l a mod 3 = fold_left N.add l a' mod 3.
Proof.
  induction l as [|b l IH]; intros a a' H; cbn [fold_left]; [exact H|].
  apply IH. rewrite (N.add_mod (a * 256)), (N.mul_mod a 256), H by lia.
  change (256 mod 3) with 1. rewrite N.mul_1_r, N.mod_mod by lia.
  rewrite <- N.add_mod by lia. reflexivity.
Qed.
(* "mod 3 of the first 16 bytes as a big-endian number" is the sum of the bytes mod 3 *)
Lemma be_value_mod3 : forall l, iso_be_value l mod 3 = kd_sum_bytes l mod 3.
Proof. intros l. unfold iso_be_value, kd_sum_bytes. apply be_value_mod3_gen. reflexivity. Qed.

Lemma fix_len_length : forall n l, length (fix_len n l) = n.
Proof. intros n l. unfold fix_len. rewrite firstn_length, app_length, repeat_length. lia. Qed.
Lemma sha256f_length : forall m, length (sha256f m) = 32%nat. Proof. intros; apply fix_len_length. Qed.
Lemma sha384f_length : forall m, length (sha384f m) = 48%nat. Proof. intros; apply fix_len_length. Qed.
Lemma sha512f_length : forall m, length (sha512f m) = 64%nat. Proof. intros; apply fix_len_length. Qed.
Global Opaque sha256f sha384f sha512f.

Lemma concat_repeat_length : forall (l : list N) n, length (concat (repeat l n)) = (n * length l)%nat.
Proof. induction n as [|n IH]; cbn [repeat concat]; [reflexivity|]. rewrite app_length, IH. lia. Qed.

Lemma key16_ok : forall K, (16 <= length K)%nat -> key_len_ok (firstn 16 K) = true.
Proof. intros K H. unfold key_len_ok. rewrite firstn_length, Nat.min_l by exact H. reflexivity. Qed.

(* one round: the AES-128-CBC step of hash_V5 (process_with_aes over 64 repetitions) is the reader's *)
Lemma hash_round_E : forall pw K udata, (32 <= length K)%nat ->
  kd_process_with_aes (firstn 16 K) true (pw ++ K ++ udata) 64 (Some (firstn 16 (skipn 16 K))) =
  iso_cbc_enc (aes_key_schedule (firstn 16 K)) (firstn 16 (skipn 16 K))
              (iso_blocks (concat (repeat (pw ++ K ++ udata) 64))).
Proof.
  intros pw K udata H. unfold kd_process_with_aes.
  rewrite pl_encrypt_nopad_given; [reflexivity|apply key16_ok; lia|].
  rewrite concat_repeat_length. rewrite Nat.mul_comm.
  change 64%nat with (4 * 16)%nat. rewrite Nat.mul_assoc. apply Nat.mod_mul. lia.
Qed.

Lemma hash_loop_agrees : forall fuel i pw K udata, (32 <= length K)%nat ->
  iso_2B_rounds fuel i pw K udata = kd_hash_loop fuel i pw K udata.
Proof.
  induction fuel as [|fuel IH]; intros i pw K udata HK; [reflexivity|].
  cbn [iso_2B_rounds kd_hash_loop]. rewrite (hash_round_E pw K udata HK).
  set (E := iso_cbc_enc _ _ _). rewrite be_value_mod3.
  set (m := kd_sum_bytes (firstn 16 E) mod 3).
  assert (HK' : (match m with 0 => sha256f E | 1 => sha384f E | _ => sha512f E end)
                = (if m =? 0 then sha256f E else if m =? 1 then sha384f E else sha512f E)).
  { destruct m as [|[p|p|]]; reflexivity. }
  rewrite HK'. set (K' := if m =? 0 then _ else _).
  assert (HL : (32 <= length K')%nat).
  { subst K'. destruct (m =? 0); [rewrite sha256f_length; lia|]. destruct (m =? 1); [rewrite sha384f_length|rewrite sha512f_length]; lia. }
  rewrite !N.ltb_antisym.
  rewrite <- negb_andb. destruct ((64 <=? i + 1) && (last E 0 <=? i + 1 - 32)); cbn [negb]; [reflexivity|].
  apply IH. exact HL.
Qed.

Lemma hash_loop_length : forall fuel i pw K udata, (32 <= length K)%nat ->
  (32 <= length (kd_hash_loop fuel i pw K udata))%nat.
Proof.
  induction fuel as [|fuel IH]; intros i pw K udata HK; [exact HK|].
  cbn [kd_hash_loop]. set (E := kd_process_with_aes _ _ _ _ _). set (m := _ mod 3).
  set (K' := if m =? 0 then _ else _).
  assert (HL : (32 <= length K')%nat).
  { subst K'. destruct (m =? 0); [rewrite sha256f_length; lia|]. destruct (m =? 1); [rewrite sha384f_length|rewrite sha512f_length]; lia. }
  destruct (_ && _); [exact HL|]. apply IH. exact HL.
Qed.

(* the hash of Algorithm 2.B (R = 6) / the plain SHA-256 of R = 5, reader = qpdf *)
Lemma hash_agrees : forall R pw salt udata, R = 5 \/ R = 6 ->
  iso_hash R pw salt udata = kd_hash_V5 R pw salt udata.
Proof.
  intros R pw salt udata [-> | ->]; unfold iso_hash, kd_hash_V5.
  - reflexivity.
  - change (6 =? 5) with false. change (6 <? 6) with false. cbv iota.
    rewrite hash_loop_agrees; [reflexivity|]. rewrite sha256f_length. lia.
Qed.

Lemma hash_length : forall R pw salt udata, length (kd_hash_V5 R pw salt udata) = 32%nat.
Proof.
  intros R pw salt udata. unfold kd_hash_V5. destruct (R <? 6); [apply sha256f_length|].
  rewrite firstn_length. apply Nat.min_l. apply hash_loop_length. rewrite sha256f_length. lia.
Qed.

(* ---------------------------------------------------------------- permissions, gates, versions *)

(* P_bits_table: for every enumerated option list the permission word qpdf writes is exactly the one the
   manual gives (encryption.rst table applied to the options in effect: --modify expanded as cli.rst says, a later
   occurrence of an option standing). Finite and exhaustive, the lists are enumerated in the statement: 40-bit:
   all 81 combinations of the four y/n options; each of R = 3, 4, 5, 6: 32 284 lists = every combination of the
   seven options without --modify (2916), with each --modify value before them (14 580) and after them (14 580),
   all 80 ordered (--modify, granular option) pairs, and 128 lists giving an option twice with different values.
   (Before fix 8ca3265e this failed on 20 of the 80 pairs: --modify re-set the granular permissions.) *)
Lemma P_bits_table_lemma :
  forallb (P_agrees 2) opts_R2 = true /\
  forallb (fun R => forallb (P_agrees R) opts_R3_all) [3; 4; 5; 6] = true.
Proof. split; vm_compute; reflexivity. Qed.

(* the same against the most literal reading of the table alone (every argument clears its bits, "=y" does
   nothing): agreement whenever no option re-enables what an earlier argument disabled; among the 80 ordered pairs
   exactly the 10 of the form [--modify=x; granular=y] with the granular permission disabled by x differ,
   where qpdf follows "Enable/disable" of cli.rst and grants the permission *)
Definition c05_is_enable (o : enc_opt) : bool :=
  match o with OAssemble true | OAnnotate true | OForm true | OModifyOther true => true | _ => false end.
Lemma P_bits_table_union_reading_lemma :
  forallb (fun R => forallb (P_agrees_union R) opts_R3_granular
                    && forallb (fun o => P_agrees_union R o
                                         || match o with [OModify _; g] => c05_is_enable g | _ => false end) opts_R3_pairs
                    && Nat.eqb (length (filter (fun o => negb (P_agrees_union R o)) opts_R3_pairs)) 10)
          [3; 4; 5; 6] = true.
Proof. vm_compute. reflexivity. Qed.

(* gates: RC4-based schemes are refused without --allow-weak-crypto, and a non-empty user password with an
   empty owner password under a 256-bit key is refused without --allow-insecure; nothing else is refused *)
Lemma gates_lemma : forall keylen R use_aes allow_weak allow_insecure user owner,
  let rc4_scheme := (R <? 4) || ((R =? 4) && negb use_aes) in
  let insecure := (keylen =? 256) && (match user with [] => false | _ => true end)
                  && (match owner with [] => true | _ => false end) in
  job_refuses keylen R use_aes allow_weak allow_insecure user owner
  = (rc4_scheme && negb allow_weak) || (insecure && negb allow_insecure).
Proof.
  intros. subst rc4_scheme insecure. unfold job_refuses.
  destruct (keylen =? 256), allow_insecure, allow_weak, use_aes, (R <? 4), (R =? 4), user, owner; reflexivity.
Qed.

(* min_version_for_scheme: the version qpdf requests is at least the one ISO 32000 introduces the scheme in *)
Lemma min_version_for_scheme_lemma :
  forallb (fun R => forallb (fun aes => version_le (iso_min_version R aes) (writer_min_version R aes)) [true; false])
          [2; 3; 4; 5; 6] = true.
Proof. vm_compute. reflexivity. Qed.

(* the writer's (V, Length, R) per setR* call is a scheme the theorems cover *)
Lemma writer_schemes_lemma :
  forallb (fun R => (R <=? 4) || ((writer_V R =? 5) && (writer_len R =? 32))) [2; 3; 4; 5; 6] = true /\
  scheme_V4 (writer_V 2) 2 (writer_len 2) /\ scheme_V4 (writer_V 3) 3 (writer_len 3) /\ scheme_V4 (writer_V 4) 4 (writer_len 4).
Proof. split; [reflexivity|]. unfold scheme_V4. cbn. repeat split; auto 10. Qed.

(* ---------------------------------------------------------------- which leaves are encrypted *)
From QV Require Import Crypto.EncWriter.

(* leaves_encrypted: for every class of leaf and both values of EncryptMetadata the writer encrypts exactly what
   the standard requires to be encrypted: every string and stream except the encryption dictionary, the trailer,
   signature /Contents, cross-reference streams, the DATA of the cleartext metadata stream, and strings inside
   object streams (protected by the enclosing stream). (Before fix 5a982a7f the strings of the cleartext metadata
   stream's dictionary were written in the clear.) *)
Lemma leaves_encrypted_lemma : forall encrypt_metadata l,
  writer_encrypts encrypt_metadata l = iso_requires_encrypted encrypt_metadata l.
Proof. intros em l. destruct l, em; reflexivity. Qed.

(* rc4_prefix: RC4 is a stream cipher: the encryption of a prefix is the prefix of the encryption. (Lets the check run
   the slow list-based model once on the longest buffer of the large-write pipeline tie.) *)
Lemma rc4_stream_prefix : forall d n st x y, rc4_stream (firstn n d) st x y = firstn n (rc4_stream d st x y).
Proof.
  induction d as [|b t IH]; intros n st x y.
  - rewrite firstn_nil. cbn [rc4_stream]. rewrite firstn_nil. reflexivity.
  - destruct n as [|n]; [reflexivity|]. cbn [firstn rc4_stream]. rewrite IH. reflexivity.
Qed.
Lemma rc4_prefix_lemma : forall k d n, rc4 k (firstn n d) = firstn n (rc4 k d).
Proof.
  Local Transparent rc4.
  intros k d n. unfold rc4. apply rc4_stream_prefix.
  Local Opaque rc4.
Qed.
