(* C13 proofs (to be extended) *)
From QV Require Import Base.Bytes Struct.PgModel Struct.PgSpec.

Lemma sp_insert_length_lemma : forall l pos m, (pos <= length l)%nat -> length (sp_insert l pos m) = S (length l).
Proof.
  intros l pos m H. unfold sp_insert. rewrite app_length. simpl. rewrite firstn_length, skipn_length. lia.
Qed.
