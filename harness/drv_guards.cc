// C04 driver (guard logic): in-process observations that the CLI does not expose.
//   c4nn <hex pdf> <root obj id> <cap> <probe key>
//        number tree rooted at <root> through QPDFNumberTreeObjectHelper(auto_repair = false):
//        forward iteration of the whole tree (stopped after <cap> entries) and one find of <probe>
//        -> entries=<n> warns=<n> done=<0|1> find=<ok|loop|badnode|minus1|err:...>
//   c4nnopen <hex pdf> <root obj id> <cap>   helper with auto_repair + validate(true), then iteration of the result
//        -> valid=<0|1> repaired=<n> gaveup=<n> warns=<n> entries=<n> done=<0|1>
//   c4parse <max_nesting|-> <max_errors|-> <container_damaged|-> <hex object text>
//        QPDFObjectHandle::parse with a context, limits set for this case and restored afterwards
//        -> <array|dict|null|other> <nesting|budget|giveup|container|-> w=<warnings>
//   c4conv <from> <to> <decimal>      QIntC::to_<to>(<from> value)       -> ok <decimal> | range
//   c4fits <from> <to> <decimal>      util::fits<to>(<from> value), util::to<to> -> <0|1> ok <decimal> | <0|1> range
//        types: c uc s us i u l ul ll ull sz off
//   c4xwalk <hex pdf> <cap>
//        processInputSource (no recovery) on an input source that records every offset Objects::read_xref is asked to read
//        (a seek to an absolute offset that is followed by the one-byte read of its white-space skip, or that fails);
//        more than <cap> of them end the run (runtime_error from the input source)
//        -> <ok|loop|notfound|damaged|runaway|other:...> v=<offsets in order> ws=<"extraneous whitespace" warnings> warns=<n>
//   c4json <c|u> <hex JSON text> [<hex pdf>] [<datafile directory>]
//        c: QPDF::createFromJSON;  u: processMemoryFile(pdf) then QPDF::updateFromJSON; after a successful import the document is
//        written to memory (QPDFWriter, static id) - the TYPE of whatever is thrown is what is observed
//   c4png <e|d> <limit> <columns> <samples_per_pixel> <bits_per_sample>
//        Pl_PNGFilter's constructor with global::Limits::png_max_memory = <limit> (restored afterwards); no data is written
//        -> ok | err:<message>
//        -> exc=<none|QPDFExc|runtime|logic|bad_alloc|other|unknown> refused=<n> warns=<n> streams=<n.g,...|-> write=<none|...|skipped> msg=<hex>
#include "drv.hh"
#include <qpdf/BufferInputSource.hh>
#include <qpdf/Pl_Discard.hh>
#include <qpdf/Pl_PNGFilter.hh>
#include <qpdf/QIntC.hh>
#include <qpdf/QPDFWriter.hh>
#include <qpdf/QPDF.hh>
#include <qpdf/QPDFExc.hh>
#include <qpdf/QPDFNumberTreeObjectHelper.hh>
#include <qpdf/QPDFObjectHandle.hh>
#include <qpdf/Util.hh>
#include <qpdf/global_private.hh>
#include <limits>
#include <stdexcept>

namespace
{
    std::string c4nn(std::vector<std::string> const& a)
    {
        if (a.size() != 4) return "?args";
        std::string data = unhex(a[0]);
        int root = std::stoi(a[1]);
        long long cap = std::stoll(a[2]);
        long long probe = std::stoll(a[3]);
        QPDF q;
        q.setSuppressWarnings(true);
        q.processMemoryFile("c4nn", data.data(), data.size());
        (void)q.getWarnings();
        long long entries = 0;
        bool done = true;
        std::string iter_err;
        size_t warns = 0;
        {
            QPDFNumberTreeObjectHelper t(q.getObject(root, 0), q, false);
            try {
                for (auto it = t.begin(); it != t.end(); ++it) {
                    ++entries;
                    if (entries >= cap) { done = false; break; }
                }
            } catch (QPDFExc& e) {
                iter_err = " itererr";
            }
            warns = q.getWarnings().size();
        }
        std::string f;
        {
            QPDFNumberTreeObjectHelper t(q.getObject(root, 0), q, false);
            try {
                QPDFObjectHandle v;
                (void)t.findObject(probe, v);
                f = "ok";
            } catch (QPDFExc& e) {
                std::string m = e.getMessageDetail();
                if (m.find("loop detected in find") != std::string::npos) f = "loop";
                else if (m.find("bad node during find") != std::string::npos) f = "badnode";
                else if (m.find("unexpected -1") != std::string::npos) f = "minus1";
                else f = "err:" + m.substr(0, 40);
                for (auto& c: f) if (c == ' ') c = '_';
            }
        }
        return "entries=" + std::to_string(entries) + " warns=" + std::to_string(warns) + " done=" + (done ? "1" : "0") + iter_err +
            " find=" + f;
    }

    // c4nnopen <hex pdf> <root obj id> <cap>: what the library does when it opens a tree: helper with auto_repair,
    // validate(true); then the (possibly rebuilt) tree is iterated
    //   -> valid=<0|1> repaired=<n> gaveup=<n> warns=<n> entries=<n> done=<0|1>
    std::string c4nnopen(std::vector<std::string> const& a)
    {
        if (a.size() != 3) return "?args";
        std::string data = unhex(a[0]);
        int root = std::stoi(a[1]);
        long long cap = std::stoll(a[2]);
        QPDF q;
        q.setSuppressWarnings(true);
        q.processMemoryFile("c4nnopen", data.data(), data.size());
        (void)q.getWarnings();
        QPDFNumberTreeObjectHelper t(q.getObject(root, 0), q, true);
        bool valid = t.validate(true);
        size_t repaired = 0, gaveup = 0;
        auto ws = q.getWarnings();
        for (auto const& w: ws) {
            std::string m = w.getMessageDetail();
            if (m.find("attempting to repair after error") != std::string::npos) ++repaired;
            if (m.find("reachable more than once") != std::string::npos) ++gaveup;
        }
        long long entries = 0;
        bool done = true;
        try {
            for (auto it = t.begin(); it != t.end(); ++it) {
                ++entries;
                if (entries >= cap) { done = false; break; }
            }
        } catch (QPDFExc&) {
            done = false;
        }
        return std::string("valid=") + (valid ? "1" : "0") + " repaired=" + std::to_string(repaired) + " gaveup=" + std::to_string(gaveup) +
            " warns=" + std::to_string(ws.size()) + " entries=" + std::to_string(entries) + " done=" + (done ? "1" : "0");
    }

    std::string c4parse(std::vector<std::string> const& a)
    {
        using qpdf::global::Limits;
        if (a.size() != 4) return "?args";
        uint32_t o_nest = Limits::parser_max_nesting(), o_err = Limits::parser_max_errors(),
                 o_cd = Limits::parser_max_container_size(true);
        std::string res = "other";
        std::string cls = "-";
        size_t nw = 0;
        QPDF q;
        q.setSuppressWarnings(true);
        q.emptyPDF();                      // parsed under the default limits
        (void)q.getWarnings();
        if (a[0] != "-") Limits::parser_max_nesting(static_cast<uint32_t>(std::stoul(a[0])));
        if (a[1] != "-") Limits::parser_max_errors(static_cast<uint32_t>(std::stoul(a[1])));
        if (a[2] != "-") Limits::parser_max_container_size(true, static_cast<uint32_t>(std::stoul(a[2])));
        try {
            try {
                auto oh = QPDFObjectHandle::parse(&q, unhex(a[3]), "c4");
                res = oh.isArray() ? "array" : oh.isDictionary() ? "dict" : oh.isNull() ? "null" : "other";
            } catch (QPDFExc& e) {
                res = "null";      // "trailing data": the parser stopped early and returned null
            }
            auto ws = q.getWarnings();
            nw = ws.size();
            for (auto const& w: ws) {
                std::string m = w.getMessageDetail();
                if (m.find("parser-max-nesting") != std::string::npos) cls = "nesting";
                else if (m.find("parser-max-errors") != std::string::npos) cls = "budget";
                else if (m.find("parser-max-container-size") != std::string::npos) cls = "container";
                else if (m.find("too many errors; giving up") != std::string::npos) cls = "giveup";
            }
        } catch (...) {
            Limits::parser_max_nesting(o_nest); Limits::parser_max_errors(o_err); Limits::parser_max_container_size(true, o_cd);
            throw;
        }
        Limits::parser_max_nesting(o_nest); Limits::parser_max_errors(o_err); Limits::parser_max_container_size(true, o_cd);
        return res + " " + cls + " w=" + std::to_string(nw);
    }

    template <typename From>
    std::string conv_to(std::string const& to, From v)
    {
        try {
            if (to == "c") return "ok " + std::to_string(static_cast<long long>(QIntC::to_char(v)));
            if (to == "uc") return "ok " + std::to_string(static_cast<unsigned long long>(QIntC::to_uchar(v)));
            if (to == "s") return "ok " + std::to_string(QIntC::to_short(v));
            if (to == "us") return "ok " + std::to_string(QIntC::to_ushort(v));
            if (to == "i") return "ok " + std::to_string(QIntC::to_int(v));
            if (to == "u") return "ok " + std::to_string(QIntC::to_uint(v));
            if (to == "l") return "ok " + std::to_string(QIntC::to_long(v));
            if (to == "ul") return "ok " + std::to_string(QIntC::to_ulong(v));
            if (to == "ll") return "ok " + std::to_string(QIntC::to_longlong(v));
            if (to == "ull") return "ok " + std::to_string(QIntC::to_ulonglong(v));
            if (to == "sz") return "ok " + std::to_string(QIntC::to_size(v));
            if (to == "off") return "ok " + std::to_string(QIntC::to_offset(v));
        } catch (std::range_error&) {
            return "range";
        }
        return "?type";
    }

    template <typename To, typename From>
    std::string fits1(From v)
    {
        bool f = qpdf::util::fits<To>(v);
        std::string r = f ? "1 " : "0 ";
        try {
            To t = qpdf::util::to<To>(v);
            if constexpr (std::numeric_limits<To>::is_signed) r += "ok " + std::to_string(static_cast<long long>(t));
            else r += "ok " + std::to_string(static_cast<unsigned long long>(t));
        } catch (std::range_error&) {
            r += "range";
        }
        return r;
    }

    template <typename From>
    std::string fits_to(std::string const& to, From v)
    {
        if (to == "c") return fits1<signed char>(v);
        if (to == "uc") return fits1<unsigned char>(v);
        if (to == "s") return fits1<short>(v);
        if (to == "us") return fits1<unsigned short>(v);
        if (to == "i") return fits1<int>(v);
        if (to == "u") return fits1<unsigned int>(v);
        if (to == "l") return fits1<long>(v);
        if (to == "ul") return fits1<unsigned long>(v);
        if (to == "ll") return fits1<long long>(v);
        if (to == "ull") return fits1<unsigned long long>(v);
        if (to == "sz") return fits1<size_t>(v);
        if (to == "off") return fits1<qpdf_offset_t>(v);
        return "?type";
    }

    template <bool FITS>
    std::string dispatch(std::vector<std::string> const& a)
    {
        if (a.size() != 3) return "?args";
        std::string const& from = a[0];
        bool neg = !a[2].empty() && a[2][0] == '-';
        unsigned long long u = neg ? 0 : std::stoull(a[2]);
        long long s = neg ? std::stoll(a[2]) : static_cast<long long>(u);
#define C4_FROM(name, T, val)                                                  \
    if (from == name) {                                                        \
        T x = static_cast<T>(val);                                             \
        if constexpr (FITS) return fits_to<T>(a[1], x); else return conv_to<T>(a[1], x); \
    }
        C4_FROM("c", signed char, s)
        C4_FROM("uc", unsigned char, u)
        C4_FROM("s", short, s)
        C4_FROM("us", unsigned short, u)
        C4_FROM("i", int, s)
        C4_FROM("u", unsigned int, u)
        C4_FROM("l", long, s)
        C4_FROM("ul", unsigned long, u)
        C4_FROM("ll", long long, s)
        C4_FROM("ull", unsigned long long, u)
        C4_FROM("sz", size_t, u)
        C4_FROM("off", qpdf_offset_t, s)
#undef C4_FROM
        return "?type";
    }

    // ---- c4xwalk
    class C4LogSource: public BufferInputSource
    {
      public:
        C4LogSource(std::string const& data, size_t cap) :
            BufferInputSource("c4xwalk", data),
            cap(cap)
        {
        }
        void
        seek(qpdf_offset_t offset, int whence) override
        {
            pending = false;
            if (whence == SEEK_SET) {
                pending = true;
                pending_off = offset;
            }
            try {
                BufferInputSource::seek(offset, whence);
            } catch (...) {
                if (pending) {
                    note();
                }
                throw;
            }
        }
        size_t
        read(char* buffer, size_t length) override
        {
            if (pending && length == 1) {
                note();
            }
            pending = false;
            return BufferInputSource::read(buffer, length);
        }
        void
        unreadCh(char ch) override
        {
            pending = false;
            BufferInputSource::unreadCh(ch);
        }
        std::vector<qpdf_offset_t> log;
        bool runaway{false};

      private:
        void
        note()
        {
            pending = false;
            log.push_back(pending_off);
            if (log.size() > cap) {
                runaway = true;
                throw std::runtime_error("c4xwalk: cap on cross-reference section reads exceeded");
            }
        }
        size_t cap;
        bool pending{false};
        qpdf_offset_t pending_off{0};
    };

    std::string c4xwalk(std::vector<std::string> const& a)
    {
        if (a.size() != 2) return "?args";
        auto src = std::make_shared<C4LogSource>(unhex(a[0]), static_cast<size_t>(std::stoll(a[1])));
        QPDF q;
        q.setSuppressWarnings(true);
        q.setAttemptRecovery(false);
        std::string res = "ok";
        try {
            q.processInputSource(src);
        } catch (QPDFExc& e) {
            std::string m = e.what();
            if (m.find("loop detected following xref tables") != std::string::npos) res = "loop";
            else if (m.find("xref not found") != std::string::npos || m.find("can't find startxref") != std::string::npos ||
                     m.find("error reading xref") != std::string::npos) res = "notfound";
            else res = "damaged";
        } catch (std::logic_error& e) {
            res = std::string("other:logic_error:") + e.what();
        } catch (std::exception& e) {
            res = src->runaway ? "runaway" : std::string("other:") + e.what();
        }
        if (src->runaway) res = "runaway";
        for (auto& c: res) if (c == ' ') c = '_';
        size_t ws = 0;
        auto warns = q.getWarnings();
        for (auto& w: warns) {
            if (std::string(w.what()).find("extraneous whitespace seen before xref") != std::string::npos) ++ws;
        }
        std::string v;
        for (auto o: src->log) v += (v.empty() ? "" : ",") + std::to_string(o);
        return res + " v=" + (v.empty() ? "-" : v) + " ws=" + std::to_string(ws) + " warns=" + std::to_string(warns.size());
    }

    // ---- c4json
    template <typename F>
    std::string exc_type(F f, std::string& msg)
    {
        try {
            f();
        } catch (QPDFExc& e) {
            msg = e.what();
            return "QPDFExc";
        } catch (std::logic_error& e) {
            msg = e.what();
            return "logic";
        } catch (std::runtime_error& e) {
            msg = e.what();
            return "runtime";
        } catch (std::bad_alloc& e) {
            msg = e.what();
            return "bad_alloc";
        } catch (std::exception& e) {
            msg = e.what();
            return "other";
        } catch (...) {
            return "unknown";
        }
        return "none";
    }

    std::string c4json(std::vector<std::string> const& a)
    {
        if (a.size() < 2 || a.size() > 3) return "?args";
        bool update = a[0] == "u";
        std::string json = unhex(a[1]);
        std::string pdf = a.size() > 2 ? unhex(a[2]) : "";
        QPDF q;
        q.setSuppressWarnings(true);
        std::string msg;
        std::string exc = exc_type(
            [&]() {
                if (update) {
                    q.processMemoryFile("c4json.pdf", pdf.data(), pdf.size());
                    q.updateFromJSON(std::make_shared<BufferInputSource>("c4json", json));
                } else {
                    q.createFromJSON(std::make_shared<BufferInputSource>("c4json", json));
                }
            },
            msg);
        size_t refused = 0;
        auto warns = q.getWarnings();
        for (auto& w: warns) {
            if (std::string(w.what()).find("may not be an indirect object reference") != std::string::npos) ++refused;
        }
        std::string streams;
        std::string wexc = "skipped";
        std::string wmsg;
        if (exc == "none") {
            std::string smsg;
            std::string sexc = exc_type(
                [&]() {
                    for (auto& oh: q.getAllObjects()) {
                        if (oh.isStream()) {
                            streams += (streams.empty() ? "" : ",") + std::to_string(oh.getObjectID()) + "." + std::to_string(oh.getGeneration());
                        }
                    }
                },
                smsg);
            if (sexc != "none") streams = "!" + sexc;
            wexc = exc_type(
                [&]() {
                    QPDFWriter w(q);
                    Pl_Discard d;
                    w.setOutputPipeline(&d);
                    w.setStaticID(true);
                    w.write();
                },
                wmsg);
            if (msg.empty()) msg = wmsg;
        }
        return "exc=" + exc + " refused=" + std::to_string(refused) + " warns=" + std::to_string(warns.size()) + " streams=" +
            (streams.empty() ? "-" : streams) + " write=" + wexc + " msg=" + hex(msg.substr(0, 160));
    }

    std::string c4png(std::vector<std::string> const& a)
    {
        if (a.size() != 5) return "?args";
        auto old = qpdf::global::Limits::png_max_memory();
        Pl_PNGFilter::setMemoryLimit(std::stoull(a[1]));
        std::string res = "ok";
        try {
            Pl_Discard d;
            Pl_PNGFilter f(
                "c4png", &d, a[0] == "e" ? Pl_PNGFilter::a_encode : Pl_PNGFilter::a_decode, static_cast<unsigned int>(std::stoull(a[2])),
                static_cast<unsigned int>(std::stoull(a[3])), static_cast<unsigned int>(std::stoull(a[4])));
        } catch (std::logic_error& e) {
            res = std::string("logic:") + e.what();
        } catch (std::exception& e) {
            res = "err";
        }
        Pl_PNGFilter::setMemoryLimit(old);
        return res;
    }

    Reg r8("c4png", c4png);
    Reg r6("c4xwalk", c4xwalk);
    Reg r7("c4json", c4json);
    Reg r1("c4nn", c4nn);
    Reg r2("c4parse", c4parse);
    Reg r5("c4nnopen", c4nnopen);
    Reg r3("c4conv", dispatch<false>);
    Reg r4("c4fits", dispatch<true>);
} // namespace
