# C16 - content-stream rewriting never changes what a page draws.
# Proof: Props/Properties_C16.v (normalisation model vs the independent content reading `c16_sem`).
# Tie:   (a) in-process Pl_QPDFTokenizer + ContentNormalizer (private header) byte-exact against the extracted
#            model Struct/ContentNorm.v, token streams included; pipePageContents / coalesceContentStreams /
#            filterPageContents on pages built in-process against the coalescing model;
#        (b) oracle: c16_sem(output) = c16_sem(input) through the extracted specification Struct/ContentSem.v,
#            no warning for valid content, a warning (or untouched bytes) for damaged content;
#        (c) the qpdf CLI on generated documents (see c16_cli.py).
import json, os, re
import common
from common import hexs

ASSUMPTIONS = [
    "an inline image without data bytes (ID, one white-space byte, EI) is not valid content: qpdf reports it as a bad token and leaves it untouched, which the check accepts",
    "the independent content reading c16_sem (ISO 32000-1 7.2-7.3, 7.8.2, 8.9.7) is the meaning of 'what a page draws' as far as token spelling is concerned; operators are not interpreted",
    "inline image data end at the first EI preceded by white space and followed by white space, a delimiter or the end of the stream (the property's wording)",
    "Flate-compressed outputs are inflated with Python's zlib (the system library qpdf links)",
    "the /Contents entry of a page means what ISO 32000-1 Table 30 says (c16_spec_page): a stream, or an array of streams read as their concatenation in order, an object listed k times contributing k times; a value of any other shape has no reading, and qpdf may then warn, refuse (exception / exit 2) or leave the page alone",
    "the documents of the part 'pagelists' are written by the driver as classic PDF files and read back with processMemoryFile, so that every object is what qpdf's parser makes of a file",
]

WS = [b"\x00", b"\t", b"\n", b"\x0c", b"\r", b" "]
EOLS = [b"\n", b"\r", b"\r\n"]

OPERATORS = ["b", "B", "b*", "B*", "BDC", "BMC", "BT", "BX", "c", "cm", "CS", "cs", "d", "d0", "d1", "Do", "DP", "EMC", "ET", "EX",
             "f", "F", "f*", "G", "g", "gs", "h", "i", "j", "J", "K", "k", "l", "m", "M", "MP", "n", "q", "Q", "re", "RG", "rg", "ri",
             "s", "S", "SC", "sc", "SCN", "scn", "sh", "T*", "Tc", "Td", "TD", "Tf", "Tj", "TJ", "TL", "Tm", "Tr", "Ts", "Tw", "Tz",
             "v", "w", "W", "W*", "y", "'", '"']
INTS = ["0", "1", "-1", "+1", "007", "-0", "+0", "12", "2147483647", "-2147483648", "99999999999999999999"]
REALS = ["1.5", "-1.5", "+1.5", ".5", "-.5", "+.5", "5.", "-5.", "+5.", "0.0", "00.50", "1.50", "-.0", "0000.1", "1.000", "10.0"]
ODD_WORDS = ["+", "-", ".", "1.2.3", "--1", "1e5", "+-1", "1-", "true", "false", "null", "truex", "nul", "a*b", "E", "I", "EIx", "BIx", "xID", "IDx"]
II_KEYS_ABBR = [("W", "4"), ("H", "4"), ("BPC", "8"), ("CS", "/G")]
II_KEYS_FULL = [("Width", "4"), ("Height", "4"), ("BitsPerComponent", "8"), ("ColorSpace", "/DeviceGray")]
II_EXTRA = [("CS", "/RGB"), ("CS", "/CMYK"), ("CS", "[/I /RGB 1 <000000ffffff>]"), ("ColorSpace", "/DeviceRGB"), ("ColorSpace", "/DeviceCMYK"),
            ("F", "/AHx"), ("F", "[/A85 /Fl]"), ("Filter", "/ASCIIHexDecode"), ("DP", "<< /K -1 >>"), ("DecodeParms", "null"),
            ("IM", "true"), ("ImageMask", "false"), ("D", "[0 1]"), ("Decode", "[1.0 0.0]"), ("I", "true"), ("Interpolate", "false"),
            ("Intent", "/Perceptual"), ("CS", "/Cs#31")]

ISO_WHITE = set(b"\x00\t\n\x0c\r ")
ISO_DELIM = set(b"()<>[]{}/%")


def lit_string_raw(val):
    """a literal-string spelling that writes every byte raw except the ones that must be escaped"""
    out = bytearray(b"(")
    for b in val:
        if b in b"()\\":
            out += b"\\" + bytes([b])
        else:
            out.append(b)
    return bytes(out) + b")"


def gen_string(rng):
    k = rng.random()
    n = rng.randint(0, 6)
    val = bytes(rng.choice([rng.randrange(256), rng.choice(b"ab() \\\r\n\t")]) for _ in range(n))
    if k < 0.3:
        return lit_string_raw(val)
    if k < 0.5:     # escapes of every kind
        out = bytearray(b"(")
        for b in val:
            r = rng.random()
            if r < 0.3:
                out += b"\\%o" % b
            elif r < 0.5:
                out += b"\\%03o" % b
            elif r < 0.6:
                out += b"\\" + rng.choice([b"n", b"r", b"t", b"b", b"f", b"(", b")", b"\\", b"\n", b"\r", b"\r\n", b"x", b"8"])
            elif b in b"()\\":
                out += b"\\" + bytes([b])
            else:
                out.append(b)
        return bytes(out) + b")"
    if k < 0.6:     # balanced nested parentheses
        return b"(a(b" + lit_string_raw(val)[1:-1] + b")c)"
    h = val.hex().encode()
    if k < 0.8:
        return b"<" + h + b">"
    # hex with white space and an odd digit count, upper case
    parts = bytearray(b"<")
    for ch in h.upper() + (b"7" if rng.random() < 0.5 else b""):
        parts.append(ch)
        if rng.random() < 0.3:
            parts += rng.choice(WS)
    return bytes(parts) + b">"


def gen_name(rng):
    out = bytearray(b"/")
    for _ in range(rng.randint(0, 5)):
        b = rng.randrange(1, 256)
        if rng.random() < 0.4 or b in ISO_WHITE or b in ISO_DELIM or b == 35 or b == 11:
            out += b"#%02x" % b if rng.random() < 0.5 else b"#%02X" % b
        else:
            out.append(b)
    return bytes(out)


def gen_sep(rng, must=True):
    k = rng.random()
    if k < 0.55:
        return b" "
    if k < 0.75:
        return rng.choice(WS) * rng.randint(1, 2) + rng.choice([b"", b"\r\n", b"\r", b"\n\r"])
    if k < 0.9:
        return rng.choice([b"\r", b"\r\n", b"\n", b"\r\r\n", b" \r \n"])
    return b" %" + bytes(rng.choice(b"abc ()<>/\x0b\xff") for _ in range(rng.randint(0, 4))) + rng.choice(EOLS)


def gen_operand(rng):
    k = rng.random()
    if k < 0.25:
        return rng.choice(INTS).encode()
    if k < 0.45:
        return rng.choice(REALS).encode()
    if k < 0.65:
        return gen_string(rng)
    if k < 0.8:
        return gen_name(rng)
    if k < 0.86:
        return b"[" + b" ".join(gen_operand(rng) for _ in range(rng.randint(0, 3))) + b"]"
    if k < 0.9:
        return b"<<" + b" ".join(gen_name(rng) + b" " + gen_operand(rng) for _ in range(rng.randint(0, 2))) + b">>"
    return rng.choice([b"true", b"false", b"null"])


def data_in_quantifier(data, ws_before):
    """the property's payloads: no 'EI' followed by white space or a delimiter inside the data"""
    s = data + ws_before + b"EI"
    for m in re.finditer(rb"EI", s[:-2] + b"  "):
        nxt = s[m.end():m.end() + 1]
        if m.end() <= len(s) - 2 and nxt and (nxt[0] in ISO_WHITE or nxt[0] in ISO_DELIM):
            return False
    return True


def gen_image_data(rng):
    k = rng.random()
    if k < 0.25:
        n = rng.randint(1, 24)
        return bytes(rng.randrange(256) for _ in range(n))
    look = [b"EI\x0b", b" EI\x0bq", b"EIx", b"EI0", b"EI\xff", b"EIEI1", b"E I", b"EEI_", b"xEIy", b" EIz", b"\nEI.", b"EI-", b"EI*", b"eI ", b"Ei ", b"E\nI ", b"IE "]
    parts = []
    for _ in range(rng.randint(1, 4)):
        parts.append(rng.choice(look) if rng.random() < 0.6 else bytes(rng.randrange(256) for _ in range(rng.randint(0, 5))))
    return b"".join(parts) + b"z"


def gen_image(rng, data=None, tail_tokens=None):
    keys = list(II_KEYS_ABBR if rng.random() < 0.5 else II_KEYS_FULL)
    if rng.random() < 0.6:
        keys.insert(rng.randrange(len(keys) + 1), rng.choice(II_EXTRA))
    if data is None:
        data = gen_image_data(rng)
    ws1 = rng.choice(WS)
    ws2 = rng.choice(WS)
    body = b"BI" + gen_sep(rng) + b"".join(b"/" + k.encode() + b" " + v.encode() + gen_sep(rng) for k, v in keys) + b"ID" + ws1 + data + ws2 + b"EI"
    return body, data_in_quantifier(data, ws2)


def gen_statement(rng):
    return b"".join(gen_operand(rng) + gen_sep(rng) for _ in range(rng.randint(0, 3))) + rng.choice(OPERATORS).encode()


def gen_soup(rng, n, images=True):
    parts = []
    inq = True
    for _ in range(n):
        if images and rng.random() < 0.15:
            b, q = gen_image(rng)
            inq = inq and q
            parts.append(b)
        else:
            parts.append(gen_statement(rng))
    out = bytearray()
    for p in parts:
        out += p + gen_sep(rng)
    if rng.random() < 0.3:
        out = out.rstrip(b"\x00\t\n\x0c\r ")
    return bytes(out), inq


# trailing content whose TEXT contains "EI" followed by white space or a delimiter, inside strings, names, comments:
# valid content that is not an end-of-image marker (token count of each piece in the second component)
LOOKALIKES = [(b"(BEI) Tj", 2), (b"(DREI) Tj", 2), (b"(EI) Tj", 2), (b"(a EI b) Tj", 2), (b"(x\nEI\n) '", 2), (b"/EI gs", 2), (b"/xEI gs", 2),
              (b"/EI/EI MP", 3), (b"% see EI here\n", 0), (b"%EI\r", 0), (b"[(xEI) 1 (EI ) -2] TJ", 7), (b"<</EI(EI)>> /P DP", 7), (b"(EI\\) EI ) Tj", 2)]
FILLERS = [b"0", b"1.5", b"q", b"Q", b"/N", b"n", b"(s)", b"W*", b"d0", b"d1"]
II_HEAD = b"BI /W 1 /H 1 /BPC 8 /CS /G ID "


def gen_lookalike_streams(rng, dense):
    """inline images followed by 0..14 tokens (across findEI's look-ahead bound of 10) among which such look-alikes occur:
    (a) the image is the last one of its stream, (b) another image follows the tail.  dense: every count x position"""
    out = []
    for la, nt in LOOKALIKES:
        for total in range(nt, 15):
            nfill = total - nt
            positions = sorted(set([0, nfill // 2, nfill])) if dense else [rng.choice([0, nfill // 2, nfill])]
            for pos in positions:
                fill = [rng.choice(FILLERS) for _ in range(nfill)]
                toks = fill[:pos] + [la] + fill[pos:]
                tail = b" ".join(toks)
                sep = rng.choice([b" ", b"\n", b"\r"])
                out.append(b"q " + II_HEAD + b"\x80\x81 EI" + sep + tail + rng.choice([b"", b"\n", b" "]))
                if dense or rng.random() < 0.5:
                    out.append(b"q " + II_HEAD + b"\x80\x81 EI" + sep + tail + b" " + II_HEAD + b"\x82 EI Q" + rng.choice([b"", b" Q\n"]))
    # no look-alike at all: 0..12 plain tokens after the last image
    for total in range(0, 13):
        out.append(b"q " + II_HEAD + b"\x80 EI " + b" ".join(rng.choice(FILLERS) for _ in range(total)))
    return out


DAMAGE = {
    "unterminated-string": [b"(abc", b"q (a\\", b"(a(b)", b"1 0 0 RG (x\\)"],
    "bad-hex": [b"<4g> Tj", b"<41", b"<", b"(ok) <zz>"],
    "stray-rparen": [b") Tj", b"(a)) Tj", b"q ) Q (a\rb)"],
    "stray-gt": [b"> Tj", b"<< /A 1 > >", b"(a\rb) >x"],
    "null-in-name": [b"/A#00B gs", b"(a\rb) /#00"],
    "missing-EI": [b"BI /W 1 /H 1 ID abc", b"BI ID", b"q BI /W 1 ID x EIx Q (a\rb)"],
    "stray-hash": [b"/A#GG gs (a\rb) Tj", b"/A# gs <41>", b"/A#4 gs <41>", b"/#x (\\101)"],
    "vt": [b"<41\x0b42> Tj", b"<\x0b> Tj (a\rb)"],
    "id-nonwhite": [b"BI /W 1 ID(ab EI (a\rb) Tj"],
}


def damage_kind(inp):
    if re.search(rb"#(?![0-9a-fA-F]{2})", inp):
        return "stray-hash"
    if b"\x0b" in inp:
        return "vt"
    if re.search(rb"ID[^\x00\t\n\x0c\r ]", inp):
        return "id-nonwhite"
    return "other"


def gen_streams(chk):
    """[(label, bytes, in_quantifier)]"""
    rng = chk.rng
    cases = []
    add = lambda lab, b, q=True: cases.append((lab, b, q))
    # known-finding probes first (DESIGN 6: each probe is re-observed on every run)
    add("probe:ei-vt", b"BI /W 1 ID ab EI\x0b(\r) cd EI Q 1 2 3 4 5 6 7 8 9 10 11 12\n")
    # every operator with every operand spelling
    for op in OPERATORS:
        for x in INTS + REALS:
            add("op", x.encode() + b" " + op.encode())
        add("op", b"(a\\rb\r\n) " + op.encode() + b"\r")
        add("op", b"/N#41me " + op.encode() + b"%c\r")
    for w in ODD_WORDS:
        add("word", b"1 " + w.encode() + b" 2")
        add("word", w.encode())
    # strings with every byte, in every form
    for b in range(256):
        bb = bytes([b])
        if b not in b"()\\":
            add("string-byte", b"(a" + bb + b"b) Tj")
        add("string-byte", b"(a\\" + bb + b"b) Tj")
        add("string-byte", b"(\\%o)Tj" % b)
        add("string-byte", b"(\\%03o7) Tj" % b)
        add("string-byte", b"<%02x> Tj" % b)
        add("string-byte", b"[(" + bb * 3 + b"\\)) <%02X%02x4>] TJ" % (b, b) if b not in b"()\\" else b"[(\\" + bb + b")] TJ")
    for s in [b"()", b"(())", b"(a\r\nb)", b"(a\\\r\nb)", b"(a\\\rb)", b"(\\0)", b"(\\08)", b"(\\400)", b"(\\777)", b"<>", b"< >", b"<4>", b"<4 1 4>",
              b"(\r)", b"(\r\r\n)", b"(\n\r)", b"<41\r42>", b"<41\n>", b"(" + b"\xc0" * 30 + b")", b"(" + b"x" * 40 + b"\x01)", b"(" + b"\x18" * 5 + b"a)"]:
        add("string", s + b" Tj")
        add("string", b"q " + s + b"Tj")
    # names
    for b in range(1, 256):
        add("name", b"/A#%02xB gs" % b)
        add("name", b"/#%02X" % b)
        if b not in ISO_WHITE and b not in ISO_DELIM and b != 35:
            add("name", b"/A" + bytes([b]) + b"B gs")
    for s in [b"/", b"/ ", b"//", b"/A/B", b"/A(b)", b"/A<41>", b"/A[1]", b"/#23", b"/A#23#23", b"/A#2f", b"/\xe9t\xe9", b"/A%c\n", b"/A\r", b"/A\r\n/B"]:
        add("name", s)
    # white space and comments
    for w1 in WS + EOLS + [b"\r\r", b"\r\n\r\n", b"\n\r", b" \r", b"\r ", b"\x00\r\x00", b"%c\r", b"%c\n", b"%c\r\n", b"%\r", b"%%\r%\n", b"% (\r", b"%c",
                    b"%c\r ", b"%c\r\t", b"%\r\x00", b"% x\r\x0c", b"%c\r\r", b"%c\r \n", b" \r %c\r \r"]:
        add("ws", b"q" + w1 + b"Q")
        add("ws", w1 + b"q" + w1)
        add("ws", b"(s)" + w1 + b"/N" + w1 + b"1" + w1)
    # inline images
    nimg = 700 if chk.tier == "quick" else 60000
    for i in range(nimg):
        body, q = gen_image(rng)
        k = rng.random()
        if k < 0.3:
            tail = b""
        elif k < 0.5:
            tail = rng.choice(WS) + b"Q"
        elif k < 0.8:
            tail = rng.choice(WS) + b"Q q 1 0 0 1 0 0 cm /Im1 Do Q q Q" + rng.choice([b"", b"\n", b" (a\rb) Tj"])
        else:
            b2, q2 = gen_image(rng)
            tail = b"\n" + b2 + b" Q"
            q = q and q2
        add("image", b"q " + body + tail, q)
    for ws1 in WS:
        for ws2 in WS:
            add("image", b"BI /W 1 /H 1 /BPC 8 /CS /G ID" + ws1 + b"\x80" + ws2 + b"EI")
            add("image", b"BI/W 1/H 1/IM true ID" + ws1 + b"\x80" + ws2 + b"EI" + ws1 + b"(a\rb) Tj")
    for d in [b"(", b")", b"<", b">", b"[", b"]", b"{", b"}", b"/", b"%"]:
        add("image", b"BI /W 1 /H 1 /BPC 8 /CS /G ID \x80 EI" + d + (b"x)" if d == b"(" else b"41>" if d == b"<" else b"x\n" if d == b"%" else b""))
    # EI look-alikes in the content that FOLLOWS an image (findEI's look-ahead, resume position and last-candidate fallback)
    for c in gen_lookalike_streams(rng, dense=True):
        add("image-tail", c)
    # qpdf accepts an EI that is not preceded by white space / is followed by VT: outside the quantifier
    add("outside:ei-not-preceded", b"BI /W 1 ID abEI (\r) cd EI Q 1 2 3 4 5 6 7 8 9 10 11 12\n", False)
    add("outside:ei-followed-by-ws", b"BI /W 1 ID ab EI (\r) cd EI Q 1 2 3 4 5 6 7 8 9 10 11 12\n", False)
    # random token soup
    nsoup = 2500 if chk.tier == "quick" else 300000
    for i in range(nsoup):
        s, q = gen_soup(rng, rng.randint(1, 6), images=(i % 3 == 0))
        add("soup", s, q)
    # damaged content
    for kind, lst in DAMAGE.items():
        for s in lst:
            add("damaged:" + kind, s)
    ndam = 600 if chk.tier == "quick" else 50000
    for i in range(ndam):
        s, q = gen_soup(rng, rng.randint(1, 4), images=False)
        kind = rng.choice(["unterminated-string", "bad-hex", "stray-rparen", "stray-gt", "null-in-name", "truncate", "mutate"])
        pos = rng.randrange(len(s) + 1)
        ins = {"unterminated-string": b" (ab", "bad-hex": b" <4x1> ", "stray-rparen": b" ) ", "stray-gt": b" > ", "null-in-name": b" /A#00 "}.get(kind)
        if ins is not None:
            s2 = s + ins if kind == "unterminated-string" else s[:pos] + ins + s[pos:]
        elif kind == "truncate":
            s2 = s[:pos]
        else:
            s2 = s[:pos] + bytes([rng.randrange(256)]) + s[pos + 1:]
        add("damaged:" + kind, s2, q)
    return cases


def sem_concat(a, b):
    if a == "invalid" or b == "invalid":
        return "invalid"
    if a == "-":
        return b
    if b == "-":
        return a
    return a + " " + b


def part_normalize(chk, drv, runner):
    cases = gen_streams(chk)
    lines = ["c16norm " + hexs(b) for _, b, _ in cases]
    impl = common.run_lines(drv, lines, shards=8)
    model = common.run_lines(runner, lines, shards=8)
    impl_t = common.run_lines(drv, ["c16toks " + hexs(b) for _, b, _ in cases], shards=8)
    model_t = common.run_lines(runner, ["c16toks " + hexs(b) for _, b, _ in cases], shards=8)
    sem_in = common.run_lines(runner, ["c16sem " + hexs(b) for _, b, _ in cases], shards=8)
    sem_out = common.run_lines(runner, ["c16sem " + (o.split(" ")[0] if " " in o else "-") for o in impl], shards=8)
    # hypotheses of normalize_preserves_tokens_partial (c16_clean) evaluated on every case: inside them the theorem predicts the verdict
    clean = common.run_lines(runner, ["c16clean " + hexs(b) for _, b, _ in cases], shards=8)
    # idempotence (tested, not proved): normalising qpdf's own output changes nothing
    again = common.run_lines(drv, ["c16norm " + (o.split(" ")[0] if " " in o else "-") for o in impl], shards=8)
    tie = []
    dist = {}
    nontriv = set()
    for i, (lab, b, inq) in enumerate(cases):
        o = impl[i].split(" ")
        dist[lab.split(":")[0]] = dist.get(lab.split(":")[0], 0) + 1
        if len(o) != 3:
            chk.violation({"kind": "property-fails-on-implementation", "part": "normalize", "why": "normaliser crashed / threw", "input_hex": hexs(b),
                           "implementation": impl[i], "replay": lines[i]})
            continue
        out = bytes.fromhex(o[0]) if o[0] != "-" else b""
        any_bad = o[1] == "1"
        if out != b:
            nontriv.add(b)
        bad = None
        if clean[i] == "1" and sem_in[i] != "invalid" and (sem_out[i] != sem_in[i] or any_bad):
            # inside the hypotheses of the proved theorem: the model cannot do this, so the implementation left the model
            bad = "token sequence changed / warning on an input inside the hypotheses of normalize_preserves_tokens_partial"
            sig = "C16:norm:theorem-domain"
        elif again[i].split(" ")[0] != o[0]:
            bad = "normalisation is not idempotent: normalising the output again changes it"
            sig = "C16:norm:idempotent"
        elif inq:
            if sem_in[i] != "invalid" and "img:-" not in sem_in[i].split(" "):
                if sem_out[i] != sem_in[i]:
                    bad = "token sequence changed: the output does not read as the input"
                    sig = "C16:norm:" + ("ei-vt" if b"EI\x0b" in b else "changed")
                elif any_bad:
                    bad = "valid content reported as containing bad tokens"
                    sig = "C16:norm:warned-valid"
            elif not any_bad and out != b:
                bad = "content that cannot be tokenised was altered without a warning"
                sig = "C16:unwarned:" + damage_kind(b)
        if bad:
            chk.violation({"kind": "property-fails-on-implementation", "part": "normalize", "why": bad, "label": lab, "input": repr(b), "input_hex": hexs(b),
                           "output": repr(out), "implementation": impl[i], "model": model[i], "sem_input": sem_in[i][:600], "sem_output": sem_out[i][:600],
                           "replay": lines[i]}, signature=sig)
        elif impl[i] != model[i] or impl_t[i] != model_t[i]:
            tie.append(i)
    if tie:
        i = tie[0]
        chk.violation({"kind": "correspondence-broken", "correspondence": "corr:C16:normalize", "differing_cases": len(tie), "label": cases[i][0],
                       "input": repr(cases[i][1]), "input_hex": hexs(cases[i][1]), "implementation": impl[i], "model": model[i],
                       "implementation_tokens": impl_t[i][:1500], "model_tokens": model_t[i][:1500], "replay": lines[i],
                       "note": "model and implementation differ but the property holds on the implementation's result for every explored case"},
                      no_input=True)
    chk.count("normalize", len(cases), nontriv, samples=[{"input": repr(cases[i][1]), "impl": impl[i][:200]} for i in (0, len(cases) // 3, len(cases) - 1)])
    chk.cov["parts"]["normalize"]["distribution"] = dist
    chk.cov["parts"]["normalize"]["valid_inputs"] = sum(1 for s in sem_in if s != "invalid")
    chk.cov["parts"]["normalize"]["inside_theorem_hypotheses"] = sum(1 for i, s in enumerate(sem_in) if s != "invalid" and clean[i] == "1")
    byl = {}
    for i, (lab, b, inq) in enumerate(cases):
        if sem_in[i] != "invalid" and clean[i] == "1":
            byl[lab.split(":")[0]] = byl.get(lab.split(":")[0], 0) + 1
    chk.cov["parts"]["normalize"]["inside_theorem_hypotheses_by_label"] = byl
    chk.cov["parts"]["normalize"]["warned"] = sum(1 for o in impl if o.endswith(" 1 1") or o.endswith(" 1 0"))
    return cases


SPLIT_BASES = [
    b"q 1 0 0 1 10 20 cm /F1 12 Tf (a\rb) Tj Q",
    b"BT /F#31 12 Tf <48 65> Tj [(a) -1.5 (b\\)c)] TJ ET\n",
    b"q BI /W 1 /H 1 /BPC 8 /CS /G ID \x80EIx EI Q q 1 0 0 1 0 0 cm Q\r",
    b"1 2 m %c\r3 4 l S\r\n",
    b"/Cs#31 cs 0.5 .25 1. sc <</A(x)>> /P BDC EMC",
    b"0 0 10 10 re W* n\n(a(b)c\\\n) '",
]


def part_streams(chk, drv, runner):
    rng = chk.rng
    cases = []
    for base in SPLIT_BASES:
        for p in range(len(base) + 1):
            cases.append([base[:p], base[p:]])
        cases.append([base])
        cases.append([base, b"", base])
        cases.append([b"", base])
    nrand = 300 if chk.tier == "quick" else 50000
    for _ in range(nrand):
        import random
        s, _q = gen_soup(rng, rng.randint(1, 4), images=rng.random() < 0.3)
        k = rng.randint(2, 4)
        cuts = sorted(rng.randrange(len(s) + 1) for _ in range(k - 1))
        parts = [s[a:b] for a, b in zip([0] + cuts, cuts + [len(s)])]
        cases.append(parts)
    enc = [",".join(hexs(p) for p in ps) for ps in cases]
    res = {}
    for cmd in ("c16pipe", "c16coalesce", "c16filter"):
        res[cmd] = (common.run_lines(drv, [cmd + " " + e for e in enc], shards=8), common.run_lines(runner, [cmd + " " + e for e in enc], shards=8))
    # oracle inputs: the reading of every part, of the whole, of the filtered output
    flat = [p for ps in cases for p in ps]
    sem_parts = iter(common.run_lines(runner, ["c16sem " + hexs(p) for p in flat], shards=8))
    sem_pipe = common.run_lines(runner, ["c16sem " + o for o in res["c16pipe"][0]], shards=8)
    sem_filt = common.run_lines(runner, ["c16sem " + o.split(" ")[0] for o in res["c16filter"][0]], shards=8)
    tie = []
    nontriv = set()
    boundary = 0
    for i, ps in enumerate(cases):
        sp = [next(sem_parts) for _ in ps]
        want = "-"
        for s in sp:
            want = sem_concat(want, s)
        ipipe, icoal, ifilt = res["c16pipe"][0][i], res["c16coalesce"][0][i], res["c16filter"][0][i]
        bad = None
        if ipipe != icoal:
            bad = "coalesceContentStreams provides other bytes than pipePageContents"
        elif want != "invalid" and "img:-" not in want.split(" "):
            # every stream reads on its own: the page's token sequence is the concatenation
            boundary += 1
            f = ifilt.split(" ")
            if sem_pipe[i] != want:
                bad = "coalesced content does not read as the concatenation of its streams' token sequences"
            elif len(f) != 3 or sem_filt[i] != want:
                bad = "normalised page content does not read as the page's token sequence"
            elif f[1] == "1":
                bad = "valid page content reported as containing bad tokens"
        if bad:
            chk.violation({"kind": "property-fails-on-implementation", "part": "streams", "why": bad, "streams": [repr(p) for p in ps],
                           "pipe": ipipe, "coalesce": icoal, "filter": ifilt, "expected_tokens": want[:600], "pipe_tokens": sem_pipe[i][:600],
                           "filter_tokens": sem_filt[i][:600], "replay": "c16filter " + enc[i]}, signature="C16:streams:" + ("ei-vt" if any(b"EI\x0b" in p for p in ps) else "changed"))
        elif any(res[c][0][i] != res[c][1][i] for c in res):
            tie.append(i)
        if len(ps) > 1:
            nontriv.add(tuple(ps))
    if tie:
        i = tie[0]
        chk.violation({"kind": "correspondence-broken", "correspondence": "corr:C16:streams", "differing_cases": len(tie), "streams": [repr(p) for p in cases[i]],
                       "implementation": {c: res[c][0][i] for c in res}, "model": {c: res[c][1][i] for c in res}, "replay": "c16filter " + enc[i]}, no_input=True)
    chk.count("streams", len(cases), nontriv, samples=[{"streams": [repr(p) for p in cases[i]]} for i in (3, len(cases) - 1)])
    chk.cov["parts"]["streams"]["splits_at_token_boundaries"] = boundary


# ---- page-content LISTS: what /Contents may look like (ISO 32000-1 Table 30) x every entry point that works on the list
# fragments that read on their own; between them every way a stream can end (no white space, CR, comment without EOL, LF)
PL_FRAGMENTS = [b"1 0 0 1 120 0 cm\n", b"0 0 1 rg 0 300 100 100 re f\n", b"1 0 0 rg 0 300 100 100 re f", b"q", b"Q\r", b"", b"\n",
                b"BT /F1 12 Tf (a\rb) Tj ET", b"/Fm1 Do % c", b"q 100 0 0 100 0 300 cm\nBI /W 2 /H 2 /BPC 8 /CS /G ID \x10\x80\x80\xf0\nEI Q\n",
                b"BI /W 1 /H 1 /BPC 8 /CS /G ID \x80\x81 EI", b"<48 65> Tj /N#41 gs\r\n", b"[(a) -1.5 (b\\)c)] TJ", b"0.5 .25 1. sc"]
# streams that do not read on their own (content split inside a token, which the syntax does not allow): tie only
PL_BROKEN = [b"(ab", b"cd) Tj", b"<4", b"BI /W 1 /H 1 ID ab"]

# /Contents shapes over stream keys A B C D E (objects 4..8), non-stream objects: 20 = null, 21 = integer, 22 = dictionary,
# 23 = array [A], 24 = empty array, 25 = array [B 23 0 R]; 77 does not exist.  Each entry: pages, extra objects
PL_ARRAYS = ["r4", "r4.r5.r6", "r4.r4", "r4.r5.r5.r6", "r4.r5.r4", "r5.r4.r6.r4.r7.r4.r5", "r4.r4.r4", "r4.r5.r4.r5", "r8.r4.r8", "",
             "r4.r5.r6.r7.r8.r4.r5.r6.r7.r8"]
PL_BAD_ITEMS = ["n", "o", "d", "a(r4)", "a()", "r20", "r21", "r22", "r23", "r24", "r77"]


def pl_shapes():
    shapes = []
    for a in PL_ARRAYS:
        shapes.append(("a(%s)" % a, {}))                       # direct array
        shapes.append(("r30", {30: "a(%s)" % a}))              # /Contents is an indirect array
    shapes += [("r4", {}), ("-", {}), ("n", {}), ("r20", {}), ("r77", {}), ("o", {}), ("d", {}), ("r21", {}), ("r22", {})]
    # the same stream on two / three pages: as single stream and in arrays, both orders, one indirect array used by two pages
    shapes += [("a(r4.r5)/a(r5.r4)", {}), ("r4/a(r4)/a(r4.r4)", {}), ("r30/r30", {30: "a(r4.r5.r4)"}), ("a(r4.r5.r4)/r5/a(r5.r5)", {}),
               ("r30/a(r5.r4.r5)/r31", {30: "a(r4.r4)", 31: "a(r5.r4.r4.r5)"})]
    # elements that are not streams, at the front / in the middle / at the end, next to repeated streams
    for it in PL_BAD_ITEMS:
        shapes.append(("a(r4.%s.r5)" % it, {}))
        shapes.append(("a(%s.r4.r4)" % it, {}))
        shapes.append(("r30", {30: "a(r4.r5.r4.%s)" % it}))
    shapes += [("a(r21.r4.n.r5)", {}), ("a(r21.r22.r4.r77.r5.n)", {}), ("a(n)", {}), ("a(r23)", {}), ("r25", {}), ("a(r25.r4)", {})]
    return shapes


PL_FIXED_OBJS = {20: "n", 21: "o", 22: "d", 23: "a(r4)", 24: "a()", 25: "a(r5.r23)"}
PL_CMDS = ["c16pglist", "c16pgpipe", "c16pgcoalesce", "c16pgfilter", "c16pgtoks", "c16pgaddtf", "c16pgparse", "c16pgadd1", "c16pgadd0"]


def pl_random_value(rng, keys, depth=0):
    """a random /Contents value: arrays drawn WITH replacement from few keys, now and then a non-stream element"""
    k = rng.random()
    if depth == 0 and k < 0.08:
        return rng.choice(["r%d" % rng.choice(keys), "-", "n"])
    n = rng.choice([0, 1, 2, 2, 3, 3, 4, 5, 7])
    items = []
    for _ in range(n):
        if rng.random() < 0.06:
            items.append(rng.choice(PL_BAD_ITEMS))
        elif items and rng.random() < 0.35:
            items.append(rng.choice(items))          # repeat an earlier element (adjacent when it is the last one)
        else:
            items.append("r%d" % rng.choice(keys))
    return "a(" + ".".join(items) + ")"


def pl_line(cmd, pages, objs, extra=""):
    o = ",".join("%d=%s" % (k, v) for k, v in sorted(objs.items())) or "-"
    if cmd.startswith("c16pgadd") and cmd != "c16pgaddtf":
        return "c16pgadd %s %s %s" % (pages, o, cmd[-1])
    return "%s %s %s%s" % (cmd, pages, o, extra)


def pl_ext_expect(want, min_bytes, split_images):
    """token sequence after externalisation: every inline image of at least min_bytes becomes (name, Do); [(kind, payload)]"""
    out = []
    for seg in split_images(want):
        if seg[0] == "tok":
            out.append(("tok", seg[1]))
        elif len(bytes.fromhex(seg[2])) >= min_bytes:
            out.append(("img", seg[2]))
        else:
            out += [("tok", t) for t in ["op:4249"] + seg[1] + ["op:4944", "img:" + seg[2]]]
    return out


def part_pagelists(chk, drv, runner):
    rng = chk.rng
    docs = []           # (pages string, objects dict, label)
    shapes = pl_shapes()
    npool = 3 if chk.tier == "quick" else 40
    for pi in range(npool):
        if pi == 0:
            pool = PL_FRAGMENTS[:5]
        else:
            pool = [rng.choice(PL_FRAGMENTS) if rng.random() < 0.6 else gen_soup(rng, rng.randint(1, 3), images=False) for _ in range(5)]
            pool = [p if isinstance(p, bytes) else (p[0] if p[1] else b"q Q") for p in pool]
        sobjs = {4 + i: "s" + (hexs(b) if b else "-") for i, b in enumerate(pool)}
        for pages, extra in shapes:
            docs.append((pages, {**sobjs, **PL_FIXED_OBJS, **extra}, "aimed"))
    nrand = 250 if chk.tier == "quick" else 20000
    for _ in range(nrand):
        nk = rng.randint(1, 4)
        pool = [rng.choice(PL_FRAGMENTS + PL_BROKEN) if rng.random() < 0.7 else gen_soup(rng, rng.randint(1, 2), images=False)[0] for _ in range(nk)]
        sobjs = {4 + i: "s" + (hexs(b) if b else "-") for i, b in enumerate(pool)}
        keys = sorted(sobjs)
        objs = {**sobjs, **PL_FIXED_OBJS}
        pages = []
        for _p in range(rng.choice([1, 1, 2, 3])):
            v = pl_random_value(rng, keys)
            if v.startswith("a(") and rng.random() < 0.3:
                k = 30 + len(pages)
                objs[k] = v
                v = "r%d" % k
            pages.append(v)
        if len(pages) > 1 and rng.random() < 0.3:
            pages[1] = pages[0]                       # two pages with the very same /Contents value
        docs.append(("/".join(pages), objs, "random"))
    impl, model = {}, {}
    for cmd in PL_CMDS:
        lines = [pl_line(cmd, pg, ob) for pg, ob, _ in docs]
        impl[cmd] = common.run_lines(drv, lines, shards=8)
        model[cmd] = common.run_lines(runner, lines, shards=8)
    ext_mins = [0, 3]
    for mn in ext_mins:
        impl["c16pgext%d" % mn] = common.run_lines(drv, [pl_line("c16pgext", pg, ob, " %d" % mn) for pg, ob, _ in docs], shards=8)
    want_all = common.run_lines(runner, [pl_line("c16pgsem", pg, ob) for pg, ob, _ in docs], shards=8)
    wf_all = common.run_lines(runner, [pl_line("c16pgwf", pg, ob) for pg, ob, _ in docs], shards=8)
    # the reading of every output, in one batch
    sem_lines = []
    sem_idx = {}

    def need_sem(h):
        if h not in sem_idx:
            sem_idx[h] = len(sem_lines)
            sem_lines.append("c16sem " + h)

    def field(res, di, pi):
        """(value, warnings) of page pi in the answer for document di; (None, None) if the answer has another shape"""
        f = res[di].split("/")
        if len(f) <= pi or ":" not in f[pi]:
            return res[di], "?"
        v, _, w = f[pi].rpartition(":")
        return v, w
    npages = [len(pg.split("/")) for pg, _, _ in docs]
    for di in range(len(docs)):
        for pi in range(npages[di]):
            for cmd in ("c16pgpipe", "c16pgcoalesce", "c16pgfilter", "c16pgaddtf", "c16pgadd1", "c16pgadd0", "c16pgext0", "c16pgext3"):
                v, _w = field(impl[cmd], di, pi)
                if v.startswith("exc") or v in ("K", "notstream"):
                    continue
                if cmd == "c16pgcoalesce":
                    v = v[1:]
                elif cmd == "c16pgfilter":
                    v = v.split(" ")[0]
                elif cmd.startswith("c16pgadd") and cmd != "c16pgaddtf":
                    v = v.split(";")[-1]
                elif cmd.startswith("c16pgext"):
                    v = v.split(";")[0]
                if re.fullmatch(r"-|[0-9a-f]+", v):
                    need_sem(v)
    sems = common.run_lines(runner, sem_lines, shards=8)
    sem = lambda h: sems[sem_idx[h]]
    try:
        from c16_cli import split_images
    except ImportError:
        split_images = None
    tie = []
    nontriv = set()
    stats = {"pages": 0, "valid_pages": 0, "pages_with_repeated_stream": 0, "pages_with_non_stream_item": 0, "fragment_pages": 0, "shared_between_pages": 0}
    for di, (pages, objs, label) in enumerate(docs):
        wants = want_all[di].split("|")
        wfs = wf_all[di].split("/")
        pvals = pages.split("/")
        refs_per_page = [set(re.findall(r"r(\d+)", objs.get(int(pv[1:]), pv) if re.fullmatch(r"r\d+", pv) else pv)) for pv in pvals]
        if any(refs_per_page[i] & refs_per_page[j] for i in range(len(pvals)) for j in range(i)):
            stats["shared_between_pages"] += 1
        desc = {"pages": pvals, "objects": {str(k): (repr(bytes.fromhex(v[1:])) if v.startswith("s") and v != "s-" else v) for k, v in sorted(objs.items())},
                "syntax": "r<k> = reference to object k, a(..) = array, n = null, o = integer, d = dictionary, - = no /Contents; s<..> = stream data"}
        for pi, pv in enumerate(pvals):
            stats["pages"] += 1
            want, wf = wants[pi], wfs[pi] == "1"
            arr = objs.get(int(pv[1:]), pv) if re.fullmatch(r"r\d+", pv) else pv
            items = re.findall(r"r\d+", arr) if arr.startswith("a(") else []
            repeated = len(items) != len(set(items))
            stats["pages_with_repeated_stream"] += repeated
            stats["pages_with_non_stream_item"] += (not wf)
            bad = None
            pdesc = dict(desc, page=pi, contents=pv, expected_tokens=want[:600])
            got = {cmd: field(impl[cmd], di, pi) for cmd in impl}
            if wf and want != "invalid" and "img:-" not in want.split(" "):
                stats["valid_pages"] += 1
                # ISO 32000-1 Table 30: the page reads as the concatenation of its array elements' token sequences, one
                # contribution per element; valid content is processed silently
                order = ["c16pgpipe", "c16pgcoalesce", "c16pgfilter", "c16pgaddtf", "c16pgext0", "c16pgext3", "c16pgadd1", "c16pgadd0", "c16pglist", "c16pgtoks", "c16pgparse"]
                failing = []
                prev = None
                for cmd, (v, w) in sorted(got.items(), key=lambda kv: order.index(kv[0]) if kv[0] in order else 99):
                    if bad:
                        failing.append((prev, bad))
                        bad = None
                    prev = cmd
                    if cmd in ("c16pglist", "c16pgtoks", "c16pgparse"):
                        if v.startswith("exc") or w != "-":
                            bad = "%s: warning / exception on a page whose /Contents is valid" % cmd
                        continue
                    if cmd == "c16pgaddtf" and v == "exctype" and w == "-" and want == "-":
                        pass            # no content at all: addTokenFilter has no stream to attach to (an API type error, nothing is rewritten)
                    elif v.startswith("exc") or w != "-":
                        bad = "%s: warning / exception on a page whose /Contents is valid" % cmd
                    elif cmd == "c16pgcoalesce":
                        if v != "K" and (v[:1] != "S" or sem(v[1:]) != want):
                            bad = "coalesceContentStreams: the new content stream does not read as the page's token sequence"
                            pdesc.setdefault("got_tokens", sem(v[1:])[:600] if v[:1] == "S" else v)
                    elif cmd == "c16pgpipe":
                        if sem(v) != want:
                            bad = "pipePageContents does not read as the concatenation of the /Contents elements' token sequences (with multiplicity)"
                            pdesc.setdefault("got_tokens", sem(v)[:600])
                    elif cmd == "c16pgfilter":
                        f = v.split(" ")
                        if len(f) != 3 or sem(f[0]) != want:
                            bad = "filterPageContents(normaliser): the page does not read as before"
                            pdesc.setdefault("got_tokens", sem(f[0])[:600] if len(f) == 3 else v)
                        elif f[1] == "1":
                            bad = "filterPageContents(normaliser): valid page content reported as containing bad tokens"
                    elif cmd == "c16pgaddtf":
                        if sem(v) != want:
                            bad = "addContentTokenFilter(normaliser): the page's stream does not read as before"
                            pdesc.setdefault("got_tokens", sem(v)[:600])
                    elif cmd in ("c16pgadd1", "c16pgadd0"):
                        exp = sem_concat("op:71", want) if cmd == "c16pgadd1" else sem_concat(want, "op:71")
                        if sem(v.split(";")[-1]) != exp:
                            bad = "addPageContents(%s): the page does not read as the new stream %s its former content" % (
                                "first" if cmd[-1] == "1" else "last", "followed by" if cmd[-1] == "1" else "after")
                            pdesc.setdefault("got_tokens", sem(v.split(";")[-1])[:600])
                    elif cmd.startswith("c16pgext") and split_images is not None:
                        mn = int(cmd[8:])
                        f = v.split(";")
                        xo = dict(x.split("=") for x in f[2:])
                        gt = sem(f[0])
                        gtoks = gt.split(" ") if gt not in ("-", "invalid") else []
                        exp = pl_ext_expect(want, mn, split_images)
                        gi, names, why = 0, [], None
                        for kind, payload in exp:
                            if kind == "tok":
                                if gtoks[gi:gi + 1] != [payload]:
                                    why = "tokens changed"
                                    break
                                gi += 1
                            else:
                                pair = gtoks[gi:gi + 2]
                                gi += 2
                                if len(pair) != 2 or not pair[0].startswith("n:") or pair[1] != "op:446f":
                                    why = "an inline image was not replaced by /Name Do"
                                    break
                                if pair[0] in names:
                                    why = "two drawing positions share an image XObject name"
                                    break
                                names.append(pair[0])
                                if xo.get(pair[0][2:]) != payload:
                                    why = "image XObject data differ from the inline image's data"
                                    break
                        if why is None and (gt == "invalid" or gi != len(gtoks)):
                            why = "extra / unreadable tokens"
                        if why:
                            bad = "externalizeInlineImages(%d): %s" % (mn, why)
                            pdesc.setdefault("got_tokens", gt[:600])
                if bad:
                    failing.append((prev, bad))
                if failing:
                    bad = failing[0][1]
                    pdesc["failing_entry_points"] = [c for c, _ in failing]
            elif not wf:
                # not a stream / array of streams: whatever REWRITES /Contents (addPageContents and coalesceContentStreams build a new
                # value without the offending elements, externalisation a new stream) must say so - warning or exception - or leave
                # the page alone; the read-only entry points are held to the model (contents_wf_iff_silent) by the tie below
                for cmd in ("c16pgadd1", "c16pgadd0"):
                    v, w = got[cmd]
                    if w == "-" and not v.startswith("exc"):
                        bad = "addPageContents rebuilt a /Contents value that is not a stream or an array of streams without any diagnostic"
                v, w = got["c16pgcoalesce"]
                if not bad and v != "K" and w == "-" and not v.startswith("exc"):
                    bad = "coalesceContentStreams replaced an invalid /Contents array without any diagnostic"
                for cmd in ("c16pgext0", "c16pgext3"):
                    v, w = got[cmd]
                    if not bad and w == "-" and not v.startswith("exc") and v.split(";")[1:2] == ["S"] and not re.fullmatch(r"r\d+", pv):
                        bad = "externalizeInlineImages replaced an invalid /Contents array without any diagnostic"
            else:
                stats["fragment_pages"] += 1
            if bad:
                chk.violation(dict({"kind": "property-fails-on-implementation", "part": "pagelists", "why": bad,
                                    "implementation": {c: "%s:%s" % got[c] for c in sorted(got)},
                                    "model": {c: "%s:%s" % field(model[c], di, pi) for c in sorted(model)},
                                    "replay": pl_line("c16pgpipe", pages, objs)}, **pdesc),
                              signature="C16:pagelists:" + ("repeated" if repeated else "changed" if wf else "invalid-structure"))
            elif any(impl[c][di] != model[c][di] for c in PL_CMDS):
                tie.append(di)
            if repeated or not wf or len(pvals) > 1:
                nontriv.add((pages, tuple(sorted(objs.items()))))
    if tie:
        di = tie[0]
        pages, objs, _ = docs[di]
        c = [c for c in PL_CMDS if impl[c][di] != model[c][di]][0]
        chk.violation({"kind": "correspondence-broken", "correspondence": "corr:C16:pagelists", "differing_cases": len(set(tie)), "pages": pages.split("/"),
                       "objects": {str(k): v for k, v in sorted(objs.items())}, "command": c, "implementation": impl[c][di][:1500], "model": model[c][di][:1500],
                       "replay": pl_line(c, pages, objs),
                       "note": "model and implementation differ but the property holds on the implementation's result for every explored case"}, no_input=True)
    chk.count("pagelists", len(docs) * (len(PL_CMDS) + len(ext_mins)), nontriv,
              samples=[{"pages": docs[i][0], "objects": {str(k): v[:40] for k, v in sorted(docs[i][1].items())}} for i in (4, len(docs) - 1)])
    chk.cov["parts"]["pagelists"].update(stats)
    chk.cov["parts"]["pagelists"]["documents"] = len(docs)
    chk.cov["parts"]["pagelists"]["entry_points"] = PL_CMDS + ["c16pgext%d" % m for m in ext_mins]


def run(chk):
    drv = os.path.join(common.DRV, "drv")
    runner = os.path.join(common.EXTRACT, "model_runner")
    chk.cov["rule"] = ("normalize: every operator x every number spelling, strings with every byte in raw / backslash / octal / hex form, names with every byte "
                       "escaped and raw, every white-space byte and EOL convention, comments, inline images (abbreviated and full keys, every white-space byte after ID "
                       "and before EI, EI look-alikes, every delimiter after EI), grammar-derived token soup, damaged content (nine kinds); non-trivial = the normaliser "
                       "changes the bytes, distinct by input. streams: six base contents split at every byte position + random 2..4-way splits through "
                       "pipePageContents / coalesceContentStreams / filterPageContents; non-trivial = more than one stream, distinct by stream list. "
                       "pagelists: every /Contents shape (direct / indirect / shared array with adjacent and non-adjacent repeated entries, one stream on several "
                       "pages, one-element and empty arrays, single stream, absent, null, non-array values, elements that are null / numbers / dictionaries / "
                       "nested arrays / references to such objects or to nothing) x stream pools + random arrays drawn with replacement, through getPageContents, "
                       "pipePageContents, coalesceContentStreams, filterPageContents, addContentTokenFilter, parsePageContents, addPageContents(first/last), "
                       "externalizeInlineImages(0/3) on files read back by qpdf; non-trivial = a repeated entry, a non-stream element or more than one page, "
                       "distinct by document. idem: every end-of-line convention around every kind of token, every byte after ID x first data byte x 0/1/9/10/11 "
                       "tokens behind the image, image data that open a comment / string / hexadecimal string for findEI's look-ahead with re-spelt tokens behind, "
                       "token soup with and without images, each through the real normaliser twice and the extracted model twice; non-trivial = the first pass "
                       "changes the bytes, distinct by input. writer: documents whose stream objects are page content (single, direct / indirect array, with "
                       "non-stream elements) and / or form XObject, appearance stream, catalog /Metadata (typed or not), /Contents of a dictionary that is not a "
                       "page, element of a nested array x seven writer configurations through the CLI; non-trivial = a stream that was re-spelt, distinct by "
                       "(document, configuration, stream). cli: see parts.cli")
    import time
    t0 = time.time()
    phases = chk.cov.setdefault("phase_seconds", {})
    norm_cases = part_normalize(chk, drv, runner)
    phases["normalize"] = round(time.time() - t0, 1)
    t0 = time.time()
    part_streams(chk, drv, runner)
    phases["streams"] = round(time.time() - t0, 1)
    t0 = time.time()
    part_pagelists(chk, drv, runner)
    phases["pagelists"] = round(time.time() - t0, 1)
    t0 = time.time()
    # extension: idempotence of normalisation (aimed streams, hypotheses of ci_normalize_idempotent evaluated) and the writer's
    # normalized_streams rule (which streams are normalised) - harness/c16_idem.py
    import c16_idem
    c16_idem.part_idem(chk, drv, runner, norm_cases)
    phases["idem"] = round(time.time() - t0, 1)
    t0 = time.time()
    c16_idem.part_writer(chk, drv, runner)
    phases["writer"] = round(time.time() - t0, 1)
    t0 = time.time()
    try:
        import c16_cli
    except ImportError:
        c16_cli = None
    if c16_cli is not None:
        c16_cli.part_cli(chk, runner)
    phases["cli"] = round(time.time() - t0, 1)
    byp = {}
    for rep, _no_input in chk.violations:
        k = str(rep.get("part") or rep.get("correspondence") or rep.get("kind"))
        byp[k] = byp.get(k, 0) + 1
    chk.cov["violations_by_part"] = byp
    if chk.tier == "thorough":
        # independent re-check of the compiled proofs and of their axiom list
        rc, out = common.sh("timeout 2400 coqchk -o -silent -Q . QV QV.Props.Properties_C16", cwd=common.COQ, timeout=2500)
        txt = out.decode("utf-8", "replace")
        chk.cov["coqchk"] = {"rc": rc, "tail": " ".join(txt[-600:].split())}
        if rc != 0:
            chk.violation({"kind": "proof-obligation-no-longer-checks", "property": "C16", "theorem": "(coqchk)", "coqc_output": txt[-3000:]}, no_input=True)


def replay(chk, rep):
    drv = os.path.join(common.DRV, "drv")
    runner = os.path.join(common.EXTRACT, "model_runner")
    print(json.dumps({k: v for k, v in rep.items() if k not in ("coqc_output",)}, indent=1)[:4000])
    line = rep.get("replay")
    if rep.get("part") in ("writer", "writer-api") or str(rep.get("correspondence", "")).startswith("corr:C16:writer"):
        import c16_idem
        return c16_idem.replay_writer(chk, rep)
    if isinstance(line, str) and line.startswith("c16"):
        i = common.run_lines(drv, [line])[0]
        m = common.run_lines(runner, [line])[0]
        print("implementation:", i)
        print("model:         ", m)
        if line.startswith("c16norm"):
            h = line.split(" ")[1]
            print("sem(input): ", common.run_lines(runner, ["c16sem " + h])[0])
            print("sem(output):", common.run_lines(runner, ["c16sem " + i.split(" ")[0]])[0])
        return 0 if i == m else 1
    if rep.get("argv"):
        import c16_cli
        return c16_cli.replay_cli(chk, rep)
    return 0
