(* C17, per-object-stream state of fix-qdf (File/FixQdf.v): the six fields writeOstream() clears - ostream,
   ostream_offsets, ostream_discarded, ostream_idx, ostream_extends and ostream_kept - are empty whenever the line machine is
   outside an object stream, for EVERY input; hence the dictionary fix-qdf regenerates for an object stream carries
   exactly the /Extends of that stream's own old dictionary text, whatever object streams came before it. *)
From QV Require Import Base.Bytes File.StrictSyntax File.ReadStrict File.WriterArith File.C02Proofs File.FixQdf File.QdfLayout File.C17Witness File.C17Examples File.C17Proofs.
From Coq Require Import Lia ZifyBool ZifyNat ZifyN.
Local Open Scope Z_scope.

(* the four states between the "/Type /ObjStm" line and the "endstream" line of an object stream *)
Definition fq17_in_ostream (st : fq_state) : bool :=
  match st with
  | Fq_in_ostream_dict | Fq_in_ostream_offsets | Fq_in_ostream_outer | Fq_in_ostream_obj => true
  | _ => false
  end.

Definition fq17_os_clear (s : fqs) : Prop :=
  q_ostream s = [] /\ q_ooffs s = [] /\ q_odisc s = [] /\ q_oidx s = 0 /\ q_oext s = [] /\ q_okept s = [].

Definition fq17_os_inv (s : fqs) : Prop := fq17_in_ostream (q_st s) = false -> fq17_os_clear s.

Lemma fq17_os_inv_init : fq17_os_inv fq_init.
Proof. intros _. repeat split; reflexivity. Qed.

Ltac fq17_case :=
  match goal with
  | H : context [match ?x with _ => _ end] |- _ =>
      lazymatch x with
      | context [match _ with _ => _ end] => fail
      | _ => idtac
      end; destruct x eqn:?
  end.

Ltac fq17_proj := cbn [q_st q_ostream q_ooffs q_odisc q_oidx q_oext q_okept fq_set_okept fq_set_st fq_set_pos fq_set_offset fq_set_obj
  fq_set_stream fq_set_xr fq_set_os fq_set_out fq_emit fq17_in_ostream] in *.

Ltac fq17_done :=
  match goal with
  | H : inl _ = inl _ |- _ => injection H as H; rewrite <- H; fq17_proj; try match goal with E : q_st ?s = _ |- context [q_st ?s] => rewrite E end; fq17_proj; intros Hq; first [discriminate Hq | assumption | (repeat split; reflexivity)]
  | H : inr _ = inl _ |- _ => discriminate H
  end.

Lemma fq17_step_inv : forall s line s', fq17_os_inv s -> fq_step s line = inl s' -> fq17_os_inv s'.
Proof.
  intros s line s' Hinv Hstep.
  unfold fq17_os_inv, fq17_os_clear in *.
  unfold fq_step, fq_check_obj_id, fq_adjust_ostream_xref, fq_write_ostream in Hstep.
  fq17_proj.
  destruct (q_st s) eqn:Est; fq17_proj; try specialize (Hinv eq_refl).
  all: repeat fq17_case.
  all: fq17_done.
Qed.

Lemma fq17_run_inv : forall lines s s', fq17_os_inv s -> fq_run s lines = inl s' -> fq17_os_inv s'.
Proof.
  induction lines as [|l t IH]; intros s s' Hinv Hrun; cbn [fq_run] in Hrun.
  - injection Hrun as <-. exact Hinv.
  - destruct (fq_step s l) as [s1|e] eqn:E; [|discriminate Hrun].
    eapply IH; [eapply fq17_step_inv; eassumption | exact Hrun].
Qed.

(* THE PER-STREAM FIELDS ARE RESET.  For EVERY input (no layout premise at all): whenever the line machine is not
   between the "/Type /ObjStm" line and the "endstream" line of an object stream, the saved lines, the member
   offsets, the discarded lines, the member index, the captured /Extends reference and the kept dictionary lines are all empty - nothing that
   was collected for one object stream is still there when the next one begins. *)
Lemma fixqdf_ostream_state_reset_lemma : forall lines s,
  fq_run fq_init lines = inl s -> fq17_in_ostream (q_st s) = false ->
  q_ostream s = [] /\ q_ooffs s = [] /\ q_odisc s = [] /\ q_oidx s = 0 /\ q_oext s = [] /\ q_okept s = [].
Proof. intros lines s Hrun Hst. exact (fq17_run_inv lines fq_init s fq17_os_inv_init Hrun Hst). Qed.

(* ---------- what the old dictionary text of ONE object stream says about /Extends ----------
   written right to left (the last line that matches re_extends wins), independently of the fold of the machine *)
Fixpoint fq17_own_extends (dict : list (list N)) : list N :=
  match dict with
  | [] => []
  | l :: t => match fq17_own_extends t with
              | [] => match fq_match_extends l with Some m => m | None => [] end
              | e => e
              end
  end.

Definition fq17_ext_here (s : list N) : option (list N) :=
  match fq_strip fqk_extends_sp s with
  | Some r => let (d, r2) := fq_digits r in
              match d with
              | [] => None
              | _ => match fq_strip fqk_0_R r2 with Some _ => Some (d ++ fqk_0_R) | None => None end
              end
  | None => None
  end.

Lemma fq17_match_extends_unfold : forall s,
  fq_match_extends s = match fq17_ext_here s with
                       | Some m => Some m
                       | None => match s with [] => None | _ :: t => fq_match_extends t end
                       end.
Proof. destruct s; reflexivity. Qed.

Lemma fq17_ext_here_nonempty : forall s m, fq17_ext_here s = Some m -> m <> [].
Proof.
  intros s m H. unfold fq17_ext_here in H.
  destruct (fq_strip fqk_extends_sp s) as [r|]; [|discriminate H].
  destruct (fq_digits r) as [d r2]. destruct d as [|c d]; [discriminate H|].
  destruct (fq_strip fqk_0_R r2); [|discriminate H].
  injection H as <-. discriminate.
Qed.

Lemma fq17_match_extends_nonempty : forall s m, fq_match_extends s = Some m -> m <> [].
Proof.
  induction s as [|c t IH]; intros m H; rewrite fq17_match_extends_unfold in H.
  - destruct (fq17_ext_here []) eqn:E; [|discriminate H]. injection H as <-. eapply fq17_ext_here_nonempty; eassumption.
  - destruct (fq17_ext_here (c :: t)) eqn:E.
    + injection H as <-. eapply fq17_ext_here_nonempty; eassumption.
    + apply IH; exact H.
Qed.

Lemma fq17_ext_of_own : forall dict e0,
  fq_ext_of dict e0 = match fq17_own_extends dict with [] => e0 | e => e end.
Proof.
  induction dict as [|l t IH]; intros e0; [reflexivity|].
  unfold fq_ext_of. cbn [fold_left fq17_own_extends].
  change (fold_left (fun e l0 => match fq_match_extends l0 with Some m0 => m0 | None => e end) t
            (match fq_match_extends l with Some m => m | None => e0 end))
    with (fq_ext_of t (match fq_match_extends l with Some m => m | None => e0 end)).
  rewrite IH. destruct (fq17_own_extends t) as [|x r]; [|reflexivity].
  destruct (fq_match_extends l) as [m|] eqn:E; [|reflexivity].
  destruct m as [|y m]; [|reflexivity]. exfalso. eapply fq17_match_extends_nonempty; [exact E|reflexivity].
Qed.

Lemma fq17_ext_of_nil : forall dict, fq_ext_of dict [] = fq17_own_extends dict.
Proof. intros dict. rewrite fq17_ext_of_own. destruct (fq17_own_extends dict); reflexivity. Qed.

(* /EXTENDS IS LOCAL.  Let `pre` be ANY lines fix-qdf survives (any number of earlier object streams, with or without
   /Extends, edited or not) that leave the machine inside an object.  If an object stream follows - "/Type /ObjStm"
   line, old dictionary text, "stream", old pair lines, members, "endstream" - then the dictionary written for it is
   /Length /N /First, then "  /Extends <ref>" exactly when this stream's OWN old dictionary text has a line matching
   re_extends (with the reference of the last such line), then the other lines of that text that fix-qdf does not
   write itself, then ">>"; nothing of `pre` enters it, and the captured reference and lines are gone afterwards. *)
Lemma fixqdf_extends_local_lemma : forall pre s tyline dict junk m ms,
  fq_run fq_init pre = inl s -> q_st s = Fq_in_obj ->
  fq_eqb tyline fqk_stream_nl = false -> fq_eqb tyline fqk_endobj_nl = false -> fq_is_type_line tyline fqk_type_objstm = true ->
  Forall (fun l => fq_eqb l fqk_stream_nl = false) dict ->
  Forall (fun l => fq_match_ostream_obj l = None) junk ->
  fq_members_ok (q_last_obj s + 1) (m :: ms) ->
  q_last_obj s + Z.of_nat (length (m :: ms)) <= 2147483647 ->
  let members := concat (map m_lines (m :: ms)) in
  let body := concat members in
  let pos := m_positions 0 (m :: ms) in
  let pairs := concat (fq_offsets_lines pos (fq_len (m_hdr m)) (q_last_obj s)) in
  let ext := fq17_own_extends dict in
  let new_dict :=
      fqk_length_sp ++ fq_dec (fq_len body + fq_len pairs) ++ fqk_nl ++
      fqk_N_sp ++ fq_dec (Z.of_nat (length (m :: ms))) ++ fqk_nl ++
      fqk_first_sp ++ fq_dec (fq_len (m_hdr m) + fq_len pairs) ++ fqk_nl ++
      (match ext with [] => [] | e => fqk_extends_key ++ e ++ fqk_nl end) ++ concat (fq_kept_of dict) ++ fqk_dict_end in
  exists s',
    fq_run fq_init (pre ++ [tyline] ++ dict ++ [fqk_stream_nl] ++ junk ++ members ++ [fqk_endstream_nl]) = inl s' /\
    q_st s' = Fq_in_obj /\
    fq_flatten (q_out s') = fq_flatten (q_out s) ++ tyline ++ new_dict ++ fqk_stream_nl ++ pairs ++ body ++ fqk_endstream_nl /\
    q_oext s' = [] /\ q_okept s' = [].
Proof.
  intros pre s tyline dict junk m ms Hpre Hst Ht1 Ht2 Ht3 Hdict Hjunk Hok Hmax members body pos pairs ext new_dict.
  assert (Hin : fq17_in_ostream (q_st s) = false) by (rewrite Hst; reflexivity).
  destruct (fixqdf_ostream_state_reset_lemma pre s Hpre Hin) as (Ho1 & Ho2 & Ho3 & Ho4 & Ho5 & Ho6).
  pose proof (fixqdf_object_stream_lemma s tyline dict junk m ms Hst Ho1 Ho2 Ho3 Ho4 Ho5 Ho6 Ht1 Ht2 Ht3 Hdict Hjunk Hok Hmax) as H.
  cbv zeta in H. rewrite fq17_ext_of_nil in H.
  destruct H as [s' [Hrun [Hst' [Hout [_ [_ [_ [_ [_ [_ [_ [Hext Hkept]]]]]]]]]]]].
  exists s'. rewrite fq_run_app, Hpre.
  split; [exact Hrun|]. split; [exact Hst'|]. split; [exact Hout|]. split; [exact Hext|exact Hkept].
Qed.

(* ---------- the line the writer prints, and the line fix-qdf prints back ---------- *)
Definition fq17_ext_line (d : list N) : list N := fqk_extends_key ++ d ++ fqk_0_R ++ fqk_nl.     (* "  /Extends <d> 0 R\n" *)

Lemma fq17_strip_app : forall p r, fq_strip p (p ++ r) = Some r.
Proof. induction p as [|x p IH]; intros r; [reflexivity|]. cbn [app fq_strip]. rewrite N.eqb_refl. apply IH. Qed.

Lemma fq17_digits_app : forall d c r, forallb is_digit d = true -> is_digit c = false -> fq_digits (d ++ c :: r) = (d, c :: r).
Proof.
  induction d as [|x d IH]; intros c r Hd Hc.
  - cbn [app fq_digits]. rewrite Hc. reflexivity.
  - cbn [forallb] in Hd. apply andb_prop in Hd. destruct Hd as [Hx Hd].
    cbn [app fq_digits]. rewrite Hx, (IH c r Hd Hc). reflexivity.
Qed.

Lemma fq17_match_ext_line : forall d, d <> [] -> forallb is_digit d = true ->
  fq_match_extends (fq17_ext_line d) = Some (d ++ fqk_0_R).
Proof.
  intros d Hne Hd. unfold fq17_ext_line.
  change fqk_extends_key with (32%N :: 32%N :: fqk_extends_sp). cbn [app].
  rewrite fq17_match_extends_unfold.
  change (fq17_ext_here (32%N :: 32%N :: fqk_extends_sp ++ d ++ fqk_0_R ++ fqk_nl)) with (@None (list N)). cbv iota.
  rewrite fq17_match_extends_unfold.
  change (fq17_ext_here (32%N :: fqk_extends_sp ++ d ++ fqk_0_R ++ fqk_nl)) with (@None (list N)). cbv iota.
  rewrite fq17_match_extends_unfold. unfold fq17_ext_here. rewrite fq17_strip_app.
  change (fqk_0_R ++ fqk_nl) with (32%N :: tl fqk_0_R ++ fqk_nl).
  rewrite fq17_digits_app by (try assumption; reflexivity).
  destruct d as [|x d]; [contradiction Hne; reflexivity|].
  change (32%N :: tl fqk_0_R ++ fqk_nl) with (fqk_0_R ++ fqk_nl). rewrite fq17_strip_app. reflexivity.
Qed.

Lemma fq17_own_extends_none : forall dict, Forall (fun l => fq_match_extends l = None) dict -> fq17_own_extends dict = [].
Proof.
  induction dict as [|l t IH]; intros H; [reflexivity|].
  inversion H as [|? ? Hl Ht]; subst. cbn [fq17_own_extends]. rewrite (IH Ht), Hl. reflexivity.
Qed.

Lemma fq17_own_extends_last : forall a l b m,
  fq_match_extends l = Some m -> Forall (fun l => fq_match_extends l = None) b -> fq17_own_extends (a ++ l :: b) = m.
Proof.
  induction a as [|x a IH]; intros l b m Hl Hb.
  - cbn [app fq17_own_extends]. rewrite (fq17_own_extends_none b Hb), Hl. reflexivity.
  - cbn [app fq17_own_extends]. rewrite (IH l b m Hl Hb).
    destruct m as [|y m]; [|reflexivity]. exfalso. eapply fq17_match_extends_nonempty; [exact Hl|reflexivity].
Qed.

(* WHAT "ITS OWN /Extends" IS.  (1) A dictionary text none of whose lines matches re_extends gives no /Extends line.
   (2) If the last matching line is the line qpdf --qdf writes, "  /Extends <digits> 0 R", the line fix-qdf writes
   into the regenerated dictionary is that very line, whatever other lines (also earlier /Extends lines) surround it. *)
Lemma fixqdf_extends_own_line_lemma :
  (forall dict, Forall (fun l => fq_match_extends l = None) dict -> fq17_own_extends dict = []) /\
  (forall a d b, d <> [] -> forallb is_digit d = true -> Forall (fun l => fq_match_extends l = None) b ->
     fq17_own_extends (a ++ fq17_ext_line d :: b) = d ++ fqk_0_R /\
     fqk_extends_key ++ fq17_own_extends (a ++ fq17_ext_line d :: b) ++ fqk_nl = fq17_ext_line d).
Proof.
  split; [exact fq17_own_extends_none|].
  intros a d b Hne Hd Hb.
  rewrite (fq17_own_extends_last a (fq17_ext_line d) b (d ++ fqk_0_R) (fq17_match_ext_line d Hne Hd) Hb).
  split; [reflexivity|]. unfold fq17_ext_line. rewrite <- !app_assoc. reflexivity.
Qed.

(* ---------- non-vacuity: two object streams, /Extends on the first only and on the second only ---------- *)
Definition c17x_os (hdr : list N) (ext : list (list N)) (pair mem : list N) : list (list N) :=
  [hdr; c17_l_open; c17_l_type; c17x_l_len] ++ ext ++
  [c17_l_close; fqk_stream_nl; pair; mem; c17_l_open; c17_l_key; c17_l_close; fqk_endstream_nl; fqk_endobj_nl].
Definition c17x_with_then_without : list (list N) :=
  c17x_os c17_l_obj1 [c17x_l_ext3] c17_l_pair c17_l_member ++ c17x_os c17x_l_obj3 [] c17x_l_pair4 c17x_l_member4.
Definition c17x_without_then_with : list (list N) :=
  c17x_os c17_l_obj1 [] c17_l_pair c17_l_member ++ c17x_os c17x_l_obj3 [c17x_l_ext1] c17x_l_pair4 c17x_l_member4.
(* the object header lines and the lines containing "/Extends " of what fix-qdf writes, in order *)
Definition c17x_marks (r : fq_result) : list (list N) :=
  filter (fun l => fq_contains fqk_extends_sp l || match fq_match_n_0_obj l with Some _ => true | None => false end)
         (fq_split_lines (fq_output r)).

(* non-vacuity of fixqdf_extends_local / fixqdf_extends_own_line on concrete lines (File/C17Examples.v): an object stream
   WITH /Extends followed by one WITHOUT and the reverse order; only the stream that has the line gets it back *)
Lemma fixqdf_extends_local_example_lemma :
  fq_exit_status (fixqdf_lines c17x_with_then_without) = 0 /\
  c17x_marks (fixqdf_lines c17x_with_then_without) = [c17_l_obj1; c17x_l_ext3; c17x_l_obj3] /\
  fq_exit_status (fixqdf_lines c17x_without_then_with) = 0 /\
  c17x_marks (fixqdf_lines c17x_without_then_with) = [c17_l_obj1; c17x_l_obj3; c17x_l_ext1] /\
  fq17_ext_line c17x_d_3 = c17x_l_ext3 /\
  (* the premises of fixqdf_extends_local for the second stream of the first file, `pre` = everything before its type line *)
  (exists s, fq_run fq_init (c17x_os c17_l_obj1 [c17x_l_ext3] c17_l_pair c17_l_member ++ [c17x_l_obj3; c17_l_open]) = inl s /\
             q_st s = Fq_in_obj /\ q_last_obj s = 3 /\
             fq_members_ok (q_last_obj s + 1)
               [{| m_hdr := c17x_l_member4; m_digits := fq_dec 4; m_first := c17_l_open; m_rest := [c17_l_key; c17_l_close] |}]).
Proof.
  split; [vm_compute; reflexivity|]. split; [vm_compute; reflexivity|].
  split; [vm_compute; reflexivity|]. split; [vm_compute; reflexivity|]. split; [vm_compute; reflexivity|].
  eexists. split; [vm_compute; reflexivity|]. split; [reflexivity|]. split; [reflexivity|].
  repeat (split; [first [reflexivity | (vm_compute; reflexivity) | (repeat constructor; reflexivity)]|]). exact I.
Qed.

(* ---------- C17-F5 (repaired): the other lines of an object-stream dictionary come back ---------- *)
Lemma fq17_drop_lead_spec : forall l, exists lead, l = lead ++ fq_drop_lead l /\ forallb fq_is_lead lead = true.
Proof.
  induction l as [|c t [lead [Hl Hf]]].
  - exists []. split; reflexivity.
  - cbn [fq_drop_lead]. destruct (fq_is_lead c) eqn:E.
    + exists (c :: lead). split; [cbn [app]; rewrite <- Hl; reflexivity | cbn [forallb]; rewrite E, Hf; reflexivity].
    + exists []. split; reflexivity.
Qed.

Lemma fq17_drop_lead_app : forall lead c r, forallb fq_is_lead lead = true -> fq_is_lead c = false -> fq_drop_lead (lead ++ c :: r) = c :: r.
Proof.
  induction lead as [|x lead IH]; intros c r Hf Hc.
  - cbn [app fq_drop_lead]. rewrite Hc. reflexivity.
  - cbn [forallb] in Hf. apply andb_prop in Hf. destruct Hf as [Hx Hf]. cbn [app fq_drop_lead]. rewrite Hx. apply IH; assumption.
Qed.

Lemma fq17_strip_spec : forall p s r, fq_strip p s = Some r -> s = p ++ r.
Proof.
  induction p as [|x p IH]; intros s r H.
  - cbn [fq_strip] in H. injection H as <-. reflexivity.
  - cbn [fq_strip] in H. destruct s as [|y s]; [discriminate H|].
    destruct (x =? y)%N eqn:E; [|discriminate H]. apply N.eqb_eq in E. subst y. cbn [app]. f_equal. apply IH; exact H.
Qed.

Definition fq17_regen_keys : list (list N) := [fqk_slash_length_sp; fqk_slash_N_sp; fqk_slash_first_sp].

(* is_regenerated_ostream_line, characterised: exactly ">>\n" and the lines <spaces/tabs> "/Length " | "/N " | "/First " <anything> *)
Lemma fq17_is_regenerated_spec : forall l,
  fq_is_regenerated l = true <->
  (l = fqk_dict_end \/ exists lead key rest, l = lead ++ key ++ rest /\ forallb fq_is_lead lead = true /\ In key fq17_regen_keys).
Proof.
  intros l. split.
  - unfold fq_is_regenerated. destruct (fq_eqb l fqk_dict_end) eqn:E; [intros _; left; apply fq_eqb_eq; exact E|].
    intros H. right. destruct (fq17_drop_lead_spec l) as [lead [Hl Hf]].
    destruct (fq_drop_lead l) as [|c t] eqn:Ed; [discriminate H|].
    unfold fq_starts in H.
    destruct (fq_strip fqk_slash_length_sp (c :: t)) as [r|] eqn:E1.
    { exists lead, fqk_slash_length_sp, r. rewrite <- (fq17_strip_spec _ _ _ E1). split; [exact Hl|]. split; [exact Hf|]. left; reflexivity. }
    destruct (fq_strip fqk_slash_N_sp (c :: t)) as [r|] eqn:E2.
    { exists lead, fqk_slash_N_sp, r. rewrite <- (fq17_strip_spec _ _ _ E2). split; [exact Hl|]. split; [exact Hf|]. right; left; reflexivity. }
    destruct (fq_strip fqk_slash_first_sp (c :: t)) as [r|] eqn:E3; [|discriminate H].
    exists lead, fqk_slash_first_sp, r. rewrite <- (fq17_strip_spec _ _ _ E3). split; [exact Hl|]. split; [exact Hf|]. right; right; left; reflexivity.
  - intros [->|[lead [key [rest [-> [Hf Hk]]]]]]; [reflexivity|].
    unfold fq_is_regenerated. destruct (fq_eqb (lead ++ key ++ rest) fqk_dict_end); [reflexivity|].
    assert (Hd : exists c k, key = c :: k /\ fq_is_lead c = false).
    { destruct Hk as [<-|[<-|[<-|[]]]]; eexists; eexists; (split; [reflexivity|reflexivity]). }
    destruct Hd as [c [k [Hkey Hc]]]. rewrite Hkey. cbn [app]. rewrite (fq17_drop_lead_app lead c (k ++ rest) Hf Hc).
    change (c :: k ++ rest) with ((c :: k) ++ rest). rewrite <- Hkey. unfold fq_starts.
    destruct Hk as [<-|[<-|[<-|[]]]]; rewrite ?fq17_strip_app; rewrite ?Bool.orb_true_r; reflexivity.
Qed.

(* THE OTHER KEYS OF AN OBJECT-STREAM DICTIONARY ARE KEPT (former finding C17-F5, repaired).  The lines that
   fixqdf_extends_local / fixqdf_object_stream put between the /Extends line and ">>" of the regenerated dictionary,
   `fq_kept_of dict`, are exactly the lines of the old dictionary text, in their order, that are neither an /Extends
   line (re_extends) nor a line fix-qdf writes itself (fq17_is_regenerated_spec: ">>", /Length, /N, /First); a text
   that consists of such lines only comes back whole. *)
Lemma fixqdf_objstm_dict_keys_kept_lemma :
  (forall dict l, In l (fq_kept_of dict) <-> In l dict /\ fq_match_extends l = None /\ fq_is_regenerated l = false) /\
  (forall a l b, fq_match_extends l = None -> fq_is_regenerated l = false ->
     fq_kept_of (a ++ l :: b) = fq_kept_of a ++ l :: fq_kept_of b) /\
  (forall dict, Forall (fun l => fq_match_extends l = None /\ fq_is_regenerated l = false) dict -> fq_kept_of dict = dict) /\
  (forall l, fq_is_regenerated l = true <->
     (l = fqk_dict_end \/ exists lead key rest, l = lead ++ key ++ rest /\ forallb fq_is_lead lead = true /\ In key fq17_regen_keys)).
Proof.
  split; [|split; [|split; [|exact fq17_is_regenerated_spec]]].
  - intros dict l. unfold fq_kept_of. rewrite filter_In. unfold fq_keeps. split.
    + intros [Hin Hk]. split; [exact Hin|]. destruct (fq_match_extends l); [discriminate Hk|].
      split; [reflexivity|]. destruct (fq_is_regenerated l); [discriminate Hk|reflexivity].
    + intros [Hin [-> ->]]. split; [exact Hin|reflexivity].
  - intros a l b Hm Hr. unfold fq_kept_of. rewrite filter_app. cbn [filter]. unfold fq_keeps at 2. rewrite Hm, Hr. reflexivity.
  - induction dict as [|l t IH]; intros H; [reflexivity|]. inversion H as [|? ? [Hm Hr] Ht]; subst.
    unfold fq_kept_of in *. cbn [filter]. unfold fq_keeps at 1. rewrite Hm, Hr. cbn [negb]. rewrite (IH Ht). reflexivity.
Qed.

(* regression for C17-F5, pinned on the former witness: the key line added by hand BEHIND the /Type /ObjStm line of an
   object-stream dictionary (and the same line BEFORE it) is a line of what fix-qdf writes; exit status 0.  Before the
   repair the first file came back without the line (this was fixqdf_objstm_hand_key_refuted). *)
Definition c17x_key_behind : list (list N) := c17x_os c17_l_obj1 [c17x_l_mykey] c17_l_pair c17_l_member.
Definition c17x_key_before : list (list N) :=
  [c17_l_obj1; c17_l_open; c17x_l_mykey; c17_l_type; c17x_l_len; c17_l_close; fqk_stream_nl; c17_l_pair; c17_l_member;
   c17_l_open; c17_l_key; c17_l_close; fqk_endstream_nl; fqk_endobj_nl].
Definition c17x_has_line (l : list N) (r : fq_result) : bool := existsb (fq_eqb l) (fq_split_lines (fq_output r)).

Lemma fixqdf_objstm_hand_key_regression_lemma :
  fq_match_extends c17x_l_mykey = None /\ fq_is_regenerated c17x_l_mykey = false /\
  existsb (fq_eqb c17x_l_mykey) c17x_key_behind = true /\ existsb (fq_eqb c17x_l_mykey) c17x_key_before = true /\
  fq_exit_status (fixqdf_lines c17x_key_behind) = 0 /\ c17x_has_line c17x_l_mykey (fixqdf_lines c17x_key_behind) = true /\
  fq_exit_status (fixqdf_lines c17x_key_before) = 0 /\ c17x_has_line c17x_l_mykey (fixqdf_lines c17x_key_before) = true /\
  fq_kept_of [c17x_l_len; c17x_l_mykey; c17x_l_ext3; c17_l_close] = [c17x_l_mykey].
Proof.
  repeat (split; [vm_compute; reflexivity|]). vm_compute; reflexivity.
Qed.
