(* non-vacuity: concrete runs that meet the hypotheses of the theorems above *)
Definition ex_c10_env (fault : nat -> c10_fact) (ck : c10_checks) : c10_env := mk_env 8 fault None 2 ck 0 None.
Definition ex_c10_scen := ScWrite 1 [[37; 80; 68; 70]%N; [45; 49; 10]%N; [1; 2; 3; 4; 5; 6; 7; 8; 9; 10; 11; 12; 13; 14; 15; 16; 17; 18; 19; 20]%N].
(* no fault: exit 0, complete file (both check vectors) *)
Example ex_c10_nofault : rs_exit (c10_run (ex_c10_env c10_no_fault c10_repaired) false false ex_c10_scen []) = Some 0
  /\ c10_file_of (c10_run (ex_c10_env c10_no_fault c10_repaired) false false ex_c10_scen []) 1 = Some (concat [[37; 80; 68; 70]%N; [45; 49; 10]%N; [1; 2; 3; 4; 5; 6; 7; 8; 9; 10; 11; 12; 13; 14; 15; 16; 17; 18; 19; 20]%N])
  /\ rs_exit (c10_run (ex_c10_env c10_no_fault c10_unrepaired) true false ex_c10_scen []) = Some 3.
Proof. vm_compute. auto. Qed.
(* the device fills up at the third operation: repaired exits 2 with a message, pinned exits 0 with a partial file *)
Example ex_c10_fault :
  rs_exit (c10_run (ex_c10_env (fun n => if Nat.eqb n 3 then FaFull else FaNone) c10_repaired) false false ex_c10_scen []) = Some 2
  /\ c10_has_err (cw_diag (rs_world (c10_run (ex_c10_env (fun n => if Nat.eqb n 3 then FaFull else FaNone) c10_repaired) false false ex_c10_scen []))) = true
  /\ rs_exit (c10_run (ex_c10_env (fun n => if Nat.eqb n 3 then FaFull else FaNone) c10_unrepaired) false false ex_c10_scen []) = Some 0.
Proof. vm_compute. auto. Qed.
(* a split job and a replace-input job satisfying c10_wf *)
Example ex_c10_wf : c10_wf (ScSplit [(1, [[1]%N]); (2, [[2]%N])]) /\ c10_wf (ScReplace 1 2 3 [[1]%N]).
Proof. split; [repeat constructor; simpl; intuition discriminate|simpl; repeat split; discriminate]. Qed.
(* a JSON job meeting the hypothesis of exit_ok_implies_complete_json: one stream file opened, fed between main-file writes, closed *)
Example ex_c10_json : exists st md,
  c10_json_sim 1 [JChunk [123]%N; JStreamOpen 2; JChunk [34]%N; JStreamChunk 2 [1; 2; 3]%N; JStreamEnd 2; JChunk [125; 10]%N] (fun _ => None) [] = Some (st, md)
  /\ md = [123; 34; 125; 10]%N /\ st 2 = Some (false, [1; 2; 3]%N).
Proof. eexists; eexists. split; [reflexivity|]. split; reflexivity. Qed.
