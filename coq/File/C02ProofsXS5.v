(* C02 extension, part 5 (step 1 towards xs_write_read_strict): termination of the queue loop and bijection of the numbering.
   Side condition: the document is closed (every referenced id is defined; part of wf_doc) - the fuel of xs_q_loop is
   S (objects + streams), and every queued item is a distinct defined object or a distinct stream index. *)
From QV Require Import Base.Bytes File.StrictSyntax File.ReadStrict File.WriterArith File.C02Proofs.
From QV Require Import Obj.Queue Obj.C01WriterProofs Obj.WriterModel Obj.WmPrinters Obj.WriterModelXS Obj.C01RoundtripProofs Obj.C01FileProofs.
From QV Require Import File.C02ProofsXS File.C02ProofsXS2.
From Coq Require Import Lia Permutation.
Local Open Scope N_scope.

Fixpoint xn_range (a : N) (n : nat) : list N := match n with O => [] | S n' => a :: xn_range (a + 1) n' end.

Lemma xn_range_in : forall n a x, In x (xn_range a n) <-> a <= x < a + N.of_nat n.
Proof.
  induction n as [|n IH]; intros a x; cbn [xn_range In]; [lia|]. rewrite IH. lia.
Qed.
Lemma xn_range_nodup : forall n a, NoDup (xn_range a n).
Proof.
  induction n as [|n IH]; intros a; cbn [xn_range]; constructor; [| apply IH]. intros H. apply xn_range_in in H. lia.
Qed.
Lemma xn_range_app : forall n m a, xn_range a n ++ xn_range (a + N.of_nat n) m = xn_range a (n + m).
Proof.
  induction n as [|n IH]; intros m a; cbn [xn_range app plus]; [rewrite N.add_0_r; reflexivity|].
  f_equal. rewrite <- IH. f_equal. f_equal. lia.
Qed.
Lemma xn_range_length : forall n a, length (xn_range a n) = n.
Proof. induction n as [|n IH]; intros a; cbn [xn_range length]; [reflexivity | rewrite IH; reflexivity]. Qed.

Definition xn_lk (l : list (N * N)) (x : N) : N := match lookup_num l x with Some n => n | None => 0 end.

Lemma xn_map_range : forall (f : N -> N) ms a, (forall j m, nth_error ms j = Some m -> f m = a + N.of_nat j) ->
  map f ms = xn_range a (length ms).
Proof.
  intros f. induction ms as [|m ms IH]; intros a H; [reflexivity|]. cbn [map length xn_range]. f_equal.
  - rewrite (H O m eq_refl). lia.
  - apply IH. intros j m' Hj. rewrite (H (S j) m' Hj). lia.
Qed.

Lemma xn_nodup_flat_map : forall (A B : Type) (f : A -> list B) l, NoDup (flat_map f l) -> (forall x, In x l -> f x <> []) -> NoDup l.
Proof.
  intros A B f. induction l as [|a t IH]; intros Hnd Hne; [constructor|]. cbn [flat_map] in Hnd.
  constructor.
  - intros Hin. destruct (f a) as [|b fa] eqn:E; [apply (Hne a (or_introl eq_refl)); exact E|].
    cbn [app] in Hnd. inversion Hnd as [|? ? Hb _]; subst. apply Hb. apply in_or_app. right.
    apply in_flat_map. exists a. split; [exact Hin | rewrite E; left; reflexivity].
  - apply IH; [| intros x Hx; apply Hne; right; exact Hx]. clear - Hnd. induction (f a) as [|b fa IHf]; [exact Hnd|].
    cbn [app] in Hnd. inversion Hnd; subst. apply IHf. assumption.
Qed.

Lemma xn_flat_map_ext_in : forall (A B : Type) (f g : A -> list B) l, (forall x, In x l -> f x = g x) -> flat_map f l = flat_map g l.
Proof.
  intros A B f g. induction l as [|a t IH]; intros H; [reflexivity|]. cbn [flat_map].
  rewrite (H a (or_introl eq_refl)), IH; [reflexivity | intros x Hx; apply H; right; exact Hx].
Qed.

Section Numbering.
  Variable d : doc.
  Hypothesis Hclosed : doc_closed d.
  Let p := xs_P d.
  Let g := graph_of d.
  Let ids := map fst (d_objects d).

  Definition xn_numbers (s : xs_qstate) (it : xs_item) : list N :=
    match it with
    | XsObj x => [xn_lk (xs_ren s) x]
    | XsStm k => xn_range (xn_lk (xs_sren s) k) (S (length (xs_members p k)))
    end.
  Definition xn_all (s : xs_qstate) : list xs_item := rev (xs_written_rev s) ++ xs_queue s.
  Definition xn_ok (s : xs_qstate) (it : xs_item) : Prop :=
    match it with
    | XsObj x => lookup_num (xs_ren s) x <> None /\ lookup_num (xs_asg p) x = None /\ In x ids
    | XsStm k => lookup_num (xs_sren s) k <> None /\ k < xs_nstreams p
    end.
  Record xn_I (s : xs_qstate) : Prop := {
    xnI_J2 : xq_J2 d s;
    xnI_ok : forall it, In it (xn_all s) -> xn_ok s it;
    xnI_num : flat_map (xn_numbers s) (xn_all s) = xn_range 1 (N.to_nat (xs_next s) - 1);
    xnI_pos : 1 <= xs_next s }.

  Lemma xn_ids_graph : map fst g = ids.
  Proof. unfold g, graph_of, ids. rewrite map_map. reflexivity. Qed.

  Lemma xn_children_ids : forall x c, In c (children g x) -> In c ids.
  Proof.
    intros x c H. destruct Hclosed as [_ [_ H3]]. fold g in H3. rewrite <- xn_ids_graph.
    assert (E : exists k cs, In (k, cs) g /\ In c cs).
    { clear H3. induction g as [|[k cs] t IH]; cbn [children] in H; [contradiction|].
      destruct (k =? x); [exists k, cs; split; [left; reflexivity | exact H]|].
      destruct (IH H) as [k' [cs' [H1 H2]]]. exists k', cs'. split; [right; exact H1 | exact H2]. }
    destruct E as [k [cs [H1 H2]]]. apply (H3 k cs c H1 H2).
  Qed.
  Lemma xn_item_children_ids : forall it c, In c (xs_item_children g p it) -> In c ids.
  Proof.
    intros [x | k] c H; cbn [xs_item_children] in H; [apply (xn_children_ids x c H)|].
    apply in_flat_map in H. destruct H as [m [_ H]]. apply (xn_children_ids m c H).
  Qed.
  Lemma xn_roots_ids : forall x, In x (roots_of d) -> In x ids.
  Proof. intros x H. destruct Hclosed as [_ [H2 _]]. rewrite <- xn_ids_graph. apply H2. exact H. Qed.

  (* one enqueue *)
  Lemma xn_enqueue_I : forall s x, In x ids -> xn_I s -> xn_I (xs_enqueue p s x).
  Proof.
    intros s x Hx [J Hok Hnum Hpos].
    assert (Jn := xq_enqueue_J2 d s x J). fold p in Jn.
    unfold xs_enqueue in *.
    destruct (lookup_num (xs_ren s) x) eqn:Ex; [constructor; assumption|].
    destruct (lookup_num (xs_asg p) x) as [k|] eqn:Ea.
    - destruct (lookup_num (xs_sren s) k) eqn:Es; [constructor; assumption|].
      destruct (xs_number_members (xs_members p k) (xs_next s + 1) (xs_ren s)) as [ren' next'] eqn:E.
      assert (Er : ren' = fst (xs_number_members (xs_members p k) (xs_next s + 1) (xs_ren s))) by (rewrite E; reflexivity).
      destruct (xs_number_members_spec _ _ _ _ _ E) as [En _].
      cbv iota beta in *.
      set (s' := {| xs_queue := xs_queue s ++ [XsStm k]; xs_ren := ren'; xs_sren := (k, xs_next s) :: xs_sren s;
                    xs_next := next'; xs_written_rev := xs_written_rev s |}) in *.
      assert (Hall : xn_all s' = xn_all s ++ [XsStm k]) by (unfold xn_all, s'; cbn [xs_written_rev xs_queue]; rewrite app_assoc; reflexivity).
      assert (Hstab : forall it, xn_ok s it -> xn_ok s' it /\ xn_numbers s' it = xn_numbers s it).
      { intros [y | k2] H; cbn [xn_ok xn_numbers] in *.
        - destruct H as [H1 [H2 H3]].
          assert (Hny : ~ In y (xs_members p k)).
          { intros Hin. apply (proj1 (xq_member_iff d y k)) in Hin. unfold p in *. congruence. }
          unfold s', xn_lk. cbn [xs_ren]. rewrite Er, xq_number_other by exact Hny. repeat split; assumption.
        - destruct H as [H1 H2]. unfold s', xn_lk. cbn [xs_sren lookup_num].
          destruct (k =? k2) eqn:Ek; [apply N.eqb_eq in Ek; subst k2; congruence|]. repeat split; assumption. }
      constructor.
      + exact Jn.
      + intros it Hit. rewrite Hall in Hit. apply in_app_or in Hit. destruct Hit as [Hit | [<- | []]].
        * apply Hstab. apply Hok. exact Hit.
        * cbn [xn_ok]. unfold s'. cbn [xs_sren lookup_num]. rewrite N.eqb_refl. split; [discriminate|].
          apply (xq_asg_lt d x k). apply xq_lookup_in. exact Ea.
      + rewrite Hall, flat_map_app. cbn [flat_map]. rewrite app_nil_r.
        rewrite (xn_flat_map_ext_in _ _ (xn_numbers s') (xn_numbers s)) by (intros it Hit; apply Hstab; apply Hok; exact Hit).
        rewrite Hnum. cbn [xn_numbers]. unfold s' at 1, xn_lk. cbn [xs_sren lookup_num]. rewrite N.eqb_refl.
        replace (xs_next s) with (1 + N.of_nat (N.to_nat (xs_next s) - 1)) at 2 by lia.
        rewrite xn_range_app. f_equal. unfold s'. cbn [xs_next]. lia.
      + unfold s'. cbn [xs_next]. lia.
    - set (s' := {| xs_queue := xs_queue s ++ [XsObj x]; xs_ren := (x, xs_next s) :: xs_ren s; xs_sren := xs_sren s;
                    xs_next := xs_next s + 1; xs_written_rev := xs_written_rev s |}) in *.
      assert (Hall : xn_all s' = xn_all s ++ [XsObj x]) by (unfold xn_all, s'; cbn [xs_written_rev xs_queue]; rewrite app_assoc; reflexivity).
      assert (Hstab : forall it, xn_ok s it -> xn_ok s' it /\ xn_numbers s' it = xn_numbers s it).
      { intros [y | k2] H; cbn [xn_ok xn_numbers] in *.
        - destruct H as [H1 [H2 H3]]. unfold s', xn_lk. cbn [xs_ren lookup_num].
          destruct (x =? y) eqn:Exy; [apply N.eqb_eq in Exy; subst y; congruence|]. repeat split; assumption.
        - split; [exact H | reflexivity]. }
      constructor.
      + exact Jn.
      + intros it Hit. rewrite Hall in Hit. apply in_app_or in Hit. destruct Hit as [Hit | [<- | []]].
        * apply Hstab. apply Hok. exact Hit.
        * cbn [xn_ok]. unfold s'. cbn [xs_ren lookup_num]. rewrite N.eqb_refl. repeat split; [discriminate | exact Ea | exact Hx].
      + rewrite Hall, flat_map_app. cbn [flat_map]. rewrite app_nil_r.
        rewrite (xn_flat_map_ext_in _ _ (xn_numbers s') (xn_numbers s)) by (intros it Hit; apply Hstab; apply Hok; exact Hit).
        rewrite Hnum. cbn [xn_numbers]. unfold s' at 1, xn_lk. cbn [xs_ren lookup_num]. rewrite N.eqb_refl.
        replace [xs_next s] with (xn_range (1 + N.of_nat (N.to_nat (xs_next s) - 1)) 1) by (cbn [xn_range]; f_equal; lia).
        rewrite xn_range_app. f_equal. unfold s'. cbn [xs_next]. lia.
      + unfold s'. cbn [xs_next]. lia.
  Qed.

  Lemma xn_fold_I : forall l s, (forall x, In x l -> In x ids) -> xn_I s -> xn_I (fold_left (xs_enqueue p) l s).
  Proof.
    induction l as [|x l IH]; intros s Hl H; [exact H|]. cbn [fold_left]. apply IH; [intros y Hy; apply Hl; right; exact Hy|].
    apply xn_enqueue_I; [apply Hl; left; reflexivity | exact H].
  Qed.

  (* the bound *)
  Definition xn_universe : list xs_item := map XsObj ids ++ map XsStm (xn_range 0 (N.to_nat (xs_nstreams p))).
  Definition xn_B : nat := (length (d_objects d) + N.to_nat (xs_nstreams p))%nat.

  Lemma xn_all_bound : forall s, xn_I s -> (length (xn_all s) <= xn_B)%nat.
  Proof.
    intros s [J Hok Hnum Hpos].
    assert (Hnd : NoDup (xn_all s)).
    { apply (xn_nodup_flat_map _ _ (xn_numbers s)); [rewrite Hnum; apply xn_range_nodup|].
      intros [x | k] _; cbn [xn_numbers xn_range]; discriminate. }
    assert (Hincl : incl (xn_all s) xn_universe).
    { intros it Hit. apply Hok in Hit. unfold xn_universe. apply in_or_app. destruct it as [x | k]; cbn [xn_ok] in Hit.
      - left. apply in_map. tauto.
      - right. apply in_map. apply xn_range_in. lia. }
    pose proof (NoDup_incl_length Hnd Hincl) as Hl. unfold xn_universe in Hl.
    rewrite app_length, !map_length, xn_range_length in Hl. unfold ids in Hl. rewrite map_length in Hl. unfold xn_B. exact Hl.
  Qed.

  Lemma xn_loop : forall fuel s, xn_I s -> (xn_B < length (xs_written_rev s) + fuel)%nat ->
    xn_I (xs_q_loop fuel g p s) /\ xs_queue (xs_q_loop fuel g p s) = [].
  Proof.
    induction fuel as [|f IH]; intros s HI Hf.
    - exfalso. pose proof (xn_all_bound s HI) as Hb. unfold xn_all in Hb. rewrite app_length, rev_length in Hb. lia.
    - cbn [xs_q_loop]. destruct (xs_queue s) as [|it rest] eqn:Eq; [split; assumption|].
      set (s1 := {| xs_queue := rest; xs_ren := xs_ren s; xs_sren := xs_sren s; xs_next := xs_next s; xs_written_rev := it :: xs_written_rev s |}).
      assert (Hall1 : xn_all s1 = xn_all s).
      { unfold xn_all, s1. cbn [xs_written_rev xs_queue rev]. rewrite Eq, <- app_assoc. reflexivity. }
      assert (HI1 : xn_I s1).
      { destruct HI as [J Hok Hnum Hpos]. constructor.
        - exact J.
        - intros it' Hit'. rewrite Hall1 in Hit'. apply Hok in Hit'. destruct it'; exact Hit'.
        - rewrite Hall1. exact Hnum.
        - exact Hpos. }
      apply IH.
      + apply xn_fold_I; [| exact HI1]. intros c Hc. apply (xn_item_children_ids it c Hc).
      + rewrite (xq_fold_written d). cbn [s1 xs_written_rev length]. lia.
  Qed.

  Lemma xn_final : xn_I (xs_Q d) /\ xs_queue (xs_Q d) = [].
  Proof.
    unfold xs_Q, xs_run_queue. fold p. fold g. apply xn_loop.
    - apply xn_fold_I; [intros x Hx; apply xn_roots_ids; exact Hx|]. constructor.
      + intros k s0 H. discriminate.
      + intros it [].
      + reflexivity.
      + cbn. lia.
    - rewrite (xq_fold_written d). cbn [xs_written_rev length]. unfold xn_B. fold p. lia.
  Qed.
End Numbering.

(* ---------- consequences for the final state ---------- *)
Lemma xs_queue_empties_lemma : forall d, doc_closed d -> xs_queue (xs_Q d) = [].
Proof. intros d H. apply (proj2 (xn_final d H)). Qed.

Definition xn_item_nums (L : xs_layout) (it : xs_item) : list N :=
  match it with
  | XsObj x => [xs_l_ren L x]
  | XsStm k => xs_l_sren L k :: map (xs_l_ren L) (xs_members (xs_l_plan L) k)
  end.
Definition xn_item_keys (L : xs_layout) (it : xs_item) : list N :=
  match it with
  | XsObj x => [xs_l_ren L x]
  | XsStm k => map (xs_l_ren L) (xs_members (xs_l_plan L) k) ++ [xs_l_sren L k]
  end.

Lemma xn_index_entries_keys : forall ren stm ms i0, map fst (xs_index_entries ren stm ms i0) = map ren ms.
Proof. induction ms as [|m ms IH]; intros i0; [reflexivity|]. cbn [xs_index_entries map fst]. rewrite IH. reflexivity. Qed.

Lemma xn_emit_keys : forall objs p ren sren items pos,
  map fst (snd (fst (xs_emit wm_unparse_string wm_unparse_name objs p ren sren items pos)))
  = flat_map (fun it => match it with XsObj x => [ren x] | XsStm k => map ren (xs_members p k) ++ [sren k] end) items.
Proof.
  intros objs p ren sren. induction items as [|it rest IH]; intros pos; [reflexivity|]. cbn [xs_emit flat_map].
  specialize (IH (pos + N.of_nat (length (xs_chunk wm_unparse_string wm_unparse_name objs p ren sren it)))).
  destruct (xs_emit wm_unparse_string wm_unparse_name objs p ren sren rest _) as [[b t] e]. cbn [fst snd] in *.
  rewrite map_app, IH. f_equal. destruct it as [x | k]; cbn [xs_item_entries map fst]; [reflexivity|].
  rewrite map_app, xn_index_entries_keys. reflexivity.
Qed.

Lemma xn_perm_flat_map : forall (A B : Type) (f g : A -> list B) l, (forall x, In x l -> Permutation (f x) (g x)) ->
  Permutation (flat_map f l) (flat_map g l).
Proof.
  intros A B f g. induction l as [|a t IH]; intros H; [constructor|]. cbn [flat_map]. apply Permutation_app.
  - apply H. left. reflexivity.
  - apply IH. intros x Hx. apply H. right. exact Hx.
Qed.

(* The numbering is a bijection: the queue is empty when the loop stops, the numbers of the written items - an uncompressed
   object's number, an object stream's number followed by its members' numbers - listed in the order in which the items are
   written are exactly 1, 2, ..., xref id - 1, and the recorded cross-reference table has exactly one entry for each of them. *)
Lemma xs_numbering_bijection_lemma : forall d, doc_closed d ->
  let L := xs_L d in
  flat_map (xn_item_nums L) (xs_l_items L) = xn_range 1 (N.to_nat (xs_l_xref_id L) - 1)
  /\ NoDup (map fst (xs_l_table L))
  /\ (forall n, In n (map fst (xs_l_table L)) <-> 1 <= n < xs_l_xref_id L).
Proof.
  intros d Hc L. destruct (xn_final d Hc) as [[J Hok Hnum Hpos] Hq].
  assert (Hitems : xn_all (xs_Q d) = xs_items d).
  { unfold xn_all, xs_items. rewrite Hq, app_nil_r, rev'_rev. reflexivity. }
  assert (Hnums : forall it, In it (xs_items d) -> xn_item_nums L it = xn_numbers d (xs_Q d) it).
  { intros [x | k] Hit; unfold L; rewrite xs_L_eq; cbn [xn_item_nums xn_numbers xs_l_ren xs_l_sren xs_l_plan]; [reflexivity|].
    cbn [xn_range]. f_equal. rewrite <- Hitems in Hit. apply Hok in Hit. cbn [xn_ok] in Hit. destruct Hit as [Hs _].
    unfold xn_lk, xs_srenf. destruct (lookup_num (xs_sren (xs_Q d)) k) as [s0|] eqn:Es; [| congruence].
    apply xn_map_range. intros j m Hj. unfold xs_renf. rewrite (J k s0 Es j m Hj). lia. }
  assert (H1 : flat_map (xn_item_nums L) (xs_l_items L) = xn_range 1 (N.to_nat (xs_l_xref_id L) - 1)).
  { replace (xs_l_items L) with (xs_items d) by (unfold L; rewrite xs_L_eq; reflexivity).
    replace (xs_l_xref_id L) with (xs_next (xs_Q d)) by (unfold L; rewrite xs_L_eq; reflexivity).
    rewrite (xn_flat_map_ext_in _ _ _ _ _ Hnums). rewrite <- Hitems. exact Hnum. }
  split; [exact H1|].
  assert (Hperm : Permutation (map fst (xs_l_table L)) (xn_range 1 (N.to_nat (xs_l_xref_id L) - 1))).
  { rewrite <- H1. unfold L. rewrite xs_L_eq. cbn [xs_l_table xs_l_items]. unfold xs_E. rewrite xn_emit_keys.
    apply xn_perm_flat_map. intros [x | k] _; cbn [xn_item_nums xs_l_ren xs_l_sren xs_l_plan]; [apply Permutation_refl|].
    apply Permutation_sym. apply Permutation_cons_append. }
  split.
  - apply (Permutation_NoDup (Permutation_sym Hperm)). apply xn_range_nodup.
  - intros n. split; intros H.
    + apply (Permutation_in _ Hperm) in H. apply xn_range_in in H.
      assert (1 <= xs_l_xref_id L) by (unfold L; rewrite xs_L_eq; exact Hpos). lia.
    + apply (Permutation_in _ (Permutation_sym Hperm)). apply xn_range_in. lia.
Qed.

Lemma xs_lookup_ent_nodup : forall tab n e, NoDup (map fst tab) -> In (n, e) tab -> xs_lookup_ent tab n = e.
Proof.
  induction tab as [|[k e'] t IH]; intros n e Hnd Hin; [contradiction|]. cbn [map fst] in Hnd. inversion Hnd as [|? ? H1 H2]; subst.
  cbn [xs_lookup_ent]. destruct Hin as [Hin | Hin].
  - injection Hin as -> ->. rewrite N.eqb_refl. reflexivity.
  - destruct (k =? n) eqn:E; [| apply IH; assumption]. apply N.eqb_eq in E. subst k. exfalso. apply H1.
    apply in_map_iff. exists (n, e). split; [reflexivity | exact Hin].
Qed.
