(* C09, fixpoint clause, plain output mode (qpdf --static-id --object-streams=disable --compress-streams=n
   --decode-level=none): what qpdf holds after READING a file, as a writer-model document, so that the
   generations g1 = write d, g2 = write (read g1), g3 = write (read g2) can be composed inside the model.

   fx_doc_of_file turns what the strict reader (File/ReadStrict.v) returns for a file into the `doc` that
   Obj/WriterModel.v write_doc takes, the way QPDF / QPDFWriter do it:
   * the object table is keyed by object number (std::map<QPDFObjGen, ...>, iterated in key order): objects
     under their numbers in increasing order (generations are not part of the plain writer model: a reference
     `n g R` becomes ORef n);
   * values are kept as parsed (QPDFParser keeps explicit null dictionary entries: add_null ->
     dict.insert_or_assign); a stream keeps its dictionary (with /Length as read) and its raw bytes
     (--decode-level=none --compress-streams=n: the data is copied);
   * the trailer is impl::Writer::trimmed_trailer(): /ID /Encrypt /Prev /Index /W /Length /Filter /DecodeParms
     /Type /XRefStm erased, /Size kept (writeTrailer prints its own value for it);
   * /ID: impl::Writer::generateID with cfg.static_id(): id2 = the static bytes; id1 = getOriginalID1() =
     the string trailer["/ID"][0] (indirect objects resolved), or id2 when that is absent, not a string, or
     the EMPTY string ("Note: keep /ID from old file even if --static-id was given").
   Dictionaries of `doc` list their entries in print order, which in qpdf is std::map key order; the file order
   is kept here (a file written by the plain writer has them in key order already, /Length last in stream
   dictionaries, where write_doc's drop_length removes it and the writer appends the new one).
   No proofs in this file. *)
From QV Require Import Base.Bytes File.StrictSyntax File.ReadStrict Obj.Queue Obj.WriterModel Obj.WmPrinters Sys.EnvModel.
Local Open Scope N_scope.

(* parsed value -> writer-model value *)
Fixpoint fx_of_pobj (p : pobj) : obj :=
  match p with
  | SpNull => ONull
  | SpBool b => OBool b
  | SpInt z => OInt z
  | SpReal s => OReal s
  | SpStr s => OStr s
  | SpName n => OName n
  | SpArr l => OArr (map fx_of_pobj l)
  | SpDict d => ODict (map (fun kv => (fst kv, fx_of_pobj (snd kv))) d)
  | SpRef n _ => ORef n
  end.

Definition fx_entry (kv : list N * pobj) : list N * obj := (fst kv, fx_of_pobj (snd kv)).

(* the raw bytes of a stream: /Length bytes from the first data byte *)
Definition fx_indirect (out : list N) (so : sobj) : indirect :=
  {| i_val := fx_of_pobj (so_val so);
     i_stream := match so_stream so with
                 | Some (doff, len) => Some (firstn (N.to_nat len) (skipn (N.to_nat doff) out))
                 | None => None
                 end |}.

Definition fx_max_num (l : list sobj) : N := fold_left (fun m so => N.max m (so_num so)) l 0.

(* the object table in key order: for every number 1..max the object the reader found under it *)
Definition fx_slot (out : list N) (l : list sobj) (k : N) : list (N * indirect) :=
  match find (fun so => so_num so =? k) l with
  | Some so => [(k, fx_indirect out so)]
  | None => []
  end.
Definition fx_objects (out : list N) (l : list sobj) : list (N * indirect) :=
  flat_map (fx_slot out l) (map N.of_nat (seq 1 (N.to_nat (fx_max_num l)))).

(* trimmed_trailer() *)
Definition fx_k_ID : list N := [73; 68].
Definition fx_owned_keys : list (list N) :=
  [ fx_k_ID;                                                  (* /ID *)
    [69; 110; 99; 114; 121; 112; 116];                        (* /Encrypt *)
    [80; 114; 101; 118];                                      (* /Prev *)
    [73; 110; 100; 101; 120];                                 (* /Index *)
    [87];                                                     (* /W *)
    [76; 101; 110; 103; 116; 104];                            (* /Length *)
    [70; 105; 108; 116; 101; 114];                            (* /Filter *)
    [68; 101; 99; 111; 100; 101; 80; 97; 114; 109; 115];      (* /DecodeParms *)
    [84; 121; 112; 101];                                      (* /Type *)
    [88; 82; 101; 102; 83; 116; 109] ].                       (* /XRefStm *)
Definition fx_owned (k : list N) : bool := existsb (beqb k) fx_owned_keys.
Definition fx_trim (t : list (list N * obj)) : list (list N * obj) :=
  filter (fun kv => negb (fx_owned (fst kv))) t.

(* QPDFObjectHandle resolution of an indirect reference (a stream is neither an array nor a string) *)
Definition fx_resolve (objs : list (N * indirect)) (o : obj) : obj :=
  match o with
  | ORef id => match find_obj objs id with
               | Some i => match i_stream i with None => i_val i | Some _ => ONull end
               | None => ONull
               end
  | _ => o
  end.

(* getOriginalID1(): String id0 = trailer["/ID"][0]; "" when there is no such string. BaseHandle::operator[](size_t):
   an array gives its element (null past the end); any other non-null object counts as a one-element array *)
Definition fx_original_id1 (objs : list (N * indirect)) (trailer : list (list N * obj)) : list N :=
  match find (fun kv => beqb (fst kv) fx_k_ID) trailer with
  | Some (_, v) =>
      match fx_resolve objs v with
      | OArr (e :: _) => match fx_resolve objs e with OStr s => s | _ => [] end
      | OStr s => s        (* BaseHandle::operator[](0) of a non-array, non-null object is the object itself *)
      | _ => []
      end
  | None => []
  end.

Definition fx_doc_of_file (out : list N) (f : sfile) : doc :=
  let objs := fx_objects out (sf_objs f) in
  let tr := map fx_entry (sf_trailer f) in
  {| d_objects := objs;
     d_trailer := fx_trim tr;
     d_version := sf_version f;
     d_id1 := generate_id1 (fx_original_id1 objs tr) static_id;
     d_id2 := static_id |}.

(* one generation: read the bytes strictly, build the document, write it in the plain mode.
   None = the strict reader refuses the bytes (never happens on the writer model's own output: C01) *)
Definition fx_read (out : list N) : option doc :=
  match read_strict out with
  | RsOk f => Some (fx_doc_of_file out f)
  | RsErr _ _ => None
  end.
Definition fx_write (d : doc) : list N := write_doc wm_unparse_string wm_unparse_name d.
Definition fx_regen (out : list N) : option (list N) :=
  match fx_read out with Some d => Some (fx_write d) | None => None end.

(* the three generations from a document: g1, g2, g3 *)
Definition fx_gens (d : doc) : list N * option (list N) * option (list N) :=
  let g1 := fx_write d in
  let g2 := fx_regen g1 in
  (g1, g2, match g2 with Some b => fx_regen b | None => None end).

(* ---- the writer's input seen through the environment model (Sys/EnvModel.v): in the plain static-id mode the
   two /ID strings are generate_id1 / generate_id2 of IdStatic; everything else of the document is the input ---- *)
Definition fx_with_ids (md5 : list N -> list N) (e : env) (original_id1 det_data : list N) (info : list (list N))
           (d : doc) : doc :=
  let id2 := match generate_id2 md5 IdStatic false e det_data info with Some x => x | None => [] end in
  {| d_objects := d_objects d; d_trailer := d_trailer d; d_version := d_version d;
     d_id1 := generate_id1 original_id1 id2; d_id2 := id2 |}.
Definition fx_plain_write (md5 : list N -> list N) (e : env) (original_id1 det_data : list N) (info : list (list N))
           (d : doc) : list N :=
  fx_write (fx_with_ids md5 e original_id1 det_data info d).

(* ---- what reading the writer's own output gives, computed on the document (no file involved): the objects the
   queue wrote, in writing order, under their new numbers, references renumbered, null-valued dictionary entries gone
   (the printer skips them), /Length of a stream replaced by the printed one at the end of its dictionary; the trailer
   without null-valued and writer-owned entries, /Size = number of objects + 1; id1 kept unless empty. Theorem
   fx_read_write (C09ProofsB.v): fx_read (fx_write d) = Some (fx_norm d). ---- *)
Fixpoint fx_rn (objs : list (N * indirect)) (ren : N -> N) (o : obj) : obj :=
  match o with
  | ORef id => ORef (ren id)
  | OArr l => OArr (map (fx_rn objs ren) l)
  | ODict d => ODict (flat_map (fun kv => if is_null_val objs (snd kv) then [] else [(fst kv, fx_rn objs ren (snd kv))]) d)
  | _ => o
  end.

Definition fx_ren (d : doc) (x : N) : N :=
  match renumber (graph_of d) (roots_of d) x with Some n => n | None => 0 end.

Definition fx_len_entry (data : list N) : list N * obj := (k_Length, OInt (Z.of_nat (length data))).

Definition fx_norm_val (d : doc) (i : indirect) : obj :=
  match i_stream i with
  | None => fx_rn (d_objects d) (fx_ren d) (i_val i)
  | Some data =>
      match fx_rn (d_objects d) (fx_ren d) (drop_length (i_val i)) with
      | ODict l => ODict (l ++ [fx_len_entry data])
      | v => v
      end
  end.

Definition fx_norm_obj (d : doc) (id : N) : N * indirect :=
  (fx_ren d id,
   match find_obj (d_objects d) id with
   | Some i => {| i_val := fx_norm_val d i; i_stream := i_stream i |}
   | None => null_indirect
   end).

Definition fx_norm_entry (d : doc) (kv : list N * obj) : list (list N * obj) :=
  if is_null_val (d_objects d) (snd kv) || fx_owned (fst kv) then []
  else [(fst kv, if beqb (fst kv) k_Size
                 then OInt (Z.of_N (N.of_nat (length (written (graph_of d) (roots_of d))) + 1))
                 else fx_rn (d_objects d) (fx_ren d) (snd kv))].

Definition fx_norm (d : doc) : doc :=
  {| d_objects := map (fx_norm_obj d) (written (graph_of d) (roots_of d));
     d_trailer := flat_map (fx_norm_entry d) (d_trailer d);
     d_version := d_version d;
     d_id1 := generate_id1 (d_id1 d) static_id;
     d_id2 := static_id |}.

(* ---- the normal form of the plain writer (decidable parts are executable: fx_normal_b) ---- *)
Definition fx_ids_1n (n : nat) : list N := map N.of_nat (seq 1 n).

(* no dictionary entry, at any depth, has a null value (explicit null, or a reference to a null / absent object) *)
Fixpoint fx_nonull (objs : list (N * indirect)) (o : obj) : bool :=
  match o with
  | OArr l => forallb (fx_nonull objs) l
  | ODict d => forallb (fun kv => negb (is_null_val objs (snd kv)) && fx_nonull objs (snd kv)) d
  | _ => true
  end.

(* a stream's dictionary ends with the /Length the writer printed (the actual length) and has no other /Length *)
Definition fx_stream_shape (i : indirect) : bool :=
  match i_stream i with
  | None => true
  | Some data =>
      match i_val i with
      | ODict dd =>
          match rev' dd with
          | (k, OInt z) :: before =>
              beqb k k_Length && (z =? Z.of_nat (length data))%Z
              && forallb (fun kv => negb (beqb (fst kv) k_Length)) before
          | _ => false
          end
      | _ => false
      end
  end.

Definition fx_normal_b (d : doc) : bool :=
  let n := length (d_objects d) in
  list_eqb N.eqb (map fst (d_objects d)) (fx_ids_1n n)
  && list_eqb N.eqb (written (graph_of d) (roots_of d)) (fx_ids_1n n)
  && forallb (fun kv => fx_nonull (d_objects d) (i_val (snd kv)) && fx_stream_shape (snd kv)) (d_objects d)
  && fx_nonull (d_objects d) (ODict (d_trailer d))
  && forallb (fun kv => negb (fx_owned (fst kv))) (d_trailer d)
  && match find (fun kv => beqb (fst kv) k_Size) (d_trailer d) with
     | Some (_, OInt z) => (z =? Z.of_nat (S n))%Z
     | _ => false
     end
  && list_eqb N.eqb (d_id2 d) static_id
  && negb (match d_id1 d with [] => true | _ => false end).
