(* C13 extension - one insertion of a page of the OTHER document, under explicit hypotheses (a conditional single-step
   result: the history theorems of C13ProofsH.v do not include it, see the note at pages_refine_list). *)
From QV Require Import Base.Bytes Struct.PgModel Struct.PgSpec Struct.C13ProofsA Struct.C13ProofsB Struct.PgxSpec Struct.PgxModel Struct.PgxOracle
  Struct.C13ProofsC Struct.C13ProofsD Struct.C13ProofsE Struct.C13ProofsF Struct.C13ProofsG.
Local Open Scope N_scope.

Lemma pgi_get_put_other : forall w b d p, b <> d -> pg_get (pg_put w d p) b = pg_get w b.
Proof. intros [x y] [] [] p H; try congruence; reflexivity. Qed.

(* FULL STATEMENT ("insertions of pages from other documents ... agree with the list model"): inside histories this needs
   two more invariants (dictionaries have distinct keys; a memoised copy still looks like its source), see
   pages_refine_list.  PROVED HERE: one such insertion, when the page has not been copied into this document before, the
   source's page cache is filled (one obtains a page handle from getAllPages), the copy succeeds and the source page's
   dictionary has distinct keys: both documents stay in the invariant, the source's list is unchanged, the destination's
   list gets the page's content marker at the requested position, as a NEW object (the copy). *)
Lemma foreign_page_insert_lemma : forall w d i pos Kd Ks di w' e,
  pgx_st (pg_get w d) Kd -> pgx_st (pg_get w (negb d)) Ks -> pd_all (pg_get w (negb d)) <> [] ->
  pg_omap_wf (pg_get w d) -> pg_omap_find (pd_omap (pg_get w d)) i = None ->
  pg_lookup (pd_store (pg_get w (negb d))) i = Some (PcObj (PvDict di)) -> pgx_plain di ->
  pg_insertable w d (PhObj (negb d) i) = true -> (0 <= pos <= pg_len Kd)%Z ->
  pg_insert w d (PhObj (negb d) i) pos = (w', e) -> e = None ->
  (forall di', pg_lookup (pd_store (pg_get w' (negb d))) i = Some (PcObj (PvDict di')) -> NoDup (map fst di')) ->
  exists l, ~ In l Kd /\
    pgx_st (pg_get w' d) (pg_list_ins Kd (Z.to_nat pos) l) /\
    pgx_marks (pg_get w' d) = pgsp_insert (pgx_marks (pg_get w d)) (Z.to_nat pos) (pg_mark (pd_store (pg_get w (negb d))) i) /\
    pgx_st (pg_get w' (negb d)) Ks /\ pgx_marks (pg_get w' (negb d)) = pgx_marks (pg_get w (negb d)).
Proof.
  intros w d i pos Kd Ks di w' e Hstd Hsts Hsall Hwf Hnew Hdi Hpl Hins Hpos Hrun He Hnd.
  set (b := negb d) in *. assert (Hbd : b <> d) by (unfold b; destruct d; discriminate).
  assert (Hbeq : Bool.eqb b d = false) by (apply Bool.eqb_false_iff; exact Hbd).
  (* the operand is a leaf dictionary *)
  assert (Hnorm : pg_norm w (PhObj b i) = PhObj b i) by (unfold pg_norm; rewrite Hdi; reflexivity).
  assert (Hld : pgx_leafy di).
  { unfold pg_insertable in Hins. rewrite Hnorm in Hins.
    assert (Hn : pg_is_null (pd_store (pg_get w b)) (PvRef i) = false) by (unfold pg_is_null; rewrite Hdi; reflexivity).
    destruct (pgx_ins_formula _ _ Hn Hins) as (_ & Ht & Hk & Hc).
    eapply (pgx_insertable_dict (pd_store (pg_get w b)) (PvRef i) di); [cbn [pg_rv]; rewrite Hdi; reflexivity|exact Hpl|exact Ht|exact Hk|exact Hc]. }
  (* flattenPagesTree of the destination *)
  destruct (pgx_flatten_st _ Kd Hstd) as (p1 & Hfl & Hf1 & Hall1 & Hpi1 & Hsim1 & Hr1 & Ho1 & Hg1 & Hinv1).
  unfold pg_insert in Hrun. rewrite Hins in Hrun. cbn [negb] in Hrun. rewrite Hfl in Hrun.
  assert (Hnorm1 : pg_norm (pg_put w d p1) (PhObj b i) = PhObj b i).
  { unfold pg_norm. rewrite (pgi_get_put_other w b d p1 Hbd), Hdi. reflexivity. }
  rewrite Hnorm1, Hbeq in Hrun. rewrite (pgi_get_put_other w b d p1 Hbd) in Hrun.
  (* pushInheritedAttributesToPage of the source *)
  destruct (pgx_push_st _ Ks Hsts) as (s1 & Epush & Hsts1 & Hsims). rewrite Epush in Hrun.
  assert (Hs1all : pd_all s1 <> []).
  { destruct (pgx_push_flat _ Ks (pgx_st_flat _ _ Hsts) (pgx_st_all _ _ Hsts)) as (s1' & Ep' & _ & Ha' & _). rewrite Epush in Ep'. inversion Ep'. subst s1'.
    destruct Ha' as [Ha'|[_ ->]]; [|exact Hsall]. rewrite Ha'. destruct (pgx_st_all _ _ Hsts) as [E|E]; congruence. }
  rewrite pg_get_put_same in Hrun.
  assert (Hgd : pg_get (pg_put (pg_put w d p1) b s1) d = p1).
  { rewrite (pgi_get_put_other _ d b s1) by congruence. apply pg_get_put_same. }
  rewrite Hgd in Hrun.
  (* the copy *)
  assert (Hwf1 : pg_omap_wf p1).
  { destruct Hwf as [A B]. split; rewrite Ho1; [|exact B]. intros og l Hl. eapply pgx_sim_some; [exact Hsim1|eapply A; exact Hl]. }
  pose proof (copy_source_unchanged_lemma s1 p1 i Hs1all) as Hsrc.
  pose proof (pgz_copied_result s1 p1 i) as Hres.
  pose proof (pgz_copied_dst_flat s1 p1 i Kd Hf1) as Hf2.
  destruct (pgz_copied_dst_fields s1 p1 i) as (Hr2 & Ha2 & Hp2 & _ & _).
  pose proof (fun j => pgz_copied_dst_mark s1 p1 i j) as Hmk2.
  pose proof (fun j dd => pgz_frame_dict s1 p1 i j dd) as Hfr2.
  destruct (pg_copied s1 p1 i) as [[[s2 p2] e2] r]. cbn [fst snd] in *. subst s2.
  destruct e2 as [x|]; [inversion Hrun; subst; discriminate|].
  rewrite pg_get_put_same in Hrun.
  destruct r as [| | |l| |]; try (unfold pg_insert_local in Hrun; cbn [pg_insert_dup] in Hrun;
    destruct ((pos <? 0)%Z || (pg_len (pd_all p2) <? pos)%Z); inversion Hrun; subst; discriminate).
  specialize (Hres l Hs1all Hwf1 eq_refl eq_refl).
  destruct (pgx_sim_dict _ _ _ _ Hsims Hdi) as (di1 & Edi1 & Sdi1).
  pose proof (pgx_leafy_sim _ _ Hld Sdi1) as Hld1.
  destruct Hres as [(v & Ev & El2 & Hl1)|[(dd & xx & kk & Es)|(Hm & _)]];
    [|rewrite Edi1 in Es; discriminate|rewrite Ho1, Hnew in Hm; discriminate].
  rewrite Edi1 in Ev. inversion Ev. subst v. clear Ev.
  rewrite pgz_rename_dict_eq in El2.
  (* the source after the call is s1: its page dictionary has distinct keys by hypothesis *)
  assert (Hinv2 : pg_inv p2).
  { eapply pgx_inv_of_st; [exact Hf2|congruence|]. unfold pgx_posinv in *. rewrite Hp2. exact Hpi1. }
  pose proof Hf2 as (pn & dn & Hroot2 & Hpn2 & Hkids2 & Hcount2 & Hpar2 & Hpnroot2 & Hpnk2 & Hrootk2 & Hnd2 & Hleaf2 & Hinvf2).
  (* l was absent or null before the copy: it is not a page, the node or the catalog *)
  assert (Hlnull : forall j dd, pg_lookup (pd_store p1) j = Some (PcObj (PvDict dd)) -> j <> l).
  { intros j dd Ej ->. destruct Hl1 as [H|H]; [congruence|unfold pg_is_null in H; rewrite Ej in H; discriminate]. }
  pose proof Hf1 as (pn1 & dn1 & Hroot1 & Hpn1 & _ & _ & _ & _ & _ & _ & _ & Hleaf1 & _).
  assert (pn1 = pn).
  { assert (pg_root_pages p2 = pg_root_pages p1) as E.
    { apply pg_root_pages_ext; [exact Hr2|]. destruct (pg_lookup (pd_store p1) (pd_root p1)) as [[[]|]|] eqn:Er;
        try (unfold pg_root_pages, pg_hget in Hroot1; cbn [pg_rv] in Hroot1; rewrite Er in Hroot1; discriminate).
      rewrite (Hfr2 _ _ Er). reflexivity. }
    rewrite Hroot2, Hroot1 in E. inversion E. reflexivity. }
  subst pn1.
  assert (Hlpn : l <> pn) by (intros E; apply (Hlnull pn dn1 Hpn1); congruence).
  assert (Hlroot : l <> pd_root p2).
  { rewrite Hr2. intros E. pose proof (pg_root_exists p1 pn Hroot1) as HH.
    destruct (pg_lookup (pd_store p1) (pd_root p1)) as [[v0|]|] eqn:Er; try congruence;
      unfold pg_root_pages, pg_hget in Hroot1; cbn [pg_rv] in Hroot1; rewrite Er in Hroot1; try discriminate.
    destruct v0; try discriminate. apply (Hlnull _ _ Er). congruence. }
  assert (HlK : ~ In l Kd).
  { intros Hin. destruct (Hleaf1 l Hin) as (dk & Ek & _). exact (Hlnull l dk Ek eq_refl). }
  destruct (pg_insert_local_ok p2 l pos Hinv2) as (p3 & ni & Hrun3 & Hi3 & Hall3 & Hnin & _ & Hninew & Hr3 & _ & _ & Hmk3).
  { rewrite El2. discriminate. } { exact Hlroot. } { rewrite Hroot2. intros E. inversion E. congruence. }
  { intros d0 x k E. rewrite El2 in E. discriminate. } { rewrite Ha2, Hall1. exact Hpos. }
  assert (Hnil : ni = l) by (apply Hninew; rewrite Ha2, Hall1; exact HlK). subst ni.
  rewrite Hrun3 in Hrun. inversion Hrun. subst w' e. clear Hrun.
  specialize (Hnd _ ltac:(rewrite (pgi_get_put_other _ b d p3 Hbd), (pgi_get_put_other _ b d p2 Hbd), pg_put_put, pg_get_put_same; exact Edi1)).
  pose proof (pgz_rename_leafy (pd_store s1) (pd_omap p2) di1 Hnd Hld1) as Hldc.
  destruct (pgx_insert_local_edit p2 l pos pn Hroot2) as [Hed _]; [rewrite Hpn2; discriminate|exact Hlpn|rewrite Ha2, Hall1; exact Hpos|].
  rewrite Hrun3 in Hed. cbn [fst] in Hed.
  assert (Hf3 : pgx_flat p3 (pd_all p3)).
  { eapply (pgx_flat_of_inv_edit p2 p3 Kd pn Hf2 Hroot2 Hi3 Hr3 Hed).
    intros k Hk. rewrite Hall3, Ha2, Hall1 in Hk. apply pg_In_ins in Hk; [|unfold pg_len in Hpos; lia].
    destruct Hk as [->|Hk].
    - eapply pgx_leafy_edit; [exact Hed|exact Hlpn|exact El2|exact Hldc].
    - destruct (Hleaf2 k Hk) as (dk & Ek & Lk). eapply pgx_leafy_edit; [exact Hed| |exact Ek|exact Lk]. intros ->. contradiction. }
  exists l. split; [exact HlK|].
  rewrite pg_get_put_same, (pgi_get_put_other _ b d p3 Hbd), (pgi_get_put_other _ b d p2 Hbd), pg_put_put, pg_get_put_same.
  split; [|split; [|split; [exact Hsts1|eapply pgx_marks_st_sim; eassumption]]].
  - rewrite <- Hall1, <- Ha2, <- Hall3. apply pgx_st_of_inv; assumption.
  - rewrite (pgx_marks_flat_all p3 _ Hf3 eq_refl), Hmk3.
    assert (pg_marks p2 = pgx_marks (pg_get w d)) as ->.
    { unfold pg_marks. rewrite Ha2, Hall1. rewrite <- (pgx_marks_st_sim _ _ Kd Hstd (conj Hf1 (or_intror (conj Hall1 Hpi1))) Hsim1).
      unfold pgx_marks. rewrite (pgx_K_flat _ _ Hf1). apply map_ext_in. intros k Hk. destruct (Hleaf1 k Hk) as (dk & Ek & _).
      apply Hmk2; [rewrite Ek; discriminate|unfold pg_is_null; rewrite Ek; reflexivity]. }
    f_equal. rewrite (pg_mark_obj _ _ _ El2), <- pgz_rename_dict_eq, (pgz_rename_mark _ _ _ Hnd).
    rewrite <- (pg_mark_obj _ _ _ Edi1). unfold pg_mark. rewrite (pgx_sim_mark _ _ i Hsims); [reflexivity|rewrite Hdi; discriminate].
Qed.
