# C03, file-structure part: valid PDF files spelled with every freedom ISO 32000-1 7.5 allows (classic tables
# with subsections, xref streams with arbitrary /W and /Index, object streams with /Extends, hybrid-reference
# sections, incremental updates that replace, free and re-use objects, junk before the header, EOL choices) with
# the generator's ground truth; qpdf's view (--json-output, --show-xref, exit status, warnings) must equal it.
# The extracted strict reader (specification) reads the same files and must agree with the ground truth too;
# the extracted model of qpdf's section merging (coq/File/XrefModel.v) must agree with --show-xref.
import os, re, zlib
import common, filecheck, pdfgen, dociso
from pdfgen import Name, Ref, Str, Real, Stream, D, N


class Spelling:
    """random legal spellings of tokens and white space"""

    def __init__(self, rng, level):
        self.rng, self.level = rng, level

    def ws(self):
        r = self.rng.random()
        if r > self.level:
            return b" "
        return self.rng.choice([b" ", b"\n", b"\r\n", b"\t ", b"  ", b" %c\n", b"\r", b"\x0c", b" \x00"])

    def ws1(self):
        return self.ws()

    def integer(self, v):
        s = str(abs(v))
        if self.rng.random() < self.level * 0.3:
            s = "0" * self.rng.randint(1, 3) + s
        if v < 0:
            return ("-" + s).encode()
        return (("+" if self.rng.random() < self.level * 0.2 else "") + s).encode()

    def string(self, b):
        r = self.rng.random()
        if r < 0.3 * self.level:
            h = b.hex()
            if self.rng.random() < 0.5:
                h = h.upper()
            if self.rng.random() < 0.5 and h:
                k = self.rng.randrange(len(h))
                h = h[:k] + " \n" + h[k:]
            if len(h) % 2 == 0 and h.endswith("0") and self.rng.random() < 0.5:
                h = h[:-1]                                   # odd number of digits: final 0 implied
            return b"<" + h.encode() + b">"
        out = bytearray(b"(")
        for c in b:
            q = self.rng.random()
            if c in b"()\\":
                out += b"\\" + bytes([c])
            elif c == 13:
                out += b"\\r"
            elif c == 10:
                out += b"\\n" if q < 0.7 else b"\n"
            elif q < 0.15 * self.level:
                out += b"\\%03o" % c
            elif q < 0.2 * self.level and not (48 <= c <= 55):
                out += b"\\%o" % c if False else b"\\%03o" % c
            elif q < 0.25 * self.level:
                out += b"\\\n" + bytes([c]) if c not in b"()\\\r\n" else bytes([c]) if c not in b"()\\\r" else b"\\" + bytes([c])
            else:
                out.append(c)
        out += b")"
        return bytes(out)

    def name(self, b):
        out = bytearray(b"/")
        for c in b:
            if c in pdfgen.REGULAR and self.rng.random() > 0.15 * self.level:
                out.append(c)
            else:
                out += b"#%02x" % c if self.rng.random() < 0.5 else b"#%02X" % c
        return bytes(out)


def be(v, w):
    return v.to_bytes(w, "big") if w else b""


class Gen:
    def __init__(self, rng, level):
        self.rng = rng
        self.sp = Spelling(rng, level)
        self.level = level

    def value(self, depth=0):
        rng = self.rng
        k = rng.randrange(9 if depth < 2 else 6)
        if k == 0:
            return rng.randint(-1000, 100000)
        if k == 1:
            return Real(rng.choice(["1.5", "-0.25", "3.", ".5", "0.0", "+2.50", "-.5", "00.125"]))
        if k == 2:
            return Str(bytes(rng.choice(b"abcXYZ 019()\\\r\n\t") for _ in range(rng.choice([0, 1, 4, 12]))))
        if k == 3:
            return Name(bytes(rng.choice(b"AZaz09#/ ()%\x7f\xe9") for _ in range(rng.randint(1, 5))))
        if k == 4:
            return rng.choice([True, False, None])
        if k == 5:
            # binary string: a control character forces the binary (b:) JSON form
            return Str(bytes([1]) + bytes(rng.randrange(256) for _ in range(rng.choice([1, 3, 8]))))
        if k == 6:
            return [self.value(depth + 1) for _ in range(rng.randint(0, 4))]
        return {b"K%d" % i: self.value(depth + 1) for i in range(rng.randint(0, 3))}

    def build(self, idx):
        """returns (bytes, truth{num: (gen, value|Stream)}, freed set, meta)"""
        rng, sp = self.rng, self.sp
        # nested page trees: attributes inherited from the root through intermediate nodes that do not set them
        npages = rng.choice([1, 2, 3, 5, 7])
        doc = pdfgen.page_doc(npages, marker="S", kids_levels=rng.choice([1, 2, 2]),
                              rotate={2: 90} if rng.random() < 0.3 else None)
        objs = {n: (0, v) for n, v in doc.objects.items()}
        structural = set(objs)            # page tree, fonts, contents: updates leave the document's page structure alone
        nxt = max(objs) + 1
        extras = {}
        for i in range(rng.choice([2, 5, 9])):
            v = self.value()
            if rng.random() < 0.2:
                raw = bytes(rng.choice(b"data \n") for _ in range(rng.choice([0, 5, 60])))
                v = Stream(D(K=i), raw)
            objs[nxt] = (0, v)
            extras[b"E%d" % i] = Ref(nxt)
            nxt += 1
        objs[1][1][b"Extras"] = extras
        form = rng.choice(["table", "table", "stream", "hybrid", "hybrid-free"])
        junk = rng.choice([b"", b"", b"x", b"junk before the header\n" * 3, b"j" * 1023])
        out = bytearray()
        out += b"%PDF-1." + (b"5" if form != "table" else b"4") + b"\n%\xe2\xe3\xcf\xd3\n"
        sections = []           # abstract sections, oldest first: {"table": [(num, entry)], "stm": [...]}
        meta = {"form": form, "junk": len(junk), "updates": 0, "npages": npages}
        self.chain = False
        gens = {n: 0 for n in objs}
        live = dict(objs)
        freed = {}

        def emit_obj(num, gen, v):
            off = len(out)
            w = sp.ws1
            out.extend(str(num).encode() + w() + str(gen).encode() + w() + b"obj" + sp.ws())
            if isinstance(v, Stream):
                d = dict(v.d)
                d[b"Length"] = len(v.data)
                eol = rng.choice([b"\n", b"\r\n"])
                out.extend(pdfgen.ser(d, None, sp) + sp.ws() + b"stream" + eol + v.data + rng.choice([b"\n", b"\r\n", b""]) + b"endstream" + sp.ws() + b"endobj\n")
            else:
                out.extend(pdfgen.ser(v, None, sp) + sp.ws() + b"endobj" + rng.choice([b"\n", b"\r\n", b" \n"]))
            return off

        def emit_objstm(members, num, extends=None):
            """members: list of (objnum, value); returns offset"""
            bodies, pairs, pos = [], [], 0
            for on, v in members:
                b = pdfgen.ser(v, None, sp) + rng.choice([b"\n", b" ", b"\r\n"])
                pairs.append((on, pos))
                bodies.append(b)
                pos += len(b)
            header = b"".join(b"%d %d%s" % (on, o, rng.choice([b" ", b"\n"])) for on, o in pairs)
            data = header + b"".join(bodies)
            d = {b"Type": N("ObjStm"), b"N": len(members), b"First": len(header)}
            if extends is not None:
                d[b"Extends"] = Ref(extends)
            r = rng.random()
            if r < 0.4:
                data = zlib.compress(data)
                d[b"Filter"] = N("FlateDecode")
            elif r < 0.55:
                # filter chain whose parameter array is not symmetric (7.4.1: the i-th parameter belongs to the i-th filter)
                cols = rng.choice([1, 5, 16])
                data = data + b" " * (-len(data) % cols)
                enc = b"".join(b"\x00" + data[i:i + cols] for i in range(0, len(data), cols))
                data = zlib.compress(enc).hex().encode() + b">"
                d[b"Filter"] = [N("ASCIIHexDecode"), N("FlateDecode")]
                d[b"DecodeParms"] = [None, {b"Predictor": 12, b"Columns": cols}]
                self.chain = True
            return emit_obj(num, 0, Stream(d, data))

        def write_section(entries, size, prev, kind, xrefstm_entries=None, root=Ref(1)):
            """entries: {num: ('f', nextfree, gen) | ('n', off, gen) | ('c', stm, idx)}"""
            nonlocal nxt
            tr = {b"Size": size, b"Root": root}
            if prev is not None:
                tr[b"Prev"] = prev
            if kind == "table":
                stm_off = None
                if xrefstm_entries is not None:
                    # the /XRefStm stream is an ordinary object listed in the table
                    snum = size
                    size += 1
                    tr[b"Size"] = size
                    stm_off = len(out)
                    entries[snum] = ("n", stm_off, 0)
                    self._xref_stream(out, snum, xrefstm_entries, size, None, root, standalone=False)
                    tr[b"XRefStm"] = stm_off
                xoff = len(out)
                nums = sorted(entries)
                out.extend(b"xref" + rng.choice([b"\n", b"\r\n"]))
                # random contiguous subsections
                runs, cur = [], [nums[0]]
                for n in nums[1:]:
                    if n == cur[-1] + 1 and rng.random() > 0.25 * self.level:
                        cur.append(n)
                    else:
                        runs.append(cur)
                        cur = [n]
                runs.append(cur)
                for run in runs:
                    out.extend(b"%d %d\n" % (run[0], len(run)))
                    for n in run:
                        e = entries[n]
                        eol = rng.choice([b" \n", b"\r\n", b" \r"])
                        if e[0] == "f":
                            out.extend(b"%010d %05d f" % (e[1], e[2]) + eol)
                        else:
                            out.extend(b"%010d %05d n" % (e[1], e[2]) + eol)
                out.extend(b"trailer" + sp.ws() + pdfgen.ser(tr, None, sp) + b"\nstartxref\n%d\n%%%%EOF\n" % xoff)
                return xoff, size
            snum = size
            size += 1
            xoff = len(out)
            entries[snum] = ("n", xoff, 0)
            self._xref_stream(out, snum, entries, size, prev, root, standalone=True)
            out.extend(b"startxref\n%d\n%%%%EOF\n" % xoff)
            return xoff, size

        # ---- revision 0
        kind = "stream" if form == "stream" else "table"
        hidden = []
        if form in ("stream", "hybrid", "hybrid-free"):
            cand = [n for n, (g, v) in objs.items() if not isinstance(v, Stream) and n != 1]
            rng.shuffle(cand)
            hidden = sorted(cand[: max(1, len(cand) // 2)])
        entries = {0: ("f", 0, 65535)}
        for n in sorted(objs):
            if n not in hidden:
                entries[n] = ("n", emit_obj(n, 0, objs[n][1]), 0)
        stm_entries = None
        if hidden:
            half = len(hidden) // 2
            groups = [hidden[:half], hidden[half:]] if half and rng.random() < 0.5 else [hidden]
            prev_stm = None
            comp = {}
            for gidx, g in enumerate(groups):
                snum = nxt
                nxt += 1
                off = emit_objstm([(n, objs[n][1]) for n in g], snum, extends=prev_stm)
                for i, n in enumerate(g):
                    comp[n] = ("c", snum, i)
                if form == "stream":
                    entries[snum] = ("n", off, 0)
                else:
                    entries[snum] = ("n", off, 0)
                prev_stm = snum
            if form == "stream":
                entries.update(comp)
            else:
                stm_entries = dict(comp)
                for n in hidden:
                    if form == "hybrid-free":
                        entries[n] = ("f", 0, 65535)       # 7.5.8.4: hidden objects are listed free in the table
        size = nxt
        xoff, size = write_section(entries, size, None, kind, stm_entries)
        nxt = size
        sections.append((dict(entries), dict(stm_entries) if stm_entries else {}))
        # ---- incremental updates
        for u in range(rng.choice([0, 0, 1, 2])):
            meta["updates"] += 1
            entries = {}
            stm_entries = None
            cands = [n for n in live if n not in structural and not isinstance(live[n][1], Stream) and live[n][1] is not None]
            rng.shuffle(cands)
            # replace
            for n in cands[:2]:
                g = live[n][0]
                v = self.value()
                live[n] = (g, v)
                entries[n] = ("n", emit_obj(n, g, v), g)
            # free one (only objects nobody needs structurally: extras)
            ex = [r.n for r in live[1][1][b"Extras"].values() if r.n in live and r.n not in entries]
            if ex and rng.random() < 0.7:
                n = rng.choice(ex)
                g = live[n][0]
                del live[n]
                freed[n] = g + 1
                entries[n] = ("f", 0, g + 1)
                entries.setdefault(0, ("f", n, 65535))
            # re-use a freed number at the next generation (classic sections only: generation > 0 cannot be compressed)
            if freed and kind == "table" and rng.random() < 0.6:
                n = rng.choice(sorted(freed))
                g = freed.pop(n)
                v = self.value()
                live[n] = (g, v)
                entries[n] = ("n", emit_obj(n, g, v), g)
                # catalog keeps pointing at generation 0 of that number: a reference to a freed generation reads null
            # new object
            v = self.value()
            live[nxt] = (0, v)
            entries[nxt] = ("n", emit_obj(nxt, 0, v), 0)
            live[1][1].setdefault(b"Extras", {})
            newcat = dict(live[1][1])
            ne = dict(newcat[b"Extras"])
            ne[b"U%d" % u] = Ref(nxt)
            newcat[b"Extras"] = ne
            live[1] = (0, newcat)
            entries[1] = ("n", emit_obj(1, 0, newcat), 0)
            nxt += 1
            xoff, size = write_section(entries, nxt, xoff, kind, None)
            nxt = size
            sections.append((dict(entries), {}))
        data = junk + bytes(out)
        meta["sections"] = sections
        meta["size"] = nxt
        meta["chain"] = self.chain
        return data, live, freed, meta

    def _xref_stream(self, out, snum, entries, size, prev, root, standalone):
        rng = self.rng
        nums = sorted(entries)
        vals = []
        for n in nums:
            e = entries[n]
            vals.append((0, e[1], e[2]) if e[0] == "f" else ((1, e[1], e[2]) if e[0] == "n" else (2, e[1], e[2])))
        w1 = max(1, max((v[1].bit_length() + 7) // 8 for v in vals)) + rng.choice([0, 0, 1, 2])
        w2 = max(1, max((v[2].bit_length() + 7) // 8 for v in vals)) + rng.choice([0, 1])
        w0 = 0 if all(v[0] == 1 for v in vals) and rng.random() < 0.5 else rng.choice([1, 1, 2])
        runs, cur = [], [nums[0]]
        for n in nums[1:]:
            if n == cur[-1] + 1:
                cur.append(n)
            else:
                runs.append(cur)
                cur = [n]
        runs.append(cur)
        index = []
        for r in runs:
            index += [r[0], len(r)]
        data = b"".join(be(t, w0) + be(a, w1) + be(b, w2) for t, a, b in vals)
        d = {b"Type": N("XRef"), b"Size": size, b"W": [w0, w1, w2]}
        if index != [0, size] or rng.random() < 0.3:
            d[b"Index"] = index
        if standalone:
            d[b"Root"] = root
            if prev is not None:
                d[b"Prev"] = prev
        r = rng.random()
        if r < 0.35:
            cols = w0 + w1 + w2
            rows = [data[i:i + cols] for i in range(0, len(data), cols)]
            prevrow = bytes(cols)
            enc = bytearray()
            for row in rows:
                enc.append(2)
                enc += bytes((a - b) & 255 for a, b in zip(row, prevrow))
                prevrow = row
            data = zlib.compress(bytes(enc))
            d[b"Filter"] = N("FlateDecode")
            d[b"DecodeParms"] = {b"Predictor": 12, b"Columns": cols}
        elif r < 0.6:
            data = zlib.compress(data)
            d[b"Filter"] = N("FlateDecode")
        elif r < 0.72:
            # the same predictor behind an ASCIIHexDecode stage: parameters [null, parms]
            cols = w0 + w1 + w2
            rows = [data[i:i + cols] for i in range(0, len(data), cols)]
            prevrow = bytes(cols)
            enc = bytearray()
            for row in rows:
                enc.append(2)
                enc += bytes((a - b) & 255 for a, b in zip(row, prevrow))
                prevrow = row
            data = zlib.compress(bytes(enc)).hex().encode() + b">"
            d[b"Filter"] = [N("ASCIIHexDecode"), N("FlateDecode")]
            d[b"DecodeParms"] = [None, {b"Predictor": 12, b"Columns": cols}]
            self.chain = True
        d[b"Length"] = len(data)
        out.extend(b"%d 0 obj\n" % snum + pdfgen.ser(d, None, self.sp) + b"\nstream\n" + data + b"\nendstream\nendobj\n")


def same_value(a, b, livekeys=None):
    if livekeys is not None:
        # a reference to a freed or never defined object is the null object; a dictionary entry whose value is null is absent
        if isinstance(a, Ref) and (a.n, a.g) not in livekeys:
            a = None
        if isinstance(b, Ref) and (b.n, b.g) not in livekeys:
            b = None
    if isinstance(a, Stream) or isinstance(b, Stream):
        if not (isinstance(a, Stream) and isinstance(b, Stream)):
            return False
        da = {k: v for k, v in a.d.items() if k not in (b"Length", b"Filter", b"DecodeParms")}
        db = {k: v for k, v in b.d.items() if k not in (b"Length", b"Filter", b"DecodeParms")}
        return same_value(da, db, livekeys) and (b.data is None or a.data == b.data)
    if isinstance(b, tuple) and b and b[0] == "ustr":
        b = Str(b[1].encode("latin-1", "replace"))
    if a is None or b is None:
        return a is None and b is None
    if isinstance(a, bool) or isinstance(b, bool):
        return a is b
    if isinstance(a, int) and isinstance(b, int):
        return a == b
    if isinstance(a, Real) and isinstance(b, Real):
        return dociso.real_val(a) == dociso.real_val(b)
    if type(a) != type(b):
        return False
    if isinstance(a, (Name, Str)):
        return a.b == b.b
    if isinstance(a, Ref):
        return (a.n, a.g) == (b.n, b.g)
    if isinstance(a, list):
        return len(a) == len(b) and all(same_value(x, y, livekeys) for x, y in zip(a, b))
    if isinstance(a, dict):
        def isnull(v):
            return v is None or (livekeys is not None and isinstance(v, Ref) and (v.n, v.g) not in livekeys)
        ka = {k for k, v in a.items() if not isnull(v)}
        kb = {k for k, v in b.items() if not isnull(v)}
        return ka == kb and all(same_value(a[k], b[k], livekeys) for k in ka)
    return False


def abstract_chain(meta):
    """sections newest first in the runner's text form: obj:kind:a:b items"""
    def ent(n, e):
        return "%d:%s:%d:%d" % (n, e[0], e[1], e[2])
    secs = []
    for table, stm in reversed(meta["sections"]):
        secs.append(("S|" if meta["form"] == "stream" else "T|") + ",".join(ent(n, e) for n, e in sorted(table.items())) + "|" + ",".join(ent(n, e) for n, e in sorted(stm.items())))
    return ";".join(secs)


def run_part(chk):
    rng = chk.rng
    quick = chk.tier == "quick"
    runner = os.path.join(common.EXTRACT, "model_runner")
    wd = common.workdir("C03files")
    nfiles = 260 if quick else 8000
    files = []
    for i in range(nfiles):
        g = Gen(rng, rng.choice([0.0, 0.3, 0.7, 1.0]))
        data, live, freed, meta = g.build(i)
        p = os.path.join(wd, "s%d.pdf" % i)
        open(p, "wb").write(data)
        files.append((p, live, freed, meta, len(data)))
    # specification side: the strict reader must accept the generated files and agree with the ground truth
    sr = filecheck.strict_read([f[0] for f in files])
    spec_bad = []
    for (p, live, freed, meta, n), r in zip(files, sr):
        if meta["junk"] or meta.get("chain"):
            # the strict reader starts at offset 0 and decodes structural streams with FlateDecode (+ PNG predictor) only:
            # junk-prefixed files and files whose xref/object streams use a filter chain are judged through qpdf only
            continue
        if not r["ok"]:
            spec_bad.append({"file": p, "strict_reader": r, "form": meta["form"]})
            continue
        sd = filecheck.StrictDoc(r, p)
        for num, (gen, v) in live.items():
            got = sd.objs.get((num, gen))
            if ((num, gen) not in sd.objs) or not same_value(v, got, {(k, live[k][0]) for k in live if live[k][1] is not None}):
                spec_bad.append({"file": p, "object": num, "expected": repr(v)[:200], "strict_reader_value": repr(got)[:200], "form": meta["form"]})
                break
    if spec_bad:
        chk.violation({"kind": "correspondence-broken", "correspondence": "corr:C03:generator-vs-strict-reader", "differing_cases": len(spec_bad),
                       "first_cases": spec_bad[:3], "note": "the specification reader and the generator's ground truth disagree: one of the two is wrong (machinery)"},
                      no_input=True)

    def q(t):
        p = t[0]
        rc, so, se = common.run_qpdf([p, "--json-output", "--json-stream-data=inline", "-"])
        rc2, so2, se2 = common.run_qpdf(["--show-xref", p])
        # the page list is part of qpdf's view: loading it must not warn either (inherited attributes, /Kids, /Count)
        rc3, so3, se3 = common.run_qpdf(["--show-npages", p])
        rc4, so4, se4 = common.run_qpdf(["--check", p])
        if rc == 0 and not se.strip():
            if rc3 != 0 or se3.strip() or so3.strip() != str(t[3]["npages"]).encode():
                rc, se = (rc3 or 1), b"--show-npages: " + so3[:40] + b" " + se3
            elif rc4 != 0 or b"WARNING" in so4 + se4:
                rc, se = (rc4 or 1), b"--check: " + (so4 + se4)[-300:]
        return rc, so, se, so2
    res = common.par_map(q, files)
    nontriv = set()
    kinds = {}
    xlines, xmeta = [], []
    for (p, live, freed, meta, n), (rc, so, se, xr) in zip(files, res):
        kinds[meta["form"]] = kinds.get(meta["form"], 0) + 1
        sig = "C03:hybrid-hidden-free" if meta["form"] == "hybrid-free" else "c03file:%s" % meta["form"]
        case = {"file": p, "form": meta["form"], "junk_bytes": meta["junk"], "updates": meta["updates"], "size": n}
        if rc != 0 or se.strip():
            chk.violation(dict(case, kind="property-fails-on-implementation", why="a valid file is not read cleanly (exit %d / diagnostics)" % rc,
                               stderr=se.decode("latin-1")[-400:]), signature=sig)
            continue
        try:
            objs, trailer, m = pdfgen.load_qjson(so.decode("utf-8"))
        except Exception as e:
            chk.violation(dict(case, kind="property-fails-on-implementation", why="json output unreadable: %r" % e), signature=sig)
            continue
        bad = None
        for num, (gen, v) in live.items():
            got = objs.get((num, gen))
            if got is None and v is not None or (got is not None and not same_value(v, got, {(k, live[k][0]) for k in live if live[k][1] is not None})):
                bad = (num, gen, repr(v)[:200], repr(got)[:200])
                break
        if bad is None:
            for num in freed:
                for (on, og), got in objs.items():
                    if on == num and got is not None and not isinstance(got, Stream) and got not in (None,) and (on, og) not in [(k, live[k][0]) for k in live]:
                        bad = (num, og, "freed object must read as null", repr(got)[:200])
        if bad:
            chk.violation(dict(case, kind="property-fails-on-implementation", why="qpdf's view of object %d %d differs from the document the file denotes" % (bad[0], bad[1]),
                               expected=bad[2], got=bad[3]), signature=sig)
            continue
        nontriv.add(p)
        xlines.append("xrefmodel %d %s" % (meta["size"], abstract_chain(meta)))
        xmeta.append((case, xr, meta))
    # model tie: qpdf --show-xref vs the extracted model of the section merge
    xres = common.run_lines(runner, xlines, shards=4)
    tie = []
    for (case, xr, meta), o in zip(xmeta, xres):
        real = {}
        for line in xr.decode("latin-1").splitlines():
            m = re.match(r"(\d+)/(\d+): uncompressed; offset = (\d+)", line)
            if m:
                real[int(m.group(1))] = "n:%s:%s" % (int(m.group(3)) + 0, m.group(2))
            m = re.match(r"(\d+)/(\d+): compressed; stream = (\d+), index = (\d+)", line)
            if m:
                real[int(m.group(1))] = "c:%s:%s" % (m.group(3), m.group(4))
        model = {}
        for item in o.split(" ")[1:] if o.startswith("ok") else []:
            k, v = item.split("=")
            model[int(k)] = v
        # --show-xref prints offsets relative to the header: the generator's offsets are header-relative too
        if real != model:
            diff = [(k, real.get(k), model.get(k)) for k in sorted(set(real) | set(model)) if real.get(k) != model.get(k)]
            tie.append(dict(case, differs=diff[:6], model_output=o[:120]))
    if tie:
        chk.violation({"kind": "correspondence-broken", "correspondence": "corr:C03:xref-section-merge", "differing_cases": len(tie), "first_cases": tie[:3]},
                      no_input=True)
    chk.count("files-all-spellings", len(files), nontriv, samples=[{"file": os.path.basename(files[0][0]), "form": files[0][3]["form"], "updates": files[0][3]["updates"]}])
    chk.cov["parts"]["files-all-spellings"]["by_form"] = kinds
