#!/usr/bin/env python3
# Regenerates /verif/MANIFEST.json from the table below and validates it against the schema.
import json, os, sys
V = os.path.dirname(os.path.dirname(os.path.abspath(__file__)))
props = [json.loads(l) for l in open(os.path.join(V, "properties.jsonl"))]
ids = [p["id"] for p in props]

CLAIMED = {}
mdir = os.path.join(V, "tools", "manifest")
for fn in sorted(os.listdir(mdir)):
    if fn.endswith(".json"):
        CLAIMED[fn[:-5]] = json.load(open(os.path.join(mdir, fn)))
NOT_YET = "not claimed yet: the Coq model and correspondence for this property have not been built/validated in /verif at this commit (see DESIGN.md §5 for the plan)"

checks = []
for pid in ids:
    if pid in CLAIMED:
        c = CLAIMED[pid]
        checks.append({
            "property_id": pid,
            "quick_cmd": "./check %s --tier quick" % pid,
            "thorough_cmd": "./check %s --tier thorough" % pid,
            "evidence_file": "/verif/evidence/%s.json" % pid,
            "replay_cmd_template": "./check %s --replay {path}" % pid,
            "engine": "coq+correspondence",
            "level_claimed": {"category": "proof", "text": c["text"], "design_ref": c["design"]},
            "level_note": c["note"],
            "technique": c["technique"],
        })
m = {
 "version": 1,
 "setup_cmd": "./setup.sh",
 "hooks": {
   "guard": "QPDF_VERIF",
   "enable": "checks build /repo into /verif/_build/repo with -DQPDF_VERIF (cmake -DCMAKE_CXX_FLAGS); no guarded source hook exists at this commit, all drivers use the public API, private headers and the static library",
   "baseline_off_cmd": "cmake --build /repo/_build -j16 && ctest --test-dir /repo/_build -j8 --timeout 900",
   "source_commits": [],
   "add_only": True,
 },
 "engines": [{"name": "coq+correspondence", "path": "/verif/check", "serves_properties": sorted(CLAIMED),
              "kind_free_text": "Coq 8.16 development under /verif/coq (models, specifications, theorems), extracted to OCaml and run against the implementation built from /repo by C++ drivers and the qpdf CLI"}],
 "checks": checks,
 "not_applicable": [{"property_id": pid, "reason": NOT_YET} for pid in ids if pid not in CLAIMED],
 "notes": "Every check: builds /repo's working tree, rebuilds the Coq development (make -k) and re-checks Props/Properties_<id>.v, extracts, runs model + specification + implementation on the same cases. See DESIGN.md.",
}
json.dump(m, open(os.path.join(V, "MANIFEST.json"), "w"), indent=1)
try:
    import jsonschema
    jsonschema.validate(m, json.load(open("/root/.vp/MANIFEST.schema.json")))
    print("MANIFEST.json valid;", len(checks), "checks")
except ImportError:
    print("jsonschema not available; written without validation")
