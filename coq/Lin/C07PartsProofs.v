(* C07 - proofs about the model of calculateLinearizationData's classification (Lin/Parts.v). *)
From QV Require Import Base.Bytes Lin.Parts.
Local Open Scope N_scope.

Definition is_page0 (u : ouser) : bool := match u with OuPage n => n =? 0 | _ => false end.
Definition is_outlines_key (u : ouser) : bool :=
  match u with OuRootKey k => negb (open_document_key k) && pk_eq k pk_Outlines | _ => false end.
Definition is_root_user (u : ouser) : bool := match u with OuRoot => true | _ => false end.

Lemma fold_first : forall us a, la_first (fold_left lc_step us a) = la_first a || existsb is_page0 us.
Proof.
  induction us as [|u us IH]; intros a; cbn [fold_left existsb]; [rewrite orb_false_r; reflexivity|].
  rewrite IH. destruct u as [n|n|k|k|]; cbn [lc_step is_page0].
  - destruct (n =? 0); cbn [la_first]; [rewrite orb_true_r; reflexivity|reflexivity].
  - reflexivity.
  - destruct (pk_eq k pk_Encrypt); reflexivity.
  - destruct (open_document_key k); [reflexivity|]. destruct (pk_eq k pk_Outlines); reflexivity.
  - reflexivity.
Qed.

Lemma fold_outlines : forall us a, la_outlines (fold_left lc_step us a) = la_outlines a || existsb is_outlines_key us.
Proof.
  induction us as [|u us IH]; intros a; cbn [fold_left existsb]; [rewrite orb_false_r; reflexivity|].
  rewrite IH. destruct u as [n|n|k|k|]; cbn [lc_step is_outlines_key].
  - destruct (n =? 0); reflexivity.
  - reflexivity.
  - destruct (pk_eq k pk_Encrypt); reflexivity.
  - destruct (open_document_key k); cbn [negb andb]; [reflexivity|]. destruct (pk_eq k pk_Outlines); cbn [la_outlines]; [rewrite orb_true_r; reflexivity|reflexivity].
  - reflexivity.
Qed.

(* first_page_closure: an object (or object stream) with the first page among its users is emitted in
   part 4 or part 6 - provided it is not also reached from /Outlines while the outlines do not open with the
   document. *)
Lemma first_page_closure_partial_lemma : forall users uo,
  existsb is_page0 users = true -> (uo = true \/ existsb is_outlines_key users = false) ->
  lc_part uo (lc_classify users) = 4 \/ lc_part uo (lc_classify users) = 6.
Proof.
  intros users uo Hp Ho. unfold lc_classify, lc_decide.
  rewrite fold_first, fold_outlines, Hp. cbn [lc_acc0 la_first la_outlines orb].
  destruct (la_root _); [left; reflexivity|].
  destruct (existsb is_outlines_key users) eqn:Eo.
  - destruct Ho as [->|Hf]; [right; reflexivity|discriminate].
  - destruct (la_open _); [left; reflexivity|].
    cbn [andb]. destruct (_ && _ && _); right; reflexivity.
Qed.

(* ... and without that proviso it is false: the first page and /Outlines as users give part 9 (after /E).
   After filterCompressedObjects this is the situation of the object stream that holds a first-page font and
   the outline items. *)
Lemma first_page_closure_refuted_lemma : exists users,
  existsb is_page0 users = true /\ lc_part false (lc_classify users) = 9.
Proof. exists [OuPage 0; OuRootKey pk_Outlines]. split; vm_compute; reflexivity. Qed.

(* an object used by exactly one later page and by a catalog key that is not an open-document key is
   classified "other": part 9, no entry in the shared object table, not in the page's run *)
Lemma later_page_listed_refuted_lemma : exists users,
  In (OuPage 1) users /\ lc_classify users = LcOther /\ lc_part false (lc_classify users) = 9
  /\ lc_in_shared_table false (lc_classify users) = false.
Proof. exists [OuPage 1; OuRootKey [78; 97; 109; 101; 115]]. repeat split; try (left; reflexivity); vm_compute; reflexivity. Qed.

(* the categories are decided by the users alone: a private object of a later page is exactly an object
   with one later-page user and nothing else *)
Lemma other_page_private_lemma : forall n, 0 < n -> lc_classify [OuPage n] = LcOtherPagePrivate
  /\ lc_part false LcOtherPagePrivate = 7.
Proof.
  intros n Hn. split; [|reflexivity]. unfold lc_classify. cbn [fold_left lc_step].
  destruct (N.eqb_spec n 0); [lia|]. reflexivity.
Qed.
