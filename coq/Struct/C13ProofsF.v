(* C13 extension - the page operations from ANY cache state of a flattened clean tree (never filled, filled, flattened;
   empty page lists included), with updateAllPagesCache, pushInheritedAttributesToPage, getAllPages, replaceObject with
   indirect handles and reserved objects inside the histories. *)
From QV Require Import Base.Bytes Struct.PgModel Struct.PgSpec Struct.C13ProofsA Struct.PgxModel Struct.PgxOracle Struct.C13ProofsC Struct.C13ProofsE.
Local Open Scope N_scope.

(* ------------------------------------------------------------------ edits made by insert / erase *)
(* s' is s after page-tree edits on the node pn: pn changed only in /Kids and /Count, every other dictionary only in
   /Parent, everything else is as it was, new objects may have appeared *)
Definition pgx_edit (pn : N) (s s' : pg_store) : Prop :=
  forall j, match pg_lookup s j with
            | Some (PcObj (PvDict d)) =>
                exists d', pg_lookup s' j = Some (PcObj (PvDict d')) /\
                  forall k, (if j =? pn then k <> pgk_Kids /\ k <> pgk_Count else k <> pgk_Parent) -> pg_dget d' k = pg_dget d k
            | Some c => pg_lookup s' j = Some c
            | None => True
            end.

Lemma pgx_edit_refl : forall pn s, pgx_edit pn s s.
Proof. intros pn s j. destruct (pg_lookup s j) as [[v|]|]; auto. destruct v; auto. eexists; split; [reflexivity|auto]. Qed.

Lemma pgx_edit_trans : forall pn s1 s2 s3, pgx_edit pn s1 s2 -> pgx_edit pn s2 s3 -> pgx_edit pn s1 s3.
Proof.
  intros pn s1 s2 s3 H1 H2 j. specialize (H1 j). specialize (H2 j). destruct (pg_lookup s1 j) as [[v|]|]; [| |exact I].
  - destruct v; try (rewrite H1 in H2; exact H2). destruct H1 as (d2 & L2 & E2). rewrite L2 in H2. destruct H2 as (d3 & L3 & E3).
    exists d3. split; [exact L3|]. intros k Hk. rewrite E3, E2 by exact Hk. reflexivity.
  - rewrite H1 in H2. exact H2.
Qed.

Lemma pgx_edit_set_key : forall pn s i k v,
  (if i =? pn then k = pgk_Kids \/ k = pgk_Count else k = pgk_Parent) -> pgx_edit pn s (pg_obj_set_key s i k v).
Proof.
  intros pn s i k v Hk j. unfold pg_obj_set_key.
  destruct (pg_lookup s i) as [[w|]|] eqn:E; try apply pgx_edit_refl. destruct w; try apply pgx_edit_refl.
  rewrite pg_lookup_supd. destruct (j =? i) eqn:Eji.
  - apply N.eqb_eq in Eji. subst j. rewrite E. eexists. split; [reflexivity|]. intros k2 Hk2. apply pg_dget_dset_neq.
    destruct (i =? pn); [destruct Hk as [->| ->]; tauto|subst k; exact Hk2].
  - destruct (pg_lookup s j) as [[w|]|]; auto. destruct w; auto. eexists; split; [reflexivity|auto].
Qed.

Lemma pgx_edit_alloc : forall pn s c, pgx_edit pn s (fst (pg_alloc s c)).
Proof.
  intros pn s c j. rewrite pg_lookup_alloc. destruct (j =? pg_next_id s) eqn:E.
  - apply N.eqb_eq in E. subst j. rewrite pg_next_id_fresh. exact I.
  - destruct (pg_lookup s j) as [[v|]|]; auto. destruct v; auto. eexists; split; [reflexivity|auto].
Qed.

Lemma pgx_edit_dict : forall pn s s' j d, pgx_edit pn s s' -> pg_lookup s j = Some (PcObj (PvDict d)) ->
  exists d', pg_lookup s' j = Some (PcObj (PvDict d')) /\
     forall k, (if j =? pn then k <> pgk_Kids /\ k <> pgk_Count else k <> pgk_Parent) -> pg_dget d' k = pg_dget d k.
Proof. intros pn s s' j d H E. specialize (H j). rewrite E in H. exact H. Qed.

Lemma pgx_edit_some : forall pn s s' j, pgx_edit pn s s' -> pg_lookup s j <> None -> pg_lookup s' j <> None.
Proof.
  intros pn s s' j H E. specialize (H j). destruct (pg_lookup s j) as [[v|]|]; [| |congruence].
  - destruct v; try (rewrite H; discriminate). destruct H as (d' & -> & _). discriminate.
  - rewrite H. discriminate.
Qed.

Lemma pgx_edit_mark : forall pn s s' j, pgx_edit pn s s' -> pg_lookup s j <> None -> pg_mark s' j = pg_mark s j.
Proof.
  intros pn s s' j H E. specialize (H j). unfold pg_mark, pg_marker, pg_hget, pg_rv.
  destruct (pg_lookup s j) as [[v|]|]; [| |congruence].
  - destruct v; try (rewrite H; reflexivity). destruct H as (d' & -> & Hk). rewrite Hk; [reflexivity|].
    destruct (j =? pn); [split; discriminate|discriminate].
  - rewrite H. reflexivity.
Qed.

Lemma pgx_leafy_edit : forall pn s s' j d, pgx_edit pn s s' -> j <> pn -> pg_lookup s j = Some (PcObj (PvDict d)) -> pgx_leafy d ->
  exists d', pg_lookup s' j = Some (PcObj (PvDict d')) /\ pgx_leafy d'.
Proof.
  intros pn s s' j d H Hj E [Lk Lt]. destruct (pgx_edit_dict _ _ _ _ _ H E) as (d' & E' & Hk).
  apply N.eqb_neq in Hj. rewrite Hj in Hk. exists d'. split; [exact E'|]. split.
  - rewrite Hk by discriminate. exact Lk.
  - rewrite Hk by discriminate. exact Lt.
Qed.

(* every branch of Pages::insert (after newpage is local) and of Pages::erase is such an edit *)
Lemma pgx_insert_core_edit : forall p ni pos pn, pg_root_pages p = PvRef pn -> ni <> pn ->
  pgx_edit pn (pd_store p) (pd_store (fst (pg_insert_core p ni pos))).
Proof.
  intros p ni pos pn Hroot Hni. unfold pg_insert_core. rewrite Hroot.
  assert (Hnipn : ni =? pn = false) by (apply N.eqb_neq; exact Hni).
  set (s1 := pg_obj_set_key (pd_store p) ni pgk_Parent (PvRef pn)).
  assert (E1 : pgx_edit pn (pd_store p) s1) by (apply pgx_edit_set_key; rewrite Hnipn; reflexivity).
  destruct (pg_rv s1 (pg_hget s1 (PvRef pn) pgk_Kids)) as [| | | |kids|]; try exact E1.
  destruct (pg_hget s1 (PvRef pn) pgk_Kids); try exact E1;
  (destruct (Nat.ltb (length kids) (Z.to_nat pos)); [exact E1|]);
  set (s2 := pg_obj_set_key s1 pn pgk_Kids (PvArr (pg_list_ins kids (Z.to_nat pos) (PvRef ni))));
  set (s3 := pg_obj_set_key s2 pn pgk_Count (PvInt (pg_len (pg_list_ins kids (Z.to_nat pos) (PvRef ni)))));
  (assert (E3 : pgx_edit pn (pd_store p) s3);
   [eapply pgx_edit_trans; [exact E1|]; eapply pgx_edit_trans; apply pgx_edit_set_key; rewrite N.eqb_refl; tauto|]);
  (destruct (negb (pg_len (pg_list_ins kids (Z.to_nat pos) (PvRef ni)) =? pg_len (pg_list_ins (pd_all p) (Z.to_nat pos) ni))%Z); [exact E3|]);
  destruct (pg_pos_find _ ni); exact E3.
Qed.

Lemma pgx_erase_core_edit : forall p og pos pn, pg_root_pages p = PvRef pn ->
  pgx_edit pn (pd_store p) (pd_store (fst (pg_erase_core p og pos))).
Proof.
  intros p og pos pn Hroot. unfold pg_erase_core. rewrite Hroot.
  destruct (pg_hget (pd_store p) (PvRef pn) pgk_Kids) as [| | | |kids|]; try apply pgx_edit_refl.
  set (s2 := pg_obj_set_key (pd_store p) pn pgk_Kids (PvArr (pg_list_del kids (Z.to_nat pos)))).
  set (s3 := pg_obj_set_key s2 pn pgk_Count (PvInt (pg_len (pg_list_del kids (Z.to_nat pos))))).
  assert (E3 : pgx_edit pn (pd_store p) s3).
  { eapply pgx_edit_trans; apply pgx_edit_set_key; rewrite N.eqb_refl; tauto. }
  destruct (negb (pg_len (pg_list_del kids (Z.to_nat pos)) =? pg_len (pg_list_del (pd_all p) (Z.to_nat pos)))%Z || Nat.leb (length (pd_all p)) (Z.to_nat pos)); exact E3.
Qed.

(* ------------------------------------------------------------------ the state of one document *)
Definition pgx_posinv (p : pg_doc) (K : list N) : Prop :=
  (forall i, pg_pos_find (pd_pos p) i = option_map Z.of_nat (pg_index K i)) /\ NoDup (map fst (pd_pos p)).

(* flattened clean tree with page objects K, and the cache in one of its three states: never filled, filled but the
   position map empty (after getAllPages / updateAllPagesCache / a copy FROM this document), or fully flattened *)
Definition pgx_st (p : pg_doc) (K : list N) : Prop :=
  pgx_flat p K /\
  ((pd_pos p = [] /\ (pd_all p = [] \/ pd_all p = K)) \/ (pd_all p = K /\ pgx_posinv p K)).

(* the pages as the TREE shows them (not the cache) *)
Definition pgx_K (p : pg_doc) : list N :=
  match pg_root_pages p with
  | PvRef pn => map (fun v => match v with PvRef k => k | _ => 0 end) (pg_kids_of (pd_store p) pn)
  | _ => []
  end.
Definition pgx_marks (p : pg_doc) : list Z := map (pg_mark (pd_store p)) (pgx_K p).
Definition pgx_marks2 (w : pg_world) : pg_lists := (pgx_marks (fst w), pgx_marks (snd w)).

Lemma pgx_unref_map : forall K : list N, map (fun v => match v with PvRef k => k | _ => 0 end) (map PvRef K) = K.
Proof. induction K; simpl; [reflexivity|f_equal; assumption]. Qed.

Lemma pgx_K_flat : forall p K, pgx_flat p K -> pgx_K p = K.
Proof.
  intros p K (pn & d & Hroot & Hpn & Hkids & _). unfold pgx_K. rewrite Hroot, (pgx_kids_of _ pn d K Hpn Hkids).
  apply pgx_unref_map.
Qed.

Lemma pgx_marks2_sel : forall w d, pgsp_sel (pgx_marks2 w) d = pgx_marks (pg_get w d).
Proof. intros [a b] []; reflexivity. Qed.
Lemma pgx_marks2_put : forall w d p, pgx_marks2 (pg_put w d p) = pgsp_upd (pgx_marks2 w) d (pgx_marks p).
Proof. intros [a b] [] p; reflexivity. Qed.

Lemma pgx_flat_exists : forall p K k, pgx_flat p K -> In k K -> pg_lookup (pd_store p) k <> None.
Proof. intros p K k (pn & d & _ & _ & _ & _ & _ & _ & _ & _ & _ & Hl & _) Hk. destruct (Hl k Hk) as (dk & -> & _). discriminate. Qed.

Lemma pgx_marks_sim : forall p p' K, pgx_flat p K -> pgx_flat p' K -> pgx_sim (pd_store p) (pd_store p') -> pgx_marks p' = pgx_marks p.
Proof.
  intros p p' K Hf Hf' Hs. unfold pgx_marks. rewrite (pgx_K_flat _ _ Hf), (pgx_K_flat _ _ Hf').
  apply map_ext_in. intros k Hk. unfold pg_mark. rewrite (pgx_sim_mark _ _ k Hs); [reflexivity|eapply pgx_flat_exists; eassumption].
Qed.

Lemma pgx_pos_nil : forall p, pgx_posinv p [] -> pd_pos p = [].
Proof.
  intros p [H _]. destruct (pd_pos p) as [|[i z] t]; [reflexivity|]. specialize (H i). cbn in H. rewrite N.eqb_refl in H. discriminate.
Qed.

Lemma pgx_inv_of_st : forall p K, pgx_flat p K -> pd_all p = K -> pgx_posinv p K -> pg_inv p.
Proof.
  intros p K (pn & d & Hroot & Hpn & Hkids & Hcount & Hpar & Hpnroot & Hpnk & Hrootk & Hnd & Hleaf & Hinv) Hall [Hpos Hpnd].
  exists pn, d. rewrite Hall. repeat (split; [assumption|]). split; [|split; [exact Hpos|split; [exact Hpnd|exact Hinv]]].
  intros i Hi. destruct (Hleaf i Hi) as (dk & -> & _). discriminate.
Qed.

  Lemma pgx_flatten_st : forall p K, pgx_st p K ->
    exists p', pg_flatten p = (p', None) /\ pgx_flat p' K /\ pd_all p' = K /\ pgx_posinv p' K /\
      pgx_sim (pd_store p) (pd_store p') /\ pd_root p' = pd_root p /\ pd_omap p' = pd_omap p /\ pd_reg p' = pd_reg p /\ pg_inv p'.
  Proof.
    intros p K [Hf Hc].
    assert (Hgo : (pd_all p = [] \/ pd_all p = K) -> pd_pos p = [] ->
      exists p', pg_flatten p = (p', None) /\ pgx_flat p' K /\ pd_all p' = K /\ pgx_posinv p' K /\
      pgx_sim (pd_store p) (pd_store p') /\ pd_root p' = pd_root p /\ pd_omap p' = pd_omap p /\ pd_reg p' = pd_reg p /\ pg_inv p').
    { intros Ha Hp. destruct (pgx_flatten_flat p K Hf Ha Hp) as (p' & H1 & H2 & H3 & H4 & H5 & H6 & H7 & H8 & H9 & H10).
      exists p'. repeat (split; try assumption). }
    destruct Hc as [[Hp Ha]|[Ha Hpi]]; [apply Hgo; assumption|].
    destruct (pd_pos p) as [|x t] eqn:Ep; [apply Hgo; [right; exact Ha|reflexivity]|].
    exists p. unfold pg_flatten, pg_flatten_gen. rewrite Ep.
    repeat (split; try assumption); try reflexivity; try (rewrite Ep; apply Hpi).
    - apply pgx_sim_refl.
    - eapply pgx_inv_of_st; eassumption.
  Qed.

  (* ---------------------------------------------------------------- insertion *)
  Lemma pgx_root_pages_edit : forall p s' pn, pg_root_pages p = PvRef pn -> pn <> pd_root p -> pgx_edit pn (pd_store p) s' ->
    pg_root_pages (pd_with_store p s') = PvRef pn.
  Proof.
    intros p s' pn E Hne H. unfold pg_root_pages, pg_hget in *. cbn [pd_store pd_root pd_with_store]. cbn [pg_rv] in *.
    specialize (H (pd_root p)). destruct (pg_lookup (pd_store p) (pd_root p)) as [[v|]|]; try discriminate.
    destruct v; try discriminate. destruct H as (d' & -> & Hk). rewrite Hk; [exact E|].
    assert (pd_root p =? pn = false) as -> by (apply N.eqb_neq; congruence). discriminate.
  Qed.

  Lemma pgx_flat_of_inv_edit : forall p p' K pn, pgx_flat p K -> pg_root_pages p = PvRef pn ->
    pg_inv p' -> pd_root p' = pd_root p -> pgx_edit pn (pd_store p) (pd_store p') ->
    (forall k, In k (pd_all p') -> exists dk, pg_lookup (pd_store p') k = Some (PcObj (PvDict dk)) /\ pgx_leafy dk) ->
    pgx_flat p' (pd_all p').
  Proof.
    intros p p' K pn (pn0 & d & Hroot & Hpn & Hkids & Hcount & Hpar & Hpnroot & Hpnk & Hrootk & Hnd & Hleaf & Hinv) Hr
           (pn' & d' & Hroot' & Hpn' & Hkids' & Hcount' & Hpnroot' & Hpnall' & Hrootall' & Hnd' & Hex' & Hpos' & Hposnd' & Hinv') Hrt He Hl.
    rewrite Hroot in Hr. inversion Hr. subst pn0.
    assert (Hrp : pg_root_pages p' = PvRef pn).
    { pose proof (pgx_root_pages_edit p (pd_store p') pn Hroot Hpnroot He) as H. unfold pg_root_pages in *.
      cbn [pd_store pd_root pd_with_store] in H. rewrite Hrt. exact H. }
    rewrite Hrp in Hroot'. inversion Hroot'. subst pn'.
    assert (Hpar' : pg_dget d' pgk_Parent = PvNull).
    { destruct (pgx_edit_dict _ _ _ _ _ He Hpn) as (d2 & E2 & Hk). rewrite Hpn' in E2. inversion E2. subst d2.
      rewrite N.eqb_refl in Hk. rewrite Hk by (split; discriminate). exact Hpar. }
    exists pn, d'. split; [exact Hrp|]. split; [exact Hpn'|]. split; [exact Hkids'|]. split; [exact Hcount'|]. split; [exact Hpar'|].
    split; [exact Hpnroot'|]. split; [exact Hpnall'|]. split; [exact Hrootall'|]. split; [exact Hnd'|].
    split; [exact Hl|exact Hinv'].
  Qed.

  Lemma pgx_insert_local_edit : forall p i pos pn, pg_root_pages p = PvRef pn -> pg_lookup (pd_store p) pn <> None -> i <> pn ->
    (0 <= pos <= pg_len (pd_all p))%Z ->
    pgx_edit pn (pd_store p) (pd_store (fst (pg_insert_local p (PvRef i) pos))) /\
    (forall di, pg_lookup (pd_store p) i = Some (PcObj (PvDict di)) -> pg_pos_find (pd_pos p) i <> None ->
       exists d', pg_lookup (pd_store (fst (pg_insert_local p (PvRef i) pos))) (pg_next_id (pd_store p)) = Some (PcObj (PvDict d')) /\
                  forall k, k <> pgk_Parent -> pg_dget d' k = pg_dget di k).
  Proof.
    intros p i pos pn Hroot Hpnex Hi [Hp0 Hp1]. unfold pg_insert_local.
    assert ((pos <? 0)%Z || (pg_len (pd_all p) <? pos)%Z = false) as ->.
    { apply orb_false_iff. split; apply Z.ltb_ge; lia. }
    unfold pg_insert_dup. destruct (pg_pos_find (pd_pos p) i) as [z|] eqn:Ef.
    - destruct (pg_lookup (pd_store p) i) as [[v|dd xx kk]|] eqn:El.
      + set (ni := pg_next_id (pd_store p)).
        set (p0 := pd_with_store p (fst (pg_alloc (pd_store p) (PcObj (pg_rv (pd_store p) (PvRef i)))))).
        change (let '(s, j) := pg_alloc (pd_store p) (PcObj (pg_rv (pd_store p) (PvRef i))) in (pd_with_store p s, @None pg_err, PvRef j))
          with (p0, @None pg_err, PvRef ni). cbv iota beta.
        assert (Hnipn : ni <> pn) by (intros E; apply Hpnex; rewrite <- E; apply pg_next_id_fresh).
        assert (Hroot0 : pg_root_pages p0 = PvRef pn).
        { rewrite <- Hroot. apply pg_root_pages_ext; [reflexivity|]. unfold p0. cbn [pd_store pd_with_store]. rewrite pg_lookup_alloc.
          destruct (pd_root p =? pg_next_id (pd_store p)) eqn:E; [|reflexivity]. apply N.eqb_eq in E.
          pose proof (pg_root_exists p pn Hroot) as HH. rewrite E, pg_next_id_fresh in HH. congruence. }
        pose proof (pgx_insert_core_edit p0 ni pos pn Hroot0 Hnipn) as Hed.
        assert (Ha : pgx_edit pn (pd_store p) (pd_store p0)) by apply pgx_edit_alloc.
        split; [eapply pgx_edit_trans; eassumption|].
        intros di Hdi _. inversion Hdi; subst v.
        assert (Hl0 : pg_lookup (pd_store p0) ni = Some (PcObj (PvDict di))).
        { unfold p0. cbn [pd_store pd_with_store]. rewrite pg_lookup_alloc. fold ni. rewrite N.eqb_refl. cbn [pg_rv]. rewrite El. reflexivity. }
        destruct (pgx_edit_dict _ _ _ _ _ Hed Hl0) as (d' & E' & Hk). exists d'. split; [exact E'|].
        assert (ni =? pn = false) as Hb by (apply N.eqb_neq; exact Hnipn). rewrite Hb in Hk. exact Hk.
      + cbn [fst]. split; [apply pgx_edit_refl|]. intros di Hdi. discriminate.
      + set (ni := pg_next_id (pd_store p)).
        set (p0 := pd_with_store p (fst (pg_alloc (pd_store p) (PcObj (pg_rv (pd_store p) (PvRef i)))))).
        change (let '(s, j) := pg_alloc (pd_store p) (PcObj (pg_rv (pd_store p) (PvRef i))) in (pd_with_store p s, @None pg_err, PvRef j))
          with (p0, @None pg_err, PvRef ni). cbv iota beta.
        assert (Hnipn : ni <> pn) by (intros E; apply Hpnex; rewrite <- E; apply pg_next_id_fresh).
        assert (Hroot0 : pg_root_pages p0 = PvRef pn).
        { rewrite <- Hroot. apply pg_root_pages_ext; [reflexivity|]. unfold p0. cbn [pd_store pd_with_store]. rewrite pg_lookup_alloc.
          destruct (pd_root p =? pg_next_id (pd_store p)) eqn:E; [|reflexivity]. apply N.eqb_eq in E.
          pose proof (pg_root_exists p pn Hroot) as HH. rewrite E, pg_next_id_fresh in HH. congruence. }
        pose proof (pgx_insert_core_edit p0 ni pos pn Hroot0 Hnipn) as Hed.
        split; [eapply pgx_edit_trans; [apply pgx_edit_alloc|exact Hed]|]. intros di Hdi. discriminate.
    - cbv iota beta. split; [apply pgx_insert_core_edit; assumption|]. intros di _ H. congruence.
  Qed.
