# C12 (extension) - inheritable page attributes on page trees of any depth.
# Implementation: harness/drv_pattr.cc (trees built in-process; Pages::pushInheritedAttributesToPage, Pages::find / erase /
# insert (flattenPagesTree), getAllPages (cache), QPDFObjectHandle::rotatePage).  Model: coq/Struct/PageAttr.v (extracted,
# command `pattr`).  Specification: coq/Struct/PageAttrSpec.v (`pattr_eff`: ISO 32000-1 7.7.3.4 effective attributes) + the
# expected-effect bookkeeping below, which never looks at the model.
import common

OTH = [4, 5, 6]


def gen_obj(rng, key):
    """a direct object for slot key (0 crop, 1 media, 2 res, 3 rot): mostly of the legal type, sometimes not"""
    x = rng.random()
    if key in (0, 1):
        if x < 0.8:
            return "r%d" % rng.randint(100, 140)
        return rng.choice(["i5", "a3", "d4", "s1"])
    if key == 2:
        if x < 0.8:
            return "d%d" % rng.randint(1, 30)
        return rng.choice(["i7", "a2", "s2", "r50"])
    if x < 0.62:
        return "i%d" % rng.choice([0, 90, 180, 270])
    if x < 0.80:
        return "i%d" % rng.choice([-90, -270, 360, 450, 720, -360, 3600090, -810])
    if x < 0.90:
        return "i%d" % rng.choice([45, 1, -30, 91, 2147483647, 2147483648, -2147483649, 4294967386, 2147483640, -2147483640])
    return rng.choice(["s3", "a90", "r90", "d90"])


class Gen:
    def __init__(self, rng):
        self.rng = rng
        self.defs = {}
        self.next = 3
        self.shared = {}     # key -> list of store ids usable for that key
        self.pages = []

    def new_id(self):
        i = self.next
        self.next += 1
        return i

    def value(self, key, p_present, anc_rot=False):
        rng = self.rng
        if rng.random() >= p_present:
            return "-"
        x = rng.random()
        if key == 3 and anc_rot and x < 0.3:
            return "i0"                          # explicit /Rotate 0 below an inherited rotation
        if x < 0.55:
            return gen_obj(rng, key)
        if x < 0.62:
            return "@%d" % self.dangling
        pool = self.shared.setdefault(key, [])
        if pool and rng.random() < 0.6:
            return "@%d" % rng.choice(pool)      # the same object shared by reference
        i = self.new_id()
        self.defs[i] = "o:" + gen_obj(rng, key)
        pool.append(i)
        return "@%d" % i

    def oth(self, p):
        l = [c for c in OTH if self.rng.random() < p]
        return ".".join(map(str, l)) if l else "-"

    def node(self, parent, depth, maxdepth, style, anc_rot):
        rng = self.rng
        i = self.new_id()
        pn = style["pnode"]
        attrs = [self.value(k, pn[k], anc_rot) for k in range(4)]
        has_rot = anc_rot or attrs[3] != "-"
        kids = []
        nk = 1 if style["chain"] and depth < maxdepth else rng.choice([0, 1, 1, 2, 2, 3, 4]) if depth > 0 else rng.choice([1, 2, 3, 4])
        npages = 0
        for _ in range(nk):
            if depth < maxdepth and (style["chain"] or rng.random() < 0.45):
                k, n = self.node(i, depth + 1, maxdepth, style, has_rot)
                kids.append(k)
                npages += n
            else:
                k = self.new_id()
                pp = style["ppage"]
                pat = [self.value(kk, pp[kk], has_rot) for kk in range(4)]
                self.defs[k] = "p:%d:%s:%s" % (i, ",".join(pat), self.oth(0.15))
                self.pages.append(k)
                kids.append(k)
                npages += 1
        cnt = str(npages)
        x = rng.random()
        if x < 0.03:
            cnt = rng.choice(["-", str(npages + 1), "-1", "0", str(max(0, npages - 1))])
        self.defs[i] = ["n", str(parent) if parent else "-", cnt, ",".join(attrs), self.oth(0.25), ".".join(map(str, kids)) if kids else "-"]
        return i, npages


def gen_case(rng):
    g = Gen(rng)
    root_id = g.new_id() if False else None
    g.dangling = None
    # the dangling object gets its id after the root so that ids stay consecutive in creation order: reserve it first
    maxdepth = rng.choice([0, 1, 1, 2, 2, 3, 4])      # depth of the tree = maxdepth + 1 levels of /Pages nodes (1..5)
    style = {
        "chain": rng.random() < 0.12,
        "pnode": [rng.choice([0.0, 0.3, 0.6, 0.9]) for _ in range(4)],
        "ppage": [rng.choice([0.0, 0.2, 0.5, 0.9]) for _ in range(4)],
    }
    # id 3 = dangling reference target (stays null), the tree starts at 4
    g.dangling = g.new_id()
    g.defs[g.dangling] = "o:z"
    root, npages = g.node(None, 0, maxdepth, style, False)
    defs = []
    for i in sorted(g.defs):
        d = g.defs[i]
        defs.append("%d=%s" % (i, d if isinstance(d, str) else ":".join(d)))
    # operations
    ops = []
    live = list(g.pages)
    removed = []
    nid = g.next
    nops = rng.choice([1, 1, 2, 2, 3, 4, 6])
    for _ in range(nops):
        x = rng.random()
        if x < 0.22:
            ops.append(rng.choice(["push:1:0", "push:1:1", "push:1:1", "push:0:0"]))
        elif x < 0.27:
            ops.append("all")
        elif x < 0.37 and (live or removed):
            ops.append("find:%d" % rng.choice(live + removed))
        elif x < 0.50 and (live or removed):
            p = rng.choice(live + removed[:1])
            ops.append("remove:%d" % p)
            if p in live:
                removed.append(p)       # (may fail on a wrong /Count; the bookkeeping below follows the real results)
        elif x < 0.62:
            pos = rng.randint(0, len(live)) if rng.random() < 0.9 else rng.choice([-1, len(live) + 1])
            attrs = [gen_obj(rng, k) if rng.random() < 0.5 else "-" for k in range(4)]
            ops.append("insert:%d:%s:%s" % (pos, ",".join(attrs), g.oth(0.1)))
        elif live or removed:
            p = rng.choice(live + removed) if rng.random() < 0.9 else rng.choice(live or removed)
            y = rng.random()
            ang = rng.choice([0, 90, 180, 270, -90, -180, -270]) if y < 0.7 else rng.choice([360, 450, -360, -450, 720, -810, 99990, -99990]) if y < 0.92 else rng.choice([45, 1, -91])
            ops.append("rotate:%d:%d:%d" % (p, ang, rng.random() < 0.65))
    if not ops:
        ops = ["push:1:0"]
    return str(root), ";".join(defs), "/".join(ops)


def parse_defs(s):
    out = {}
    for e in s.split(";") if s else []:
        i, d = e.split("=", 1)
        out[int(i)] = d.split(":")
    return out


def parse_eff(s):
    out = []
    for e in s.split(";") if s else []:
        i, a, r = e.split(":")
        out.append((int(i), a.split(","), None if r == "-" else int(r)))
    return out


def is_rect(o):
    return o.startswith("r")


def is_dict(o):
    return o.startswith("d")


def rotation_of(o):
    """Table 30: /Rotate is an integer multiple of 90, default 0; None = not a legal rotation"""
    if o == "z":
        return 0
    if o.startswith("i"):
        z = int(o[1:])
        return z % 360 if z % 90 == 0 else None
    return None


def judge(root, objs, ops, impl, eff_in, eff_out):
    """specification side: what the operations were asked to do, in terms of effective attributes (7.7.3.4) only.
    Returns None or a reason."""
    res, oroot, oobjs = impl.split("#", 2)
    results = res.split("/") if res else []
    oplist = ops.split("/")
    if len(results) != len(oplist):
        return "number of results"
    pages = [(i, list(a), "same") for i, a, r in eff_in]      # (id, attrs, state of /Rotate: same | residue | None)
    det = {}
    cached = False
    flat = False
    indefs = parse_defs(objs)
    # 7.7.3.2: /Count of the root = number of leaf pages; an input that breaks this is outside the consistency clause
    # (qpdf reports it: "/Count is wrong after flattening pages tree")
    count_err = indefs[int(root)][2] != str(len(eff_in))
    nid = max(indefs) + 1
    inserted = set()
    for op, r in zip(oplist, results):
        f = op.split(":")
        if f[0] in ("push", "all", "find", "remove", "insert"):
            cached = True
        if f[0] == "all":
            got = r[4:].split(".") if r.startswith("ids:") and len(r) > 4 else []
            want = [str(p[0]) for p in pages]
            if not r.startswith("ids:") or len(got) != len(want) or any(g != w for g, w, p in zip(got, want, pages) if p[0] not in inserted):
                return "getAllPages does not list the pages in document order: %s" % r
        elif f[0] == "find":
            ids = [p[0] for p in pages]
            if r.startswith("pos:"):
                flat = True
                if int(f[1]) not in ids or ids.index(int(f[1])) != int(r[4:]):
                    return "findPage result %s is not the position of page %s" % (r, f[1])
            elif r == "err:q":
                if int(f[1]) in ids:
                    return "findPage does not find page %s" % f[1]
                flat = True
            elif r == "err:r":
                count_err = True
            else:
                return "find result " + r
        elif f[0] == "remove":
            ids = [p[0] for p in pages]
            if r == "ok":
                flat = True
                if int(f[1]) not in ids:
                    return "removePage of a page that is not in the document succeeded"
                k = ids.index(int(f[1]))
                det[pages[k][0]] = pages[k]
                del pages[k]
            elif r == "err:q":
                flat = True
                if int(f[1]) in ids:
                    return "removePage does not find page %s" % f[1]
            elif r == "err:r":
                count_err = True
            else:
                return "remove result " + r
        elif f[0] == "insert":
            pos = int(f[1])
            if r == "ok":
                flat = True
                if not (0 <= pos <= len(pages)):
                    return "insert at an impossible position succeeded"
                at = f[2].split(",")
                pages.insert(pos, (nid, [("z" if x == "-" else x) for x in at], "same"))
                inserted.add(nid)
                nid += 1
            elif r == "err:r":
                if 0 <= pos <= len(pages):
                    count_err = True        # only a wrong /Count can refuse a legal insertion
                nid += 1
            else:
                return "insert result " + r
        elif f[0] == "rotate":
            pid, ang, rel = int(f[1]), int(f[2]), f[3] == "1"
            if ang % 90 != 0:
                if r != "err:r":
                    return "rotation by %d accepted" % ang
                continue
            if r != "ok":
                return "rotate result " + r
            for k, (i, a, st) in enumerate(pages):
                if i == pid:
                    old = rotation_of(a[3]) if st == "same" else (None if st == "unspecified" else st)
                    new = None if (rel and old is None) else ((old + ang) % 360 if rel else ang % 360)
                    pages[k] = (i, a, new if new is not None else "unspecified")
        # push: no effect on effective attributes
    out = {i: (a, r) for i, a, r in eff_out}
    out_ids = [i for i, a, r in eff_out]
    # inserted pages: their ids are whatever the library allocated; identify them by position
    want_ids = [p[0] for p in pages]
    if len(out_ids) != len(want_ids):
        return "page count: expected %d pages, got %d" % (len(want_ids), len(out_ids))
    for k, (i, a, st) in enumerate(pages):
        oi = out_ids[k]
        if i not in inserted and oi != i:
            return "page sequence: expected page object %d at position %d, got %d" % (i, k, oi)
        oa, orot = out[oi]
        if oa[0] != a[0]:
            return "effective /CropBox of page %d changed: %s -> %s" % (i, a[0], oa[0])
        if oa[1] != a[1] and not (cached and i not in inserted and not is_rect(a[1]) and oa[1] == "r612"):
            return "effective /MediaBox of page %d changed: %s -> %s" % (i, a[1], oa[1])
        if oa[2] != a[2] and not (cached and i not in inserted and not is_dict(a[2]) and oa[2] == "d0"):
            return "effective /Resources of page %d changed: %s -> %s" % (i, a[2], oa[2])
        if st == "same":
            if oa[3] != a[3]:
                return "effective /Rotate of page %d changed: %s -> %s" % (i, a[3], oa[3])
        elif st != "unspecified":
            if orot != st:
                return "effective rotation of page %d is %s, expected %d" % (i, oa[3], st)
    if len(set(out_ids)) != len(out_ids):
        return "a page object occupies two positions"
    if flat and not count_err:
        d = parse_defs(oobjs)
        rt = d.get(int(oroot))
        if rt is None or rt[0] != "n":
            return "no root"
        kids = [int(x) for x in rt[5].split(".")] if rt[5] != "-" else []
        if rt[2] != str(len(kids)):
            return "/Count %s of the flattened root disagrees with its %d kids" % (rt[2], len(kids))
        if kids != out_ids:
            return "/Kids of the flattened root is not the page list"
        for k in kids:
            if d[k][0] != "p" or d[k][1] != oroot:
                return "/Parent of page %d is not the root" % k
        if any(rt[3].split(",")[j] not in ("-",) and not rt[3].split(",")[j].startswith("@") for j in range(4)):
            return "the flattened root still carries a direct inheritable attribute"
    return None


def part_attr(chk, drv, runner):
    rng = chk.rng
    n = 5000 if chk.tier == "quick" else 60000
    cases = [gen_case(rng) for _ in range(n)]
    # fixed cases aimed at single case splits
    fixed = [
        # relative rotation of a page whose rotation is inherited two levels up / explicit 0 under an inherited 90
        ("3", "3=n:-:2:-,r100,d1,i90:-:4;4=n:3:2:-,-,-,-:-:5.6;5=p:4:-,-,-,-:-;6=p:4:-,-,-,i0:-", "rotate:5:90:1/rotate:6:90:1"),
        ("3", "3=n:-:2:-,r100,d1,i90:-:4;4=n:3:2:-,-,-,-:-:5.6;5=p:4:-,-,-,-:-;6=p:4:-,-,-,i0:-", "push:1:0/rotate:5:90:1/rotate:6:90:1"),
        ("3", "3=n:-:2:-,r100,d1,i90:-:4;4=n:3:2:-,-,-,-:-:5.6;5=p:4:-,-,-,-:-;6=p:4:-,-,-,i0:-", "find:5/rotate:5:-90:1/rotate:6:0:0"),
        # non-integer /Rotate on the page, integer above
        ("3", "3=n:-:1:-,r100,d1,i90:-:4;4=p:3:-,-,-,s3:-", "rotate:4:90:1"),
        # the same /Resources dictionary, direct in the root: made indirect once and shared
        ("3", "3=n:-:3:-,r100,d1,-:-:4.5.6;4=p:3:-,-,-,-:-;5=p:3:-,-,d2,-:-;6=p:3:-,-,-,-:-", "push:1:0"),
        # no /MediaBox anywhere; /MediaBox not a rectangle; rectangle above a non-rectangle
        ("3", "3=n:-:2:-,-,-,-:-:4.5;4=p:3:-,-,-,-:-;5=p:3:-,i5,i7,-:-", "all"),
        ("3", "3=n:-:1:-,r100,d1,-:-:4;4=n:3:1:-,i5,i7,-:-:5;5=p:4:-,-,-,-:-", "all/push:1:0"),
        # wrong /Count: flattening throws after the tree was rewritten
        ("3", "3=n:-:5:-,r100,d1,-:-:4.5;4=p:3:-,-,-,-:-;5=p:3:-,-,-,-:-", "find:4/find:5/remove:4/find:5"),
        # unknown keys on inner nodes and on the root
        ("3", "3=n:-:1:-,r100,d1,-:4.5:4;4=n:3:1:-,-,-,-:4.5.6:5;5=p:4:-,-,-,-:5", "push:1:1/push:1:0/push:1:1"),
        # no-change mode
        ("3", "3=n:-:1:-,-,-,-:-:4;4=p:3:-,r100,d1,-:-", "push:0:0/push:0:0"),
        ("3", "3=n:-:1:-,-,-,i90:-:4;4=p:3:-,r100,d1,-:-", "push:0:0/push:1:0/push:0:0"),
        # empty tree
        ("3", "3=n:-:0:-,-,-,-:-:-", "push:1:1/all/insert:0:-,r100,d1,i90:-/insert:1:-,-,-,-:-/rotate:4:90:1/rotate:5:90:1"),
    ]
    cases = fixed + cases
    lines = ["pattr %s %s %s" % c for c in cases]
    impl = common.run_lines(drv, lines, shards=4)
    model = common.run_lines(runner, lines, shards=4)
    # specification side
    eff_in = common.run_lines(runner, ["pattr_eff %s %s" % (c[0], c[1]) for c in cases], shards=4)
    ok_idx = [i for i, o in enumerate(impl) if o.count("#") >= 2 and not o.startswith("?")]
    eff_out_l = common.run_lines(runner, ["pattr_eff %s %s" % tuple(impl[i].split("#", 2)[1:]) for i in ok_idx], shards=4)
    eff_out = dict(zip(ok_idx, eff_out_l))
    tie = []
    unm = 0
    nontriv = set()
    kinds = {}
    spec_bad = 0
    for i, c in enumerate(cases):
        if i not in eff_out or eff_out[i].startswith("?") or eff_in[i].startswith("?"):
            chk.violation({"kind": "property-fails-on-implementation", "part": "pattr", "why": "driver/runner failed on the case",
                           "case": {"root": c[0], "objects": c[1], "ops": c[2]}, "implementation": impl[i][:300], "spec": eff_in[i][:200],
                           "replay": lines[i]})
            continue
        why = judge(c[0], c[1], c[2], impl[i], parse_eff(eff_in[i]), parse_eff(eff_out[i]))
        if why is not None:
            spec_bad += 1
            if spec_bad <= 5:
                chk.violation({"kind": "property-fails-on-implementation", "part": "pattr", "why": why,
                               "case": {"root": c[0], "objects": c[1], "ops": c[2]}, "implementation": impl[i], "model": model[i],
                               "effective_before": eff_in[i], "effective_after": eff_out[i], "replay": lines[i]})
            continue
        if "err:u" in model[i].split("#")[0]:
            unm += 1
            continue
        if impl[i] != model[i]:
            tie.append(i)
        for op, r in zip(c[2].split("/"), impl[i].split("#")[0].split("/")):
            k = op.split(":")[0] + ("" if r.startswith(("ok", "pos", "ids", "warn")) else "!" + r)
            if r.startswith("warn:") and len(r) > 5:
                k += "+warnings"
            kinds[k] = kinds.get(k, 0) + 1
        if impl[i].split("#", 1)[1] != "%s#%s" % (c[0], c[1]):
            nontriv.add((c[1], c[2]))
    if tie and not spec_bad:
        i = tie[0]
        chk.violation({"kind": "correspondence-broken", "correspondence": "corr:C12:pattr", "differing_cases": len(tie),
                       "first_case": {"root": cases[i][0], "objects": cases[i][1], "ops": cases[i][2]},
                       "implementation": impl[i], "model": model[i], "replay": lines[i]}, no_input=True)
    chk.count("pattr", len(cases), nontriv, samples=[{"root": cases[i][0], "objects": cases[i][1], "ops": cases[i][2], "impl": impl[i]}
                                                      for i in (0, len(cases) // 2)])
    chk.cov["parts"]["pattr"]["distribution"] = kinds
    chk.cov["parts"]["pattr"]["outside_model"] = unm
