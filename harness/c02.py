# C02 - every file qpdf writes is strictly well-formed and has the requested form.
# Proof: Props/Properties_C02.v (writer arithmetic vs the strict reader's decoders).
# Tie / oracle: the extracted strict reader (coq/File/ReadStrict.v: wf_file) on real outputs of qpdf over
# generated inputs (sizes aimed at the field-width and 100-member boundaries), boundary-padded inputs,
# relabelled inputs, and repository corpus files, x the writer configurations; the arithmetic model is
# compared with what the real outputs contain (/W widths, members per object stream, xref lines).
# Source tie: coq/Gen/Leaf.v is generated from the clang AST of bytesNeeded (and the leaves of C03 C05 C07 C15) on every run,
# File/C02TieProofs.v proves it equal to the model; harness/leafcheck.py compares the generated Gallina with the compiled
# source text of each translated function (part "leaf-translation").
import os, re
import common, filecheck, pdfgen, dociso, leafcheck
from pdfgen import Name, Ref, Stream

ASSUMPTIONS = [
    "translated leaves (harness/translate_leaf.py): clang 14's AST is what g++ compiles; LP64 type sizes; the reading of the C++ subset in coq/Base/LeafSem.v (checked against the compiled source text on every run, part leaf-translation)",
    "the strict reader is the specification (written from ISO 32000-1 7.5); it judges file structure, not object-level token legality of names preserved from damaged inputs",
    "contents of encrypted object streams are not decrypted here (slot counts only); C05's reference decryptor covers them",
    "outputs above 150 kB are judged by size-independent theorems only (the extracted list-based reader is slow on them)",
    "qpdf --check is used only as the 're-reads its own output without structural warning' clause",
    "byte-exact tie of xs_write_doc: the document handed to the model is the generated document as qpdf's parser holds it (a reference to an "
    "undefined object is a direct null, or an indirect null object when the trailer names it and its number is below file size / 3); reading is C03's subject",
]

MAXSIZE = 150000


def has_flag(cfg, prefix):
    return any(c.startswith(prefix) for c in cfg)


def form_check(cfg, sd, inp_name):
    """requested-form clauses of C02 on a strictly-read output; returns list of problems"""
    probs = []
    comp = [og for og, w in sd.where.items() if w[0] == "c"]
    # object streams OF THE OUTPUT are the streams that compressed entries point into (a stream that merely carries /Type /ObjStm,
    # copied from a damaged input as ordinary data, is not one)
    objstm = sorted(set((w[1], 0) for w in sd.where.values() if w[0] == "c"))
    forced = [c.split("=")[1] for c in cfg if c.startswith("--force-version=")]
    ver = tuple(int(x) for x in sd.version.split("."))
    if "--object-streams=disable" in cfg or (forced and tuple(int(x) for x in forced[0].split(".")[:2]) < (1, 5)):
        if comp or objstm or sd.xref_stream:
            probs.append("object streams / xref stream present although disabled (%d compressed, %d ObjStm, xref_stream=%s)" % (len(comp), len(objstm), sd.xref_stream))
    if "--object-streams=generate" in cfg and not forced:
        if not sd.xref_stream:
            probs.append("generate mode but classic xref table")
        per = {}
        for og in comp:
            per.setdefault(sd.where[og][1], []).append(og)
        for s, members in per.items():
            if len(members) > 100:
                probs.append("object stream %d has %d members (> 100)" % (s, len(members)))
        # eligibility: every non-stream object must be compressed except the documented exclusions
        enc = sd.trailer.get(b"Encrypt")
        lin = "--linearize" in cfg
        encrypted = enc is not None
        root = sd.trailer.get(b"Root")
        # positive clause ("every eligible object is compressed"): objects that qpdf itself creates while linearizing
        # (inherited attributes pushed down as new shared indirect objects) come into being after the eligible set
        # was computed and are written uncompressed; the clause is therefore required of non-linearized output only
        # (observation recorded in DESIGN.md, not claimed as a violation: "eligible" is qpdf's notion).
        # Linearized output: the catalog, the page objects and the linearization parameter dictionary are exempt (property text),
        # and so are the objects that hold an inherited page attribute pushed down from a /Pages node (see above): they are
        # recognised independently of qpdf as the indirect values of the inheritable keys of the page objects.
        pushed = set()
        if lin:
            for pv in sd.objs.values():
                if isinstance(pv, dict) and pv.get(b"Type") == Name(b"Page"):
                    for ik in (b"Resources", b"MediaBox", b"CropBox", b"Rotate"):
                        if isinstance(pv.get(ik), Ref):
                            pushed.add((pv[ik].n, pv[ik].g))
            # likewise the /Outlines dictionary: linearization makes a DIRECT /Outlines of the input indirect (a new object, created
            # after the eligible set was computed; "directness of /Outlines" is writer-owned per the property text of C01)
            rv = sd.objs.get((root.n, root.g)) if isinstance(root, Ref) else None
            if isinstance(rv, dict) and isinstance(rv.get(b"Outlines"), Ref):
                pushed.add((rv[b"Outlines"].n, rv[b"Outlines"].g))
        # the pages of the document are the leaves of the page tree (a dictionary that merely carries /Type /Page somewhere else,
        # e.g. a left-over of an earlier copy, is not a page of this document)
        tree_pages, ptodo, pseen = set(), [], set()
        rv = sd.objs.get((root.n, root.g)) if isinstance(root, Ref) else None
        if isinstance(rv, dict) and isinstance(rv.get(b"Pages"), Ref):
            ptodo.append(rv[b"Pages"])
        while ptodo:
            r = ptodo.pop()
            if not isinstance(r, Ref) or (r.n, r.g) in pseen:
                continue
            pseen.add((r.n, r.g))
            node = sd.objs.get((r.n, r.g))
            if isinstance(node, dict):
                kids = node.get(b"Kids")
                if isinstance(kids, Ref):
                    kids = sd.objs.get((kids.n, kids.g))
                if isinstance(kids, list):
                    ptodo.extend(kids)
                else:
                    tree_pages.add((r.n, r.g))
        # eligibility, stated independently of qpdf's walk: the objects reachable from the output's trailer through any dictionary
        # value, array element or stream dictionary (an object nothing refers to, such as the copy of the input's encryption
        # dictionary that a linearized rewrite of an encrypted input carries along, is not "eligible" by this statement)
        reach, todo = set(), [sd.trailer]
        while todo:
            x = todo.pop()
            if isinstance(x, Ref):
                if (x.n, x.g) in reach or (x.n, x.g) not in sd.objs:
                    continue
                reach.add((x.n, x.g))
                x = sd.objs[(x.n, x.g)]
            if isinstance(x, Stream):
                x = x.d
            if isinstance(x, dict):
                todo.extend(x.values())
            elif isinstance(x, list):
                todo.extend(x)
        for og, v in sd.objs.items():
            if sd.where[og][0] != "n" or isinstance(v, Stream) or og not in reach:
                continue
            if lin and (og in pushed or (isinstance(root, Ref) and og == (root.n, root.g))
                        or (isinstance(v, dict) and (v.get(b"Type") == Name(b"Page") or b"Linearized" in v))):
                continue
            if isinstance(enc, Ref) and og == (enc.n, enc.g):
                continue
            if isinstance(v, dict):
                t = v.get(b"Type")
                if encrypted and isinstance(root, Ref) and og == (root.n, root.g):
                    continue
                if t == Name(b"Sig") or b"ByteRange" in v:
                    continue
            if "--qdf" in cfg and isinstance(v, int):
                continue   # indirect stream lengths of QDF
            if og[1] != 0:
                continue
            probs.append("object %d %d is eligible for an object stream but was written uncompressed" % og)
            break
        # negative clauses: never a stream, the encryption dictionary, (enc/lin) the catalog, (lin) a page
        for og in comp:
            v = sd.objs[og]
            if isinstance(v, Stream):
                probs.append("a stream is a member of an object stream")
            if isinstance(enc, Ref) and og == (enc.n, enc.g):
                probs.append("the encryption dictionary is compressed")
            if (lin or encrypted) and isinstance(root, Ref) and og == (root.n, root.g):
                probs.append("the catalog is compressed in a linearized/encrypted file")
            if lin and og in tree_pages:
                probs.append("a page object is compressed in a linearized file")
            if isinstance(v, dict) and b"Linearized" in v:
                probs.append("the linearization parameter dictionary is compressed")
        for og in comp:
            if og[1] != 0:
                probs.append("compressed object with non-zero generation")
    if (comp or objstm or sd.xref_stream) and not forced and ver < (1, 5):
        probs.append("header version %s below 1.5 although the file uses object/xref streams" % sd.version)
    mins = [c.split("=")[1] for c in cfg if c.startswith("--min-version=")]
    if mins and not forced and ver < tuple(int(x) for x in mins[0].split(".")[:2]):
        probs.append("header version %s below requested minimum %s" % (sd.version, mins[0]))
    # (a third component is the Adobe extension level: it goes into /Extensions /ADBE, not into the header)
    if forced and sd.version != ".".join(forced[0].split(".")[:2]):
        probs.append("header version %s differs from forced %s" % (sd.version, forced[0]))
    if has_flag(cfg, "--bits=256") and ver < (1, 7):
        probs.append("256-bit encryption with header %s" % sd.version)
    # minimum version for the encryption scheme actually written (ISO 32000-1 Table 20/21 and the versions that introduced
    # them: RC4-128 / V2 in PDF 1.4, crypt filters / V4 in 1.5, AESV2 in 1.6, AESV3 in 1.7 ext 3), read off the output's own
    # encryption dictionary
    encd = dociso.resolve(sd.objs, sd.trailer.get(b"Encrypt")) if b"Encrypt" in sd.trailer else None
    if isinstance(encd, dict) and not forced:
        V = dociso.resolve(sd.objs, encd.get(b"V")) or 0
        cf = dociso.resolve(sd.objs, encd.get(b"CF")) or {}
        cfms = set()
        for v in (cf.values() if isinstance(cf, dict) else []):
            v = dociso.resolve(sd.objs, v)
            m = dociso.resolve(sd.objs, v.get(b"CFM")) if isinstance(v, dict) else None
            if isinstance(m, Name):
                cfms.add(m.b)
        need = (1, 1)
        if V == 2:
            need = (1, 4)
        if V == 4:
            need = (1, 6) if b"AESV2" in cfms else (1, 5)
        if V >= 5:
            need = (1, 7)
        if ver < need:
            probs.append("encryption V=%s %s needs header >= %d.%d but the file says %s" % (V, sorted(c.decode() for c in cfms), need[0], need[1], sd.version))
    return probs


def arith_tie(runner, sd, path, cfg):
    """compare the arithmetic model with what the real output contains; returns list of differences"""
    diffs = []
    data = open(path, "rb").read()
    lines = []
    if not sd.xref_stream:
        # every classic in-use line equals the model's xref_line
        for og, w in list(sd.where.items())[:40]:
            if w[0] == "n":
                lines.append(("xref_line", og, w[1], "warith xref_line %d" % w[1]))
    else:
        # /W[1] of a non-linearized file equals f1_size(max offset, 0, max id); members per stream
        tr = sd.trailer
        W = tr.get(b"W")
        if "--linearize" not in cfg and isinstance(W, list):
            offs = [w[1] for w in sd.where.values() if w[0] == "n"]
            xoff = sd.res["startxref"]
            maxid = max(og[0] for og in sd.objs)
            lines.append(("f1", W[1], None, "warith f1_size %d 0 %d" % (max(offs + [xoff]), maxid)))
        if "--object-streams=generate" in cfg and "--linearize" not in cfg and not has_flag(cfg, "--force-version"):
            per = {}
            for og, w in sd.where.items():
                if w[0] == "c":
                    per[w[1]] = per.get(w[1], 0) + 1
            k = sum(per.values())
            if k:
                lines.append(("nper", sorted(per.values(), reverse=True), k, "warith n_per %d" % k))
    outs = common.run_lines(runner, [l[3] for l in lines]) if lines else []
    for (kind, a, b, _), o in zip(lines, outs):
        if kind == "xref_line":
            want = bytes.fromhex(o)
            if want not in data:
                diffs.append("classic xref line for object %d (offset %d) differs from the model's %r" % (a[0], b, want))
        elif kind == "f1":
            if int(o) != a:
                diffs.append("/W[1] = %s but model f1_size = %s" % (a, o))
        elif kind == "nper":
            nper, nstreams = map(int, o.split())
            if len(a) != nstreams or a[0] != nper or any(x > nper for x in a):
                diffs.append("members per object stream %s but model says %d streams of at most %d for %d objects" % (a, nstreams, nper, b))
    return diffs


def stream_cases_doc(rng):
    """two pages; streams whose /Filter and /DecodeParms are indirect objects (name, dictionary, arrays whose elements are indirect
    again), as page content and as other streams; empty streams of every kind"""
    import zlib
    from pdfgen import D, Str
    N_ = Name
    d = pdfgen.page_doc(2, marker="C")
    text = lambda k: ("BT /F1 12 Tf 72 %d Td (case %d) Tj ET\n" % (700 - 20 * k, k)).encode()
    # page 1: Flate content stream with an indirect /DecodeParms dictionary, followed by an empty stream in the /Contents array
    parms = d.add(D(Predictor=1))
    cs1 = d.add(Stream({b"Filter": N_(b"FlateDecode"), b"DecodeParms": parms}, zlib.compress(text(1))))
    empty_in_array = d.add(Stream({}, b""))
    # page 2 is blank: its content stream is empty
    blank = d.add(Stream({}, b""))
    pages = [n for n, o in sorted(d.objects.items()) if isinstance(o, dict) and o.get(b"Type") == N_(b"Page")]
    d.objects[pages[0]][b"Contents"] = [cs1, empty_in_array]
    d.objects[pages[1]][b"Contents"] = blank
    # other streams, hung from the first page's resources and from the catalog
    flt_name = d.add(N_(b"FlateDecode"))
    s_indirect_filter = d.add(Stream({b"Filter": flt_name}, zlib.compress(text(2))))
    inner = d.add(D(Predictor=1))
    s_arrays = d.add(Stream({b"Filter": d.add([N_(b"FlateDecode")]), b"DecodeParms": d.add([inner])}, zlib.compress(text(3))))
    s_elems = d.add(Stream({b"Filter": [d.add(N_(b"ASCIIHexDecode")), N_(b"FlateDecode")], b"DecodeParms": [None, d.add(D(Predictor=1))]},
                           zlib.compress(text(4)).hex().encode() + b">"))
    empty_form = d.add(Stream({b"Type": N_(b"XObject"), b"Subtype": N_(b"Form"), b"BBox": [0, 0, 1, 1]}, b""))
    empty_after_decoding = d.add(Stream({b"Filter": N_(b"FlateDecode")}, zlib.compress(b"")))
    empty_hex = d.add(Stream({b"Filter": N_(b"ASCIIHexDecode")}, b">"))
    d.objects[pages[0]][b"Resources"] = {b"Font": d.objects[pages[0]][b"Resources"][b"Font"], b"XObject": {b"Fm0": empty_form}}
    others = [s_indirect_filter, s_arrays, s_elems, empty_after_decoding, empty_hex, d.add(Stream({b"Marker": 1}, b""))]
    rng.shuffle(others)
    d.objects[1][b"Extras"] = others
    d.trailer[b"Info"] = d.add(D(Title=Str(b"stream cases")))
    return d


def build_inputs(chk, wd):
    rng = chk.rng
    quick = chk.tier == "quick"
    inputs = []   # (name, path, kind)
    for name, data, doc in filecheck.gen_docs(rng, 6 if quick else 40):
        p = os.path.join(wd, name + ".pdf")
        open(p, "wb").write(data)
        inputs.append((name, p, "generated"))
    # (quick tier: two documents; the exact counts 99/100/101/200/201 are hit deterministically by the eligible-count inputs below and
    #  by the byte-exact part, and the extracted reader inflates a compressed object stream once per member, which makes these the
    #  most expensive outputs to read)
    for name, data, doc in filecheck.gen_docs(rng, 2 if quick else 12, big=True):
        p = os.path.join(wd, "big" + name + ".pdf")
        open(p, "wb").write(data)
        inputs.append(("big" + name, p, "generated-100-boundary"))
    # stream parameters held in indirect objects (they survive whenever the writer keeps the stream as it is) and empty streams
    # (0 bytes before filtering; 0 bytes after decoding; an empty element of a /Contents array; an empty form XObject), in every
    # writer configuration: the eligibility walk must follow /Filter and /DecodeParms, and /Length must be exact for empty data
    # under every encryption scheme
    for i in range(1 if quick else 4):
        d = stream_cases_doc(rng)
        p = os.path.join(wd, "streamcases%d.pdf" % i)
        open(p, "wb").write(pdfgen.write_classic(d, with_id=(b"0123456789abcdef", b"fedcba9876543210"))[0])
        inputs.append(("streamcases%d" % i, p, "stream-cases"))
    # relabelled header: object streams under a pre-1.5 header (read without warning by qpdf)
    for i, (name, p, kind) in enumerate(list(inputs[:2 if quick else 6])):
        q = os.path.join(wd, "relabel%d.pdf" % i)
        rc, se = filecheck.run_write(p, ["--object-streams=generate"], q)
        if rc == 0:
            d = open(q, "rb").read()
            if d.startswith(b"%PDF-1.5"):
                open(q, "wb").write(b"%PDF-1." + bytes([rng.choice(b"01234")]) + d[8:])
                inputs.append(("relabel%d" % i, q, "relabelled-header"))
    # exact eligible-object counts on and around the multiples of 100 (the split of generated object streams), found by
    # calibration: members(n extras) is read off a real write, then n is shifted to hit the target
    def counted_doc(nextra):
        d = pdfgen.page_doc(1, marker="E")
        d.objects[1][b"Extras"] = [d.add({b"I": i}) for i in range(nextra)]
        return pdfgen.write_classic(d)[0]

    def members_of(path):
        q = path + ".cal"
        rc, se = filecheck.run_write(path, ["--object-streams=generate", "--compress-streams=n"], q)
        r = filecheck.strict_read([q])[0] if rc == 0 else {"ok": False}
        return sum(1 for o in r["objects"] if o["where"][0] == "c") if r.get("ok") else None
    cal = os.path.join(wd, "cal.pdf")
    open(cal, "wb").write(counted_doc(50))
    base = members_of(cal)
    chk.cov["eligible_count_targets"] = []
    if base is not None:
        targets = [99, 100, 101, 200, 300] if quick else [99, 100, 101, 199, 200, 201, 299, 300, 301, 400, 500, 1000]
        for E in targets:
            n = 50 + (E - base)
            if n < 0:
                continue
            p = os.path.join(wd, "elig%d.pdf" % E)
            open(p, "wb").write(counted_doc(n))
            got = members_of(p)
            chk.cov["eligible_count_targets"].append({"target": E, "members_in_a_generate_write": got})
            inputs.append(("elig%d" % E, p, "eligible-count"))
    # preserved object streams with more members than one index byte can address (255..258; thorough: 700): the input is written
    # directly, not by qpdf (qpdf itself never generates more than 100 members), and rewritten with the default preserve mode
    import c17
    for m in ([255, 256, 257, 300] if quick else [100, 255, 256, 257, 258, 300, 700]):
        p = os.path.join(wd, "members%d.pdf" % m)
        open(p, "wb").write(c17.objstm_pdf(m))
        inputs.append(("members%d" % m, p, "preserved-big-objstm"))
    # corpus
    cf = filecheck.corpus_files()
    cf = [f for f in cf if os.path.getsize(f) <= 60000]
    sel = rng.sample(cf, 25 if quick else min(len(cf), 400))
    # always include recovered-trailer files (D4 class) and the D5 file
    for must in ("bad-content.pdf", "bad7.pdf", "issue-202.pdf", "bad-direct-root.pdf", "invalid-id-xref.pdf", "bad16.pdf", "issue-1503.pdf"):
        pth = os.path.join(filecheck.CORPUS_DIR, must)
        if os.path.exists(pth) and pth not in sel:
            sel.append(pth)
    for f in sel:
        inputs.append((os.path.basename(f), f, "corpus"))
    return inputs


def run(chk):
    rng = chk.rng
    quick = chk.tier == "quick"
    runner = os.path.join(common.EXTRACT, "model_runner")
    wd = common.workdir("C02")
    import time
    t_last = [time.time()]
    phases = chk.cov.setdefault("phase_seconds", {})

    def phase(name):
        now = time.time()
        phases[name] = round(phases.get(name, 0) + now - t_last[0], 1)
        t_last[0] = now
    chk.cov["rule"] = ("(input, writer configuration) pairs: generated documents (object model with every scalar kind, 90..260 extra objects around the "
                       "100-member boundary), one-page documents padded so that offsets straddle 2^16 around the linearization hint stream, inputs whose "
                       "header is relabelled below 1.5, repository corpus files incl. the recovered-trailer ones; each written by the real qpdf and read by "
                       "the extracted strict reader + requested-form clauses; non-trivial = a write that completed (exit 0/3) and produced <= 150 kB, distinct by (input, configuration); "
                       "part byte-exact-xref-stream-writer-model: generated documents aimed at the case splits of the object-stream / xref-stream writer (eligible counts "
                       "1..201, xref offsets around 2^8 and 2^16, exclusions, null and dangling references), real output compared byte for byte with the extracted "
                       "xs_write_doc and judged by the strict reader; non-trivial = byte-identical, distinct by document")
    # ---- byte-exact correspondence of the extracted object-stream / xref-stream writer model (harness/c02xs.py)
    import c02xs
    c02xs.run_part(chk, wd, runner)
    phase("xs-byte-exact")
    # the source -> Gallina translation of the leaf functions (bytesNeeded, ...) against the compiled source text
    leafcheck.run_part(chk)
    phase("leaf-translation")
    inputs = build_inputs(chk, wd)
    phase("build-inputs")
    cfgs = filecheck.CONFIGS_QUICK
    jobs = []
    for name, p, kind in inputs:
        use = cfgs if (kind != "corpus" or not quick) else rng.sample(cfgs, 6)
        if kind == "eligible-count":
            use = [["--object-streams=generate"], ["--object-streams=generate", "--compress-streams=n"], ["--qdf", "--object-streams=generate"]]
        elif kind == "preserved-big-objstm":
            use = [["--object-streams=preserve"], ["--object-streams=preserve", "--compress-streams=n"], ["--qdf", "--object-streams=preserve"],
                   ["--object-streams=preserve", "--linearize"]]
            if quick and name not in ("members256", "members257"):
                # away from the one-byte / two-byte index boundary the compressed variants (slow to read: one inflate per member) are left
                # to the thorough tier
                use = [["--object-streams=preserve", "--compress-streams=n"], ["--qdf", "--object-streams=preserve"]]
        for cfg in use:
            jobs.append((name, p, kind, cfg))
    # boundary sweep aimed at field-width changes around 2^16 (first-page xref stream of a linearized file)
    pads = range(64000, 65400, 40) if quick else range(63000, 66600, 20)
    for pad in pads:
        d = filecheck.padded_doc(pad)
        p = os.path.join(wd, "pad%d.pdf" % pad)
        open(p, "wb").write(pdfgen.write_classic(d)[0])
        jobs.append(("pad%d" % pad, p, "boundary", ["--linearize", "--object-streams=generate", "--compress-streams=n"]))
        if not quick or pad % 200 == 0:
            jobs.append(("pad%d" % pad, p, "boundary", ["--object-streams=generate", "--compress-streams=n"]))
            jobs.append(("pad%d" % pad, p, "boundary", ["--linearize", "--compress-streams=n"]))

    def runjob(i):
        name, p, kind, cfg = jobs[i]
        out = os.path.join(wd, "out%d.pdf" % i)
        rc, se = filecheck.run_write(p, cfg, out)
        return rc, se, out
    res = common.par_map(runjob, range(len(jobs)))
    phase("writes")
    done = [(i, rc, out) for i, (rc, se, out) in enumerate(res) if rc in (0, 3) and os.path.exists(out) and os.path.getsize(out) <= MAXSIZE]
    sr = filecheck.strict_read([o for _, _, o in done])
    phase("strict-read")
    nontriv = set()
    kinds = {}
    tie_diffs = []
    recheck = []
    for (i, rc, out), r in zip(done, sr):
        name, p, kind, cfg = jobs[i]
        kinds[kind] = kinds.get(kind, 0) + 1
        nontriv.add((name, filecheck.config_name(cfg)))
        case = {"input": p, "input_kind": kind, "argv": ["qpdf", "--static-id", "--static-aes-iv"] + cfg + [p, "out.pdf"], "qpdf_exit": rc}
        if not r["ok"]:
            chk.violation(dict(case, kind="property-fails-on-implementation", why="output is not strictly well-formed: " + filecheck.ERR.get(r["code"], str(r["code"])),
                               strict_reader=r), signature="strict:%s:%s:%s" % (r["code"], kind, name))
            continue
        sd = filecheck.StrictDoc(r, out)
        for prob in form_check(cfg, sd, name):
            chk.violation(dict(case, kind="property-fails-on-implementation", why="requested form not honoured: " + prob), signature="form:" + prob[:40])
        for dmsg in arith_tie(runner, sd, out, cfg):
            tie_diffs.append(dict(case, difference=dmsg))
        if rc == 0 and kind != "corpus":
            recheck.append((i, out, cfg))

    # qpdf re-reads its own output with no warning (inputs that were read cleanly)
    def rcheck(t):
        i, out, cfg = t
        args = ["--check", out]
        if has_flag(cfg, "--encrypt"):
            args = ["--password=o"] + args
        rc, so, se = common.run_qpdf(args)
        return rc, se
    # an input whose own --check is not clean (e.g. a stream whose decode parameters are out of range: a content-level
    # complaint that every rewrite inherits) cannot serve for this clause
    in_clean = {}
    for p_in in sorted(set(jobs[i][1] for i, _, _ in recheck)):
        in_clean[p_in] = None
    for p_in, (rc_in, so_in, se_in) in zip(list(in_clean), common.par_map(lambda q: common.run_qpdf(["--check", q]), list(in_clean))):
        in_clean[p_in] = (rc_in == 0)
    for (i, out, cfg), (rc, se) in zip(recheck, common.par_map(rcheck, recheck)):
        if rc != 0 and in_clean.get(jobs[i][1]):
            name, p, kind, c = jobs[i]
            chk.violation({"kind": "property-fails-on-implementation", "why": "qpdf --check of its own output is not clean", "input": p,
                           "argv": ["qpdf", "--static-id"] + c + [p, "out.pdf"], "check_exit": rc, "stderr": se.decode("latin-1")[-300:]})
    # ---- outputs around 2^24 bytes (too large for the extracted reader): Python-side structural oracle + the arithmetic model
    phase("form+arith+recheck")
    big_jobs = []
    for target in ([2 ** 24] if quick else [2 ** 24, 2 ** 24 + 2 ** 16]):
        for delta in ((-2000, 3000) if quick else (-4000, -2000, -300, 300, 3000)):
            pad = target + delta - 900
            p = os.path.join(wd, "bigpad%d.pdf" % pad)
            open(p, "wb").write(pdfgen.write_classic(filecheck.padded_doc(pad))[0])
            for cfg in (["--object-streams=generate", "--compress-streams=n"], ["--object-streams=disable", "--compress-streams=n"]):
                big_jobs.append((p, cfg, os.path.join(wd, "bigout%d_%d.pdf" % (pad, len(big_jobs)))))
    def bigrun(t):
        p, cfg, out = t
        rc, se = filecheck.run_write(p, cfg, out)
        return rc, (filecheck.big_xref_check(out) if rc == 0 else ["write failed: %s" % se.decode("latin-1")[-200:]])
    nbig = set()
    for (p, cfg, out), (rc, probs) in zip(big_jobs, common.par_map(bigrun, big_jobs, workers=4)):
        sz = os.path.getsize(out) if os.path.exists(out) else 0
        if probs:
            chk.violation({"kind": "property-fails-on-implementation", "why": "output around 2^24 bytes is not well-formed: " + probs[0], "input": p,
                           "argv": ["qpdf", "--static-id"] + cfg + [p, "out.pdf"], "output_size": sz, "problems": probs}, signature="big:" + probs[0][:30])
        else:
            nbig.add((os.path.basename(p), " ".join(cfg), sz > 2 ** 24))
        for f in (out,):
            if os.path.exists(f):
                os.unlink(f)
    for p in set(j[0] for j in big_jobs):
        os.unlink(p)
    chk.count("outputs-around-2^24", len(big_jobs), nbig, samples=[{"sizes_above_2^24": sum(1 for x in nbig if x[2]), "below": sum(1 for x in nbig if not x[2])}])
    phase("outputs-around-2^24")
    if tie_diffs:
        chk.violation({"kind": "correspondence-broken", "correspondence": "corr:C02:writer-arithmetic", "differing_cases": len(tie_diffs),
                       "first_cases": tie_diffs[:3]}, no_input=True)
    chk.count("outputs-strictly-read", len(done), nontriv,
              samples=[{"input": os.path.basename(jobs[i][1]), "config": filecheck.config_name(jobs[i][3]), "exit": rc} for i, rc, _ in done[:3]])
    chk.cov["parts"]["outputs-strictly-read"]["by_input_kind"] = kinds
    chk.cov["parts"]["outputs-strictly-read"]["writes_attempted"] = len(jobs)
    chk.cov["parts"]["outputs-strictly-read"]["rechecked_by_qpdf"] = len(recheck)


def replay(chk, rep):
    import json
    print(json.dumps(rep, indent=1)[:3000])
    return 0
