(* Model of libqpdf/QPDFTokenizer.cc (class qpdf::Tokenizer), written from the C++ handler by handler.
   Bytes are N < 256; `char` is signed on the platform and the comparisons that depend on it are
   written on the signed reading (ch_signed).  val / raw_val are kept REVERSED (the code appends at the
   end; the model conses at the front) and are turned around with rev' when a token is handed out.
   No proofs in this file. *)
From QV Require Import Base.Bytes.
Local Open Scope N_scope.

Inductive tstate :=
  TS_top | TS_in_hexstring | TS_in_string | TS_in_hexstring_2nd | TS_name | TS_literal | TS_in_space
| TS_in_comment | TS_string_escape | TS_char_code | TS_string_after_cr | TS_lt | TS_gt
| TS_inline_image | TS_sign | TS_number | TS_real | TS_decimal | TS_name_hex1 | TS_name_hex2
| TS_before_token | TS_token_ready.

Inductive ttype :=
  TT_bad | TT_array_close | TT_array_open | TT_brace_close | TT_brace_open | TT_dict_close
| TT_dict_open | TT_integer | TT_name | TT_real | TT_string | TT_null | TT_bool | TT_word | TT_eof
| TT_space | TT_comment | TT_inline_image.

(* error_message, by class; the hexstring message carries the offending character *)
Inductive terr :=
  TE_none | TE_rparen | TE_stray_hash | TE_null_in_name | TE_gt | TE_bad_hex (ch : N)
| TE_eof_in_token | TE_unexpected_eof | TE_too_long.

Definition ttype_eqb (a b : ttype) : bool :=
  match a, b with
  | TT_bad, TT_bad | TT_array_close, TT_array_close | TT_array_open, TT_array_open
  | TT_brace_close, TT_brace_close | TT_brace_open, TT_brace_open | TT_dict_close, TT_dict_close
  | TT_dict_open, TT_dict_open | TT_integer, TT_integer | TT_name, TT_name | TT_real, TT_real
  | TT_string, TT_string | TT_null, TT_null | TT_bool, TT_bool | TT_word, TT_word | TT_eof, TT_eof
  | TT_space, TT_space | TT_comment, TT_comment | TT_inline_image, TT_inline_image => true
  | _, _ => false
  end.

Record tk := mkTk {
  t_state : tstate;
  t_allow_eof : bool;
  t_incl_ign : bool;
  t_type : ttype;
  t_val : list N;
  t_raw : list N;
  t_err : terr;
  t_before : bool;
  t_in_token : bool;
  t_unread : N;
  t_iib : N;
  t_bad : bool;
  t_depth : Z;
  t_code : N;
  t_hexch : N;
  t_digits : N
}.

Definition set_state (x : tstate) (t : tk) : tk :=
  {| t_state := x; t_allow_eof := t_allow_eof t; t_incl_ign := t_incl_ign t; t_type := t_type t; t_val := t_val t; t_raw := t_raw t; t_err := t_err t; t_before := t_before t; t_in_token := t_in_token t; t_unread := t_unread t; t_iib := t_iib t; t_bad := t_bad t; t_depth := t_depth t; t_code := t_code t; t_hexch := t_hexch t; t_digits := t_digits t |}.
Definition set_allow_eof (x : bool) (t : tk) : tk :=
  {| t_state := t_state t; t_allow_eof := x; t_incl_ign := t_incl_ign t; t_type := t_type t; t_val := t_val t; t_raw := t_raw t; t_err := t_err t; t_before := t_before t; t_in_token := t_in_token t; t_unread := t_unread t; t_iib := t_iib t; t_bad := t_bad t; t_depth := t_depth t; t_code := t_code t; t_hexch := t_hexch t; t_digits := t_digits t |}.
Definition set_incl_ign (x : bool) (t : tk) : tk :=
  {| t_state := t_state t; t_allow_eof := t_allow_eof t; t_incl_ign := x; t_type := t_type t; t_val := t_val t; t_raw := t_raw t; t_err := t_err t; t_before := t_before t; t_in_token := t_in_token t; t_unread := t_unread t; t_iib := t_iib t; t_bad := t_bad t; t_depth := t_depth t; t_code := t_code t; t_hexch := t_hexch t; t_digits := t_digits t |}.
Definition set_type (x : ttype) (t : tk) : tk :=
  {| t_state := t_state t; t_allow_eof := t_allow_eof t; t_incl_ign := t_incl_ign t; t_type := x; t_val := t_val t; t_raw := t_raw t; t_err := t_err t; t_before := t_before t; t_in_token := t_in_token t; t_unread := t_unread t; t_iib := t_iib t; t_bad := t_bad t; t_depth := t_depth t; t_code := t_code t; t_hexch := t_hexch t; t_digits := t_digits t |}.
Definition set_val (x : list N) (t : tk) : tk :=
  {| t_state := t_state t; t_allow_eof := t_allow_eof t; t_incl_ign := t_incl_ign t; t_type := t_type t; t_val := x; t_raw := t_raw t; t_err := t_err t; t_before := t_before t; t_in_token := t_in_token t; t_unread := t_unread t; t_iib := t_iib t; t_bad := t_bad t; t_depth := t_depth t; t_code := t_code t; t_hexch := t_hexch t; t_digits := t_digits t |}.
Definition set_raw (x : list N) (t : tk) : tk :=
  {| t_state := t_state t; t_allow_eof := t_allow_eof t; t_incl_ign := t_incl_ign t; t_type := t_type t; t_val := t_val t; t_raw := x; t_err := t_err t; t_before := t_before t; t_in_token := t_in_token t; t_unread := t_unread t; t_iib := t_iib t; t_bad := t_bad t; t_depth := t_depth t; t_code := t_code t; t_hexch := t_hexch t; t_digits := t_digits t |}.
Definition set_err (x : terr) (t : tk) : tk :=
  {| t_state := t_state t; t_allow_eof := t_allow_eof t; t_incl_ign := t_incl_ign t; t_type := t_type t; t_val := t_val t; t_raw := t_raw t; t_err := x; t_before := t_before t; t_in_token := t_in_token t; t_unread := t_unread t; t_iib := t_iib t; t_bad := t_bad t; t_depth := t_depth t; t_code := t_code t; t_hexch := t_hexch t; t_digits := t_digits t |}.
Definition set_before (x : bool) (t : tk) : tk :=
  {| t_state := t_state t; t_allow_eof := t_allow_eof t; t_incl_ign := t_incl_ign t; t_type := t_type t; t_val := t_val t; t_raw := t_raw t; t_err := t_err t; t_before := x; t_in_token := t_in_token t; t_unread := t_unread t; t_iib := t_iib t; t_bad := t_bad t; t_depth := t_depth t; t_code := t_code t; t_hexch := t_hexch t; t_digits := t_digits t |}.
Definition set_in_token (x : bool) (t : tk) : tk :=
  {| t_state := t_state t; t_allow_eof := t_allow_eof t; t_incl_ign := t_incl_ign t; t_type := t_type t; t_val := t_val t; t_raw := t_raw t; t_err := t_err t; t_before := t_before t; t_in_token := x; t_unread := t_unread t; t_iib := t_iib t; t_bad := t_bad t; t_depth := t_depth t; t_code := t_code t; t_hexch := t_hexch t; t_digits := t_digits t |}.
Definition set_unread (x : N) (t : tk) : tk :=
  {| t_state := t_state t; t_allow_eof := t_allow_eof t; t_incl_ign := t_incl_ign t; t_type := t_type t; t_val := t_val t; t_raw := t_raw t; t_err := t_err t; t_before := t_before t; t_in_token := t_in_token t; t_unread := x; t_iib := t_iib t; t_bad := t_bad t; t_depth := t_depth t; t_code := t_code t; t_hexch := t_hexch t; t_digits := t_digits t |}.
Definition set_iib (x : N) (t : tk) : tk :=
  {| t_state := t_state t; t_allow_eof := t_allow_eof t; t_incl_ign := t_incl_ign t; t_type := t_type t; t_val := t_val t; t_raw := t_raw t; t_err := t_err t; t_before := t_before t; t_in_token := t_in_token t; t_unread := t_unread t; t_iib := x; t_bad := t_bad t; t_depth := t_depth t; t_code := t_code t; t_hexch := t_hexch t; t_digits := t_digits t |}.
Definition set_bad (x : bool) (t : tk) : tk :=
  {| t_state := t_state t; t_allow_eof := t_allow_eof t; t_incl_ign := t_incl_ign t; t_type := t_type t; t_val := t_val t; t_raw := t_raw t; t_err := t_err t; t_before := t_before t; t_in_token := t_in_token t; t_unread := t_unread t; t_iib := t_iib t; t_bad := x; t_depth := t_depth t; t_code := t_code t; t_hexch := t_hexch t; t_digits := t_digits t |}.
Definition set_depth (x : Z) (t : tk) : tk :=
  {| t_state := t_state t; t_allow_eof := t_allow_eof t; t_incl_ign := t_incl_ign t; t_type := t_type t; t_val := t_val t; t_raw := t_raw t; t_err := t_err t; t_before := t_before t; t_in_token := t_in_token t; t_unread := t_unread t; t_iib := t_iib t; t_bad := t_bad t; t_depth := x; t_code := t_code t; t_hexch := t_hexch t; t_digits := t_digits t |}.
Definition set_code (x : N) (t : tk) : tk :=
  {| t_state := t_state t; t_allow_eof := t_allow_eof t; t_incl_ign := t_incl_ign t; t_type := t_type t; t_val := t_val t; t_raw := t_raw t; t_err := t_err t; t_before := t_before t; t_in_token := t_in_token t; t_unread := t_unread t; t_iib := t_iib t; t_bad := t_bad t; t_depth := t_depth t; t_code := x; t_hexch := t_hexch t; t_digits := t_digits t |}.
Definition set_hexch (x : N) (t : tk) : tk :=
  {| t_state := t_state t; t_allow_eof := t_allow_eof t; t_incl_ign := t_incl_ign t; t_type := t_type t; t_val := t_val t; t_raw := t_raw t; t_err := t_err t; t_before := t_before t; t_in_token := t_in_token t; t_unread := t_unread t; t_iib := t_iib t; t_bad := t_bad t; t_depth := t_depth t; t_code := t_code t; t_hexch := x; t_digits := t_digits t |}.
Definition set_digits (x : N) (t : tk) : tk :=
  {| t_state := t_state t; t_allow_eof := t_allow_eof t; t_incl_ign := t_incl_ign t; t_type := t_type t; t_val := t_val t; t_raw := t_raw t; t_err := t_err t; t_before := t_before t; t_in_token := t_in_token t; t_unread := t_unread t; t_iib := t_iib t; t_bad := t_bad t; t_depth := t_depth t; t_code := t_code t; t_hexch := t_hexch t; t_digits := x |}.

(* ---- character classes, as the code computes them ---- *)
Definition ch_signed (b : N) : Z := if b <? 128 then Z.of_N b else (Z.of_N b - 256)%Z.

(* util::is_space (Util.hh) *)
Definition util_is_space (ch : N) : bool :=
  (ch =? 32) || (ch =? 10) || (ch =? 13) || (ch =? 9) || (ch =? 12) || (ch =? 11).
(* Tokenizer::isSpace *)
Definition tk_is_space (ch : N) : bool := (ch =? 0) || util_is_space ch.
(* is_delimiter (QPDFTokenizer.cc) *)
Definition tk_is_delimiter (ch : N) : bool :=
  (ch =? 32) || (ch =? 10) || (ch =? 47) || (ch =? 40) || (ch =? 41) || (ch =? 123) || (ch =? 125) ||
  (ch =? 60) || (ch =? 62) || (ch =? 91) || (ch =? 93) || (ch =? 37) || (ch =? 9) || (ch =? 13) ||
  (ch =? 11) || (ch =? 12) || (ch =? 0).
(* util::is_digit, on signed char *)
Definition util_is_digit (ch : N) : bool := ((ch_signed ch >=? 48) && (ch_signed ch <=? 57))%Z.
(* util::hex_decode_char, on signed char; '\20' = 16 means "not a hex digit" *)
Definition hex_decode_char (ch : N) : Z :=
  let d := ch_signed ch in
  (if (d <=? 57) && (d >=? 48) then d - 48
   else if d >=? 97 then d - 97 + 10
   else if d >=? 65 then d - 65 + 10 else 16)%Z.

(* ---- reset / constructor ---- *)
Definition tk_reset (t : tk) : tk :=
  {| t_state := TS_before_token; t_allow_eof := t_allow_eof t; t_incl_ign := t_incl_ign t;
     t_type := TT_bad; t_val := []; t_raw := []; t_err := TE_none; t_before := true;
     t_in_token := false; t_unread := 0; t_iib := 0; t_bad := false; t_depth := 0%Z;
     t_code := t_code t; t_hexch := t_hexch t; t_digits := t_digits t |}.

Definition tk_new (allow_eof incl_ign : bool) : tk :=
  {| t_state := TS_before_token; t_allow_eof := allow_eof; t_incl_ign := incl_ign;
     t_type := TT_bad; t_val := []; t_raw := []; t_err := TE_none; t_before := true;
     t_in_token := false; t_unread := 0; t_iib := 0; t_bad := false; t_depth := 0%Z;
     t_code := 0; t_hexch := 0; t_digits := 0 |}.

Definition push_val (ch : N) (t : tk) : tk := set_val (ch :: t_val t) t.
Definition push_raw (ch : N) (t : tk) : tk := set_raw (ch :: t_raw t) t.
Definition ready_with (ty : ttype) (t : tk) : tk := set_state TS_token_ready (set_type ty t).
(* in_token = false; char_to_unread = ch; state = st_token_ready; type = ty *)
Definition ready_unread (ty : ttype) (ch : N) (t : tk) : tk :=
  set_state TS_token_ready (set_unread ch (set_in_token false (set_type ty t))).

Definition is_ready (t : tk) : bool := match t_state t with TS_token_ready => true | _ => false end.

(* raw_val == "..." : raw is reversed, so compare with the reversed constant *)
Definition raw_is (t : tk) (s : list N) : bool := list_eqb N.eqb (t_raw t) (rev' s).
Definition str_true : list N := [116; 114; 117; 101].
Definition str_false : list N := [102; 97; 108; 115; 101].
Definition str_null : list N := [110; 117; 108; 108].

(* ---- handlers ---- *)
Definition in_top (t : tk) (ch : N) : tk :=
  if ch =? 40 then set_state TS_in_string (set_depth 1%Z t)
  else if ch =? 60 then set_state TS_lt t
  else if ch =? 62 then set_state TS_gt t
  else if ch =? 41 then set_state TS_token_ready (set_err TE_rparen (set_type TT_bad t))
  else if ch =? 91 then ready_with TT_array_open t
  else if ch =? 93 then ready_with TT_array_close t
  else if ch =? 123 then ready_with TT_brace_open t
  else if ch =? 125 then ready_with TT_brace_close t
  else if ch =? 47 then push_val ch (set_state TS_name t)
  else if (48 <=? ch) && (ch <=? 57) then set_state TS_number t
  else if (ch =? 43) || (ch =? 45) then set_state TS_sign t
  else if ch =? 46 then set_state TS_decimal t
  else set_state TS_literal t.

Definition in_before_token (t : tk) (ch : N) : tk :=
  let ii := t_incl_ign t in
  if tk_is_space ch then
    let t1 := set_in_token ii (set_before (negb ii) t) in
    if ii then set_state TS_in_space t1 else t1
  else if ch =? 37 then
    set_state TS_in_comment (set_in_token ii (set_before (negb ii) t))
  else in_top (set_in_token true (set_before false t)) ch.

Definition in_space (t : tk) (ch : N) : tk :=
  if negb (tk_is_space ch) then ready_unread TT_space ch t else t.

Definition in_comment (t : tk) (ch : N) : tk :=
  if (ch =? 13) || (ch =? 10) then
    if t_incl_ign t then ready_unread TT_comment ch t else set_state TS_before_token t
  else t.

Definition in_string (t : tk) (ch : N) : tk :=
  if ch =? 92 then set_state TS_string_escape t
  else if ch =? 40 then set_depth (t_depth t + 1)%Z (push_val ch t)
  else if ch =? 41 then
    let t1 := set_depth (t_depth t - 1)%Z t in
    if (t_depth t1 =? 0)%Z then ready_with TT_string t1 else push_val ch t1
  else if ch =? 13 then set_state TS_string_after_cr (push_val 10 t)
  else push_val ch t.

Definition in_literal (t : tk) (ch : N) : tk :=
  if tk_is_delimiter ch then
    let ty := if raw_is t str_true || raw_is t str_false then TT_bool
              else if raw_is t str_null then TT_null else TT_word in
    set_type ty (set_state TS_token_ready (set_unread ch (set_in_token false t)))
  else t.

Definition in_name (t : tk) (ch : N) : tk :=
  if tk_is_delimiter ch then ready_unread (if t_bad t then TT_bad else TT_name) ch t
  else if ch =? 35 then set_state TS_name_hex1 (set_code 0 t)
  else push_val ch t.

Definition in_name_hex1 (t : tk) (ch : N) : tk :=
  let t0 := set_hexch ch t in
  let hval := hex_decode_char ch in
  if (hval <? 16)%Z then set_state TS_name_hex2 (set_code (Z.to_N (hval * 16)) t0)
  else in_name (set_state TS_name (push_val 0 (set_err TE_stray_hash t0))) ch.

Definition in_name_hex2 (t : tk) (ch : N) : tk :=
  let hval := hex_decode_char ch in
  if (hval <? 16)%Z then
    let t1 := set_code (N.lor (t_code t) (Z.to_N hval)) t in
    if t_code t1 =? 0 then
      set_bad true (set_state TS_name
        (set_val (48 :: 48 :: 35 :: t_val t1) (set_err TE_null_in_name t1)))
    else set_state TS_name (push_val (t_code t1) t1)
  else
    in_name (set_state TS_name (push_val (t_hexch t) (push_val 0 (set_err TE_stray_hash t)))) ch.

Definition in_sign (t : tk) (ch : N) : tk :=
  if util_is_digit ch then set_state TS_number t
  else if ch =? 46 then set_state TS_decimal t
  else in_literal (set_state TS_literal t) ch.

Definition in_decimal (t : tk) (ch : N) : tk :=
  if util_is_digit ch then set_state TS_real t
  else in_literal (set_state TS_literal t) ch.

Definition in_number (t : tk) (ch : N) : tk :=
  if util_is_digit ch then t
  else if ch =? 46 then set_state TS_real t
  else if tk_is_delimiter ch then ready_unread TT_integer ch t
  else set_state TS_literal t.

Definition in_real (t : tk) (ch : N) : tk :=
  if util_is_digit ch then t
  else if tk_is_delimiter ch then ready_unread TT_real ch t
  else set_state TS_literal t.

Definition in_char_code (t : tk) (ch : N) : tk :=
  let is_oct := (48 <=? ch) && (ch <=? 55) in
  let t1 := if is_oct then set_digits (t_digits t + 1) (set_code (8 * t_code t + (ch - 48)) t) else t in
  if is_oct && (t_digits t1 <? 3) then t1
  else
    let t2 := set_state TS_in_string (push_val (t_code t1 mod 256) t1) in
    if is_oct then t2 else in_string t2 ch.

Definition in_string_escape (t : tk) (ch : N) : tk :=
  let t0 := set_state TS_in_string t in
  if (48 <=? ch) && (ch <=? 55) then
    in_char_code (set_digits 0 (set_code 0 (set_state TS_char_code t0))) ch
  else if ch =? 110 then push_val 10 t0
  else if ch =? 114 then push_val 13 t0
  else if ch =? 116 then push_val 9 t0
  else if ch =? 98 then push_val 8 t0
  else if ch =? 102 then push_val 12 t0
  else if ch =? 10 then t0
  else if ch =? 13 then set_state TS_string_after_cr t0
  else push_val ch t0.

Definition in_string_after_cr (t : tk) (ch : N) : tk :=
  let t0 := set_state TS_in_string t in
  if ch =? 10 then t0 else in_string t0 ch.

Definition in_hexstring (t : tk) (ch : N) : tk :=
  let hval := hex_decode_char ch in
  if (hval <? 16)%Z then set_state TS_in_hexstring_2nd (set_code (Z.to_N (hval * 16)) t)
  else if ch =? 62 then ready_with TT_string t
  else if tk_is_space ch then t
  else set_state TS_token_ready (set_err (TE_bad_hex ch) (set_type TT_bad t)).

Definition in_hexstring_2nd (t : tk) (ch : N) : tk :=
  let hval := hex_decode_char ch in
  if (hval <? 16)%Z then
    (* val += char(char_code) | hval  (the int is narrowed to char by +=) *)
    set_state TS_in_hexstring (push_val ((N.lor (t_code t) (Z.to_N hval)) mod 256) t)
  else if ch =? 62 then ready_with TT_string (push_val (t_code t mod 256) t)
  else if tk_is_space ch then t
  else set_state TS_token_ready (set_err (TE_bad_hex ch) (set_type TT_bad t)).

Definition in_lt (t : tk) (ch : N) : tk :=
  if ch =? 60 then ready_with TT_dict_open t
  else in_hexstring (set_state TS_in_hexstring t) ch.

Definition in_gt (t : tk) (ch : N) : tk :=
  if ch =? 62 then ready_with TT_dict_close t
  else set_state TS_token_ready (set_unread ch (set_in_token false (set_err TE_gt (set_type TT_bad t)))).

Definition raw_len (t : tk) : N := N.of_nat (length (t_raw t)).

Definition in_inline_image (t : tk) (ch : N) : tk :=
  if raw_len t + 1 =? t_iib t then set_state TS_token_ready (set_iib 0 (set_type TT_inline_image t))
  else t.

(* Tokenizer::handleCharacter.  st_token_ready throws std::logic_error in the code: see
   present_character below; here the state is left alone so that the function is total. *)
Definition handle_character (t : tk) (ch : N) : tk :=
  match t_state t with
  | TS_top => in_top t ch
  | TS_in_space => in_space t ch
  | TS_in_comment => in_comment t ch
  | TS_lt => in_lt t ch
  | TS_gt => in_gt t ch
  | TS_in_string => in_string t ch
  | TS_name => in_name t ch
  | TS_number => in_number t ch
  | TS_real => in_real t ch
  | TS_string_after_cr => in_string_after_cr t ch
  | TS_string_escape => in_string_escape t ch
  | TS_char_code => in_char_code t ch
  | TS_literal => in_literal t ch
  | TS_inline_image => in_inline_image t ch
  | TS_in_hexstring => in_hexstring t ch
  | TS_in_hexstring_2nd => in_hexstring_2nd t ch
  | TS_name_hex1 => in_name_hex1 t ch
  | TS_name_hex2 => in_name_hex2 t ch
  | TS_sign => in_sign t ch
  | TS_decimal => in_decimal t ch
  | TS_before_token => in_before_token t ch
  | TS_token_ready => t
  end.

(* Tokenizer::presentCharacter on a tokenizer that is not in st_token_ready *)
Definition present_char_nr (t : tk) (ch : N) : tk :=
  let t1 := handle_character t ch in
  if t_in_token t1 then push_raw ch t1 else t1.

(* public presentCharacter: None = std::logic_error ("presented character while token is waiting") *)
Definition present_character (t : tk) (ch : N) : option tk :=
  if is_ready t then None else Some (present_char_nr t ch).

(* Tokenizer::presentEOF *)
Definition present_eof (t : tk) : tk :=
  let t1 :=
    match t_state t with
    | TS_name | TS_name_hex1 | TS_name_hex2 | TS_number | TS_real | TS_sign | TS_decimal | TS_literal =>
        set_in_token true (present_char_nr t 12)
    | TS_top | TS_before_token => set_type TT_eof t
    | TS_in_space => set_type (if t_incl_ign t then TT_space else TT_eof) t
    | TS_in_comment => set_type (if t_incl_ign t then TT_comment else TT_eof) t   (* fix dd6235ea: was tt_bad *)
    | TS_token_ready => t
    | _ => set_err TE_eof_in_token (set_type TT_bad t)
    end in
  set_state TS_token_ready t1.

(* ---- tokens ---- *)
Record token := mkToken { tok_type : ttype; tok_value : list N; tok_raw : list N; tok_err : terr }.

Definition tk_token (t : tk) : token :=
  match t_type t with
  | TT_name | TT_string => mkToken (t_type t) (rev' (t_val t)) (rev' (t_raw t)) (t_err t)
  | _ => mkToken (t_type t) (rev' (t_raw t)) (rev' (t_raw t)) (t_err t)
  end.

Definition tk_unread_flag (t : tk) : bool := negb (t_in_token t) && negb (t_before t).

(* Tokenizer::getToken: (ready, unread_char, ch, token if ready, tokenizer afterwards) *)
Definition get_token (t : tk) : bool * bool * N * option token * tk :=
  if is_ready t then (true, tk_unread_flag t, t_unread t, Some (tk_token t), tk_reset t)
  else (false, tk_unread_flag t, t_unread t, None, t).

(* ---- nextToken over a buffer ---- *)
Definition too_long (t : tk) : tk :=
  set_err TE_too_long (set_state TS_token_ready (set_type TT_bad t)).

(* one iteration of the while loop of nextToken for a character that was read *)
Definition nt_step (max_len : N) (t : tk) (ch : N) : tk :=
  let t2 := present_char_nr t ch in
  if negb (max_len =? 0) && (max_len <=? raw_len t2) && negb (is_ready t2) then too_long t2 else t2.

(* inp = the input from the read position on, pos = absolute position of its head, offset = the
   local `offset`.  Result: tokenizer, remaining input, offset, position after fastUnread. *)
Fixpoint nt_loop (max_len : N) (t : tk) (inp : list N) (offset pos : N) : tk * list N * N * N :=
  match inp with
  | [] =>
      let t1 := present_eof t in
      let back := if tk_unread_flag t1 then 1 else 0 in   (* never 1 on a reachable state *)
      if ttype_eqb (t_type t1) TT_eof && negb (t_allow_eof t1)
      then (set_err TE_unexpected_eof (set_type TT_bad t1), [], pos, pos - back)
      else (t1, [], offset, pos - back)
  | ch :: rest =>
      let t1 := nt_step max_len t ch in
      let offset1 := if t_before t1 then offset + 1 else offset in
      if is_ready t1 then
        if tk_unread_flag t1 then (t1, inp, offset1, pos) else (t1, rest, offset1, pos + 1)
      else nt_loop max_len t1 rest offset1 (pos + 1)
  end.

(* Tokenizer::nextToken: (tokenizer, remaining input, tell(), getLastOffset()) *)
Definition next_token (max_len : N) (t : tk) (inp : list N) (pos : N) : tk * list N * N * N :=
  let t0 := match t_state t with TS_inline_image => t | _ => tk_reset t end in
  let '(t1, rest, offset, newpos) := nt_loop max_len t0 inp pos pos in
  let last := if ttype_eqb (t_type t1) TT_eof then newpos else offset in
  (t1, rest, newpos, last).

(* Tokenizer::readToken: threw = QPDFExc(qpdf_e_damaged_pdf) carrying the token's error message
   (bad token, allow_bad = false); the token is returned in both cases *)
Definition read_token (max_len : N) (allow_bad : bool) (t : tk) (inp : list N) (pos : N)
  : token * bool * tk * list N * N * N :=
  let '(t1, rest, newpos, last) := next_token max_len t inp pos in
  let tok := tk_token t1 in
  let t2 := tk_reset t1 in
  (tok, ttype_eqb (tok_type tok) TT_bad && negb allow_bad, t2, rest, newpos, last).

(* ---- the two drivers used by the correspondence ---- *)
(* (a) the classic presentCharacter/getToken loop: present ch; if a token is ready take it and
   re-present the unread character (which can complete at most one further one-character token). *)
Definition present_collect (t : tk) (ch : N) (acc : list (token * bool)) : option (tk * list (token * bool)) :=
  match present_character t ch with
  | None => None
  | Some t1 =>
      match get_token t1 with
      | (true, unread, uch, Some tok, t2) =>
          if unread then
            match present_character t2 uch with
            | None => None
            | Some t3 =>
                match get_token t3 with
                | (true, unread2, _, Some tok2, t4) => Some (t4, (tok2, unread2) :: (tok, unread) :: acc)
                | (_, _, _, _, t4) => Some (t4, (tok, unread) :: acc)
                end
            end
          else Some (t2, (tok, unread) :: acc)
      | (_, _, _, _, t2) => Some (t2, acc)
      end
  end.

Fixpoint tok_stream_loop (t : tk) (inp : list N) (acc : list (token * bool)) : option (tk * list (token * bool)) :=
  match inp with
  | [] => Some (t, acc)
  | ch :: rest =>
      match present_collect t ch acc with
      | None => None
      | Some (t1, acc1) => tok_stream_loop t1 rest acc1
      end
  end.

(* result: tokens with their unread flags, between-tokens flag at the end; None = logic_error *)
Definition tok_stream (allow_eof incl_ign : bool) (inp : list N) (eof : bool)
  : option (list (token * bool) * bool) :=
  match tok_stream_loop (tk_new allow_eof incl_ign) inp [] with
  | None => None
  | Some (t, acc) =>
      if eof then
        let t1 := present_eof t in
        match get_token t1 with
        | (true, unread, _, Some tok, t2) => Some (rev' ((tok, unread) :: acc), t_before t2)
        | (_, _, _, _, t2) => Some (rev' acc, t_before t2)
        end
      else Some (rev' acc, t_before t)
  end.

(* (b) readToken until tt_eof, a thrown QPDFExc, or the input is exhausted.  Each token is followed by
   tell() and getLastOffset().  fuel = S (length input) suffices (next_token_progress). *)
Fixpoint read_tokens_fuel (fuel : nat) (max_len : N) (allow_bad : bool) (t : tk) (inp : list N) (pos : N)
  (acc : list (token * bool * N * N)) : list (token * bool * N * N) :=
  match fuel with
  | O => rev' acc
  | S f =>
      let '(tok, threw, t1, rest, newpos, last) := read_token max_len allow_bad t inp pos in
      let acc1 := (tok, threw, newpos, last) :: acc in
      if threw || ttype_eqb (tok_type tok) TT_eof then rev' acc1
      else read_tokens_fuel f max_len allow_bad t1 rest newpos acc1
  end.

Definition read_tokens (allow_eof incl_ign : bool) (max_len : N) (allow_bad : bool) (inp : list N)
  : list (token * bool * N * N) :=
  read_tokens_fuel (S (S (length inp))) max_len allow_bad (tk_new allow_eof incl_ign) inp 0 [].

(* (c) presentCharacter for every character with no getToken in between (this is the only way to
   present a character to a tokenizer in st_token_ready), optional presentEOF, then one getToken. *)
Fixpoint present_all (t : tk) (inp : list N) : option tk :=
  match inp with
  | [] => Some t
  | ch :: r => match present_character t ch with None => None | Some t1 => present_all t1 r end
  end.

Definition tokraw_run (allow_eof incl_ign : bool) (inp : list N) (eof : bool)
  : option (bool * bool * N * option token * bool) :=
  match present_all (tk_new allow_eof incl_ign) inp with
  | None => None
  | Some t =>
      let t1 := if eof then present_eof t else t in
      let '(ready, unread, ch, otok, t2) := get_token t1 in
      Some (ready, unread, ch, otok, t_before t2)
  end.
