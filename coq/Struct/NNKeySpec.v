(* Specification side of the key order of name trees, written from ISO 32000-2 (7.9.2.2 text strings, Annex D.2
   PDFDocEncoding) and from include/qpdf/QPDFNameTreeObjectHelper.hh ("use UTF-8 strings ... All names are normalized for
   lookup purposes") -- not from NNTree.cc / QUtil.cc:  a key is its TEXT, a sequence of Unicode code points; keys are
   ordered by their texts, code point by code point.
   Covered here: strings without a byte order mark, i.e. PDFDocEncoding (what qpdf writes for every key that can be
   written so, and by far the commonest spelling in files).  The table is Annex D.2; codes without a character
   (0x7F, 0x9F, 0xAD) have no text.  No proofs in this file; nothing of the model is used. *)
From QV Require Import Base.Bytes.
Local Open Scope N_scope.

(* Annex D.2: the codes whose character is not the Unicode code point of the same number *)
Definition ks_annex_d : list (N * N) :=
  [ (24, 728)   (* BREVE *);            (25, 711)  (* CARON *);
    (26, 710)   (* MODIFIER CIRCUMFLEX *); (27, 729)  (* DOT ABOVE *);
    (28, 733)   (* DOUBLE ACUTE *);     (29, 731)  (* OGONEK *);
    (30, 730)   (* RING ABOVE *);       (31, 732)  (* SMALL TILDE *);
    (128, 8226) (* BULLET *);           (129, 8224) (* DAGGER *);
    (130, 8225) (* DOUBLE DAGGER *);    (131, 8230) (* HORIZONTAL ELLIPSIS *);
    (132, 8212) (* EM DASH *);          (133, 8211) (* EN DASH *);
    (134, 402)  (* F WITH HOOK *);      (135, 8260) (* FRACTION SLASH *);
    (136, 8249) (* SINGLE LEFT ANGLE QUOTE *); (137, 8250) (* SINGLE RIGHT ANGLE QUOTE *);
    (138, 8722) (* MINUS SIGN *);       (139, 8240) (* PER MILLE *);
    (140, 8222) (* DOUBLE LOW-9 QUOTE *); (141, 8220) (* LEFT DOUBLE QUOTE *);
    (142, 8221) (* RIGHT DOUBLE QUOTE *); (143, 8216) (* LEFT SINGLE QUOTE *);
    (144, 8217) (* RIGHT SINGLE QUOTE *); (145, 8218) (* SINGLE LOW-9 QUOTE *);
    (146, 8482) (* TRADE MARK *);       (147, 64257) (* LIGATURE FI *);
    (148, 64258) (* LIGATURE FL *);     (149, 321) (* L WITH STROKE *);
    (150, 338)  (* LIGATURE OE *);      (151, 352) (* S WITH CARON *);
    (152, 376)  (* Y WITH DIAERESIS *); (153, 381) (* Z WITH CARON *);
    (154, 305)  (* DOTLESS I *);        (155, 322) (* l WITH STROKE *);
    (156, 339)  (* LIGATURE oe *);      (157, 353) (* s WITH CARON *);
    (158, 382)  (* z WITH CARON *);     (160, 8364) (* EURO SIGN *) ].

Fixpoint ks_lookup (k : N) (l : list (N * N)) : option N :=
  match l with
  | [] => None
  | (a, u) :: r => if N.eqb a k then Some u else ks_lookup k r
  end.

(* the character of a PDFDocEncoding code; None: not a byte, or a code without a character *)
Definition ks_pdfdoc_char (b : N) : option N :=
  if 256 <=? b then None
  else if (b =? 127) || (b =? 159) || (b =? 173) then None
  else match ks_lookup b ks_annex_d with Some u => Some u | None => Some b end.

(* 7.9.2.2: a text string starting with FE FF is UTF-16BE, with EF BB BF UTF-8 (PDF 2.0); (FF FE is not a PDF spelling;
   qpdf reads it as UTF-16LE).  Anything else is PDFDocEncoding. *)
Definition ks_unmarked (s : list N) : bool :=
  match s with
  | 254 :: 255 :: _ => false
  | 255 :: 254 :: _ => false
  | 239 :: 187 :: 191 :: _ => false
  | _ => true
  end.

Fixpoint ks_chars (s : list N) : option (list N) :=
  match s with
  | [] => Some []
  | b :: r => match ks_pdfdoc_char b, ks_chars r with
              | Some u, Some t => Some (u :: t)
              | _, _ => None
              end
  end.

(* the text of a PDFDocEncoded string *)
Definition ks_pdfdoc_text (s : list N) : option (list N) := if ks_unmarked s then ks_chars s else None.

(* order of texts: at the first position where they differ the smaller code point decides; a proper prefix comes first *)
Fixpoint ks_text_order (a b : list N) : comparison :=
  match a, b with
  | [], [] => Eq
  | [], _ :: _ => Lt
  | _ :: _, [] => Gt
  | x :: a', y :: b' => if x <? y then Lt else if y <? x then Gt else ks_text_order a' b'
  end.

(* ------------------------------------------------------------------ UTF-16BE text strings (7.9.2.2; RFC 2781) *)
(* a 16-bit unit, big-endian, is a character of the Basic Multilingual Plane, or the first (D800..DBFF) or the second
   (DC00..DFFF) half of a surrogate pair; a pair (hi, lo) is the character 0x10000 + (hi - 0xD800) * 0x400 + (lo - 0xDC00).
   Strict: an odd number of bytes, a first half not followed by a second half, or a second half alone, have no text. *)
Inductive ks_unit : Type := KsPlain (u : N) | KsHigh (part : N) | KsLow (part : N).
Definition ks_unit_of (a b : N) : ks_unit :=
  let u := a * 256 + b in
  if (55296 <=? u) && (u <? 56320) then KsHigh (65536 + (u - 55296) * 1024)
  else if (56320 <=? u) && (u <? 57344) then KsLow (u - 56320)
  else KsPlain u.

Fixpoint ks_utf16be (l : list N) : option (list N) :=
  match l with
  | [] => Some []
  | a :: b :: t =>
      if (256 <=? a) || (256 <=? b) then None else
      match ks_unit_of a b with
      | KsPlain u => match ks_utf16be t with Some r => Some (u :: r) | None => None end
      | KsLow _ => None
      | KsHigh hi =>
          match t with
          | a2 :: b2 :: t2 =>
              if (256 <=? a2) || (256 <=? b2) then None else
              match ks_unit_of a2 b2 with
              | KsLow lo => match ks_utf16be t2 with Some r => Some (hi + lo :: r) | None => None end
              | _ => None
              end
          | _ => None
          end
      end
  | _ :: [] => None
  end.

(* the text of a stored string in one of the two spellings qpdf itself writes (QPDFObjectHandle::newUnicodeString:
   PDFDocEncoding when the text can be written so, UTF-16BE with the mark FE FF otherwise) *)
Definition ks_has_be_mark (s : list N) : bool :=
  match s with a :: b :: _ => (a =? 254) && (b =? 255) | _ => false end.
Definition ks_text (s : list N) : option (list N) :=
  if ks_has_be_mark s then ks_utf16be (skipn 2 s) else ks_pdfdoc_text s.
