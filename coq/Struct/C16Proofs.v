(* C16: the property theorems.  Model: Struct/ContentNorm.v (written from Pl_QPDFTokenizer.cc, ContentNormalizer.cc,
   QPDFTokenizer.cc findEI/expectInlineImage, QPDFObjectHandle.cc pipeContentStreams).  Specification: Struct/ContentSem.v
   (independent content reading on the ISO lexer Lex/LexSpec.v).  Hypothesis test: Struct/ContentRel.v. *)
From QV Require Import Base.Bytes Lex.TokModel Lex.LexSpec Lex.TokInterp Lex.LexRun Lex.LexProofs Obj.Unparse Obj.UnparseProofs Struct.ContentNorm Struct.ContentSem Struct.ContentRel Struct.C16ProofsA Struct.C16ProofsB Struct.C16ProofsC Struct.C16ProofsD Struct.C16ProofsE Struct.C16ProofsF.
Local Open Scope N_scope.

Local Arguments c16_find_ei : simpl never.

Lemma ei_okb_sound : forall f c, c16_ei_okb_fuel f c = true -> ei_ok c.
Proof.
  induction f as [|f IH]; intros c H; [discriminate|]. cbn [c16_ei_okb_fuel] in H.
  destruct (c16_step c) as [| |toks rest] eqn:Es; [apply eo_end, Es|discriminate|].
  destruct toks as [|x [|y [|z l]]]; try discriminate.
  - eapply eo_tok; [exact Es|apply IH; destruct x; exact H].
  - destruct x; try discriminate. destruct y; try discriminate.
    apply andb_true_iff in H. destruct H as [H H3]. apply andb_true_iff in H. destruct H as [H1 H2].
    eapply eo_img; [exact Es| |apply N.eqb_eq, H2|apply IH, H3].
    intros ->. discriminate.
  - destruct x; try discriminate. destruct y; discriminate.
Qed.

Lemma clean_props c : c16_clean c = true -> bytes_ok c /\ ~ In 11 c /\ ei_ok c.
Proof.
  unfold c16_clean. intros H. apply andb_true_iff in H. destruct H as [H1 H2]. rewrite forallb_forall in H1.
  split; [|split].
  - apply Forall_forall. intros x Hx. specialize (H1 x Hx). apply andb_true_iff in H1. destruct H1 as [A _]. apply N.ltb_lt, A.
  - intros Hx. specialize (H1 11 Hx). apply andb_true_iff in H1. destruct H1 as [_ B]. discriminate.
  - eapply ei_okb_sound, H2.
Qed.

Lemma tokenizer_tinv : tinv c16_tokenizer.
Proof. unfold tinv, c16_tokenizer. cbn. repeat split; discriminate. Qed.

(* normalize_preserves_tokens (DESIGN C16).  Full statement, for all byte strings c:
       c16_sem c = Some ts -> c16_sem (c16_normalize c) = Some ts /\ c16_warnings c = []
   It is false on the faithful model for inputs OUTSIDE the property's quantifier only, as far as is known
   (normalize_preserves_tokens_unrestricted_refuted below: image data containing "EI" followed by white space); the former
   counterexample inside the quantifier, finding C16-F1 (EI followed by VT), is repaired and pinned by
   normalize_ei_vt_pinned.  Proved: the full statement minus (a) inputs containing a raw VT byte (0x0B: white space for
   qpdf's tokenizer, a regular character for ISO 32000-1, finding D11) and (b) inline images at which qpdf's ten-token heuristic findEI does not choose the end of
   data that ISO 32000-1 8.9.7 defines, or whose data are empty (c16_ei_okb, an executable test; a stream without
   inline images passes it).  For every such content stream - any operators, any operand spelling, strings with any
   bytes in any form, names with any escapes, any white space, comments, inline images with any data - the normalised
   stream reads as the same sequence of operands and operators, and no warning is raised. *)
Lemma normalize_preserves_tokens_partial_lemma : forall c ts,
  c16_clean c = true -> c16_sem c = Some ts ->
  c16_sem (c16_normalize c) = Some ts /\ c16_warnings c = [].
Proof.
  intros c ts Hcl Hsem. destruct (clean_props c Hcl) as (Hb & Hvt & Hok). apply sem_iff in Hsem.
  destruct (norm_main c Hok Hb Hvt ts Hsem c16_tokenizer tokenizer_tinv) as (toks & Hl & Hlen & Hbad & Hs & _).
  destruct (normalize_of_loop c toks Hl ltac:(unfold c16_fuel; lia)) as [Hn Ha].
  split.
  - rewrite Hn. apply sem_iff, Hs.
  - unfold c16_warnings. destruct (c16_normalize_run c) as [[out any] last]. cbn [fst snd] in Ha. rewrite Ha, Hbad. reflexivity.
Qed.

(* without inline images no hypothesis about findEI is needed *)
Lemma no_image_ei_ok : forall c ts, sem_rel c ts -> (forall d, ~ In (CsImage d) ts) -> ei_ok c.
Proof.
  induction 1 as [c Hs|c toks rest ts Hs Hr IH]; intros Hni; [apply eo_end, Hs|].
  assert (Hni' : forall d, ~ In (CsImage d) ts) by (intros d X; apply (Hni d), in_or_app; right; exact X).
  pose proof Hs as Hs'. unfold c16_step in Hs'. destruct (spec_next c) as [|tk r0|]; try discriminate.
  destruct tk; try (injection Hs' as <- <-; eapply eo_tok; [exact Hs|apply IH, Hni']).
  destruct (list_eqb N.eqb w c16_kw_ID).
  - destruct (c16_after_ID r0) as [[d r]|]; [|discriminate]. injection Hs' as <- <-. exfalso. apply (Hni d). right. left. reflexivity.
  - injection Hs' as <- <-. eapply eo_tok; [exact Hs|apply IH, Hni'].
Qed.

Lemma normalize_preserves_tokens_noimage_lemma : forall c ts,
  Forall (fun b => b < 256) c -> ~ In 11 c -> c16_sem c = Some ts -> (forall d, ~ In (CsImage d) ts) ->
  c16_sem (c16_normalize c) = Some ts /\ c16_warnings c = [].
Proof.
  intros c ts Hb Hvt Hsem Hni. apply sem_iff in Hsem. pose proof (no_image_ei_ok c ts Hsem Hni) as Hok.
  destruct (norm_main c Hok Hb Hvt ts Hsem c16_tokenizer tokenizer_tinv) as (toks & Hl & Hlen & Hbad & Hs & _).
  destruct (normalize_of_loop c toks Hl ltac:(unfold c16_fuel; lia)) as [Hn Ha].
  split.
  - rewrite Hn. apply sem_iff, Hs.
  - unfold c16_warnings. destruct (c16_normalize_run c) as [[out any] last]. cbn [fst snd] in Ha. rewrite Ha, Hbad. reflexivity.
Qed.

(* C16-F1 (repaired: QPDFWordTokenFinder::check no longer accepts VT after EI).  The former counterexample - inline image
   data containing EI<VT> followed by ten plausible tokens, "BI /W 1 ID ab EI<VT>(<CR>) cd EI Q 1 2 ... 12" - is now read
   correctly: the image ends at its real EI, the stream is written back byte for byte, it reads as before, no warning. *)
Definition c16_witness_ei_vt : list N :=
  [66;73;32;47;87;32;49;32;73;68;32;97;98;32;69;73;11;40;13;41;32;99;100;32;69;73;32;81;32;49;32;50;32;51;32;52;32;53;32;54;32;55;32;56;32;57;32;49;48;32;49;49;32;49;50;10].

Lemma normalize_ei_vt_pinned_lemma :
  c16_normalize c16_witness_ei_vt = c16_witness_ei_vt /\
  c16_sem (c16_normalize c16_witness_ei_vt) = c16_sem c16_witness_ei_vt /\ c16_sem c16_witness_ei_vt <> None /\
  c16_sem_images (match c16_sem c16_witness_ei_vt with Some l => l | None => [] end) = [[97;98;32;69;73;11;40;13;41;32;99;100;32]] /\
  c16_warnings c16_witness_ei_vt = [].
Proof. repeat split; try (vm_compute; reflexivity). vm_compute. discriminate. Qed.

(* The statement without any restriction on inline images stays false, for inputs outside the property's quantifier: image
   data that contain "EI" followed by white space (here "abEI ", not preceded by white space, so not an end marker for the
   specification) and after which ten plausible tokens follow are ended there by findEI, and the rest of the data is
   re-spelt.  The property excludes such payloads ("not 'EI' followed by white space or a delimiter"). *)
Definition c16_witness_ei_ws : list N :=
  [66;73;32;47;87;32;49;32;73;68;32;97;98;69;73;32;40;13;41;32;99;100;32;69;73;32;81;32;49;32;50;32;51;32;52;32;53;32;54;32;55;32;56;32;57;32;49;48;32;49;49;32;49;50;10].

Lemma normalize_preserves_tokens_unrestricted_refuted_lemma :
  exists c ts, Forall (fun b => b < 256) c /\ ~ In 11 c /\ c16_sem c = Some ts /\
               c16_sem (c16_normalize c) <> Some ts /\ c16_warnings c = [] /\ c16_ei_okb c = false.
Proof.
  exists c16_witness_ei_ws. eexists. split; [|split; [|split; [vm_compute; reflexivity|split; [vm_compute; discriminate|split; vm_compute; reflexivity]]]].
  - apply Forall_forall. intros x Hx. apply N.ltb_lt. revert x Hx. apply forallb_forall. vm_compute. reflexivity.
  - intros H. assert (X : forallb (fun b => negb (b =? 11)) c16_witness_ei_ws = true) by (vm_compute; reflexivity).
    rewrite forallb_forall in X. specialize (X 11 H). discriminate.
Qed.

(* ---- bad tokens are reported ---- *)
Lemma finish_loop_fold : forall (A : Type) (h : A -> token -> A) fuel t s st acc,
  c16_finish_loop h fuel t s (fold_left h (rev acc) st) =
  fold_left h (rev (c16_finish_loop (fun a k => k :: a) fuel t s acc)) st.
Proof.
  intros A h. induction fuel as [|fuel IH]; intros t s st acc; [reflexivity|].
  cbn [c16_finish_loop]. destruct (read_token 0 true t s 0) as [[[[[tok thr] t1] rest] np] last].
  assert (H1 : h (fold_left h (rev acc) st) tok = fold_left h (rev (tok :: acc)) st).
  { cbn [rev]. rewrite fold_left_app. reflexivity. }
  destruct (ttype_eqb (tok_type tok) TT_eof); [rewrite H1; reflexivity|].
  destruct (c16_is_word_ID tok).
  - destruct (match rest with c :: r => (c, r) | [] => (32, []) end) as [ch rest1].
    rewrite H1.
    assert (H2 : h (fold_left h (rev (tok :: acc)) st) (c16_space_token ch) = fold_left h (rev (c16_space_token ch :: tok :: acc)) st).
    { cbn [rev]. rewrite !fold_left_app. reflexivity. }
    rewrite H2. apply IH.
  - rewrite H1. apply IH.
Qed.

(* bad_implies_warned (DESIGN C16), on qpdf's own notion of a bad token.  For every byte string: if any token handed to the
   normaliser is a bad token (unterminated string, stray ')' or '>', invalid character in a hex string, #00 in a name, inline
   image without EI, ...), anyBadTokens() is set, i.e. Stream::pipeStreamData raises "content normalization encountered bad
   tokens".  Bad tokens are written back byte for byte (c16_emit). *)
Lemma bad_implies_warned_lemma : forall c,
  existsb (fun tok => ttype_eqb (tok_type tok) TT_bad) (c16_tokens c) = true -> In CnWarnBadTokens (c16_warnings c).
Proof.
  intros c H. unfold c16_warnings, c16_normalize_run.
  pose proof (finish_loop_fold _ c16_handle_token (c16_fuel c) c16_tokenizer c c16_ninit []) as Hf. cbn [rev fold_left] in Hf.
  rewrite Hf. unfold c16_tokens in H. rewrite rev'_rev in H.
  destruct (fold_handle (rev (c16_finish_loop (fun a k => k :: a) (c16_fuel c) c16_tokenizer c [])) c16_ninit) as [_ B].
  rewrite B. cbn [cn_any_bad c16_ninit orb]. unfold tok_is_bad. rewrite H. left. reflexivity.
Qed.

(* The stronger reading - content that the ISO lexer cannot read at all is left untouched or reported - is false
   (finding C16-F2): qpdf's tokenizer tolerates a stray '#' in a name without marking the token bad; the name is written
   back unchanged, the other tokens are re-spelt, nothing is reported.  Witness "/A#GG <41>". *)
Lemma bad_implies_warned_refuted_lemma :
  exists c, Forall (fun b => b < 256) c /\ c16_sem c = None /\ c16_normalize c <> c /\ c16_warnings c = [].
Proof.
  exists [47;65;35;71;71;32;60;52;49;62]. split; [|split; [vm_compute; reflexivity|split; [vm_compute; discriminate|vm_compute; reflexivity]]].
  repeat constructor.
Qed.

(* bad tokens are written back unchanged: whatever the normaliser could not tokenise is not altered *)
Lemma bad_token_verbatim_lemma : forall tok, tok_type tok = TT_bad -> c16_emit tok = tok_raw tok.
Proof. intros tok H. unfold c16_emit. rewrite H. reflexivity. Qed.

(* C16-F6 (repaired: findEI's plausibility test accepts the operators d0 and d1).  The former witness
   "BI /W 1 ID a EI Q 0 0 d0 BI /W 1 ID b EI Q" now passes the test c16_ei_okb, i.e. lies inside the hypotheses of
   normalize_preserves_tokens_partial, and a token filter sees the two images the specification sees. *)
Definition c16_witness_d0 : list N :=
  [66;73;32;47;87;32;49;32;73;68;32;97;32;69;73;32;81;32;48;32;48;32;100;48;32;66;73;32;47;87;32;49;32;73;68;32;98;32;69;73;32;81].

Lemma ei_heuristic_d0_pinned_lemma :
  c16_clean c16_witness_d0 = true /\
  map tok_raw (filter (fun t => ttype_eqb (tok_type t) TT_inline_image) (c16_tokens c16_witness_d0)) = [[97; 32]; [98; 32]] /\
  c16_sem_images (match c16_sem c16_witness_d0 with Some l => l | None => [] end) = [[97; 32]; [98; 32]].
Proof. repeat split; vm_compute; reflexivity. Qed.

(* The hypothesis c16_ei_okb remains a real restriction at the lexical level: a word that mixes letters and digits and is
   not an operator of any PDF version ("a1") among the ten tokens after an inline image still makes findEI reject the
   image's EI; with a later EI in the stream the inline-image token runs to that one.  Such a stream is outside the
   property's quantifier (every OPERATOR).  Witness "BI /W 1 ID a EI Q 0 0 a1 BI /W 1 ID b EI Q". *)
Definition c16_witness_a1 : list N :=
  [66;73;32;47;87;32;49;32;73;68;32;97;32;69;73;32;81;32;48;32;48;32;97;49;32;66;73;32;47;87;32;49;32;73;68;32;98;32;69;73;32;81].

Lemma ei_heuristic_restrictive_lemma :
  exists c ts, Forall (fun b => b < 256) c /\ ~ In 11 c /\ c16_sem c = Some ts /\ c16_ei_okb c = false /\
    c16_sem_images ts = [[97; 32]; [98; 32]] /\
    map tok_raw (filter (fun t => ttype_eqb (tok_type t) TT_inline_image) (c16_tokens c)) <> c16_sem_images ts.
Proof.
  exists c16_witness_a1. eexists. split; [|split; [|split; [vm_compute; reflexivity|split; [vm_compute; reflexivity|split; [vm_compute; reflexivity|vm_compute; discriminate]]]]].
  - apply Forall_forall. intros x Hx. apply N.ltb_lt. revert x Hx. apply forallb_forall. vm_compute. reflexivity.
  - intros H. assert (X : forallb (fun b => negb (b =? 11)) c16_witness_a1 = true) by (vm_compute; reflexivity).
    rewrite forallb_forall in X. specialize (X 11 H). discriminate.
Qed.
