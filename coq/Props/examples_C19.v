(* non-vacuity: a job that meets wf_job, with an acceptable and a rejected value, a repeatable option, both positional files, a --global
   table and a 256-bit --encrypt table *)
Example C19_wf_job_example :
  exists e1 e2 e3 e4 e5, In e1 argv_table /\ In e2 argv_table /\ In e3 argv_table /\ In e4 argv_table /\ In e5 argv_table /\
  wf_job argv_table [IOpt e1 B"generate"; IIn B"A.pdf"; IArr e3 [B"+90"; B"180:2"]; IOut B"out.pdf";
                     IEncrypt B"u" B"o" B"256" [(e4, B"low")]; IGlobal [(e5, [])]; IOpt e2 B"x"] /\
  denote_job [IOpt e1 B"generate"; IIn B"A.pdf"; IArr e3 [B"+90"; B"180:2"]; IOut B"out.pdf";
              IEncrypt B"u" B"o" B"256" [(e4, B"low")]; IGlobal [(e5, [])]] =
    ([CCall B"c_main" B"objectStreams" [B"generate"]; CCall B"c_main" B"inputFile" [B"A.pdf"];
      CCall B"c_main" B"rotate" [B"+90"]; CCall B"c_main" B"rotate" [B"180:2"]; CCall B"c_main" B"outputFile" [B"out.pdf"];
      CCall B"c_main" B"encrypt" [B"256"; B"u"; B"o"]; CCall B"c_enc" B"print" [B"low"]; CCall B"c_enc" B"endEncrypt" [];
      CCall B"c_main" B"global" []; CCall B"c_global" B"noDefaultLimits" []; CCall B"c_global" B"endGlobal" [];
      CCall B"c_main" B"checkConfiguration" []], true) /\
  snd (denote_items [IOpt e2 B"x"]) = false.
Proof.
  exists (mk_aentry B"main" B"object-streams" KChoices [B"disable"; B"preserve"; B"generate"] (TConfig B"c_main" B"objectStreams")).
  exists (mk_aentry B"main" B"qdf" KBare [] (TConfig B"c_main" B"qdf")).
  exists (mk_aentry B"main" B"rotate" KParam [] (TConfig B"c_main" B"rotate")).
  exists (mk_aentry B"256-bit-encryption" B"print" KChoices [B"full"; B"low"; B"none"] (TConfig B"c_enc" B"print")).
  exists (mk_aentry B"global" B"no-default-limits" KBare [] (TConfig B"c_global" B"noDefaultLimits")).
  assert (H1 : In (mk_aentry B"main" B"object-streams" KChoices [B"disable"; B"preserve"; B"generate"] (TConfig B"c_main" B"objectStreams")) argv_table)
    by (apply in_by_compute; vm_compute; reflexivity).
  assert (H2 : In (mk_aentry B"main" B"qdf" KBare [] (TConfig B"c_main" B"qdf")) argv_table) by (apply in_by_compute; vm_compute; reflexivity).
  assert (H3 : In (mk_aentry B"main" B"rotate" KParam [] (TConfig B"c_main" B"rotate")) argv_table) by (apply in_by_compute; vm_compute; reflexivity).
  assert (H4 : In (mk_aentry B"256-bit-encryption" B"print" KChoices [B"full"; B"low"; B"none"] (TConfig B"c_enc" B"print")) argv_table)
    by (apply in_by_compute; vm_compute; reflexivity).
  assert (H5 : In (mk_aentry B"global" B"no-default-limits" KBare [] (TConfig B"c_global" B"noDefaultLimits")) argv_table)
    by (apply in_by_compute; vm_compute; reflexivity).
  split; [exact H1|]. split; [exact H2|]. split; [exact H3|]. split; [exact H4|]. split; [exact H5|].
  split.
  - split; [|vm_compute; reflexivity].
    constructor; [split; [assumption|vm_compute; reflexivity]|].
    constructor; [exact I|].
    constructor; [split; [assumption|vm_compute; reflexivity]|].
    constructor; [exact I|].
    constructor.
    { cbn [wf_item]. split; [vm_compute; reflexivity|]. split; [vm_compute; reflexivity|]. split; [vm_compute; reflexivity|].
      constructor; [|constructor]. split; [assumption|]. split; vm_compute; reflexivity. }
    constructor.
    { cbn [wf_item]. constructor; [|constructor]. split; [assumption|vm_compute; reflexivity]. }
    constructor; [split; [assumption|vm_compute; reflexivity]|]. constructor.
  - vm_compute. split; reflexivity.
Qed.

(* non-vacuity of the theorems over every option table (Sys/C19ProofsE.v): a job with a page selection in the middle, an overlay with an
   option, an attachment whose file follows an option, a copy-attachments-from block, page labels and an empty underlay list meets
   xj_wf_job (positional spelling, B.pdf in the working directory), and its denotation is the expected call list *)
Example C19_xj_wf_job_example :
  exists e1 e2 e3, In e1 argv_table /\ In e2 argv_table /\ In e3 argv_table /\
  let j := [XjBase (IIn B"A.pdf"); XjOverlay [mk_xj_uospec B"O.pdf" [(e1, B"1")]]; XjBase (IOut B"out.pdf");
            XjPages [mk_pgspec B"." None (Some B"1-2"); mk_pgspec B"B.pdf" None None];
            XjAddAtt [[XjOpt e2 B"k"; XjFile B"att.txt"]]; XjCopyAtt [[XjFile B"F.pdf"; XjOpt e3 B"p-"]];
            XjLabels [B"1:r"]; XjUnderlay []] in
  xj_wf_job argv_table [B"B.pdf"] false j /\
  xj_denote_job j =
    ([CCall B"c_main" B"inputFile" [B"A.pdf"];
      CCall B"c_main" B"overlay" []; CCall B"c_uo" B"file" [B"O.pdf"]; CCall B"c_uo" B"to" [B"1"]; CCall B"c_uo" B"endUnderlayOverlay" [];
      CCall B"c_main" B"outputFile" [B"out.pdf"];
      CCall B"c_main" B"pages" []; CCall B"c_pages" B"file" [B"."]; CCall B"c_pages" B"range" [B"1-2"]; CCall B"c_pages" B"file" [B"B.pdf"];
      CCall B"c_pages" B"endPages" [];
      CCall B"c_main" B"addAttachment" []; CCall B"c_att" B"key" [B"k"]; CCall B"c_att" B"file" [B"att.txt"]; CCall B"c_att" B"endAddAttachment" [];
      CCall B"c_main" B"copyAttachmentsFrom" []; CCall B"c_copy_att" B"file" [B"F.pdf"]; CCall B"c_copy_att" B"prefix" [B"p-"];
      CCall B"c_copy_att" B"endCopyAttachmentsFrom" [];
      CCall B"c_main" B"setPageLabels" [B"1:r"];
      CCall B"c_main" B"checkConfiguration" []], true) /\
  xj_render_argv false j =
    [B"A.pdf"; B"--overlay"; B"O.pdf"; B"--to=1"; B"--"; B"out.pdf"; B"--pages"; B"."; B"1-2"; B"B.pdf"; B"--";
     B"--add-attachment"; B"--key=k"; B"att.txt"; B"--"; B"--copy-attachments-from"; B"F.pdf"; B"--prefix=p-"; B"--";
     B"--set-page-labels"; B"1:r"; B"--"].
Proof.
  exists (mk_aentry B"underlay/overlay" B"to" KParam [] (TConfig B"c_uo" B"to")).
  exists (mk_aentry B"attachment" B"key" KParam [] (TConfig B"c_att" B"key")).
  exists (mk_aentry B"copy-attachment" B"prefix" KParam [] (TConfig B"c_copy_att" B"prefix")).
  assert (H1 : In (mk_aentry B"underlay/overlay" B"to" KParam [] (TConfig B"c_uo" B"to")) argv_table) by (apply in_by_compute; vm_compute; reflexivity).
  assert (H2 : In (mk_aentry B"attachment" B"key" KParam [] (TConfig B"c_att" B"key")) argv_table) by (apply in_by_compute; vm_compute; reflexivity).
  assert (H3 : In (mk_aentry B"copy-attachment" B"prefix" KParam [] (TConfig B"c_copy_att" B"prefix")) argv_table) by (apply in_by_compute; vm_compute; reflexivity).
  split; [exact H1|]. split; [exact H2|]. split; [exact H3|]. cbv zeta.
  split; [|split; vm_compute; reflexivity].
  split; [|vm_compute; reflexivity].
  constructor; [exact I|].
  constructor.
  { cbn [xj_wf_item]. constructor; [|constructor]. split; [reflexivity|]. constructor; [|constructor]. cbn [fst]. split; [exact H1|]. split; vm_compute; reflexivity. }
  constructor; [exact I|].
  constructor; [vm_compute; reflexivity|].
  constructor.
  { cbn [xj_wf_item]. constructor; [|constructor]. constructor; [split; [exact H2|vm_compute; reflexivity]|]. constructor; [reflexivity|constructor]. }
  constructor.
  { cbn [xj_wf_item]. constructor; [|constructor]. constructor; [reflexivity|]. constructor; [split; [exact H3|vm_compute; reflexivity]|constructor]. }
  constructor; [cbn [xj_wf_item]; constructor; [reflexivity|constructor]|].
  constructor; [cbn [xj_wf_item]; constructor|]. constructor.
Qed.
