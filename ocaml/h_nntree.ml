(* handlers: C18 name/number trees. Text <-> extracted types only. *)
open Qvmodel
open Runner

(* ---- text -> tree.  node := (L|I|<lim>) then [k=v,...] or (node...) *)
type 'k kio = { pk : string -> 'k; sk : 'k -> string }
let kio_num : z kio = { pk = (fun s -> z_of_int (int_of_string s)); sk = (fun k -> string_of_int (int_of_z k)) }
let kio_name : n list kio =
  { pk = (fun s -> if String.length s < 1 || s.[0] <> 'h' then failwith "key" else
                   bytes_of_string (unhex (String.sub s 1 (String.length s - 1))));
    sk = (fun k -> let h = hexbytes k in "h" ^ (if h = "-" then "" else h)) }

let parse_tree (io : 'k kio) (s : string) : 'k nnode =
  let i = ref 0 in
  let len = String.length s in
  let tok stops =
    let st = !i in
    while !i < len && not (String.contains stops s.[!i]) do incr i done;
    String.sub s st (!i - st) in
  let rec node () =
    let lim =
      if s.[!i] = 'L' || s.[!i] = 'I' || s.[!i] = '_' then (incr i; None)
      else begin
        let lo = tok "~" in incr i;
        let hi = tok "[(" in
        Some (io.pk lo, io.pk hi)
      end in
    if s.[!i] = '[' then begin
      incr i;
      let items = ref [] in
      while s.[!i] <> ']' do
        let k = tok "=" in incr i;
        let v = tok ",]" in
        items := (io.pk k, z_of_int (int_of_string v)) :: !items;
        if s.[!i] = ',' then incr i
      done;
      incr i;
      NLeaf (lim, List.rev !items)
    end else if s.[!i] = '(' then begin
      incr i;
      let kids = ref [] in
      while s.[!i] <> ')' do kids := node () :: !kids done;
      incr i;
      NInner (lim, List.rev !kids)
    end else failwith "tree" in
  let r = node () in
  if !i <> len then failwith "tree-trailing" else r

let show_pairs (io : 'k kio) (l : ('k * z) list) : string =
  String.concat "," (List.map (fun (k, v) -> io.sk k ^ "=" ^ string_of_int (int_of_z v)) l)

let rec show_tree (io : 'k kio) (b : Buffer.t) (t : 'k nnode) : unit =
  let lim l = match l with None -> Buffer.add_char b '_'
                         | Some (lo, hi) -> Buffer.add_string b (io.sk lo ^ "~" ^ io.sk hi) in
  match t with
  | NLeaf (l, items) -> lim l; Buffer.add_char b '['; Buffer.add_string b (show_pairs io items); Buffer.add_char b ']'
  | NInner (l, kids) -> lim l; Buffer.add_char b '('; List.iter (show_tree io b) kids; Buffer.add_char b ')'

let parse_ops (io : 'k kio) (s : string) : 'k nnop list =
  List.filter_map (fun op ->
    if op = "" || op = "-" then None else
    let kv () =
      let body = String.sub op 2 (String.length op - 2) in
      match String.index_opt body '=' with
      | Some e -> (io.pk (String.sub body 0 e), z_of_int (int_of_string (String.sub body (e + 1) (String.length body - e - 1))))
      | None -> (io.pk body, Z0) in
    Some (match op.[0] with
      | 'i' -> let (k, v) = kv () in OpInsert (k, v)
      | 'r' -> OpRemove (fst (kv ()))
      | 'f' -> OpFind (fst (kv ()))
      | 'l' -> OpFindLE (fst (kv ()))
      | 'b' -> OpBegin | 'e' -> OpLast | 'E' -> OpEnd | 'n' -> OpNext | 'p' -> OpPrev
      | 'a' -> let (k, v) = kv () in OpInsAfter (k, v)
      | 'd' -> OpIterRemove
      | _ -> failwith "op")) (String.split_on_char ';' s)

let show_res (io : 'k kio) (r : 'k nnres) : string =
  match r with
  | RIter None -> "end"
  | RIter (Some (k, v)) -> io.sk k ^ "=" ^ string_of_int (int_of_z v)
  | RRemoved None -> "R0"
  | RRemoved (Some v) -> "R1:" ^ string_of_int (int_of_z v)
  | RErr -> "err"

let run_model (io : 'k kio) cmp t init ops every : string =
  let root = seal_root (parse_tree io init) in
  let out = nn_run cmp (z_of_int t) root (parse_ops io ops) in
  let b = Buffer.create 4096 in
  let nops = List.length out in
  List.iteri (fun i ((r, w), tree) ->
    if i > 0 then Buffer.add_char b ';';
    Buffer.add_string b (show_res io r);
    let w = int_of_z w in
    if w > 0 then Buffer.add_string b ("w" ^ string_of_int w);
    Buffer.add_char b '@';
    if every <= 1 || (i + 1) mod every = 0 || i + 1 = nops then show_tree io b tree
    else Buffer.add_char b '#') out;
  Buffer.contents b

let run_spec (io : 'k kio) cmp init ops : string =
  let m0 = nn_abs (parse_tree io init) in
  let out = sm_run cmp m0 (parse_ops io ops) in
  String.concat ";" (List.map (fun ((r, u), m) ->
    show_res io r ^ "@" ^ (if u then "U" else "") ^ "[" ^ show_pairs io m ^ "]") out)

(* verdicts of the specification's validity checker on dumped trees (one per step of an output line) *)
let run_wf (io : 'k kio) cmp t line : string =
  String.concat ";" (List.map (fun step ->
    match String.index_opt step '@' with
    | None -> "?nodump"
    | Some a ->
      let d = String.sub step (a + 1) (String.length step - a - 1) in
      if d = "#" then "-" else
      (try
        let tree = parse_tree io d in
        string_of_int (int_of_z (wf_code cmp (z_of_int t) tree)) ^ ":[" ^ show_pairs io (nn_abs tree) ^ "]"
      with _ -> "?parse")) (String.split_on_char ';' line))

(* ---- name trees on the STORED strings (Struct/NNKeys.v): the starting tree's keys are the raw bytes of the string
   objects, keys of calls arrive as UTF-8 and become string objects through newUnicodeString (as in
   QPDFNameTreeObjectHelper::insert/find/remove/insertAfter), the comparison is the modelled compareKeys.  Results and
   dumps are shown through getUTF8Value, as the driver shows them. *)
let seal_root_raw (root : n list nnode) : n list nnode =
  (* /Limits of a generator-made tree: first and last STORED key beneath every non-root node (no comparison involved) *)
  seal_root root

let run_model_raw ?(spell = false) t init ops every : string =
  let io = kio_name in
  let root = seal_root_raw (parse_tree io init) in
  let raw_op (op : n list nnop) : n list nnop = match op with
    | OpInsert (k, v) -> OpInsert (jm_new_unicode_string k, v)
    | OpRemove k -> OpRemove (jm_new_unicode_string k)
    | OpFind k -> OpFind (jm_new_unicode_string k)
    | OpFindLE k -> OpFindLE (jm_new_unicode_string k)
    | OpInsAfter (k, v) -> OpInsAfter (jm_new_unicode_string k, v)
    | o -> o in
  let out = nk_run_raw (z_of_int t) root (List.map raw_op (parse_ops io ops)) in
  let view_res (r : n list nnres) : n list nnres = match r with
    | RIter (Some (k, v)) -> RIter (Some (nk_utf8_value k, v))
    | r -> r in
  let b = Buffer.create 4096 in
  let nops = List.length out in
  List.iteri (fun i ((r, w), tree) ->
    if i > 0 then Buffer.add_char b ';';
    Buffer.add_string b (show_res io (view_res r));
    let w = int_of_z w in
    if w > 0 then Buffer.add_string b ("w" ^ string_of_int w);
    Buffer.add_char b '@';
    if every <= 1 || (i + 1) mod every = 0 || i + 1 = nops then show_tree io b (if spell then tree else nk_view_node tree)
    else Buffer.add_char b '#') out;
  Buffer.contents b

let () =
  (* nncmp h<hex>,h<hex>,... : U:<utf8 values>|C:<rows of the modelled compareKeys on all ordered pairs> *)
  register "nncmp" (fun args -> match args with
    | [ks] ->
      let keys = List.map kio_name.pk (String.split_on_char ',' ks) in
      let rows = nk_compare_matrix keys in
      "U:" ^ String.concat "," (List.map (fun k -> kio_name.sk (nk_utf8_value k)) keys) ^ "|C:" ^
      String.concat "/" (List.map (fun row -> String.concat "" (List.map (fun c -> String.make 1 (Char.chr (int_of_n c))) row)) rows)
    | _ -> "?args");
  register "nku8" (fun args -> match args with
    | [k] -> kio_name.sk (nk_utf8_value (kio_name.pk k))
    | _ -> "?args")

let () =
  register "nn" (fun args -> match args with
    | kind :: t :: init :: ops :: rest ->
      let every = match rest with [e] -> int_of_string e | _ -> 1 in
      if kind = "nameraw" then run_model_raw (int_of_string t) init ops every else
      if kind = "namespell" then run_model_raw ~spell:true (int_of_string t) init ops every else
      if kind = "name" then run_model kio_name nn_scmp (int_of_string t) init ops every
      else run_model kio_num nn_zcmp (int_of_string t) init ops every
    | _ -> "?args");
  register "nnspec" (fun args -> match args with
    | [kind; init; ops] ->
      if kind = "name" then run_spec kio_name nn_scmp init ops else run_spec kio_num nn_zcmp init ops
    | _ -> "?args");
  register "nnwf" (fun args -> match args with
    | [kind; t; line] ->
      if kind = "name" then run_wf kio_name nn_scmp (int_of_string t) line
      else run_wf kio_num nn_zcmp (int_of_string t) line
    | _ -> "?args")

(* attachment jobs: attjob <map> <removes> <adds> <copies>
   map     : k=rid,k=rid | -            (keys h<hex of UTF-8>)
   removes : k,k | -
   adds    : <0|1>:k=rid,... | -        (1 = --replace)
   copies  : prefix/map;prefix/map | -  (prefix = h<hex>, map as above)
   out     : ok k=rid,...  |  refused k,k *)
let split_nonempty c s = if s = "-" || s = "" then [] else String.split_on_char c s
let parse_amap (s : string) : (n list * z) list =
  List.map (fun kv -> match String.index_opt kv '=' with
    | Some e -> (kio_name.pk (String.sub kv 0 e), z_of_int (int_of_string (String.sub kv (e + 1) (String.length kv - e - 1))))
    | None -> failwith "amap") (split_nonempty ',' s)
let () =
  register "attjob" (fun args -> match args with
    | [m; removes; adds; copies] ->
      let removes = List.map kio_name.pk (split_nonempty ',' removes) in
      let adds = List.map (fun a ->
        let repl = a.[0] = '1' in
        match parse_amap (String.sub a 2 (String.length a - 2)) with
        | [(k, rid)] -> ((repl, k), rid)
        | _ -> failwith "add") (split_nonempty ',' adds) in
      let copies = List.map (fun c ->
        match String.index_opt c '/' with
        | Some e -> (kio_name.pk (String.sub c 0 e), parse_amap (String.sub c (e + 1) (String.length c - e - 1)))
        | None -> failwith "copy") (split_nonempty ';' copies) in
      (match att_job removes adds copies (parse_amap m) with
       | AttOk m' -> "ok " ^ show_pairs kio_name m'
       | AttRefused ks -> "refused " ^ String.concat "," (List.map kio_name.sk ks))
    | _ -> "?args")

(* attachment API histories: atthist <ops ';'-separated>
   put:k=rid | same:k | mod:k=rid | rm:k | bput:k=rid | copy:prefix | reread
   out: per step  <1|0>@k=rid,...  joined by ';' *)
let () =
  register "atthist" (fun args -> match args with
    | [ops] ->
      let one_kv s = match parse_amap s with [(k, rid)] -> (k, rid) | _ -> failwith "kv" in
      let ops = List.filter_map (fun op ->
        if op = "" || op = "-" then None else
        let body () = match String.index_opt op ':' with
          | Some e -> String.sub op (e + 1) (String.length op - e - 1) | None -> failwith "op" in
        let name = match String.index_opt op ':' with Some e -> String.sub op 0 e | None -> op in
        Some (match name with
          | "put" -> let (k, r) = one_kv (body ()) in APut (k, r)
          | "same" -> APutSame (kio_name.pk (body ()))
          | "mod" -> let (k, r) = one_kv (body ()) in AMod (k, r)
          | "rm" -> ARemove (kio_name.pk (body ()))
          | "bput" -> let (k, r) = one_kv (body ()) in BPut (k, r)
          | "copy" -> ACopy (kio_name.pk (body ()))
          | "reread" -> AReread
          | _ -> failwith "op")) (String.split_on_char ';' ops) in
      String.concat ";" (List.map (fun (r, m) -> (if r then "1" else "0") ^ "@" ^ show_pairs kio_name m) (att_hist_run ops))
    | _ -> "?args")
