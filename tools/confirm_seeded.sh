#!/bin/bash
# usage: tools/confirm_seeded.sh <name> ...   (name = <ID>-<k>; needs the scratch worktree /tmp/mut/<ID> with build/)
# Confirms: demo passes on the clean build, fails with the patch, and the qpdf test suite result equals the baseline's.
for name in "$@"; do
  id=${name%-*}; wt=/tmp/mut/$id; d=/verif/seeded/$name
  cd $wt || exit 2
  git checkout -q -- . ; cmake --build build -j8 >/dev/null 2>&1
  if [ ! -f /tmp/mut/baseline-$id-ctest.txt ]; then
    ctest --test-dir build -j8 --timeout 900 >/dev/null 2>&1; grep -a -h "FAILED$\|^Failures:\|^Passes:\|^Total tests:" build/*/qtest.log | sort > /tmp/mut/baseline-$id-ctest.txt
  fi
  (cd $d && bash ./demo.sh $wt/build >/tmp/mut/$name-demo-clean.log 2>&1); clean=$?
  git apply $d/patch.diff || { echo "$name: patch does not apply"; continue; }
  cmake --build build -j8 >/dev/null 2>&1 || { echo "$name: does not compile"; git checkout -q -- .; continue; }
  (cd $d && bash ./demo.sh $wt/build >/tmp/mut/$name-demo-patched.log 2>&1); patched=$?
  ctest --test-dir build -j8 --timeout 900 >/dev/null 2>&1; grep -a -h "FAILED$\|^Failures:\|^Passes:\|^Total tests:" build/*/qtest.log | sort > /tmp/mut/$name-ctest.txt
  # the qpdf qtest summary line counts
  suite=$(diff -q /tmp/mut/baseline-$id-ctest.txt /tmp/mut/$name-ctest.txt >/dev/null && echo same-as-baseline || echo DIFFERS)
  git checkout -q -- . ; cmake --build build -j8 >/dev/null 2>&1
  echo "$name: demo_clean_exit=$clean demo_patched_exit=$patched suite=$suite"
done
