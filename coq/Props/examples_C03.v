(* Non-vacuity: inputs that meet the hypotheses of the theorems above and exercise every token class. *)
(* "<< /Na#6de (a\053\n(b)) <4 8656C> -0.50 +17 true null R >> % c<LF>" *)
Definition ex_c03_stream : list N :=
  [60;60;32;47;78;97;35;54;100;101;32;40;97;92;48;53;51;92;110;40;98;41;41;32;60;52;32;56;54;53;54;67;62;32;
   45;48;46;53;48;32;43;49;55;32;116;114;117;101;32;110;117;108;108;32;82;32;62;62;32;37;32;99;10].
Example ex_c03_lex_ok : bytes_ok ex_c03_stream /\ lex_ok ex_c03_stream = true /\
  lex_spec ex_c03_stream =
  Some [PDictOpen; PName [78;97;109;101]; PStr [97;43;10;40;98;41]; PStr [72;101;108]; PReal (-50) 2; PInt 17;
        PBool true; PNull; PKeyword [82]; PDictClose] /\
  model_lex ex_c03_stream = lex_spec ex_c03_stream.
Proof.
  split; [unfold bytes_ok, ex_c03_stream; repeat constructor|].
  split; [vm_compute; reflexivity|]. split; vm_compute; reflexivity.
Qed.
(* one token, continuing tokenizer state, token followed by a delimiter *)
Example ex_c03_next : spec_next [32;37;120;13;47;65;35;50;48;66;91] = LexTok (PName [65;32;66]) [91] /\
  ~ In 11 (head_run [32;37;120;13;47;65;35;50;48;66;91]).
Proof. split; [vm_compute; reflexivity|]. vm_compute. intros [X|[X|[X|[X|[X|[]]]]]]; discriminate. Qed.
(* the printers on a string needing both forms and a name needing escapes *)
Example ex_c03_print :
  string_unparse false [40;10;200;92;65;66] = [40;92;40;92;110;200;92;92;65;66;41] /\
  string_unparse false [1;2;3] = [60;48;49;48;50;48;51;62] /\
  name_normalize [47;65;32;35;200] = [47;65;35;50;48;35;50;51;35;99;56].
Proof. repeat split; vm_compute; reflexivity. Qed.
(* parse_complete_container: "<</K[1 2 0 R(s)]>>" meets the hypotheses *)
Definition ex_c03_obj : list N := [60;60;47;75;91;49;32;50;32;48;32;82;40;115;41;93;62;62].
Definition ex_c03_obj_toks : list ptoken :=
  [PDictOpen; PName [75]; PArrOpen; PInt 1; PInt 2; PInt 0; PKeyword [82]; PStr [115]; PArrClose; PDictClose].
Example ex_c03_container :
  good_chain ex_c03_obj ex_c03_obj_toks [] /\
  syn_obj (Datatypes.S (length ex_c03_obj_toks)) ex_c03_obj_toks =
    Some (SyDict [([75], SyArr [SyInt 1; SyRef 2 0; SyStr [115]])], []) /\
  refs_ok (tl ex_c03_obj_toks) = true /\ opens ex_c03_obj_toks <= 500 /\
  parse_string ex_c03_obj = PSR_ok (MoDict [([47; 75], MoArr [MoInt 1; MoRef 2 0; MoStr [115]])]) [].
Proof.
  split; [|split; [vm_compute; reflexivity|split; [reflexivity|split; [vm_compute; discriminate|vm_compute; reflexivity]]]].
  unfold ex_c03_obj, ex_c03_obj_toks.
  repeat (eapply gc_cons; [unfold bytes_ok; repeat (constructor; [reflexivity|]); constructor
                          | vm_compute; reflexivity | vm_compute; intuition discriminate | ]).
  apply gc_nil.
Qed.

(* Non-vacuity of rd_reads_writer_output: every hypothesis holds on a concrete document (the example document of
   Obj/C01FileProofs.v: catalog, page tree, a page with a dangling reference, one stream), by computation. *)

Example rd_reads_writer_output_example :
  exists v, rd_view (write_doc wm_unparse_string wm_unparse_name ex_doc) = RdDoc v /\ rw_view_of ex_doc v.
Proof.
  apply rd_reads_writer_output_lemma.
  - exact wf_doc_example.
  - vm_compute. reflexivity.
  - vm_compute. reflexivity.
  - exists 10, {| i_val := ODict [([80; 97; 103; 101; 115], ORef 20); ([84; 121; 112; 101], OName [67; 97; 116; 97; 108; 111; 103])]; i_stream := None |},
           [([80; 97; 103; 101; 115], ORef 20); ([84; 121; 112; 101], OName [67; 97; 116; 97; 108; 111; 103])],
           20, {| i_val := ODict [([67; 111; 117; 110; 116], OInt 1); ([75; 105; 100; 115], OArr [ORef 30]);
                                  ([84; 121; 112; 101], OName [80; 97; 103; 101; 115])]; i_stream := None |},
           [([67; 111; 117; 110; 116], OInt 1); ([75; 105; 100; 115], OArr [ORef 30]); ([84; 121; 112; 101], OName [80; 97; 103; 101; 115])].
    repeat split; try reflexivity; cbn; auto.
  - vm_compute. reflexivity.
  - vm_compute. reflexivity.
  - cbn. intros [H|[H|[]]]; discriminate H.
Qed.
