(* C06 proofs, part H (extension): password judgement for EVERY encryption dictionary and every revision R2..R6.
   MD5, SHA-2, RC4 and AES are functions: that a password other than the user and the owner password is rejected can
   only be stated as "whenever the check VALUES derived from it differ from the stored ones" (equality of derived
   values, not cryptographic hardness). dq_checks is the pair of checks initialize() runs on the Encryption object
   dq_enc_data builds after its validation (Algorithms 6 / 7 for R2-R4: the first 16 resp. 32 bytes of the computed /U
   against /U, with the password itself and with the one recovered from /O; Algorithms 11 / 12 for R5-R6: the hash with
   the validation salt against the first 32 bytes of /U resp. /O). The converse (the right passwords of a
   reference-encrypted file are accepted) is decrypt_of_reference_encrypt_V5 / _V4* and C05's auth_* theorems. *)
From QV Require Import Base.Bytes Crypto.Nib Filters.Filters.
From QV Require Import Crypto.MD5 Crypto.SHA2Fast Crypto.AES Crypto.AesPdf Crypto.KeyDeriv Crypto.IsoRef.
From QV Require Import Crypto.IsoEnc Crypto.DecReader Crypto.DqIso Crypto.DqReader.
Local Open Scope N_scope.

Opaque aes_cipher aes_inv_cipher aes_key_schedule.

(* dq_wrong_password_rejected: for every dictionary that passes the validation of initialize() (any /V in 1 2 4 5, any /R
   in 2..6, any lengths), every /ID and every password: if neither the owner check nor the user check derives the stored
   value, initialize() ends with the password error (qpdf_e_password, exit 2 through password_error_before_open) *)
Lemma dq_wrong_password_rejected_lemma : forall d id pw ed,
  dq_enc_data d id = Some ed -> dq_checks ed pw = (false, false) ->
  exists ws, c06_initialize d id (C6Password pw) = C6Err C6EPassword ws.
Proof.
  intros d id pw ed Hed Hc. unfold dq_enc_data in Hed. unfold c06_initialize.
  destruct (negb match c6r_filter d with Some n => bytes_eqb n c06_name_standard | None => false end); [discriminate|].
  destruct (c6r_V d) as [V|]; [|discriminate].
  destruct (c6r_R d) as [R|]; [|discriminate].
  destruct (c6r_O d) as [Ov|]; [|discriminate].
  destruct (c6r_U d) as [Uv|]; [|discriminate].
  destruct (c6r_P d) as [P|]; [|discriminate].
  destruct (negb (Z.leb 2 R && Z.leb R 6 && (Z.eqb V 1 || Z.eqb V 2 || Z.eqb V 4 || Z.eqb V 5))) eqn:EVR; [discriminate|].
  assert (HVc : (V = 1 \/ V = 2 \/ V = 4 \/ V = 5)%Z).
  { apply negb_false_iff in EVR. apply andb_true_iff in EVR. destruct EVR as [_ E].
    repeat (apply orb_true_iff in E; destruct E as [E|E]); apply Z.eqb_eq in E; auto. }
  cbv beta iota zeta in Hed |- *.
  destruct (Z.ltb V 5) eqn:E5.
  - match type of Hed with context [(Nat.eqb ?a ?b && Nat.eqb ?c ?e)%bool] => destruct (Nat.eqb a b && Nat.eqb c e)%bool end; [|discriminate].
    cbv beta iota zeta in Hed |- *. inversion Hed; subst ed; clear Hed.
    unfold dq_checks in Hc. cbn [ed_V] in Hc.
    replace (Z.to_N V <? 5) with true in Hc by (destruct HVc as [E|[E|[E|E]]]; subst V; try reflexivity; discriminate).
    injection Hc as Ho Hu.
    match type of Ho with context [kd_check_owner_V4 ?e pw] => destruct (kd_check_owner_V4 e pw) eqn:Eo end; [discriminate|].
    rewrite Hu. eexists. reflexivity.
  - destruct (c6r_OE d), (c6r_UE d), (c6r_Perms d); try discriminate.
    cbv beta iota zeta in Hed |- *. inversion Hed; subst ed; clear Hed.
    unfold dq_checks in Hc. cbn [ed_V] in Hc.
    replace (Z.to_N V <? 5) with false in Hc by (destruct HVc as [E|[E|[E|E]]]; subst V; try reflexivity; discriminate).
    injection Hc as Ho Hu. rewrite Ho, Hu. cbn [orb negb]. eexists. reflexivity.
Qed.

(* the other direction, for every dictionary: a password initialize() accepts passed one of the two checks, and the flags
   it reports are those checks (R5/R6), resp. the owner check and - when that fails - the user check (R2-R4) *)
Lemma dq_accepted_password_checked_lemma : forall d id pw st ws,
  c06_initialize d id (C6Password pw) = C6Ok st ws ->
  exists ed, dq_enc_data d id = Some ed /\ dq_checks ed pw <> (false, false) /\
             c6t_owner_matched st = fst (dq_checks ed pw) /\
             (fst (dq_checks ed pw) = false -> c6t_user_matched st = true).
Proof.
  intros d id pw st ws H. unfold c06_initialize in H. unfold dq_enc_data.
  destruct (negb match c6r_filter d with Some n => bytes_eqb n c06_name_standard | None => false end); [discriminate|].
  destruct (c6r_V d) as [V|]; [|discriminate].
  destruct (c6r_R d) as [R|]; [|discriminate].
  destruct (c6r_O d) as [Ov|]; [|discriminate].
  destruct (c6r_U d) as [Uv|]; [|discriminate].
  destruct (c6r_P d) as [P|]; [|discriminate].
  destruct (negb (Z.leb 2 R && Z.leb R 6 && (Z.eqb V 1 || Z.eqb V 2 || Z.eqb V 4 || Z.eqb V 5))) eqn:EVR; [discriminate|].
  assert (HVc : (V = 1 \/ V = 2 \/ V = 4 \/ V = 5)%Z).
  { apply negb_false_iff in EVR. apply andb_true_iff in EVR. destruct EVR as [_ E].
    repeat (apply orb_true_iff in E; destruct E as [E|E]); apply Z.eqb_eq in E; auto. }
  cbv beta iota zeta in H |- *.
  destruct (Z.ltb V 5) eqn:E5.
  - match type of H with context [(Nat.eqb ?a ?b && Nat.eqb ?c ?e)%bool] => destruct (Nat.eqb a b && Nat.eqb c e)%bool end; [|discriminate].
    cbv beta iota zeta in H |- *. eexists. split; [reflexivity|].
    unfold dq_checks. cbn [ed_V].
    replace (Z.to_N V <? 5) with true by (destruct HVc as [E|[E|[E|E]]]; subst V; try reflexivity; discriminate).
    match type of H with context [kd_check_owner_V4 ?e pw] => destruct (kd_check_owner_V4 e pw) eqn:Eo end.
    + inversion H; subst. cbn. split; [discriminate|]. split; [reflexivity|discriminate].
    + match type of H with context [kd_check_user_V4 ?e pw] => destruct (kd_check_user_V4 e pw) eqn:Eu end; [|discriminate].
      inversion H; subst. cbn. split; [discriminate|]. split; reflexivity.
  - destruct (c6r_OE d), (c6r_UE d), (c6r_Perms d); try discriminate.
    cbv beta iota zeta in H |- *. eexists. split; [reflexivity|].
    unfold dq_checks. cbn [ed_V].
    replace (Z.to_N V <? 5) with false by (destruct HVc as [E|[E|[E|E]]]; subst V; try reflexivity; discriminate).
    match type of H with context [kd_check_owner_V5 ?e pw] => destruct (kd_check_owner_V5 e pw) eqn:Eo end;
    match type of H with context [kd_check_user_V5 ?e pw] => destruct (kd_check_user_V5 e pw) eqn:Eu end;
    cbn [orb negb] in H; try discriminate;
    match type of H with context [kd_recover_key_V5 ?e pw] => destruct (kd_recover_key_V5 e pw) as [k pv] end;
    inversion H; subst; cbn; (split; [discriminate|]); split; try reflexivity; try discriminate.
Qed.

Print Assumptions dq_wrong_password_rejected_lemma.
Print Assumptions dq_accepted_password_checked_lemma.
