(* placeholder, replaced below *)
From QV Require Import Base.Bytes Sys.StdioModel Sys.SinkModel Sys.OutputSpec.
Lemma c10_placeholder_lemma : c10_obs_ok (mk_obs 0 false false true false false) = true.
Proof. reflexivity. Qed.
