(* C08 - model of how a qpdf job turns what its input files gave into the exit status, written from the C++ in
   /repo libqpdf/QPDFJob.cc:
     QPDFJob::Inputs            files = std::map<std::string, Input> (keyed by the file NAME as written on the
                                command line, ordered by std::string operator<), infile_name, new_selection,
                                process_all (every entry but the main input is opened, in map order), clear()
                                ("any_warnings |= pdf->anyWarnings()" over the map)
     QPDFJob::createQPDF        main input, handlePageSpecs, handleUnderOverlay, handleTransformations
                                (copyAttachments: "if (other->anyWarnings()) m->warnings = true"),
                                "m->warnings |= m->inputs.clear()"
     QPDFJob::setWriterOptions  --copy-encryption: the file is opened with processFile, copyEncryptionParameters,
                                "if (encryption_pdf->anyWarnings()) m->warnings = true" (/repo d4bc1464; before
                                that repair the warnings of this file were not looked at: former finding C08-F16)
     QPDFJob::writeQPDF         "!pdf.getWarnings().empty()" for the main input, "uo.pdf->anyWarnings()" for every
                                --overlay / --underlay file (/repo fd496b0b)
     QPDFJob::getExitCode       warnings => 3; an exception from any processFile ends the run with 2 (qpdf.cc)
   What one input file gave (fatal = the reader threw, warn = it warned: File/Recover.v rc_view) is the input of this
   model; names are byte strings.  No proofs here.  Names are prefixed rj_ because extraction flattens the name
   space. *)
From QV Require Import Base.Bytes File.Recover.
Local Open Scope N_scope.

Record rj_file := mkRjFile { rj_name : list N; rj_fatal : bool; rj_warn : bool }.

Definition rj_of_view (name : list N) (r : rc_result) : rj_file := mkRjFile name (r_fatal r) (r_warn r).

(* std::string operator< : lexicographic on unsigned bytes, a proper prefix is smaller *)
Fixpoint rj_name_ltb (a b : list N) : bool :=
  match a, b with
  | _, [] => false
  | [], _ :: _ => true
  | x :: a', y :: b' => (x <? y) || ((x =? y) && rj_name_ltb a' b')
  end.
Definition rj_name_eqb (a b : list N) : bool := list_eqb N.eqb a b.

(* files.insert({name, Input()}) / the lookup-or-insert of new_selection: an existing entry is kept; the list is
   the map in iteration order *)
Fixpoint rj_map_insert (f : rj_file) (m : list rj_file) : list rj_file :=
  match m with
  | [] => [f]
  | g :: m' =>
      if rj_name_eqb (rj_name f) (rj_name g) then m
      else if rj_name_ltb (rj_name f) (rj_name g) then f :: m
      else g :: rj_map_insert f m'
  end.

(* rj_main = None is --empty; rj_pages = the files named after --pages in command-line order ("." is given as the
   main input itself); rj_uo = the --overlay and --underlay files; rj_attach = --copy-attachments-from;
   rj_enc = --copy-encryption *)
Record rj_job := mkRjJob { rj_main : option rj_file; rj_pages : list rj_file; rj_uo : list rj_file;
                           rj_attach : list rj_file; rj_enc : option rj_file }.

Definition rj_opt (o : option rj_file) : list rj_file := match o with Some f => [f] | None => [] end.

(* the files map after the command line has been read *)
Definition rj_files (j : rj_job) : list rj_file :=
  fold_left (fun m f => rj_map_insert f m) (rj_pages j) (rj_opt (rj_main j)).

Definition rj_is_main (j : rj_job) (f : rj_file) : bool :=
  match rj_main j with Some g => rj_name_eqb (rj_name f) (rj_name g) | None => false end.

(* the entries process_all opens and clear() closes: the main input's entry holds no QPDF of its own *)
Definition rj_secondary (j : rj_job) : list rj_file := filter (fun f => negb (rj_is_main j f)) (rj_files j).

(* Inputs::clear() *)
Definition rj_clear (fs : list rj_file) : bool := fold_left (fun acc f => acc || rj_warn f) fs false.

(* "if (x->anyWarnings()) { m->warnings = true; }" in a loop *)
Definition rj_flag_loop (fs : list rj_file) (w : bool) : bool :=
  fold_left (fun acc f => if rj_warn f then true else acc) fs w.

Definition rj_exit (j : rj_job) : N :=
  if existsb rj_fatal (rj_opt (rj_main j)) || existsb rj_fatal (rj_secondary j) || existsb rj_fatal (rj_uo j)
     || existsb rj_fatal (rj_attach j) || existsb rj_fatal (rj_opt (rj_enc j))
  then 2
  else
    let w1 := rj_flag_loop (rj_attach j) false in        (* copyAttachments *)
    let w2 := w1 || rj_clear (rj_secondary j) in         (* m->warnings |= m->inputs.clear() *)
    (* setWriterOptions (while writing): the --copy-encryption file is read, its warnings count (/repo d4bc1464) *)
    let w2e := rj_flag_loop (rj_opt (rj_enc j)) w2 in
    let w3 := if existsb rj_warn (rj_opt (rj_main j)) then true else w2e in   (* !pdf.getWarnings().empty() *)
    let w4 := rj_flag_loop (rj_uo j) w3 in               (* underlay / overlay files *)
    if w4 then 3 else 0.
