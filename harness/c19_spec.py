# C19, part 'spec': the specification of jobs over EVERY option table (coq/Sys/JobSpecX.v + JobSpec.v + JobPagesSpec.v: denotation =
# the list of Config calls of the manual's third column; renderings = the command-line words and the job JSON of the first and second
# column) against the implementation.  For every generated job the EXTRACTED specification gives (calls, acceptable?), the argv words
# (both spellings of file names: positional / --file=) and the job JSON; the real QPDFJob::initializeFromArgv on those words, the
# real QPDFJob::initializeFromJson on that JSON, and the denotation's calls applied through the real QPDFJob::Config API must build the
# same configuration (QPDFJob::Members dump) or raise the same usage error; a job the denotation does not accept must be a usage error
# in both front ends; a job with an encryption request is also run with --encrypt in its dashed spelling (Sys/JobSpecXD.v:
# --user-password= --owner-password= --bits=, and the same with the option of an empty password left out), which must behave as the
# positional one.  These are the jobs the theorems argv_refines_spec / json_refines_spec / nested_equivalent (Sys/C19ProofsE.v)
# quantify over; the generator aims at their case splits: every nested table (pages, encrypt x 3 key lengths, overlay, underlay,
# add-attachment, copy-attachments-from, global, set-page-labels) with 0..3 blocks, every option of each table with acceptable and
# unacceptable values, the file word at every position of an attachment block, page selections at any place of the job, both
# spellings, words that look like page ranges / key lengths / passwords.
import json, os
import common
from common import hexs


def hx(s):
    return hexs(s) if s != "" else "-"


def pgs_positional_ok(C, files, specs):
    """mirror of Sys/JobPagesSpec.pgs_positional_ok (used only to choose jobs inside the domain of the positional spelling)"""
    first, prev = True, False
    for p in specs:
        f = p["file"]
        if not C.posword(f):
            return False
        if not (first or prev or (not C.range_syntax_ok(f) and (f == "." or f in files))):
            return False
        r = p.get("range")
        if r is not None and not (C.posword(r) and C.range_syntax_ok(r)):
            return False
        first, prev = False, r is not None
    return True


def to_items(C, T, j, files, named):
    """JSON-shaped job -> token list of ocaml/h_jobx.ml, items in byte order of the JSON keys (the order in which the real JSON front
    end visits them); None when the job is outside the domain of the specification (Sys/JobSpecX.xj_wf_job)"""
    out = []
    if "empty" in j and "inputFile" in j:
        return None                      # finding C19-empty-with-inputFile
    for k in sorted(j, key=lambda x: x.encode("utf-8")):
        v = j[k]
        if k in ("inputFile", "outputFile"):
            if not isinstance(v, str) or not C.posword(v):
                return None
            out += ["I" if k == "inputFile" else "U", hx(v)]
        elif k in ("empty", "replaceInput"):
            if v != "":
                return None
            out.append("E" if k == "empty" else "R")
        elif k == "pages":
            if not isinstance(v, list):
                return None
            for p in v:
                if not isinstance(p, dict) or "file" not in p or set(p) - {"file", "password", "range"} or not all(isinstance(x, str) for x in p.values()):
                    return None
            if not named and not pgs_positional_ok(C, files, v):
                return None
            out += ["P", str(len(v))]
            for p in v:
                out += [hx(p["file"]), hx(p["password"]) if "password" in p else "~", hx(p["range"]) if "range" in p else "~"]
        elif k == "encrypt":
            if not isinstance(v, dict) or set(v) - {"userPassword", "ownerPassword", "40bit", "128bit", "256bit"}:
                return None
            bits = [b for b in ("40bit", "128bit", "256bit") if b in v]
            if len(bits) != 1 or "userPassword" not in v or "ownerPassword" not in v:
                return None
            u, o, b = v["userPassword"], v["ownerPassword"], bits[0]
            if not (isinstance(u, str) and isinstance(o, str) and C.posword(u) and C.posword(o) and isinstance(v[b], dict)):
                return None
            subs = []
            for sk in sorted(v[b], key=lambda x: x.encode("utf-8")):
                if sk not in T.sub[b] or not isinstance(v[b][sk], str) or (b == "40bit" and sk in ("print", "modify")):
                    return None          # finding C19-enc40-choices
                subs += [hx(T.sub[b][sk]["flag"]), hx(v[b][sk])]
            out += ["C", hx(u), hx(o), hx(b[:-3]), str(len(subs) // 2)] + subs
        elif k in ("overlay", "underlay"):
            if not isinstance(v, list):
                return None
            out += ["V" if k == "overlay" else "W", str(len(v))]
            for it in v:
                if not isinstance(it, dict) or "file" not in it or not all(isinstance(x, str) for x in it.values()):
                    return None
                if not named and not C.posword(it["file"]):
                    return None
                subs = []
                for sk in sorted(it, key=lambda x: x.encode("utf-8")):
                    if sk == "file":
                        continue
                    if sk not in T.sub["uo"]:
                        return None
                    subs += [hx(T.sub["uo"][sk]["flag"]), hx(it[sk])]
                out += [hx(it["file"]), str(len(subs) // 2)] + subs
        elif k in ("addAttachment", "copyAttachmentsFrom"):
            if not isinstance(v, list):
                return None
            tb = "att" if k == "addAttachment" else "copyatt"
            out += ["T" if k == "addAttachment" else "Y", str(len(v))]
            for it in v:
                if not isinstance(it, dict) or not all(isinstance(x, str) for x in it.values()):
                    return None
                ws = []
                for sk in sorted(it, key=lambda x: x.encode("utf-8")):
                    if sk == "file":
                        if not C.posword(it[sk]):
                            return None
                        ws += ["f", hx(it[sk])]
                    elif sk in T.sub[tb]:
                        ws += ["o", hx(T.sub[tb][sk]["flag"]), hx(it[sk])]
                    else:
                        return None
                out += [str(len(it))] + ws
        elif k == "global":
            if not isinstance(v, dict):
                return None
            subs = []
            for sk in sorted(v, key=lambda x: x.encode("utf-8")):
                if sk not in T.sub["global"] or not isinstance(v[sk], str):
                    return None
                subs += [hx(T.sub["global"][sk]["flag"]), hx(v[sk])]
            out += ["G", str(len(subs) // 2)] + subs
        elif k == "setPageLabels":
            if not isinstance(v, list) or not all(isinstance(x, str) and C.posword(x) for x in v):
                return None
            out += ["L", str(len(v))] + [hx(x) for x in v]
        elif k in T.arrays:
            if not isinstance(v, list) or not all(isinstance(x, str) for x in v):
                return None
            out += ["A", hx(T.main[k]["flag"]), str(len(v))] + [hx(x) for x in v]
        elif k in T.main and k not in T.structured and k != "jobJsonFile":
            if not isinstance(v, str):
                return None
            out += ["O", hx(T.main[k]["flag"]), hx(v)]
        else:
            return None
    return out


def json_from_tokens(toks):
    """the job JSON text of the specification's rendering (members in the order given; the parser sorts them)"""
    pos = [0]

    def s(h):
        return bytes.fromhex(h).decode("latin-1")

    def val():
        t = toks[pos[0]]
        pos[0] += 1
        if t == "n":
            return "null"
        if t == "[":
            xs = []
            while toks[pos[0]] != "]":
                xs.append(val())
            pos[0] += 1
            return "[" + ", ".join(xs) + "]"
        if t == "{":
            xs = []
            while toks[pos[0]] != "}":
                k = toks[pos[0]]
                pos[0] += 1
                xs.append(json.dumps(s(k[1:])) + ": " + val())
            pos[0] += 1
            return "{" + ", ".join(xs) + "}"
        return json.dumps(s(t[1:]))
    return val()


LOOKALIKES = ["2", "1-3", "z", "256", "40", "pw", ".", "x", "A.pdf", "r1"]


def aimed_jobs(C, T, rng):
    """JSON-shaped jobs aimed at the case splits of the nested handlers"""
    jobs = []
    STAMP = C.STAMP
    uo_files = ["O.pdf", "B.pdf", "E.pdf", "nofile.pdf", "2", "1-3", ".", "--x", "-"]
    att_files = ["att.txt", "att2.txt", "nofile.txt", "2", "256", "-", "--"]
    # ---- overlay / underlay: 0..3 blocks, every option x value, file names of every kind
    for key in ("overlay", "underlay"):
        jobs.append({key: []})
        for f in uo_files:
            jobs.append({key: [{"file": f}]})
        for k, e in sorted(T.sub["uo"].items()):
            if k == "file":
                continue
            for v in C.values_for(k, e) + LOOKALIKES[:4]:
                jobs.append({key: [{"file": "O.pdf", k: v}]})
                jobs.append({key: [{"file": "B.pdf"}, {"file": "O.pdf", k: v, "to": "1"}]})
        for n in (2, 3):
            jobs.append({key: [{"file": rng.choice(uo_files[:3]), "to": str(i + 1), "from": "1"} for i in range(n)]})
    jobs.append({"overlay": [{"file": "O.pdf", "to": "1"}], "underlay": [{"file": "B.pdf", "from": "", "repeat": "1"}, {"file": "O.pdf"}]})
    # ---- attachments: the file word at every position among the options (the position of "file" in key order), 0..3 blocks
    for tb, key, files in (("att", "addAttachment", att_files), ("copyatt", "copyAttachmentsFrom", ["F.pdf", "A.pdf", "nofile.pdf", "2", "-"])):
        jobs.append({key: []})
        jobs.append({key: [{}]})
        for f in files:
            jobs.append({key: [{"file": f}]})
        for k, e in sorted(T.sub[tb].items()):
            for v in C.values_for(k, e) + LOOKALIKES[:3]:
                it = {"file": files[0], k: v}
                if tb == "att":
                    it.setdefault("creationdate", STAMP)
                    it.setdefault("moddate", STAMP)
                jobs.append({key: [it]})
                jobs.append({key: [{k: v}]})                       # no file at all
                jobs.append({key: [{"file": files[1]}, it]})
        opts = sorted(T.sub[tb])
        for _ in range(25):
            n = rng.randint(1, 3)
            blocks = []
            for _ in range(n):
                it = {}
                if rng.random() < 0.9:
                    it["file"] = rng.choice(files)
                for k in rng.sample(opts, rng.randint(0, len(opts))):
                    e = T.sub[tb][k]
                    it[k] = rng.choice(C.valid_values_for(k, e) if rng.random() < 0.85 else C.values_for(k, e))
                blocks.append(it)
            jobs.append({key: blocks})
    # ---- set-page-labels
    for l in ([], ["1:r"], ["1:r", "3:D/5"], ["1:r", "3:D/5", "z:A//x-"], ["bad"], ["2"], ["."], ["A.pdf", "1:"], ["", "1:r"], ["256", "u", "o"]):
        jobs.append({"setPageLabels": l})
    # ---- global, encrypt (all key lengths, every option x value)
    for k, e in sorted(T.sub["global"].items()):
        for v in C.values_for(k, e):
            jobs.append({"global": {k: v}})
    jobs.append({"global": {}})
    for b in ("40bit", "128bit", "256bit"):
        jobs.append({"encrypt": {"userPassword": "u", "ownerPassword": "o", b: {}}})
        for u, o in (("", ""), ("", "o"), ("u", ""), ("256", "40"), ("2", "1-3"), ("A.pdf", "."), ("-", "-")):
            jobs.append({"encrypt": {"userPassword": u, "ownerPassword": o, b: {}}})
        for k, e in sorted(T.sub[b].items()):
            if b == "40bit" and k in ("print", "modify"):
                continue
            for v in C.values_for(k, e):
                jobs.append({"encrypt": {"userPassword": "u", "ownerPassword": "o", b: {k: v}}, "allowWeakCrypto": ""})
    # ---- page selections at any place of the job, with the other tables around them
    pgsets = [[{"file": "."}], [{"file": ".", "range": "1-2"}, {"file": "B.pdf"}], [{"file": "B.pdf", "range": "z-1"}, {"file": ".", "range": "1"}],
              [{"file": "E.pdf", "password": "pw", "range": "1"}], [], [{"file": "A.pdf"}, {"file": "B.pdf"}, {"file": "."}],
              [{"file": "B.pdf", "range": "x"}], [{"file": "2"}], [{"file": "B.pdf", "range": "1"}, {"file": "2", "range": "1"}],
              [{"file": "nofile.pdf", "range": "1"}], [{"file": "B.pdf", "password": "2", "range": "2"}]]
    around = [{"overlay": [{"file": "O.pdf", "to": "1"}]}, {"underlay": [{"file": "O.pdf"}]},
              {"addAttachment": [{"file": "att.txt", "key": "k", "creationdate": STAMP, "moddate": STAMP}]},
              {"copyAttachmentsFrom": [{"file": "F.pdf", "prefix": "p-"}]}, {"setPageLabels": ["1:r"]}, {"global": {"parserMaxErrors": "3"}},
              {"encrypt": {"userPassword": "u", "ownerPassword": "o", "256bit": {"print": "low"}}}, {"rotate": ["+90:1"]}, {"qdf": ""},
              {"collate": ""}, {"splitPages": "2"}, {"json": "2"}, {"jsonOutput": ""}, {"removeAttachment": ["att1"]}, {"verbose": ""}]
    for pg in pgsets:
        jobs.append({"pages": pg})
        for a in around:
            j = {"pages": pg}
            j.update(a)
            jobs.append(j)
    simple = [k for k in T.main if k not in T.structured and k not in ("jobJsonFile", "passwordFile")]
    for _ in range(250):
        j = {}
        for a in rng.sample(around, rng.randint(1, 5)):
            j.update(a)
        if rng.random() < 0.7:
            j["pages"] = rng.choice(pgsets)
        for _ in range(rng.randint(0, 3)):
            k = rng.choice(simple)
            e = T.main[k]
            vals = C.valid_values_for(k, e) if rng.random() < 0.8 else C.values_for(k, e)
            if vals:
                v = rng.choice(vals)
                j[k] = [v] if k in T.arrays else v
        jobs.append(j)
    out = []
    for s in jobs:
        j = C.base_job()
        if rng.random() < 0.15:
            j.pop("staticId")
        j.update(s)
        out.append(j)
    # ---- positional discipline: --empty / --replace-input
    out.append({"empty": "", "outputFile": "out.pdf", "pages": [{"file": "A.pdf", "range": "1"}]})
    out.append({"inputFile": "A.pdf", "replaceInput": "", "overlay": [{"file": "O.pdf"}]})
    out.append({"inputFile": "A.pdf"})
    out.append({})
    return out


TABLE_OF_KEY = {"pages": "pages", "overlay": "overlay", "underlay": "underlay", "addAttachment": "add-attachment",
                "copyAttachmentsFrom": "copy-attachments-from", "setPageLabels": "set-page-labels", "global": "global"}


def tables_reached(j):
    r = [TABLE_OF_KEY[k] for k in j if k in TABLE_OF_KEY]
    if "encrypt" in j:
        r += ["encrypt-" + b for b in ("40bit", "128bit", "256bit") if b in j["encrypt"]]
    return r


def part_spec(chk, C, T, runner, jobs, aimed=None):
    rng = chk.rng
    mrunner = os.path.join(common.EXTRACT, "model_runner")
    files = frozenset(C.POOL)
    cand = (aimed if aimed is not None else aimed_jobs(C, T, rng)) + list(jobs)
    cases, seen = [], set()
    outside = 0
    for j in cand:
        any_style = False
        for named in (False, True):
            toks = to_items(C, T, j, files, named)
            if toks is None:
                continue
            any_style = True
            key = (named, " ".join(toks))
            if key in seen:
                continue
            seen.add(key)
            cases.append((j, named, toks))
        if not any_style:
            outside += 1
    mout = common.run_lines(mrunner, ["xj_spec %d %s" % (1 if named else 0, " ".join(toks)) for _, named, toks in cases], shards=4)
    rlines, meta = [], []
    for (j, named, toks), mo in zip(cases, mout):
        parts = mo.split(" | ")
        if mo.startswith("?") or len(parts) != 5:
            raise common.InfraError("C19 spec: the extracted specification did not answer", mo[:500] + " for " + " ".join(toks)[:500])
        ok, calls = parts[0].split(" ", 1)
        argv = parts[1].split(" ") if parts[1] != "" else []
        jtext = json_from_tokens(parts[2].split(" "))
        dashed = parts[3].split(" ") if parts[3] != "" else []      # the same job with --encrypt in its dashed spelling
        dashopt = parts[4].split(" ") if parts[4] != "" else []     # ... with the option of an empty password left out
        forked = "global" in j
        f = "cfgf_" if forked else "cfg_"
        rlines.append(f + "argv " + " ".join(argv))
        rlines.append(f + "json " + hexs(jtext))
        rlines.append(f + "replay " + ("fin " if ok == "1" else "front:0 ") + calls)
        rlines.append(f + "argv " + " ".join(dashed))
        rlines.append(f + "argv " + " ".join(dashopt))
        meta.append((ok == "1", calls, argv, jtext, dashed, dashopt))
    d = C.new_rundir(runner.wd, runner.pool, "spec")
    rout = common.run_lines("env --chdir=%s %s" % (d, runner.drv), rlines, shards=4)
    nontriv, dist, reached, nviol, ndashed_diff = set(), {}, {}, 0, 0
    for i, ((j, named, toks), (ok, calls, argv, jtext, dashed, dashopt)) in enumerate(zip(cases, meta)):
        ra, rj, rp, rd, ro = rout[5 * i], rout[5 * i + 1], rout[5 * i + 2], rout[5 * i + 3], rout[5 * i + 4]
        a, b = C.parse_dump(ra), C.parse_dump(rj)
        for rx, words in (((rd, dashed), (ro, dashopt)) if "encrypt" in j else ()):
            # the dashed spellings must behave as the positional one (same dump / same usage error); reported through the same verdict
            if rx == ra:
                continue
            dd = C.parse_dump(rx)
            if dd[0] != a[0] or (a[0] == "ok" and C.dump_diff(a, dd)) or (a[0] == "usage" and ok and dd[1] != a[1]):
                a, ra, argv = dd, rx, words
                ndashed_diff += 1
                break
        why, cls = None, "?"
        if not ok:
            cls = "spec-rejects"
            # the calls up to the rejected value may already raise a Config usage error: either way both front ends must refuse
            if a[0] != "usage":
                why = "the denotation rejects the job, the command line does not (%s)" % a[0]
            elif b[0] != "usage":
                why = "the denotation rejects the job, the job JSON front end does not (%s)" % b[0]
        elif rp.startswith("ok "):
            cls = "ok"
            p = C.parse_dump(rp)
            if a[0] != "ok" or C.dump_diff(a, p):
                why = "command line: configuration differs from the denotation's calls in %s" % (C.dump_diff(a, p)[:8] if a[0] == "ok" else a[0])
            elif b[0] != "ok" or C.dump_diff(b, p):
                why = "job JSON: configuration differs from the denotation's calls in %s" % (C.dump_diff(b, p)[:8] if b[0] == "ok" else b[0])
        elif rp.startswith("usage "):
            cls = "config-usage"
            p = C.parse_dump(rp)
            if a[0] != "usage" or a[1] != p[1]:
                why = "command line: not the usage error of the denotation's calls (%r)" % p[1][:80]
            elif b[0] != "usage" or b[1] != p[1]:
                why = "job JSON: not the usage error of the denotation's calls (%r)" % p[1][:80]
        elif rp.startswith("error "):
            cls = "error"
            msg = bytes.fromhex(rp[6:])
            if a[0] != "usage" or msg not in bytes.fromhex(ra[6:]):
                why = "command line: not the error of the denotation's calls"
            elif b[0] != "error" or msg not in bytes.fromhex(rj[6:]):
                why = "job JSON: not the error of the denotation's calls"
        else:
            raise common.InfraError("C19 spec: replay of the denotation failed", rp[:300] + " for " + calls[:500])
        dist[cls] = dist.get(cls, 0) + 1
        for t in tables_reached(j):
            reached.setdefault(t, {"ok": 0, "rejected": 0})["ok" if cls == "ok" else "rejected"] += 1
        if why:
            nviol += 1
            if nviol <= 3:
                chk.violation({"kind": "property-fails-on-implementation", "part": "spec", "why": why, "job_json": j,
                               "argv": [bytes.fromhex(x).decode("latin-1") if x != "-" else "" for x in argv], "job_json_as_given": jtext,
                               "file_names_spelled": "--file=" if named else "positional", "denotation_calls": calls,
                               "denotation_accepts": ok, "argv_outcome": C.short_out(ra), "json_outcome": C.short_out(rj),
                               "denotation_replayed_through_real_Config": C.short_out(rp)}, signature=C.enc40_signature(j, None))
        elif cls in ("ok", "config-usage"):
            nontriv.add((named, " ".join(toks)))
    chk.count("spec", 3 * len(cases) + 2 * sum(1 for c in cases if "encrypt" in c[0]), nontriv, samples=[{"job": cases[i][0], "file_names_spelled": "--file=" if cases[i][1] else "positional",
                                                          "denotation": meta[i][1][:300]} for i in (0, len(cases) // 2, len(cases) - 1)])
    chk.cov["parts"]["spec"]["distribution"] = dist
    chk.cov["parts"]["spec"]["jobs"] = len(cases)
    chk.cov["parts"]["spec"]["jobs_also_run_with_dashed_encrypt"] = sum(1 for c in cases if "encrypt" in c[0])
    chk.cov["parts"]["spec"]["candidates_outside_the_specification_domain"] = outside
    chk.cov["parts"]["spec"]["nested_tables_reached"] = reached
    never = [t for t in list(TABLE_OF_KEY.values()) + ["encrypt-40bit", "encrypt-128bit", "encrypt-256bit"] if reached.get(t, {}).get("ok", 0) == 0]
    if never:
        raise common.InfraError("C19 spec: nested table never reached by an accepted job", str(never))


def verdict(C, ok, ra, rj, rp):
    """the comparison of part_spec for one case, as text (None: agrees)"""
    a, b = C.parse_dump(ra), C.parse_dump(rj)
    if not ok:
        return None if a[0] == "usage" and b[0] == "usage" else "the denotation rejects the job; command line: %s, job JSON: %s" % (a[0], b[0])
    p = C.parse_dump(rp)
    if rp.startswith("ok "):
        if a[0] != "ok" or C.dump_diff(a, p):
            return "command line differs from the denotation's calls in %s" % (C.dump_diff(a, p)[:8] if a[0] == "ok" else a[0])
        if b[0] != "ok" or C.dump_diff(b, p):
            return "job JSON differs from the denotation's calls in %s" % (C.dump_diff(b, p)[:8] if b[0] == "ok" else b[0])
        return None
    if rp.startswith("usage "):
        return None if (a[0] == "usage" and b[0] == "usage" and a[1] == p[1] == b[1]) else "not the usage error of the denotation's calls"
    return None if (a[0] == "usage" and b[0] == "error") else "not the error of the denotation's calls"


def replay_spec(C, chk, rep, runner):
    d = C.new_rundir(runner.wd, runner.pool, "replay")
    lines = ["cfgf_argv " + " ".join(hx(a) for a in rep["argv"]), "cfgf_json " + hexs(rep["job_json_as_given"]),
             "cfgf_replay " + ("fin " if rep.get("denotation_accepts") else "front:0 ") + rep["denotation_calls"]]
    ra, rj, rp = common.run_lines("env --chdir=%s %s" % (d, runner.drv), lines)
    print("argv:  %s\n  -> %s" % (rep["argv"], C.short_out(ra)[:300]))
    print("json:  %s\n  -> %s" % (rep["job_json_as_given"], C.short_out(rj)[:300]))
    print("denotation (%s): %s\n  -> %s" % ("accepted" if rep.get("denotation_accepts") else "rejected", rep["denotation_calls"][:600], C.short_out(rp)[:300]))
    why = verdict(C, bool(rep.get("denotation_accepts")), ra, rj, rp)
    print("REPLAY: %s" % (("still fails: " + why) if why else "both front ends agree with the denotation now"))
    return 1 if why else 0
