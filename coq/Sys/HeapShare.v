(* C20 - second heap model: storage that SEVERAL documents (and the program) can reach at the same time.
   Sys/Heap.v gives every document its own arena and its operations only take handles obtained from that document;
   nothing is shared by construction.  This file models the two kinds of storage that qpdf does let more than one party
   hold, written from
     libqpdf/QPDFObjectHandle.cc  (BaseHandle::disconnect, BaseHandle::unparse, makeDirect/copy)
     libqpdf/QPDF.cc              (QPDF::~QPDF / class Disconnect, Objects::Foreign::Copier::copied / reserve_objects /
                                   replace_indirect_object)
     libqpdf/QPDF_Stream.cc       (Stream::copy_data_to, replaceStreamData x 3, replaceFilterData,
                                   QPDFObjectHandle::getRawStreamData / getStreamData: std::make_shared<Buffer>(copy))
     libqpdf/QPDF_Dictionary.cc, QPDF_Array.cc (checkOwnership, replace / push_back / set / erase)
     libqpdf/QPDF_objects.cc      (makeIndirectFromQPDFObject, newStream, newIndirectNull + replaceReserved)
     libqpdf/QPDFWriter.cc        (getBufferSharedPointer: the output buffer is handed to the caller)
   (1) DIRECT objects: a direct array / dictionary has no owner; the same QPDFObject may sit in containers of several
       documents and in variables of the program ("template" values; a value taken out of one document and put into
       another).  ~QPDF only detaches such objects (qpdf := null, og := 0), it does not change their value.
   (2) BUFFERS: a stream whose data is in memory holds a std::shared_ptr<Buffer>; Stream::copy_data_to lets a foreign
       copy share that Buffer with the source stream.  getRawStreamData / getStreamData / QPDFWriter hand the caller a
       Buffer; Buffer::getBuffer() is writable.
   One flat heap: a QPDFObject is a cell, a Buffer is a buffer cell, a handle is an index.  Party 0 is the program
   (handles that belong to no document), parties 1, 2, ... are the documents.
   The stream dictionary's /Length is derived from the data (replaceFilterData rewrites it, the writer recomputes it)
   and is not part of the modelled dictionary; the driver leaves it out of its dumps.
   No proofs in this file. *)
From QV Require Import Base.Bytes Sys.Heap.
Local Open Scope N_scope.

(* where a stream's data comes from: the document's input file, a Buffer (stream_data), or a stream data provider
   of Streams::Copier that pulls the bytes from the SOURCE document's input file *)
Inductive hxsrc := XsFile (bs : list N) | XsBuf (b : nat) | XsProv (bs : list N).

Inductive hxval :=
| XNull | XInt (z : Z) | XName (k : N)
| XArr (els : list nat)
| XDict (items : list (N * nat))                 (* std::map: key-sorted; keys are one byte *)
| XStream (dict : nat) (src : hxsrc)
| XReserved | XDestroyed.

Record hxcell := mkXc { xc_val : hxval; xc_qpdf : option nat; xc_og : N }.

Record hxdoc := mkXd {
  xd_cache : list (N * nat);                     (* m->obj_cache: object id -> cell *)
  xd_alive : bool;
  xd_imm : bool;                                 (* setImmediateCopyFrom(true) *)
  xd_cmap : list ((nat * N) * nat)               (* Foreign::Copier::object_map per source document: (source, id) -> local cell *)
}.

(* a std::shared_ptr<Buffer> in a variable of the program *)
Record hxheld := mkXh { xh_given : bool;         (* passed to replaceStreamData(std::shared_ptr<Buffer>) since *)
                        xh_buf : nat;
                        xh_opaque : bool }.      (* QPDFWriter output: contents not modelled *)

Record hxworld := mkXw {
  xw_cells : list hxcell;
  xw_bufs : list (list N);
  xw_docs : list hxdoc;                          (* entry 0: the program (never alive) *)
  xw_roots : list (nat * (nat * nat));           (* variable number -> (party it was obtained from, cell) *)
  xw_held : list (nat * hxheld)                  (* buffer variable number -> Buffer *)
}.

Definition xdoc0 : hxdoc := mkXd [] false false [].
Definition xworld0 : hxworld := mkXw [] [] [xdoc0] [] [].

(* ---------------------------------------------------------------- access *)
Definition xget (w : hxworld) (l : nat) : option hxcell := nth_error (xw_cells w) l.
Definition xval (w : hxworld) (l : nat) : hxval := match xget w l with Some c => xc_val c | None => XDestroyed end.
Definition xog (w : hxworld) (l : nat) : N := match xget w l with Some c => xc_og c | None => 0 end.
Definition xqp (w : hxworld) (l : nat) : option nat := match xget w l with Some c => xc_qpdf c | None => None end.

Definition xalloc (w : hxworld) (c : hxcell) : hxworld * nat :=
  (mkXw (xw_cells w ++ [c]) (xw_bufs w) (xw_docs w) (xw_roots w) (xw_held w), length (xw_cells w)).
Definition xset (w : hxworld) (l : nat) (c : hxcell) : hxworld :=
  mkXw (set_nth (xw_cells w) l c) (xw_bufs w) (xw_docs w) (xw_roots w) (xw_held w).
Definition xsetval (w : hxworld) (l : nat) (v : hxval) : hxworld :=
  match xget w l with Some c => xset w l (mkXc v (xc_qpdf c) (xc_og c)) | None => w end.
Definition xballoc (w : hxworld) (bs : list N) : hxworld * nat :=
  (mkXw (xw_cells w) (xw_bufs w ++ [bs]) (xw_docs w) (xw_roots w) (xw_held w), length (xw_bufs w)).
Definition xbset (w : hxworld) (b : nat) (bs : list N) : hxworld :=
  mkXw (xw_cells w) (set_nth (xw_bufs w) b bs) (xw_docs w) (xw_roots w) (xw_held w).
Definition xsetdoc (w : hxworld) (d : nat) (dv : hxdoc) : hxworld :=
  mkXw (xw_cells w) (xw_bufs w) (set_nth (xw_docs w) d dv) (xw_roots w) (xw_held w).
Definition xsetroot (w : hxworld) (r : nat) (p : nat) (l : nat) : hxworld :=
  mkXw (xw_cells w) (xw_bufs w) (xw_docs w) (imap_set (xw_roots w) r (p, l)) (xw_held w).
Definition xsetheld (w : hxworld) (r : nat) (h : hxheld) : hxworld :=
  mkXw (xw_cells w) (xw_bufs w) (xw_docs w) (xw_roots w) (imap_set (xw_held w) r h).

Definition xdoc (w : hxworld) (d : nat) : option hxdoc := nth_error (xw_docs w) d.
Definition xalive (w : hxworld) (d : nat) : bool := match xdoc w d with Some dv => xd_alive dv | None => false end.
Fixpoint xcache_max (m : list (N * nat)) : N := match m with [] => 0 | (k, _) :: t => N.max k (xcache_max t) end.
(* QPDF::getObjectCount *)
Definition xcount (w : hxworld) (d : nat) : N := match xdoc w d with Some dv => xcache_max (xd_cache dv) | None => 0 end.

Definition xsetcache (w : hxworld) (d : nat) (id : N) (l : nat) : hxworld :=
  match xdoc w d with
  | Some dv => xsetdoc w d (mkXd (nmap_set (xd_cache dv) id l) (xd_alive dv) (xd_imm dv) (xd_cmap dv))
  | None => w
  end.

Fixpoint xcmap_get (m : list ((nat * N) * nat)) (s : nat) (id : N) : option nat :=
  match m with
  | [] => None
  | ((s', id'), l) :: t => if Nat.eqb s' s && (id' =? id) then Some l else xcmap_get t s id
  end.
Definition xsetcmap (w : hxworld) (d : nat) (s : nat) (id : N) (l : nat) : hxworld :=
  match xdoc w d with
  | Some dv => xsetdoc w d (mkXd (xd_cache dv) (xd_alive dv) (xd_imm dv) (((s, id), l) :: xd_cmap dv))
  | None => w
  end.

(* the bytes a stream delivers (pipeStreamData at decode level none) *)
Definition xdata (w : hxworld) (s : hxsrc) : list N :=
  match s with XsFile bs => bs | XsProv bs => bs | XsBuf b => nth b (xw_bufs w) [] end.

(* ---------------------------------------------------------------- observation: QPDFObjectHandle::unparse *)
Definition xfuel : nat := 40.

(* None = the call throws std::logic_error (reserved / destroyed object) *)
Fixpoint xunparse (fuel : nat) (w : hxworld) (l : nat) : option (list N) :=
  match fuel with
  | O => None
  | S f =>
    let item e := if xog w e =? 0 then xunparse f w e else Some (s_ref (xog w e)) in
    match xval w l with
    | XNull => Some s_null
    | XInt z => Some (dec_of_Z z)
    | XName k => Some [47; k]
    | XArr els =>
      match concat_opt (map (fun e => match item e with Some s => Some (s ++ [32]) | None => None end) els) with
      | Some s => Some ([91; 32] ++ s ++ [93])
      | None => None
      end
    | XDict items =>
      match concat_opt (map (fun kv => match xval w (snd kv) with
                                       | XNull => Some []
                                       | _ => match item (snd kv) with
                                              | Some s => Some ([47; fst kv; 32] ++ s ++ [32])
                                              | None => None
                                              end
                                       end) items) with
      | Some s => Some ([60; 60; 32] ++ s ++ [62; 62])
      | None => None
      end
    | XStream _ _ => Some (s_ref (xog w l))
    | XReserved => None
    | XDestroyed => None
    end
  end.

(* the cells one unparse reads: the object, its direct descendants, and the indirect items (only their og is read) *)
Fixpoint xclos (fuel : nat) (w : hxworld) (l : nat) : list nat :=
  l :: match fuel with
       | O => []
       | S f =>
         let kid e := if xog w e =? 0 then xclos f w e else [e] in
         match xval w l with
         | XArr els => flat_map kid els
         | XDict items => flat_map (fun kv => kid (snd kv)) items
         | XStream d _ => xclos f w d
         | _ => []
         end
       end.

Definition xhexd (n : N) : N := if n <? 10 then 48 + n else 87 + n.
Definition xhex (bs : list N) : list N := flat_map (fun b => [xhexd (b / 16); xhexd (b mod 16)]) bs.

(* what the driver prints for an object: unparse, and for a stream its dictionary and raw data *)
Definition xshow (w : hxworld) (l : nat) : list N :=
  match xval w l with
  | XStream d s => [83] ++ show (xunparse xfuel w d) ++ [58] ++ xhex (xdata w s)
  | _ => show (xunparse (S xfuel) w l)
  end.
Definition xunparse_h (w : hxworld) (l : nat) : option (list N) :=
  if xog w l =? 0 then xunparse (S xfuel) w l else Some (s_ref (xog w l)).

(* everything a caller can see of party p: every object id 3..getObjectCount while the document is alive, and every
   handle that was obtained from p (also after p is gone) *)
Definition xobs_objects (w : hxworld) (p : nat) : list (N * list N) :=
  match xdoc w p with
  | Some dv => if xd_alive dv then
                 map (fun id => (id, match nmap_get (xd_cache dv) id with
                                     | Some l => xshow w l
                                     | None => s_null
                                     end)) (ids_from (N.to_nat (xcache_max (xd_cache dv) - 2)) 3)
               else []
  | None => []
  end.
Definition xroots_of (w : hxworld) (p : nat) : list (nat * (nat * nat)) :=
  filter (fun e => Nat.eqb (fst (snd e)) p) (xw_roots w).
Definition xobs_roots (w : hxworld) (p : nat) : list (nat * (list N * list N)) :=
  map (fun e => (fst e, (show (xunparse_h w (snd (snd e))), xshow w (snd (snd e))))) (xroots_of w p).
Definition xobs (w : hxworld) (p : nat) : list (N * list N) * list (nat * (list N * list N)) :=
  (xobs_objects w p, xobs_roots w p).

(* the contents of a Buffer the program holds *)
Definition xobs_held (w : hxworld) (r : nat) : option (list N) :=
  match imap_get (xw_held w) r with
  | Some h => Some (if xh_opaque h then [119] else xhex (nth (xh_buf h) (xw_bufs w) []))
  | None => None
  end.

(* the cells party p can see *)
Definition xparty_cells (w : hxworld) (p : nat) : list nat :=
  (match xdoc w p with
   | Some dv => flat_map (fun e => xclos (S xfuel) w (snd e)) (xd_cache dv)
   | None => []
   end) ++ flat_map (fun e => xclos (S xfuel) w (snd (snd e))) (xroots_of w p).

Definition xmem (l : nat) (ls : list nat) : bool := existsb (Nat.eqb l) ls.

(* is cell t visible to a party other than a ? *)
Definition xshared (w : hxworld) (a : nat) (t : nat) : bool :=
  existsb (fun p => negb (Nat.eqb p a) && xmem t (xparty_cells w p)) (seq 0 (length (xw_docs w))).

(* no indirect object and no stream anywhere in the value (it can be put into any document) *)
Definition xpure (w : hxworld) (l : nat) : bool :=
  forallb (fun x => (xog w x =? 0) && match xval w x with XStream _ _ | XReserved | XDestroyed => false | _ => true end)
          (xclos xfuel w l).

(* separation: the indirect objects of a document are visible to that document only *)
Definition xsep_b (w : hxworld) : bool :=
  forallb (fun a => match xdoc w a with
                    | Some dv => forallb (fun e => negb (xshared w a (snd e))) (xd_cache dv)
                    | None => true
                    end) (seq 0 (length (xw_docs w))).

(* ---------------------------------------------------------------- handle expressions *)
Inductive xnav := XnIdx (n : nat) | XnKey (k : N) | XnDict.
Inductive xhead := XhRoot (r : nat) | XhObj (id : N) | XhInt (z : Z) | XhNull | XhName (k : N) | XhArr | XhDictNew.
Definition xexpr := (xhead * list xnav)%type.

Definition xnav1 (w : hxworld) (l : nat) (s : xnav) : option (hxworld * nat) :=
  match s with
  | XnIdx n => match xval w l with                 (* getArrayItem, guarded by isArray() and the index range *)
               | XArr els => match nth_error els n with Some e => Some (w, e) | None => None end
               | _ => None
               end
  | XnKey k => match xval w l with                 (* getKey, guarded by isDictionary(); a missing key gives a new null *)
               | XDict items => match nmap_get items k with
                                | Some e => Some (w, e)
                                | None => Some (xalloc w (mkXc XNull (xqp w l) 0))
                                end
               | _ => None
               end
  | XnDict => match xval w l with                  (* getDict(), guarded by isStream() *)
              | XStream d _ => Some (w, d)
              | _ => None
              end
  end.

Fixpoint xnavs (w : hxworld) (l : nat) (p : list xnav) : option (hxworld * nat) :=
  match p with
  | [] => Some (w, l)
  | s :: p' => match xnav1 w l s with Some (w1, l1) => xnavs w1 l1 p' | None => None end
  end.

(* head of an expression evaluated on behalf of party a; [any] = a variable obtained from ANOTHER party may be named
   (value position).  The bool says whether that happened. *)
Definition xeval_head (any : bool) (a : nat) (w : hxworld) (h : xhead) : option (hxworld * nat * bool) :=
  match h with
  | XhRoot r => match imap_get (xw_roots w) r with
                | Some (p, l) => if Nat.eqb p a then Some (w, l, false) else if any then Some (w, l, true) else None
                | None => None
                end
  | XhObj id => match xdoc w a with
                | Some dv => if xd_alive dv && (3 <=? id) && (id <=? xcache_max (xd_cache dv)) then
                               match nmap_get (xd_cache dv) id with
                               | Some l => Some (w, l, false)
                               | None => let (w1, l) := xalloc w (mkXc XNull None 0) in Some (w1, l, false)
                               end
                             else None
                | None => None
                end
  | XhInt z => let (w1, l) := xalloc w (mkXc (XInt z) None 0) in Some (w1, l, false)
  | XhNull => let (w1, l) := xalloc w (mkXc XNull None 0) in Some (w1, l, false)
  | XhName k => let (w1, l) := xalloc w (mkXc (XName k) None 0) in Some (w1, l, false)
  | XhArr => let (w1, l) := xalloc w (mkXc (XArr []) None 0) in Some (w1, l, false)
  | XhDictNew => let (w1, l) := xalloc w (mkXc (XDict []) None 0) in Some (w1, l, false)
  end.

Definition xeval (any : bool) (a : nat) (w : hxworld) (e : xexpr) : option (hxworld * nat * bool) :=
  match xeval_head any a w (fst e) with
  | Some (w1, l, c) => match xnavs w1 l (snd e) with Some (w2, l2) => Some (w2, l2, c) | None => None end
  | None => None
  end.

Definition xhas_dict_step (e : xexpr) : bool := existsb (fun s => match s with XnDict => true | _ => false end) (snd e).

(* ---------------------------------------------------------------- parsing (QPDFObjectHandle::parse of a generated text) *)
Inductive xtree := XtNull | XtInt (z : Z) | XtName (k : N) | XtArr (l : list xtree) | XtDict (l : list (N * xtree)).

(* ctx: the QPDF* given to parse (stored in every object but the nulls); a later key replaces an earlier equal one *)
Fixpoint xbuild (ctx : option nat) (t : xtree) (w : hxworld) : hxworld * nat :=
  match t with
  | XtNull => xalloc w (mkXc XNull None 0)
  | XtInt z => xalloc w (mkXc (XInt z) ctx 0)
  | XtName k => xalloc w (mkXc (XName k) ctx 0)
  | XtArr ts =>
    let fix go (ts : list xtree) (w : hxworld) (acc : list nat) : hxworld * list nat :=
      match ts with
      | [] => (w, rev' acc)
      | t :: r => let (w1, l) := xbuild ctx t w in go r w1 (l :: acc)
      end in
    let (w1, els) := go ts w [] in xalloc w1 (mkXc (XArr els) ctx 0)
  | XtDict kts =>
    let fix go (kts : list (N * xtree)) (w : hxworld) (acc : list (N * nat)) : hxworld * list (N * nat) :=
      match kts with
      | [] => (w, acc)
      | (k, t) :: r => let (w1, l) := xbuild ctx t w in go r w1 (nmap_set acc k l)
      end in
    let (w1, items) := go kts w [] in xalloc w1 (mkXc (XDict items) ctx 0)
  end.

(* ---------------------------------------------------------------- deep copy of a pure value (Copier::replace_indirect_object) *)
Fixpoint xclone (fuel : nat) (q : option nat) (og : N) (w : hxworld) (l : nat) : hxworld * nat :=
  match fuel with
  | O => xalloc w (mkXc XNull q og)
  | S f =>
    match xval w l with
    | XArr els =>
      let (w1, acc) := fold_left (fun st e => let (w2, e') := xclone f None 0 (fst st) e in (w2, e' :: snd st)) els (w, []) in
      xalloc w1 (mkXc (XArr (rev' acc)) q og)
    | XDict items =>
      let (w1, its) := fold_left (fun st kv => match xval (fst st) (snd kv) with
                                               | XNull => st
                                               | _ => let (w2, e') := xclone f None 0 (fst st) (snd kv) in (w2, nmap_set (snd st) (fst kv) e')
                                               end) items (w, []) in
      xalloc w1 (mkXc (XDict its) q og)
    | XStream _ _ | XReserved | XDestroyed => xalloc w (mkXc XNull q og)     (* not reached: only pure values are copied *)
    | v => xalloc w (mkXc v q og)
    end
  end.

(* ---------------------------------------------------------------- ~QPDF *)
(* BaseHandle::disconnect: children first (only direct ones), then this object's qpdf and og *)
Fixpoint xdisconnect (fuel : nat) (only_direct : bool) (w : hxworld) (l : nat) : hxworld :=
  match fuel with
  | O => w
  | S f =>
    match xget w l with
    | None => w
    | Some c =>
      if only_direct && negb (xc_og c =? 0) then w else
      let w1 := match xc_val c with
                | XArr els => fold_left (fun wa e => xdisconnect f true wa e) els w
                | XDict items => fold_left (fun wa e => xdisconnect f true wa (snd e)) items w
                | XStream d _ => xdisconnect f true w d
                | _ => w
                end in
      match xget w1 l with
      | Some c1 => xset w1 l (mkXc (xc_val c1) None 0)
      | None => w1
      end
    end
  end.

(* class Disconnect (QPDF.cc): disconnect(false), then everything but a null becomes QPDF_Destroyed *)
Definition xdestroy_entry (w : hxworld) (l : nat) : hxworld :=
  let w1 := xdisconnect (S xfuel) false w l in
  match xval w1 l with XNull => w1 | _ => xsetval w1 l XDestroyed end.

(* ---------------------------------------------------------------- operations *)
Inductive xwhere := XwKey (k : N) | XwApp | XwIdx (n : nat).

Inductive xop :=
| XoNewDoc                                   (* QPDF q; q.emptyPDF() *)
| XoOpenDoc (imm : bool)                     (* QPDF q; [q.setImmediateCopyFrom(true);] q.processMemoryFile(the fixed file) *)
| XoParse (r : nat) (t : xtree)              (* variable r := QPDFObjectHandle::parse([&q,] text); party 0: no context *)
| XoHold (r : nat) (h : xexpr)               (* variable r := handle *)
| XoMakeInd (h : xexpr)                      (* q.makeIndirectObject(h) *)
| XoInsert (h : xexpr) (wh : xwhere) (v : xexpr)   (* replaceKey / appendItem / setArrayItem *)
| XoDelete (h : xexpr) (wh : xwhere)               (* removeKey / eraseItem *)
| XoDestroy                                  (* ~QPDF *)
| XoObserve                                  (* QPDFWriter::write to memory, buffer not kept *)
| XoNewStream (r : nat) (bs : list N)        (* variable r := q.newStream(data) *)
| XoReplaceData (h : xexpr) (bs : list N)    (* h.replaceStreamData(std::string, {}, {}) *)
| XoCopy (s : nat) (h : xexpr) (r : nat)     (* variable r := q.copyForeignObject(handle of document s) *)
| XoGetData (h : xexpr) (br : nat)           (* buffer variable br := h.getRawStreamData() / h.getStreamData(none) *)
| XoMutate (br : nat) (pos : nat) (byte : N) (* buffer variable br ->getBuffer()[pos] = byte   (party 0) *)
| XoGive (h : xexpr) (br : nat)              (* h.replaceStreamData(buffer variable br, {}, {}) *)
| XoWriteBuf (br : nat).                     (* buffer variable br := QPDFWriter(q) ... getBufferSharedPointer() *)

Definition xroot_ok (a r : nat) : bool := Nat.eqb (Nat.div r 10) a.

Definition xclash (w : hxworld) (t v : nat) : bool :=
  match xqp w t, xqp w v with
  | Some x, Some y => negb (Nat.eqb x y)
  | _, _ => false
  end.

Definition xnew_doc (a : nat) (imm : bool) (base : nat) : hxdoc :=
  mkXd [(1, base); (2, S base)] true imm [].

(* the fixed input file of XoOpenDoc:  3: stream << /A 7 >> "hello"   4: stream << /K [ 1 2 ] >> "abc"
   5: << /A [ 1 << /B 2 >> ] /C /D >>   (1: catalog, 2: pages; not observed) *)
Definition xfile_cells (a : nat) (base : nat) : list hxcell :=
  let q := Some a in
  [ mkXc XReserved q 1; mkXc XReserved q 2;
    mkXc (XInt 7) q 0;                                   (* base+2 *)
    mkXc (XDict [(65, (base + 2)%nat)]) q 0;               (* base+3: dictionary of stream 3 *)
    mkXc (XStream (base + 3) (XsFile [104; 101; 108; 108; 111])) q 3;   (* base+4 *)
    mkXc (XInt 1) q 0; mkXc (XInt 2) q 0;                (* base+5, base+6 *)
    mkXc (XArr [(base + 5)%nat; (base + 6)%nat]) q 0;    (* base+7 *)
    mkXc (XDict [(75, (base + 7)%nat)]) q 0;               (* base+8: dictionary of stream 4 *)
    mkXc (XStream (base + 8) (XsFile [97; 98; 99])) q 4; (* base+9 *)
    mkXc (XInt 1) q 0; mkXc (XInt 2) q 0;                (* base+10, base+11 *)
    mkXc (XDict [(66, (base + 11)%nat)]) q 0;              (* base+12 *)
    mkXc (XArr [(base + 10)%nat; (base + 12)%nat]) q 0;  (* base+13 *)
    mkXc (XName 68) q 0;                                 (* base+14 *)
    mkXc (XDict [(65, (base + 13)%nat); (67, (base + 14)%nat)]) q 5 ].   (* base+15 *)

Definition xset_cells (w : hxworld) (cs : list hxcell) : hxworld :=
  mkXw cs (xw_bufs w) (xw_docs w) (xw_roots w) (xw_held w).
Definition xadd_doc (w : hxworld) (dv : hxdoc) : hxworld :=
  mkXw (xw_cells w) (xw_bufs w) (xw_docs w ++ [dv]) (xw_roots w) (xw_held w).

(* the in-place edit of one container *)
Definition xedit_insert (w : hxworld) (t : nat) (wh : xwhere) (lv : nat) : option hxworld :=
  match wh, xval w t with
  | XwKey k, XDict items =>
    Some (match xval w lv with
          | XNull => if xog w lv =? 0 then xsetval w t (XDict (nmap_del items k)) else xsetval w t (XDict (nmap_set items k lv))
          | _ => xsetval w t (XDict (nmap_set items k lv))
          end)
  | XwApp, XArr els => Some (xsetval w t (XArr (els ++ [lv])))
  | XwIdx n, XArr els => if Nat.ltb n (length els) then Some (xsetval w t (XArr (set_nth els n lv))) else None
  | _, _ => None
  end.
Definition xedit_delete (w : hxworld) (t : nat) (wh : xwhere) : option hxworld :=
  match wh, xval w t with
  | XwKey k, XDict items => Some (xsetval w t (XDict (nmap_del items k)))
  | XwIdx n, XArr els => if Nat.ltb n (length els) then Some (xsetval w t (XArr (remove_nth els n))) else None
  | _, _ => None
  end.

Definition xis_prov (s : hxsrc) : bool := match s with XsProv _ => true | _ => false end.
Definition xis_buf (s : hxsrc) : bool := match s with XsBuf _ => true | _ => false end.

(* what XoCopy may be given: an indirect stream with a pure dictionary that is not fed by a copier's provider, or an
   indirect non-null object whose parts are all direct *)
Definition xpure_below (w : hxworld) (t : nat) : bool :=
  forallb (fun x => Nat.eqb x t || ((xog w x =? 0) && match xval w x with XStream _ _ | XReserved | XDestroyed => false | _ => true end))
          (xclos xfuel w t).
Definition xcopyable (w : hxworld) (t : nat) : bool :=
  match xval w t with
  | XStream dd src => xpure w dd && negb (xis_prov src)
  | XNull | XReserved | XDestroyed => false
  | _ => xpure_below w t
  end.

Definition xstep (a : nat) (w : hxworld) (op : xop) : hxworld * ires :=
  match op with
  | XoNewDoc =>
    if Nat.eqb a (length (xw_docs w)) && negb (Nat.eqb a 0) then
      let base := length (xw_cells w) in
      (xadd_doc (xset_cells w (xw_cells w ++ [mkXc XReserved (Some a) 1; mkXc XReserved (Some a) 2])) (xnew_doc a false base), IrOk)
    else (w, IrSkip)
  | XoOpenDoc imm =>
    if Nat.eqb a (length (xw_docs w)) && negb (Nat.eqb a 0) then
      let base := length (xw_cells w) in
      (xadd_doc (xset_cells w (xw_cells w ++ xfile_cells a base))
                (mkXd [(1, base); (2, S base); (3, (base + 4)%nat); (4, (base + 9)%nat); (5, (base + 15)%nat)] true imm []), IrOk)
    else (w, IrSkip)
  | XoParse r t =>
    if (Nat.eqb a 0 || xalive w a) && xroot_ok a r then
      match t with
      | XtArr _ | XtDict _ =>
        let (w1, l) := xbuild (if Nat.eqb a 0 then None else Some a) t w in (xsetroot w1 r a l, IrOk)
      | _ => (w, IrSkip)
      end
    else (w, IrSkip)
  | XoHold r h =>
    if xroot_ok a r && Nat.ltb a (length (xw_docs w)) then
      match xeval false a w h with Some (w1, l, _) => (xsetroot w1 r a l, IrOk) | None => (w, IrSkip) end
    else (w, IrSkip)
  | XoMakeInd h =>
    if xalive w a then
      match xeval false a w h with
      | Some (w1, l, _) =>
        if (xog w1 l =? 0) && negb (xshared w1 a l) then
          let next := xcount w1 a + 1 in
          let w2 := xsetcache w1 a next l in
          (match xget w2 l with Some c => xset w2 l (mkXc (xc_val c) (Some a) next) | None => w2 end, IrOk)
        else (w, IrSkip)
      | None => (w, IrSkip)
      end
    else (w, IrSkip)
  | XoInsert h wh v =>
    match xeval false a w h with
    | Some (w1, t, _) =>
      match xeval true a w1 v with
      | Some (w2, lv, cross) =>
        if xhas_dict_step v || xshared w2 a t || xmem t (xclos xfuel w2 lv) || (cross && negb (xpure w2 lv))
           || match wh with XwKey k => k =? 76 | _ => false end
        then (w, IrSkip)
        else match xedit_insert w2 t wh lv with
             | Some w3 => if xclash w2 t lv then (w2, IrLogic) else (w3, IrOk)
             | None => (w, IrSkip)
             end
      | None => (w, IrSkip)
      end
    | None => (w, IrSkip)
    end
  | XoDelete h wh =>
    match xeval false a w h with
    | Some (w1, t, _) =>
      if xshared w1 a t || match wh with XwKey k => k =? 76 | _ => false end then (w, IrSkip)
      else match xedit_delete w1 t wh with Some w2 => (w2, IrOk) | None => (w, IrSkip) end
    | None => (w, IrSkip)
    end
  | XoDestroy =>
    match xdoc w a with
    | Some dv =>
      if xd_alive dv then
        let w1 := fold_left (fun wa e => xdestroy_entry wa (snd e)) (xd_cache dv) w in
        (xsetdoc w1 a (mkXd [] false (xd_imm dv) (xd_cmap dv)), IrOk)
      else (w, IrSkip)
    | None => (w, IrSkip)
    end
  | XoObserve => if xalive w a then (w, IrOk) else (w, IrSkip)
  | XoNewStream r bs =>
    if xalive w a && xroot_ok a r then
      let (w1, d) := xalloc w (mkXc (XDict []) (Some a) 0) in
      let (w2, b) := xballoc w1 bs in
      let next := xcount w2 a + 1 in
      let (w3, l) := xalloc w2 (mkXc (XStream d (XsBuf b)) (Some a) next) in
      (xsetroot (xsetcache w3 a next l) r a l, IrOk)
    else (w, IrSkip)
  | XoReplaceData h bs =>
    match xeval false a w h with
    | Some (w1, t, _) =>
      match xval w1 t with
      | XStream d _ =>
        if xshared w1 a t then (w, IrSkip) else
        let (w2, b) := xballoc w1 bs in (xsetval w2 t (XStream d (XsBuf b)), IrOk)
      | _ => (w, IrSkip)
      end
    | None => (w, IrSkip)
    end
  | XoCopy s h r =>
    if xalive w a && xalive w s && negb (Nat.eqb s a) && xroot_ok a r then
      match xeval false s w h with
      | Some (w1, t, _) =>
        if (xog w1 t =? 0) || negb (match xqp w1 t with Some q => Nat.eqb q s | None => false end) then (w, IrSkip) else
        match xdoc w1 a with
        | None => (w, IrSkip)
        | Some dva =>
          (* the copier only sees values without indirect parts here (alphabet), and no stream that is itself fed by a
             copier's provider (known finding C20:copied-provider-stream-needs-source) *)
          if negb (xcopyable w1 t) then (w, IrSkip) else
          match xcmap_get (xd_cmap dva) s (xog w1 t) with
          | Some l => (xsetroot w1 r a l, IrOk)                (* already copied: the same local object again *)
          | None =>
            match xval w1 t with
            | XStream dd src =>
              (* copy_data_to: an immediate-copy source first pulls its own data into a Buffer *)
              let '(w2, src2) := if xd_imm (match xdoc w1 s with Some dvs => dvs | None => xdoc0 end) && negb (xis_buf src)
                                 then let (w2, b) := xballoc w1 (xdata w1 src) in (xsetval w2 t (XStream dd (XsBuf b)), XsBuf b)
                                 else (w1, src) in
              (* the new stream's dictionary belongs to a (setDictDescription); the copied items have no owner *)
              let (w3, dc) := xclone xfuel (Some a) 0 w2 dd in
              let next := xcount w3 a + 1 in
              let (w5, l) := xalloc w3 (mkXc (XStream dc (match src2 with XsBuf b => XsBuf b | XsFile bs => XsProv bs | XsProv bs => XsProv bs end))
                                             (Some a) next) in
              (xsetroot (xsetcmap (xsetcache w5 a next l) a s (xog w1 t) l) r a l, IrOk)
            | _ =>
              let next := xcount w1 a + 1 in
              let (w3, l) := xclone xfuel (Some a) next w1 t in
              (xsetroot (xsetcmap (xsetcache w3 a next l) a s (xog w1 t) l) r a l, IrOk)
            end
          end
        end
      | None => (w, IrSkip)
      end
    else (w, IrSkip)
  | XoGetData h br =>
    match xeval false a w h with
    | Some (w1, t, _) =>
      match xval w1 t with
      | XStream _ src =>
        (* std::make_shared<Buffer>(copy of the data): a NEW Buffer *)
        let (w2, b) := xballoc w1 (xdata w1 src) in (xsetheld w2 br (mkXh false b false), IrOk)
      | _ => (w, IrSkip)
      end
    | None => (w, IrSkip)
    end
  | XoMutate br pos byte =>
    if negb (Nat.eqb a 0) then (w, IrSkip) else
    match imap_get (xw_held w) br with
    | Some h =>
      if xh_given h then (w, IrSkip) else
      if xh_opaque h then (w, IrOk) else
      let bs := nth (xh_buf h) (xw_bufs w) [] in
      if Nat.ltb pos (length bs) then (xbset w (xh_buf h) (set_nth bs pos byte), IrOk) else (w, IrSkip)
    | None => (w, IrSkip)
    end
  | XoGive h br =>
    match xeval false a w h with
    | Some (w1, t, _) =>
      match xval w1 t, imap_get (xw_held w1) br with
      | XStream d _, Some hb =>
        if xshared w1 a t || xh_given hb || xh_opaque hb then (w, IrSkip) else
        (xsetheld (xsetval w1 t (XStream d (XsBuf (xh_buf hb)))) br (mkXh true (xh_buf hb) false), IrOk)
      | _, _ => (w, IrSkip)
      end
    | None => (w, IrSkip)
    end
  | XoWriteBuf br =>
    if xalive w a then let (w1, b) := xballoc w [] in (xsetheld w1 br (mkXh false b true), IrOk) else (w, IrSkip)
  end.

(* ---------------------------------------------------------------- the dump line (harness/drv_isolation.cc XWorld::dump) *)
Definition xdump_doc (w : hxworld) (d : nat) : list N :=
  match xdoc w d with
  | Some dv =>
    (if xd_alive dv then
       [100] ++ dec_of_N (N.of_nat d) ++ [123] ++
       flat_map (fun p => dec_of_N (fst p) ++ [61] ++ snd p ++ [59]) (xobs_objects w d) ++ [125; 32]
     else [])
  | None => []
  end.
Definition xdump_roots (w : hxworld) : list N :=
  flat_map (fun e => [114] ++ dec_of_N (N.of_nat (fst e)) ++ [64] ++ dec_of_N (N.of_nat (fst (snd e))) ++ [61] ++
                     show (xunparse_h w (snd (snd e))) ++ [126] ++ xshow w (snd (snd e)) ++ [32]) (xw_roots w).
Definition xdump_held (w : hxworld) : list N :=
  flat_map (fun e => [98] ++ dec_of_N (N.of_nat (fst e)) ++ [61] ++
                     (match xobs_held w (fst e) with Some s => s | None => [] end) ++ [32]) (xw_held w).
Definition xdump (w : hxworld) : list N :=
  flat_map (xdump_doc w) (seq 0 (length (xw_docs w))) ++ xdump_roots w ++ xdump_held w.

Definition xrun_hist (w : hxworld) (h : list (nat * xop)) : list (ires * (list N * bool)) * hxworld :=
  fold_left (fun acc aop => let (w1, r) := xstep (fst aop) (snd acc) (snd aop) in
                            ((r, (xdump w1, xsep_b w1)) :: fst acc, w1)) h ([], w).

(* result: initial dump, then per step (result, dump, does the world satisfy the separation premise) *)
Definition hx_run (h : list (nat * xop)) : list N * list (ires * (list N * bool)) :=
  (xdump xworld0, rev' (fst (xrun_hist xworld0 h))).
