(* C06 extension, MODEL side (no proofs): how the reader model of DecReader.v (written from QPDF_encryption.cc) is put
   next to the ISO rule of DqIso.v for an ARBITRARY encryption dictionary.
   - dq_view: the entries of the dictionary that 7.6.6 reads, taken from the same c06_rdict that
     c06_initialize (EncryptionParameters::initialize) reads (a projection: no decision is taken here);
   - dq_in_finding_class: the inputs of the recorded findings C06-F1 (a /Crypt filter in a spelling that
     QPDF::decryptStream does not honour), C06-F2 (the crypt filter that governs the leaf spells out /CFM /None) and
     C06-F10 (/Contents of a signature dictionary without /Type), as an executable predicate on (dictionary, leaf);
   - dq_enc_data: the `Encryption data(V, R, Length / 8, P, O, U, OE, UE, Perms, id1, encrypt_metadata)` object that
     initialize() builds once the dictionary has passed its validation (None = one of the error exits before the
     password is looked at). *)
From QV Require Import Base.Bytes Crypto.Nib Filters.Filters Crypto.MD5 Crypto.SHA2Fast Crypto.AES Crypto.AesPdf
  Crypto.KeyDeriv Crypto.IsoRef Crypto.IsoEnc Crypto.DecReader Crypto.DqIso.
Local Open Scope N_scope.

Definition dq_view_cf (x : list N * c06_cfentry) : list N * dq_cfval :=
  (fst x, match snd x with C6CfNotDict => DqCfOther | C6CfDict cfm => DqCfDict cfm end).

Definition dq_view (d : c06_rdict) : dq_edict :=
  {| dq_V := match c6r_V d with Some v => Z.to_N v | None => 0 end;
     dq_encmeta := c6r_encmeta d;
     dq_CF := map dq_view_cf (c6r_CF d);
     dq_StmF := c6r_StmF d; dq_StrF := c6r_StrF d; dq_EFF := c6r_EFF d |}.

(* C06-F2: the crypt filter of that name is a dictionary of /CF whose /CFM is the name None, written out *)
Definition dq_explicit_none (e : dq_edict) (name : list N) : bool :=
  match dq_cf_get (dq_CF e) name with
  | Some (DqCfDict (Some n)) => bytes_eqb n dq_nm_None
  | _ => false
  end.

(* the two spellings of a /Crypt filter's parameters that QPDF::decryptStream looks at:
   (a) /DecodeParms is ONE dictionary with /Type /CryptFilterDecodeParms (then /Name, or Identity when there is none),
       for /Filter /Crypt or /Filter [/Crypt];
   (b) /Filter and /DecodeParms are arrays of the same length and the entry that belongs to /Crypt has a /Name.
   Every other spelling that Table 14 allows (no /DecodeParms, null, no /Type with one dictionary, no /Name in an array
   entry) is finding C06-F1. Only consulted for a stream that HAS a Crypt filter. *)
Definition dq_honoured (s : c06_sdict) : bool :=
  match c6d_dparms s with
  | C6DpOne (C6PmDict true _) =>
      match c6d_filter s with C6FlName _ => true | C6FlArray [_] => true | _ => false end
  | C6DpOne _ => false
  | C6DpArray ps =>
      match c6d_filter s with
      | C6FlArray l =>
          Nat.eqb (length l) (length ps) &&
          match c06_index_of l 0 with
          | Some i => match nth i ps C6PmNull with C6PmDict _ (Some _) => true | _ => false end
          | None => false
          end
      | _ => false
      end
  end.

Definition dq_in_finding_class (e : dq_edict) (k : c06_kind) : bool :=
  match k with
  | C6String (C6InSigContents false) => true                                                       (* C06-F10 *)
  | C6String C6InObject => (4 <=? dq_V e) && dq_explicit_none e (dq_or_identity (dq_StrF e))       (* C06-F2 *)
  | C6String _ => false
  | C6Stream s =>
      negb (c6d_xref s) && (4 <=? dq_V e) &&
      match c06_crypt_parm s with
      | Some p => negb (dq_honoured s) || dq_explicit_none e (c06_crypt_name p)                    (* C06-F1, C06-F2 *)
      | None => negb (c6d_rootmeta s && negb (dq_encrypt_metadata e))
                && dq_explicit_none e (dq_or_identity (dq_StmF e))                                 (* C06-F2 *)
      end
  end.

(* the validation of initialize() up to the point where the password is looked at, and the Encryption object *)
Definition dq_enc_data (d : c06_rdict) (id : option (list N)) : option enc_data :=
  if negb (match c6r_filter d with Some n => bytes_eqb n c06_name_standard | None => false end) then None else
  match c6r_V d, c6r_R d, c6r_O d, c6r_U d, c6r_P d with
  | Some V, Some R, Some Ov, Some Uv, Some P =>
      if negb (Z.leb 2 R && Z.leb R 6 && (Z.eqb V 1 || Z.eqb V 2 || Z.eqb V 4 || Z.eqb V 5)) then None else
      let params : option (list N * list N * list N * list N * list N) :=
        if Z.ltb V 5 then
          let O' := kd_pad_short Ov kd_key_bytes in
          let U' := kd_pad_short Uv kd_key_bytes in
          if Nat.eqb (length O') kd_key_bytes && Nat.eqb (length U') kd_key_bytes
          then Some (O', U', [], [], []) else None
        else
          match c6r_OE d, c6r_UE d, c6r_Perms d with
          | Some OE, Some UE, Some Perms =>
              Some (kd_pad_short Ov 48, kd_pad_short Uv 48, kd_pad_short OE 32, kd_pad_short UE 32, kd_pad_short Perms 16)
          | _, _, _ => None
          end in
      match params with
      | None => None
      | Some (O', U', OE', UE', Perms') =>
          Some {| ed_V := Z.to_N V; ed_R := Z.to_N R; ed_len := Z.to_N (Z.quot (c06_length_bits V (c6r_Length d)) 8);
                  ed_P := c06_to_u32 P; ed_O := O'; ed_U := U'; ed_OE := OE'; ed_UE := UE'; ed_Perms := Perms';
                  ed_id1 := match id with Some i => i | None => [] end;
                  ed_encmeta := if Z.leb 4 V then match c6r_encmeta d with Some b => b | None => true end else true |}
      end
  | _, _, _, _, _ => None
  end.

(* both checks of initialize() on that object: (owner check accepts, user check accepts) *)
Definition dq_checks (ed : enc_data) (pw : list N) : bool * bool :=
  if ed_V ed <? 5 then
    (match kd_check_owner_V4 ed pw with Some _ => true | None => false end, kd_check_user_V4 ed pw)
  else (kd_check_owner_V5 ed pw, kd_check_user_V5 ed pw).

(* one generated case of the correspondence, for the extracted runner: the ISO method, the class, the reader's method *)
Definition dq_case_iso (d : c06_rdict) (k : c06_kind) : option c06_cfm := dq_iso_leaf_method (dq_view d) k.
Definition dq_case_class (d : c06_rdict) (k : c06_kind) : bool := dq_in_finding_class (dq_view d) k.
Definition dq_case_file (d : c06_rdict) : option c06_cfm := dq_iso_file_method (dq_view d).
