# C06 - encrypted input is decrypted faithfully and passwords are judged correctly.
# Proof: Props/Properties_C06.v (Crypto/IsoEnc.v = reference encryptor written from ISO 32000-2 7.6, Crypto/DecReader.v = model of
# qpdf's reader-side decisions, Crypto/C06Proofs*.v). Ties:
#   static : exit-code table and permission answers of the model vs the manual / Table 22 (extracted specification)
#   files  : generated plaintext documents (harness/c06_gen.py) are encrypted by the EXTRACTED reference encryptor for every
#            (V,R), crypt filter arrangement, /Crypt override form, layout ... and given to
#              * the real library in-process (harness/drv_c06.cc): flags, key, methods, permissions, every string and stream,
#                compared leaf by leaf with the plaintext (specification) and with the extracted model (tie);
#              * the real qpdf binary: --decrypt, default preservation, --json-output, --copy-encryption (outputs read by the
#                strict reader / an independent decryptor and compared with the plaintext document by graph isomorphism),
#                --show-encryption, --is-encrypted, --requires-password with {user, owner, wrong, empty, hex key} x
#                {--password-mode=hex-bytes, recovery on/off}: exit status, no output file after a password error.
import base64, hashlib, json, os, random, re, zlib
import common, pdfgen, dociso, filecheck
import c05_pdfread as rd
import c06_gen as gen
from common import hexs
from pdfgen import Str, Name, Ref, Stream

ASSUMPTIONS = [
    "'any other password fails' is pre-image / collision resistance of MD5 and SHA-2: tested with wrong passwords, not proved; the proved half is "
    "password_error_before_open (both checks false => password error before any output sink is opened)",
    "matched-password flags are proved under the explicit hypothesis that the user password does not also pass the owner check by collision",
    "Flate, libjpeg and the crypto providers other than the native one are external; the strict reader inflates with the extracted Inflate.v, the harness with zlib",
    "QUtil::possible_repaired_encodings (the re-encodings the documented password recovery tries) is taken from the real library and given to the model as an input list",
    "Algorithm 2.B (R6) costs about 25 s per hash in the extracted code: the quick tier uses a fixed set of R6 secrets whose extracted results are memoised in "
    "harness/c06_r6cache.json (keyed by the hash of the Coq sources that produce them); the thorough tier recomputes them",
    "the Python code of harness/c06_gen.py serialises dictionaries and abstracts them into the tokens the extracted code reads (trusted, small)",
]

MODEL_SOURCES = ["Crypto/IsoEnc.v", "Crypto/DecReader.v", "Crypto/KeyDeriv.v", "Crypto/IsoRef.v", "Crypto/AES.v", "Crypto/AesPdf.v", "Crypto/Nib.v",
                 "Crypto/SHA2Fast.v", "Crypto/SHA2.v", "Crypto/MD5.v", "Filters/Filters.v"]
CACHE_FILE = os.path.join(common.VERIF, "harness", "c06_r6cache.json")


def source_hash():
    h = hashlib.sha256()
    for f in MODEL_SOURCES + ["../ocaml/h_c06.ml", "../ocaml/runner.ml"]:
        with open(os.path.join(common.COQ, f), "rb") as fh:
            h.update(fh.read())
    return h.hexdigest()


class Runner:
    """extracted code behind a memo for the heavy (R6) lines; every other line is computed now"""

    def __init__(self, exe, use_cache):
        self.exe = exe
        self.src = source_hash()
        self.cache = {}
        self.local = os.path.join(common.BUILD, "c06_cache.json")
        self.hits = self.fresh = 0
        if use_cache:
            for p in (CACHE_FILE, self.local):
                try:
                    j = json.load(open(p))
                    if j.get("src") == self.src:
                        self.cache.update(j["lines"])
                except Exception:
                    pass
        self.new = {}

    def __call__(self, lines, heavy=False, shards=4):
        if not heavy:
            return common.run_lines(self.exe, lines, shards=shards)
        todo = sorted(set(l for l in lines if l not in self.cache))
        if todo:
            import subprocess
            # heavy lines one per process, four at a time
            def one(l):
                return common.run_lines(self.exe, [l])[0]
            outs = common.par_map(one, todo, workers=4)
            for l, o in zip(todo, outs):
                if not o.startswith("?"):
                    self.cache[l] = o
                    self.new[l] = o
                else:
                    self.cache[l] = o
            self.fresh += len(todo)
        self.hits += len(lines) - len(todo)
        return [self.cache[l] for l in lines]

    def save(self):
        if self.new:
            try:
                j = {"src": self.src, "lines": {}}
                try:
                    old = json.load(open(self.local))
                    if old.get("src") == self.src:
                        j["lines"].update(old["lines"])
                except Exception:
                    pass
                j["lines"].update(self.new)
                with open(self.local, "w") as f:
                    json.dump(j, f)
            except Exception:
                pass


def run_qpdf(args, timeout=60):
    """the real binary with a wall-clock limit and a 4 GiB address-space cap; returns (exit status, stdout, stderr)"""
    import resource, subprocess

    def cap():
        resource.setrlimit(resource.RLIMIT_AS, (4 << 30, 4 << 30))
        resource.setrlimit(resource.RLIMIT_CPU, (timeout, timeout + 5))
    e = dict(os.environ)
    e.pop("QPDF_CRYPTO_PROVIDER", None)
    try:
        p = subprocess.run([common.QPDF] + list(args), stdout=subprocess.PIPE, stderr=subprocess.PIPE, timeout=timeout, env=e, preexec_fn=cap)
        return p.returncode, p.stdout, p.stderr
    except subprocess.TimeoutExpired:
        return -999, b"", b"timeout"


def S32(p):
    p &= 0xFFFFFFFF
    return p - (1 << 32) if p >= (1 << 31) else p


# ---------------------------------------------------------------- part static: finite tables
def part_static(chk, run):
    lines, exp = [], []
    for act in "wepsx"[:4]:
        for inp in ("none", "ok:0", "ok:1", "err:password", "err:unsupported", "err:damaged"):
            for mw in "01":
                lines.append("c6job %s %s %s" % (act, inp, mw))
    out = run(lines)
    spec_lines = []
    for l, o in zip(lines, out):
        _, act, inp, mw = l.split()
        if act in "ep" and inp in ("none", "ok:0", "ok:1", "err:password"):
            spec_lines.append(("c6exit %s %d %d" % (act, 0 if inp == "none" else 1, 1 if inp.startswith("ok") else 0), l, o))
    spec = run([s[0] for s in spec_lines])
    for (sl, l, o), sp in zip(spec_lines, spec):
        if o.split()[1] != sp:
            chk.violation({"kind": "model-differs-from-manual", "part": "static", "case": l, "model": o, "manual": sp}, no_input=True)
        if "out" in o.split()[0] or "write" in o.split()[0]:
            chk.violation({"kind": "model-opens-output-for-a-query", "part": "static", "case": l, "model": o}, no_input=True)
    for l, o in zip(lines, out):
        if "err:" in l and l.split()[1] == "w" and ("out" in o.split()[0].split(",") or o.split()[1] != "2"):
            chk.violation({"kind": "model-writes-after-error", "part": "static", "case": l, "model": o}, no_input=True)
    chk.count("static-exit-table", len(lines), set(lines), samples=[{"case": lines[7], "model": out[7]}])
    # permission answers: model (QPDF::allow*) vs Table 22 / manual, all R, structured and random P
    rng = chk.rng
    pl = []
    for R in (2, 3, 4, 5, 6):
        for bits in range(256):
            P = 0xFFFFF0C0
            for k, b in enumerate((3, 4, 5, 6, 9, 10, 11, 12)):
                if not (bits >> k) & 1:
                    P &= ~(1 << (b - 1))
            pl.append((R, P & 0xFFFFFFFF))
        for _ in range(40):
            pl.append((R, rng.randrange(1 << 32)))
    m = run(["c6permsm %d %d" % (R, S32(P)) for R, P in pl])
    s = run(["c6perms %d %d" % (R, P) for R, P in pl])
    bad = [(c, a, b) for c, a, b in zip(pl, m, s) if a[:8] != b]
    if bad:
        chk.violation({"kind": "model-differs-from-specification", "part": "static-perms", "differing": len(bad), "first": bad[0]}, no_input=True)
    chk.count("static-perms", len(pl), set(pl), samples=[{"case": "R=%d P=%d" % pl[300], "model": m[300], "table22": s[300]}])
    chk.cov["parts"]["static-perms"]["exhaustive_over_the_8_bits"] = True
    return dict(zip(pl, s))


# ---------------------------------------------------------------- plans
R6_FIXED = dict(user="7573657236".encode().decode(), owner="6f776e65722d36", rnd=bytes(range(68)).hex(), id0=bytes(range(16)).hex(), P=0xFFFFF0C4,
                P_positive=False, em=True, stm="3", str="3", stm_name=b"StdCF".hex(), str_name=b"StdCF".hex(), identity_style="explicit", extra_cf=[],
                cf_length_style="bytes", ou_extra=0, enc_indirect=True, length_style="std", meta_style="plain")


def quick_plans(rng, thorough):
    plans = []

    def add(scheme, **kw):
        p = gen.make_plan(rng, scheme, **kw)
        p["idx"] = len(plans)
        plans.append(p)
        return p
    reps = 4 if thorough else 1
    for _ in range(reps):
        for lay in ("classic", "objstm"):
            add("V1R2", layout=lay)
            add("V2R3", layout=lay, keylen=16)
            add("V5R5", layout=lay)
        # V4: every pair of /StmF x /StrF methods
        for sm in "120":
            for tm in "120":
                add("V4R4", stm=sm, str=tm, layout=rng.choice(["classic", "objstm"]))
        for sm in "30":
            for tm in "30":
                add("V5R5", stm=sm, str=tm, layout=rng.choice(["classic", "objstm"]))
        # per-stream /Crypt overrides in the explicit forms, with cleartext metadata in both styles
        for sch in ("V4R4", "V5R5"):
            for ms in ("plain", "crypt-identity"):
                add(sch, em=False, meta_style=ms, n_overrides=3, extra_cf=[[b"Extra".hex(), "1" if sch == "V4R4" else "3"], [b"ExtraN".hex(), "0"]])
        # forms that rely on the defaults of Table 14 (/Type optional, /Name default Identity)
        for k, form in enumerate(gen.FORMS_DEFAULTED):
            sch = ("V4R4", "V5R5")[k % 2]
            add(sch, n_overrides=0, force_overrides=[[0, form, gen.IDENTITY.hex()], [5, form, gen.IDENTITY.hex()]], stm="2" if sch == "V4R4" else "3")
        # key lengths of V2 (40..128 bits) and the /Length spellings
        for kl in (5, 7, 13):
            add("V2R3", keylen=kl, layout="classic")
        add("V2R3", keylen=5, length_style="absent")       # ISO: /Length defaults to 40
        add("V1R2", length_style="v1-40")
        add("V4R4", length_style="absent")                # ISO: /Length is meaningful for V 2 and 3 only
        add("V5R5", length_style="absent")
        # passwords: same user and owner, long, padding bytes inside, empty owner
        add("V2R3", keylen=16, user=b"same-pw".hex(), owner=b"same-pw".hex())
        add("V4R4", user=(b"L" * 40).hex(), owner=(b"L" * 40).hex())
        add("V5R5", user=b"same5".hex(), owner=b"same5".hex())
        add("V2R3", keylen=16, user=b"u-only".hex(), owner="")
        add("V5R5", ou_extra=79)
        add("V4R4", user="p\xe4ss".encode("latin-1").hex(), owner="\xf6wner".encode("latin-1").hex(), tag="latin1")
        add("V5R5", user="p\xe4ss".encode("utf-8").hex(), owner="\xf6wner".encode("utf-8").hex(), tag="utf8")
        # a crypt filter whose method is None: /CFM left out (Table 25: default None) or written out as /CFM /None
        add("V4R4", stm="0", str="1", identity_style="none-cfm", none_style="default", n_overrides=1, extra_cf=[[b"ExtraN".hex(), "0"]])
        add("V4R4", stm="0", str="1", identity_style="none-cfm", none_style="explicit", n_overrides=0, extra_cf=[])
        add("V5R5", stm="3", str="0", identity_style="none-cfm", none_style="explicit", n_overrides=0, extra_cf=[])
        # per-stream /Crypt overrides naming /Identity and a named non-default filter, on streams a writer copies unfiltered
        # (/Filter /Crypt alone with --stream-data=preserve ..., [/Crypt /DCTDecode] always): the writer side of preservation
        ident = gen.IDENTITY.hex()
        for sch, sm, xm in (("V4R4", "1", "2"), ("V4R4", "2", "1"), ("V5R5", "3", "3")):
            add(sch, stm=sm, str=sm, layout="classic", n_overrides=0, em=True, crypt_family=True, extra_cf=[[b"Other".hex(), xm]],
                force_named=[["dct0", "arr", ident], ["dct1", "arr", b"Other".hex()], ["plain0", "dict", ident], ["plain1", "dict", b"Other".hex()],
                             ["plain2", "arr", ident]])
        # extension (method selection for every dictionary): /EFF naming another filter than /StmF (readers decrypt attachments and
        # every other stream per /StmF; --show-encryption's file method follows /EFF), /CF entries that are not dictionaries or have an
        # unknown /CFM and that nothing refers to, /StmF absent with /EFF present, a one-element /Filter array with ONE /DecodeParms
        # dictionary, and crypt filter entries in a V < 4 dictionary (meaningless there: everything is RC4)
        sc, tc = b"StmCF".hex(), b"StrCF".hex()
        add("V4R4", stm="2", str="1", stm_name=sc, str_name=tc, eff=tc, junk_cf=True, n_overrides=0, layout="classic",
            force_named=[["plain0", "arr1-dict", tc], ["plain1", "arr1-dict", ident]])
        add("V5R5", stm="3", str="0", stm_name=sc, str_name=tc, identity_style="absent", eff=ident, junk_cf=True, n_overrides=0,
            force_named=[["plain0", "arr1-dict", ident], ["plain1", "arr1-dict", sc]])
        add("V4R4", stm="0", str="2", stm_name=sc, str_name=tc, identity_style="absent", eff=tc, junk_cf=True, n_overrides=1)
        add("V2R3", keylen=16, lt4_junk=True)
        add("V1R2", lt4_junk=True, layout="classic")
        # signature dictionaries: /Contents is never encrypted; with and without the optional /Type /Sig
        add("V4R4", stm="2", str="2", sig="typed", layout="classic")
        add("V5R5", stm="3", str="3", sig="typed", layout="classic")
        add("V2R3", keylen=16, sig="typed", layout="classic")
        add("V4R4", stm="2", str="2", sig="untyped", layout="classic")
        add("V1R2", sig="untyped", layout="classic")
        # Algorithm 1's object-number and generation bytes: leaves in objects with sparse high numbers (255 .. 16777215) and with
        # non-zero generations (1, 255, 256, 258), RC4 and AESV2, classic table with subsections and xref stream with /Index
        add("V1R2", spread="both", layout="classic")
        add("V2R3", keylen=16, spread="both", layout="objstm")
        add("V4R4", stm="1", str="1", spread="both", layout="objstm", n_overrides=0)
        add("V4R4", stm="2", str="2", spread="both", layout="classic", n_overrides=0)
        add("V5R5", stm="3", str="3", spread="nums", layout="classic", n_overrides=0)
    # R6: fixed secrets (memoised extracted results in the quick tier)
    for k, lay in enumerate(("classic", "objstm") if not thorough else ("classic", "objstm", "classic")):
        over = dict(R6_FIXED)
        over["layout"] = lay
        over["n_overrides"] = 2 if k else 0
        over["override_forms"] = "explicit"
        if k == 2:
            over.update(user="", owner=b"another owner".hex(), rnd=bytes(range(100, 168)).hex(), stm="3", str="0")
        add("V5R6", **over)
    if thorough:
        add("V4R4", stm="2", str="1", spread="nums", spread_big=True, layout="classic", n_overrides=0)       # object numbers 16777215 and 8388607
        for _ in range(30):
            add(rng.choice(["V1R2", "V2R3", "V4R4", "V4R4", "V5R5", "V5R5"]), override_forms=rng.choice(["explicit", "explicit", "mixed"]))
    return plans


# ---------------------------------------------------------------- password equivalence per ISO (no collisions assumed)
PAD = bytes([40, 191, 78, 94, 78, 117, 138, 65, 100, 0, 78, 86, 255, 250, 1, 8, 46, 46, 0, 182, 208, 104, 62, 128, 47, 12, 169, 254, 100, 83, 105, 122])


def canon(V, pw):
    return (pw + PAD)[:32] if V < 5 else pw[:127]


def expected_flags(ef, pw):
    """(user-valid, owner-valid) by Algorithms 6/7 resp. 11/12 assuming no hash collisions"""
    V = ef.V
    eff_owner = ef.owner if (ef.owner or V >= 5) else ef.user
    return canon(V, pw) == canon(V, ef.user), canon(V, pw) == canon(V, eff_owner)


def roles_of(ef, rng):
    V = ef.V
    eff_owner = ef.owner if (ef.owner or V >= 5) else ef.user
    wrongs = [b"wrong", ef.user + b"x", (ef.user[:-1] + bytes([ef.user[-1] ^ 1])) if ef.user else b"\x01", eff_owner[1:] + b"q", ef.user.swapcase() + b"!"]
    roles = [("user", ef.user), ("owner", eff_owner), ("wrong", wrongs[rng.randrange(len(wrongs))]), ("empty", b""), ("hexkey", ef.key)]
    return roles


# ---------------------------------------------------------------- reading driver output
def parse_drv(o):
    if not o.startswith("ok "):
        f = o.split(" ", 3)
        return {"ok": False, "code": f[1] if len(f) > 1 else "?", "msg": f[2] if len(f) > 2 else "", "raw": o[:300]}
    res = {"ok": True}
    body, _, leaves = o[3:].partition(" leaves=")
    for tok in body.split():
        k, _, v = tok.partition("=")
        res[k] = v
    lv = {}
    if leaves and leaves != "-":
        for item in leaves.split(";"):
            if not item:
                continue
            k, _, v = item.partition("=")
            lv[k] = v
    res["leaves"] = lv
    return res


def leaf_key(l):
    if l["path"] == ("stream",):
        return "%d.%d:t:-" % (l["num"], l.get("gen", 0))
    pre = "trailer" if l["num"] == 0 else "%d.%d" % (l["num"], l.get("gen", 0))
    return "%s:s:%s" % (pre, ".".join(l["path"]) if l["path"] else "-")


def leaf_class(ef, l):
    """input class of a leaf for known-finding signatures"""
    if l["path"] == ("stream",) and l["num"] in ef.override:
        return "crypt-" + ef.override[l["num"]][0]
    if l["path"] == ("stream",):
        return "stream-rootmeta" if l["num"] == ef.rootmeta else "stream"
    return {"s:o": "string", "s:m": "string-in-objstm", "s:t": "string-in-trailer", "s:g1": "sig-contents", "s:g0": "sig-contents-untyped"}[l["kind"]]


# ---------------------------------------------------------------- independent reading of an encrypted output of qpdf
METHOD_OF_CFM = {b"V2": "1", b"AESV2": "2", b"AESV3": "3", b"None": "0"}


class EncOut:
    """an encrypted file written by qpdf, read by the sequential scanner; decrypted by the EXTRACTED reference reader
    (IsoEnc.c06_iso_decrypt_leaf: the ISO rule picks the method from the file's own /CF /StmF /StrF and from the /Crypt filter a
    stream dictionary still carries, then Algorithm 1 / 1.A) with the KNOWN file key"""

    def __init__(self, path, key_hex):
        import c05
        self.path, self.key = path, key_hex
        data = open(path, "rb").read()
        self.info = info = c05.enc_info(data)
        eref = None
        for t in info["trailers"]:
            if b"Encrypt" in t:
                eref = t[b"Encrypt"]
        e = info["objs"][(eref.n, eref.g)][0] if isinstance(eref, Ref) else eref
        cf = {}
        if isinstance(e.get(b"CF"), dict):
            for k, v in e[b"CF"].items():
                m = v.get(b"CFM") if isinstance(v, dict) else None
                if not isinstance(v, dict) or (isinstance(m, Name) and m.b not in METHOD_OF_CFM):
                    continue        # not a crypt filter the standard defines (copied from an input that had such an unreferenced entry)
                cf[k] = METHOD_OF_CFM.get(m.b if isinstance(m, Name) else b"None", "?")
        stmf = e[b"StmF"].b if isinstance(e.get(b"StmF"), Name) else gen.IDENTITY
        strf = e[b"StrF"].b if isinstance(e.get(b"StrF"), Name) else gen.IDENTITY
        kl = 32 if info["V"] >= 5 else (5 if info["V"] == 1 else info["Length"] // 8)
        self.cfg = [str(info["V"]), str(info["R"]), str(kl), str(info["P"]), "1" if info["encmeta"] else "0", hexs(info["id1"]),
                    ",".join("%s:%s" % (hexs(k), m) for k, m in sorted(cf.items())) or "-", hexs(stmf), hexs(strf)]
        self.problems = []
        self.members = {}          # objects found inside object streams
        self.dec = {}

    def line(self, kind, og, data):
        return "c6isodec " + " ".join(self.cfg + [self.key, kind, str(og[0]), str(og[1]), hexs(data)])

    def container_lines(self):
        out = []
        for og in self.info["order"]:
            o, off = self.info["objs"][og]
            if isinstance(o, Stream) and o.d.get(b"Type") == Name(b"ObjStm"):
                out.append((og, self.line(gen.sdict_token(o.d, False), og, o.data)))
        return out

    def take_containers(self, results):
        for (og, _), r in zip(self.container_lines(), results):
            o = self.info["objs"][og][0]
            if not r.startswith("ok"):
                self.problems.append("object stream %r does not decrypt" % (og,))
                continue
            f = r.split()
            pt = bytes.fromhex(f[2]) if len(f) > 2 and f[2] != "-" else b""
            try:
                inner = rd.parse_objstm(o.d, rd.unfilter(o.d, pt))
            except Exception as e:
                self.problems.append("object stream does not inflate/parse after decryption: %r" % e)
                continue
            for num, io in inner.items():
                self.members[(num, 0)] = io
        root = self.info["root"]
        cat = None
        if isinstance(root, Ref):
            cat = self.info["objs"].get((root.n, root.g), (None, 0))[0]
            if cat is None:
                cat = self.members.get((root.n, root.g))
        self.rootmeta = None
        if isinstance(cat, dict) and isinstance(cat.get(b"Metadata"), Ref):
            mog = (cat[b"Metadata"].n, cat[b"Metadata"].g)
            mo = self.info["objs"].get(mog, (None, 0))[0]
            if isinstance(mo, Stream) and mo.d.get(b"Type") == Name(b"Metadata") and mo.d.get(b"Subtype") == Name(b"XML"):
                self.rootmeta = mog

    def leaf_lines(self):
        out = []
        for og in self.info["order"]:
            o, off = self.info["objs"][og]
            if og == self.info["enc_og"]:
                continue
            if isinstance(o, Stream) and o.d.get(b"Type") in (Name(b"XRef"), Name(b"ObjStm")):
                continue
            for path_, st in self.walk(o, ()):
                kind, sv = st
                out.append(((og, path_, "s"), self.line(kind, og, sv.b)))
            if isinstance(o, Stream):
                out.append(((og, (), "t"), self.line(gen.sdict_token(o.d, og == self.rootmeta), og, o.data)))
        return out

    def walk(self, o, path_, parent=None):
        """strings with the place that decides their treatment (signature /Contents: 7.6.2)"""
        if isinstance(o, Str):
            if isinstance(parent, dict) and path_ and path_[-1] == b"Contents" and b"ByteRange" in parent:
                yield path_, ("s:g1" if parent.get(b"Type") == Name(b"Sig") else "s:g0", o)
            else:
                yield path_, ("s:o", o)
        elif isinstance(o, list):
            for k, x in enumerate(o):
                yield from self.walk(x, path_ + (k,), o)
        elif isinstance(o, dict):
            for k, x in o.items():
                yield from self.walk(x, path_ + (k,), o)
        elif isinstance(o, Stream):
            yield from self.walk(o.d, path_, None)

    def take_leaves(self, results):
        for (key, _), r in zip(self.leaf_lines(), results):
            if r.startswith("ok"):
                f = r.split()
                self.dec[key] = bytes.fromhex(f[2]) if len(f) > 2 and f[2] != "-" else b""
            else:
                self.dec[key] = None

    def document(self):
        """(objs {(n,g): obj}, trailer)"""
        def rebuild(o, og, path_):
            if isinstance(o, Str):
                v = self.dec.get((og, path_, "s"))
                if v is None:
                    self.problems.append("string %r %r does not decrypt (malformed AES data)" % (og, path_))
                    return o
                return Str(v)
            if isinstance(o, list):
                return [rebuild(x, og, path_ + (k,)) for k, x in enumerate(o)]
            if isinstance(o, dict):
                return {k: rebuild(v, og, path_ + (k,)) for k, v in o.items()}
            return o
        objs = {}
        for og in self.info["order"]:
            o, off = self.info["objs"][og]
            if og == self.info["enc_og"]:
                continue
            if isinstance(o, Stream):
                if o.d.get(b"Type") in (Name(b"XRef"), Name(b"ObjStm")):
                    continue
                pt = self.dec.get((og, (), "t"))
                if pt is None:
                    self.problems.append("stream %r does not decrypt" % (og,))
                objs[og] = Stream(rebuild(o.d, og, ()), pt if pt is not None else o.data)
            else:
                objs[og] = rebuild(o, og, ())
        objs.update(self.members)
        tr = None
        for t in self.info["trailers"]:
            if b"Root" in t:
                tr = t
        strip_crypt(objs)
        return objs, tr


def read_encrypted_outputs(items, run):
    """items: [(path, key_hex)] -> [EncOut or Exception]; two batches of extracted-code lines for all files together"""
    outs = []
    for path, key in items:
        try:
            outs.append(EncOut(path, key))
        except Exception as e:
            outs.append(e)
    good = [o for o in outs if isinstance(o, EncOut)]
    cl = [o.container_lines() for o in good]
    res = run([l for c in cl for _, l in c], shards=4)
    k = 0
    for o, c in zip(good, cl):
        o.take_containers(res[k:k + len(c)])
        k += len(c)
    ll = [o.leaf_lines() for o in good]
    res = run([l for c in ll for _, l in c], shards=4)
    k = 0
    for o, c in zip(good, ll):
        o.take_leaves(res[k:k + len(c)])
        k += len(c)
    return outs


def strip_crypt(objs):
    for og, o in objs.items():
        if isinstance(o, Stream):
            f, p = o.d.get(b"Filter"), o.d.get(b"DecodeParms")
            if f == Name(b"Crypt"):
                o.d.pop(b"Filter", None)
                o.d.pop(b"DecodeParms", None)
            elif isinstance(f, list) and Name(b"Crypt") in f:
                i = f.index(Name(b"Crypt"))
                o.d[b"Filter"] = f[:i] + f[i + 1:]
                if isinstance(p, list) and len(p) > i:
                    o.d[b"DecodeParms"] = p[:i] + p[i + 1:]


def plain_objs(ef):
    return {(n, ef.gens.get(n, 0)): o for n, o in ef.plain.objects.items()}


def compare_doc(ef, objs, trailer):
    """None or the reason the document differs from the plaintext"""
    try:
        # page-tree normal form on both sides: a linearized output has the inherited attributes pushed down to the pages
        dociso.iso(dociso.push_down(plain_objs(ef), ef.plain.trailer), ef.plain.trailer, dociso.push_down(objs, trailer), trailer)
        return None
    except dociso.Mismatch as e:
        return str(e)
    except Exception as e:
        return "comparison crashed: %r" % e


# ---------------------------------------------------------------- the file part
def build_files(chk, plans, run, work):
    efs = []
    for p in plans:
        ef = gen.EncFile(p, run)
        efs.append(ef)
    make_lines = ["c6make " + " ".join(ef.cfg_tokens + [hexs(ef.user), hexs(ef.owner), hexs(bytes.fromhex(ef.plan["rnd"]))]) for ef in efs]
    heavy = [i for i, ef in enumerate(efs) if ef.R == 6]
    light = [i for i in range(len(efs)) if i not in heavy]
    made = [None] * len(efs)
    for i, o in zip(light, run([make_lines[i] for i in light])):
        made[i] = o
    for i, o in zip(heavy, run([make_lines[i] for i in heavy], heavy=True)):
        made[i] = o
    all_lines, spans = [], []
    for ef, m in zip(efs, made):
        ef.make_dict(m)
        ef.layout()
        ef.collect_leaves()
        ls = ef.iso_lines()
        spans.append((len(all_lines), len(all_lines) + len(ls)))
        all_lines += ls
    out = run(all_lines, shards=4)
    for ef, (a, b) in zip(efs, spans):
        ef.serialise(out[a:b])
        ef.path = os.path.join(work, "enc%03d.pdf" % ef.plan["idx"])
        with open(ef.path, "wb") as f:
            f.write(ef.bytes)
        ppath = os.path.join(work, "plain%03d.pdf" % ef.plan["idx"])
        d = ef.plain
        ptr = dict(d.trailer)
        ptr[b"ID"] = [Str(b"0123456789abcdef"), Str(b"fedcba9876543210")]
        data = gen.write_classic_sparse(d, ptr, ef.gens, version=b"1.4")
        with open(ppath, "wb") as f:
            f.write(data)
        ef.plain_path = ppath
    return efs


def describe(ef, role=None, pw=None, extra=None):
    d = {"plan": ef.plan, "file": ef.path, "overrides": {str(k): [v[0], v[1].decode("latin-1")] for k, v in ef.override.items()},
         "stmf": ef.stmf.decode("latin-1"), "strf": ef.strf.decode("latin-1"), "cf": {k.decode("latin-1"): v for k, v in ef.cf.items()}}
    if role is not None:
        d["role"] = role
        d["password_hex"] = pw.hex()
    if extra:
        d.update(extra)
    return d


SIG_PREFIX = "C06:"


def leaf_signature(ef, l):
    cls = leaf_class(ef, l)
    if cls == "sig-contents-untyped":
        return SIG_PREFIX + "sig-contents-without-type"
    if cls.startswith("crypt-"):
        form = cls[6:]
        if form in gen.FORMS_DEFAULTED and form not in ("noname", "notype-arr"):
            return SIG_PREFIX + "crypt-filter-defaults:" + form
    if l.get("method") == "0" and l["kind"] not in ("s:m", "s:t", "s:g1", "s:g0") and ef.V >= 4 and ef.plan.get("none_style") == "explicit" and "0" in ef.cf.values():
        # the leaf is governed by a crypt filter whose /CFM /None is written out
        name = None
        if l["path"] == ("stream",):
            if l["num"] in ef.override:
                name = ef.override[l["num"]][1]
            elif not (l["num"] == ef.rootmeta and not ef.plan["em"]):
                name = ef.stmf
        else:
            name = ef.strf
        if name is not None and ef.cf.get(name) == "0":
            return SIG_PREFIX + "cfm-none-explicit"
    return ""


def f11_class(ef, l):
    """a V 4 stream whose dictionary holds an encrypted string of the other kind (RC4 vs AESV2): the per-object key cache"""
    if ef.V != 4 or l["path"] != ("stream",) or l.get("method") not in ("1", "2"):
        return False
    return any(x["num"] == l["num"] and x["kind"] in ("s:o", "s:g1", "s:g0") and x.get("method", "0") in ("1", "2") and
               x.get("method") != l.get("method") for x in ef.leaves) or \
        any(x["num"] == l["num"] and x["kind"] in ("s:g1", "s:g0") and ef.cf.get(ef.strf, "0") in ("1", "2") and ef.cf.get(ef.strf) != l.get("method")
            for x in ef.leaves)


def f12_class(ef, num):
    """a stream with a /Crypt filter in the ARRAY form whose crypt filter differs in method from /StmF (two-pass outputs)"""
    if num not in ef.override or not isinstance(ef.E.objects[num].d.get(b"Filter"), list):
        return False
    name = ef.override[num][1]
    m = "0" if name == gen.IDENTITY else ef.cf.get(name, "0")
    return m != ("0" if ef.stmf == gen.IDENTITY else ef.cf.get(ef.stmf, "0"))


def file_signatures(ef):
    """signatures of the known-finding input classes a file belongs to (for observations that cannot be attributed to one leaf)"""
    sigs = []
    if ef.V < 4 and ef.plan.get("lt4_junk") and ef.rootmeta is not None:
        # writer side (preservation / --copy-encryption): /EncryptMetadata false copied from a V < 4 dictionary (finding F13)
        sigs.append(SIG_PREFIX + "preserve-encryptmetadata-below-v4")
    if any(f11_class(ef, l) for l in ef.leaves):
        sigs.append(SIG_PREFIX + "key-cache-ignores-aes")
    if ef.plan.get("sig") == "untyped" and any(l["kind"] == "s:g0" for l in ef.leaves):
        sigs.append(SIG_PREFIX + "sig-contents-without-type")
    if ef.V >= 4 and ef.plan.get("none_style") == "explicit" and "0" in ef.cf.values():
        sigs.append(SIG_PREFIX + "cfm-none-explicit")
    for n, (form, name) in sorted(ef.override.items()):
        if form in gen.FORMS_DEFAULTED and form not in ("noname", "notype-arr"):
            sigs.append(SIG_PREFIX + "crypt-filter-defaults:" + form)
    if any(form == "arr1-dict" for form, name in ef.override.values()):
        # writer side (finding F14): eraseItem on the ONE /DecodeParms dictionary of /Filter [/Crypt] when the stream is copied unfiltered
        sigs.append(SIG_PREFIX + "crypt-array-one-dict-erase-warning")
    return sigs


def first_sig(ef, why=""):
    """signature for an observation on the whole document; `why` (the first difference found) selects the class when it names one"""
    s = file_signatures(ef)
    f10 = SIG_PREFIX + "sig-contents-without-type"
    f11 = SIG_PREFIX + "key-cache-ignores-aes"
    if f10 in s and "/Contents" in why:
        return f10
    m = re.match(r"(\d+) \d+ R", why)
    if m:
        # the difference names an object of the plaintext document: the class of that object's leaves decides
        ls = [l for l in ef.leaves if l["num"] == int(m.group(1))]
        for l in ls:
            sg = leaf_signature(ef, l)
            if sg:
                return sg
        if any(f11_class(ef, l) for l in ls):
            return f11
    s = [x for x in s if x != f11] + [x for x in s if x == f11]
    return s[0] if s else ""


def open_signature(ef, role, pw):
    """input-class signature of a password judgement that goes wrong"""
    if ef.V == 2 and ef.R == 3 and ef.kl < 16 and role == "owner":
        return SIG_PREFIX + "r3-short-key-owner-password"
    if ef.V == 2 and "Length" not in [k.decode() for k in ef.encdict] and ef.kl != 16:
        return SIG_PREFIX + "v2-length-default"
    return ""


def part_files(chk, run, drv, perms_spec):
    rng = chk.rng
    thorough = chk.tier == "thorough"
    work = common.workdir("C06")
    plans = quick_plans(rng, thorough)
    if os.environ.get("C06_SKIP_R6"):
        plans = [p for p in plans if p["scheme"] != "V5R6"]
    if os.environ.get("C06_ONLY"):
        keep = set(int(x) for x in os.environ["C06_ONLY"].split(","))
        plans = [p for p in plans if p["idx"] in keep]
    efs = build_files(chk, plans, run, work)
    judge_files(chk, efs, run, drv, work, rng, perms_spec)
    part_dq(chk, efs, run)
    return efs


def part_dq(chk, efs, run):
    """extension: the ISO rule for ARBITRARY encryption dictionaries (extracted Crypto/DqIso.v) and the executable class of the recorded
    findings (Crypto/DqReader.dq_in_finding_class) on the dictionary each generated file really carries and on every leaf of it:
    the rule must give the method the reference encryptor used (IsoEnc.v, a different formulation) and the class must be exactly the
    leaves whose input class has a recorded signature (F1 crypt-filter-defaults, F2 cfm-none-explicit, F10 sig-contents-without-type);
    together with files-leaves (implementation = plaintext on every leaf without a signature) this is the checked form of
    dq_method_selection_*: outside the class the implementation undoes the method the standard prescribes."""
    lines, meta = [], []
    for ef in efs:
        rd = gen.rdict_tokens(ef.encdict)
        for l in ef.leaves:
            lines.append("dqcase " + " ".join(rd + [l["kind"]]))
            meta.append((ef, l))
    out = run(lines, shards=4)
    bad, classes = [], set()
    wider = 0
    F = ("crypt-filter-defaults", "cfm-none-explicit", "sig-contents-without-type")
    for (ef, l), o in zip(meta, out):
        f = o.split()
        if len(f) != 3:
            bad.append((describe(ef), leaf_key(l), l["kind"], "runner: " + o[:80], ""))
            continue
        sig = leaf_signature(ef, l)
        in_sig = any(x in sig for x in F)
        e = ef.encdict
        cfd = e.get(b"CF") if isinstance(e.get(b"CF"), dict) else {}
        classes.add((ef.V, f[0], f[1], f[2], "EFF" if b"EFF" in e else "", "StmF" if b"StmF" in e else "", "StrF" if b"StrF" in e else "",
                     "cf-notdict" if any(not isinstance(v, dict) for v in cfd.values()) else "",
                     "cf-unknown" if any(isinstance(v, dict) and v.get(b"CFM") == gen.Name(b"Foo") for v in cfd.values()) else "",
                     "cf-none-explicit" if any(isinstance(v, dict) and v.get(b"CFM") == gen.Name(b"None") for v in cfd.values()) else "",
                     "cf-no-cfm" if any(isinstance(v, dict) and b"CFM" not in v for v in cfd.values()) else "",
                     leaf_class(ef, l)))
        if f[0] != l.get("method"):
            bad.append((describe(ef), leaf_key(l), l["kind"], "ISO rule on the written dictionary: method " + f[0],
                        "reference encryptor used method " + str(l.get("method"))))
        elif f[1] == "0" and in_sig:
            # a recorded finding on a leaf OUTSIDE the class would contradict the method-selection theorems
            bad.append((describe(ef), leaf_key(l), l["kind"], "dq_in_finding_class = " + f[1], "recorded signature of the leaf: %r" % sig))
        elif f[1] == "1" and not in_sig:
            # the class is an executable over-approximation of the findings: a leaf inside it on which the defect has no
            # observable effect (e.g. a /Crypt filter without /Name in a file whose /StmF is /Identity anyway) carries no
            # signature; counted, not an error (the theorems claim nothing inside the class)
            wider += 1
    # the method --show-encryption / QPDF::isEncrypted report for attachments against Table 20's /EFF rule (V 4 and 5)
    seen = set()
    for (ef, l), o in zip(meta, out):
        f = o.split()
        if id(ef) in seen or len(f) != 3 or ef.V < 4 or not hasattr(ef, "impl_methods"):
            continue
        seen.add(id(ef))
        got = {"n": "0", "r": "1", "a": "2", "3": "3"}.get(ef.impl_methods[2], ef.impl_methods[2])
        classes.add(("file-method", ef.V, f[2], got, "EFF" if b"EFF" in ef.encdict else ""))
        if f[2] != "?" and got != f[2]:
            eff = ef.encdict.get(b"EFF")
            gov = eff.b if isinstance(eff, Name) else ef.stmf
            sig = SIG_PREFIX + "cfm-none-explicit" if (ef.plan.get("none_style") == "explicit" and ef.cf.get(gov) == "0") else ""
            chk.violation({"kind": "property-fails-on-implementation", "part": "dq-rule",
                           "what": "the crypt filter method reported for attachments (QPDF::isEncrypted file_method) is %s, Table 20 (/EFF, by default /StmF) gives %s" % (got, f[2]),
                           "case": describe(ef)}, signature=sig)
    if bad:
        t = bad[0]
        chk.violation({"kind": "correspondence-broken", "correspondence": "corr:C06:dq-rule", "differing_cases": len(bad), "first_case": t[0], "leaf": t[1],
                       "leaf_kind": t[2], "specification": t[3], "model": t[4]}, no_input=True)
    chk.count("dq-rule", len(lines), classes, samples=[{"case": lines[0][:200], "result (iso method, in finding class, iso file method)": out[0]}] if lines else [])


def judge_files(chk, efs, run, drv, work, rng, perms_spec=None, cli=True):
    thorough = chk.tier == "thorough"
    for ef in efs:
        if ef.illformed or not ef.supported:
            chk.violation({"kind": "generator-produced-an-ill-formed-plan", "case": describe(ef)}, no_input=True)
    # ---- in-process: every file x every role
    cases = []
    for ef in efs:
        ef.roles = roles_of(ef, rng)
        for role, pw in ef.roles:
            cases.append((ef, role, pw))
    dlines = ["c6leaves %s %s 1" % (hexs(ef.path.encode()), ("H:" + pw.hex()) if role == "hexkey" else ("P:" + hexs(pw))) for ef, role, pw in cases]
    impl = [parse_drv(o) for o in common.run_lines(drv, dlines, shards=4)]
    mlines = []
    for ef, role, pw in cases:
        rd_t = gen.rdict_tokens(ef.encdict)
        mlines.append("c6open " + " ".join(rd_t + [hexs(ef.id0), ("H:" + hexs(pw)) if role == "hexkey" else ("P:" + hexs(pw))]))
    hv = [i for i, c in enumerate(cases) if c[0].R == 6 and c[1] != "hexkey"]
    lt = [i for i in range(len(cases)) if i not in set(hv)]
    model = [None] * len(cases)
    for i, o in zip(lt, run([mlines[i] for i in lt], shards=4)):
        model[i] = o
    for i, o in zip(hv, run([mlines[i] for i in hv], heavy=True)):
        model[i] = o
    tie = []
    nontrivial = set()
    state_of = {}
    for i, ((ef, role, pw), im, mo) in enumerate(zip(cases, impl, model)):
        uv, ov = expected_flags(ef, pw)
        should_open = role == "hexkey" or uv or ov
        mf = mo.split()
        # --- specification: does it open, which flags, which key, which permissions
        if should_open:
            if not im["ok"]:
                # a structural failure (not the password error) in a file of a known-finding class: object streams run through the wrong cipher
                sig0 = open_signature(ef, role, pw) or (first_sig(ef) if im.get("code") != "password" else "")
                chk.violation({"kind": "property-fails-on-implementation", "part": "files", "what": "a valid password / the file key does not open the file",
                               "case": describe(ef, role, pw), "implementation": im.get("raw"), "model": mo[:300]}, signature=sig0)
            else:
                bad = []
                if im["key"] != hexs(ef.key):
                    bad.append("file key %s instead of %s" % (im["key"], hexs(ef.key)))
                if role != "hexkey" and (im["um"], im["om"]) != ("1" if uv else "0", "1" if ov else "0"):
                    bad.append("flags user=%s owner=%s, expected user=%d owner=%d" % (im["um"], im["om"], uv, ov))
                if int(im["P"]) != S32(ef.plan["P"]) or int(im["R"]) != ef.R:
                    bad.append("R/P reported %s/%s" % (im["R"], im["P"]))
                want = perms_spec(ef.R, ef.plan["P"]) if perms_spec else None
                if want is not None and im["perms"][:8] != want:
                    bad.append("permission answers %s, Table 22 gives %s" % (im["perms"], want))
                if "perms" in im.get("warnings", "").lower() and "/Perms" in im.get("warnings", ""):
                    bad.append("/Perms reported invalid: " + im["warnings"][:200])
                if bad:
                    sig = ""
                    if len(bad) == 1 and bad[0].startswith("flags") and ef.V < 5 and len(pw) > 32:
                        sig = SIG_PREFIX + "v4-long-password-user-flag"
                    if len(bad) == 1 and bad[0].startswith("flags") and ef.V == 2 and ef.kl < 16 and ov and im["om"] == "0":
                        sig = SIG_PREFIX + "r3-short-key-owner-password"
                    chk.violation({"kind": "property-fails-on-implementation", "part": "files", "what": "; ".join(bad), "case": describe(ef, role, pw),
                                   "implementation": {k: v for k, v in im.items() if k != "leaves"}, "model": mo[:400]}, signature=sig)
        else:
            if im["ok"] or im.get("code") != "password":
                chk.violation({"kind": "property-fails-on-implementation", "part": "files", "what": "a password that is neither the user nor the owner password "
                               "does not give the password error", "case": describe(ef, role, pw), "implementation": {k: v for k, v in im.items() if k != "leaves"}})
        # --- tie: model of initialize() vs the library
        if im["ok"]:
            got = "ok %s %s %s %s %s %s %s" % (im["V"], im["R"], im["P"], im["methods"], im["key"], im["um"], im["om"])
            mm = (mf[6] + mf[7] + mf[8]) if mf[0] == "ok" else ""
            # an unknown method is replaced by AES at the first string / stream that meets it (decryptString / decryptStream): which
            # objects were read by the time the methods are queried is not modelled
            mm = "".join(b if (a == "u" and b == "a") else a for a, b in zip(mm, im["methods"]))
            mod = "ok %s %s %s %s %s %s %s" % (mf[1], mf[2], mf[3], mm, mf[9], mf[11], mf[12]) if mf[0] == "ok" else mo[:200]
            if mf[0] == "ok":
                got += " " + im["perms"] + " " + im["upw"] + " " + im["padded"] + " warn=" + ("perms" if "/Perms" in im["warnings"] else "-")
                mod += " " + mf[14] + " " + mf[15] + " " + mf[10] + " warn=" + ("perms" if "perms" in mf[13] else "-")
                state_of.setdefault(id(ef), (mf[1:13], role))
                if not hasattr(ef, "impl_methods"):
                    ef.impl_methods = im["methods"]
        else:
            got = "err " + im.get("code", "?")
            mod = " ".join(mf[:2])
        if got != mod and not (not im["ok"] and im.get("code") not in ("password", "unsupported") and first_sig(ef)):
            # (a file of a known-finding class that cannot even be parsed is outside what the model of initialize() describes)
            tie.append((describe(ef, role, pw), got, mod))
        nontrivial.add((ef.plan["scheme"], ef.plan.get("stm"), ef.plan.get("str"), ef.plan["layout"], role, im["ok"]))
    if tie:
        chk.violation({"kind": "correspondence-broken", "correspondence": "corr:C06:initialize", "differing_cases": len(tie), "first_case": tie[0][0],
                       "implementation": tie[0][1], "model": tie[0][2]}, no_input=True)
    chk.count("files-open", len(cases), nontrivial, samples=[{"case": dlines[0][:160], "model": model[0][:200]}])

    # ---- leaves: plaintext (specification) vs library vs model
    dl, dmeta = [], []
    for ef in efs:
        st = state_of.get(id(ef))
        if st is None:
            continue
        for l in ef.leaves:
            dl.append("c6dec " + " ".join(st[0] + [l["kind"], str(l["num"]), str(l.get("gen", 0)), hexs(l["cipher"])]))
            dmeta.append((ef, l))
    dout = run(dl, shards=4)
    mleaf = {}
    for (ef, l), o in zip(dmeta, dout):
        mleaf[(id(ef), leaf_key(l))] = o
    nleaf, leaf_tie, classes = 0, [], set()
    for (ef, role, pw), im in zip(cases, impl):
        if not im["ok"]:
            continue
        for l in ef.leaves:
            k = leaf_key(l)
            got = im["leaves"].get(k)
            mo = mleaf.get((id(ef), k), "?")
            mf = mo.split()
            nleaf += 1
            cls = leaf_class(ef, l)
            classes.add((ef.plan["scheme"], cls, l.get("method"), "n>=65536" if l["num"] >= 65536 else ("n>=256" if l["num"] >= 256 else ""),
                         "g>=256" if l.get("gen", 0) >= 256 else ("g>0" if l.get("gen", 0) else "")))
            want = hexs(l["plain"])
            if got != want:
                chk.violation({"kind": "property-fails-on-implementation", "part": "files-leaves", "what": "a %s is not decrypted to the plaintext" % cls,
                               "case": describe(ef, role, pw), "leaf": k, "leaf_kind": l["kind"], "iso_method": l.get("method"),
                               "implementation": (got or "absent")[:200], "plaintext": want[:200], "model": mo[:200]}, signature=leaf_signature(ef, l))
            mgot = mf[1] if mf[0] == "ok" else "!error"
            if (got if got is not None else "absent") != mgot and not (got or "").startswith("!"):
                leaf_tie.append((describe(ef, role, pw), k, l["kind"], (got or "absent")[:120], mo[:160]))
            # method selection: the model's crypt filter method against the ISO rule the encryptor applied
            if got == want and mf[0] == "ok" and mf[3] != l.get("method") and not leaf_signature(ef, l):
                leaf_tie.append((describe(ef, role, pw), k, l["kind"], "iso method " + str(l.get("method")), "model method " + mf[3]))
    if leaf_tie:
        t = leaf_tie[0]
        chk.violation({"kind": "correspondence-broken", "correspondence": "corr:C06:leaves", "differing_cases": len(leaf_tie), "first_case": t[0], "leaf": t[1],
                       "leaf_kind": t[2], "implementation": t[3], "model": t[4]}, no_input=True)
    chk.count("files-leaves", nleaf, classes, samples=[{"leaf classes (scheme, class, iso method)": sorted(map(str, classes))[:12]}])
    lazy_part(chk, efs, cases, impl, state_of, run, drv)
    if cli:
        cli_part(chk, efs, run, drv, work, rng)


# ---------------------------------------------------------------- objects consumed one at a time (the per-object key cache)
def lazy_part(chk, efs, cases, impl, state_of, run, drv):
    """every object fetched from a fresh QPDF and, for a stream, its data read right after the parse: plaintext vs library vs the
    sequential model (c06_decrypt_seq)"""
    pick = {}
    for (ef, role, pw), im in zip(cases, impl):
        if im["ok"] and id(ef) not in pick and id(ef) in state_of:
            pick[id(ef)] = (ef, role, pw)
    sel = list(pick.values())
    dl = ["c6lazy %s %s %s" % (hexs(ef.path.encode()), ("H:" + pw.hex()) if role == "hexkey" else ("P:" + hexs(pw)),
                               ",".join("%d.%d" % (n, ef.gens.get(n, 0)) for n in sorted(ef.E.objects))) for ef, role, pw in sel]
    outs = common.run_lines(drv, dl, shards=4)
    mlines, mmeta = [], []
    for ef, role, pw in sel:
        st = state_of[id(ef)][0]
        by_obj = {}
        for l in ef.leaves:
            by_obj.setdefault(l["num"], []).append(l)
        for num, ls in sorted(by_obj.items()):
            if num == 0 or not any(l["path"] == ("stream",) for l in ls):
                continue
            seq = [l for l in ls if l["path"] != ("stream",)] + [l for l in ls if l["path"] == ("stream",)]
            mlines.append("c6decseq " + " ".join(st + sum(([l["kind"], str(l["num"]), str(l.get("gen", 0)), hexs(l["cipher"])] for l in seq), [])))
            mmeta.append((ef, seq))
    mout = run(mlines, shards=4)
    model = {}
    for (ef, seq), o in zip(mmeta, mout):
        for l, r in zip(seq, o.split(";")):
            model[(id(ef), leaf_key(l))] = r
    n, tie, classes = 0, [], set()
    for (ef, role, pw), o in zip(sel, outs):
        if not o.startswith("ok "):
            continue
        lv = {}
        body = o.partition(" leaves=")[2]
        for item in body.split(";"):
            if item:
                k, _, v = item.partition("=")
                lv[k] = v
        for l in ef.leaves:
            k = leaf_key(l)
            if (id(ef), k) not in model:
                continue
            n += 1
            got, want = lv.get(k), hexs(l["plain"])
            mo = model[(id(ef), k)]
            mgot = mo.split()[1] if mo.startswith("ok") else "!error"
            classes.add((ef.plan["scheme"], ef.plan.get("stm"), ef.plan.get("str"), leaf_class(ef, l), got == want))
            if got != want:
                sig = leaf_signature(ef, l) or (SIG_PREFIX + "key-cache-ignores-aes" if f11_class(ef, l) else "")
                chk.violation({"kind": "property-fails-on-implementation", "part": "files-lazy", "what": "object fetched on its own: a %s is not decrypted to "
                               "the plaintext" % leaf_class(ef, l), "case": describe(ef, role, pw), "leaf": k, "leaf_kind": l["kind"], "iso_method": l.get("method"),
                               "implementation": (got or "absent")[:200], "plaintext": want[:200], "model": mo[:200]}, signature=sig)
            if (got or "absent") != mgot and not (got or "").startswith("!"):
                tie.append((describe(ef, role, pw), k, l["kind"], (got or "absent")[:120], mo[:160]))
    if tie:
        t = tie[0]
        chk.violation({"kind": "correspondence-broken", "correspondence": "corr:C06:key-cache", "differing_cases": len(tie), "first_case": t[0], "leaf": t[1],
                       "leaf_kind": t[2], "implementation": t[3], "model": t[4]}, no_input=True)
    chk.count("files-lazy", n, classes, samples=[{"case": dl[0][:120]}] if dl else [])


# ---------------------------------------------------------------- the real binary
SHOW_LABELS = ["extract for accessibility", "extract for any purpose", "print low resolution", "print high resolution", "modify document assembly",
               "modify forms", "modify annotations", "modify other", "modify anything"]


def parse_show(text):
    r = {"flags": [], "perms": ""}
    for line in text.split("\n"):
        if line.startswith("R = "):
            r["R"] = int(line[4:])
        elif line.startswith("P = "):
            r["P"] = int(line[4:])
        elif line == "Supplied password is owner password":
            r["flags"].append("owner")
        elif line == "Supplied password is user password":
            r["flags"].append("user")
        elif line == "Incorrect password supplied":
            r["incorrect"] = True
        elif line.startswith("Encryption key = "):
            r["key"] = line[17:].strip()
        elif line == "File is not encrypted":
            r["plain"] = True
        else:
            for lab in SHOW_LABELS:
                if line.startswith(lab + ": "):
                    r["perms"] += "1" if line.endswith(": allowed") else "0"
    return r


OPTSETS = {"preserve": ["--stream-data=preserve"], "raw": ["--compress-streams=n", "--decode-level=none"], "objstm": ["--object-streams=generate"],
           "lin": ["--linearize"]}
OPTSETS_ALL = dict(OPTSETS, default=[])


def cli_part(chk, efs, run, drv, work, rng):
    thorough = chk.tier == "thorough"
    jobs = []     # (ef, role, pw, kind, args, outpath)

    def pwargs(role, pw, mode):
        if role == "hexkey":
            return ["--password-is-hex-key", "--password=" + pw.hex()]
        if mode == "hex-bytes":
            return ["--password-mode=hex-bytes", "--password=" + pw.hex()]
        return [b"--password=" + pw]
    for n, ef in enumerate(efs):
        for role, pw in ef.roles:
            if b"\0" in pw and role != "hexkey":
                continue
            mode = "hex-bytes" if (n + len(role)) % 3 == 0 else "bytes"
            rec = [] if (n + len(pw)) % 2 else ["--suppress-password-recovery"]
            base = "%03d_%s" % (ef.plan["idx"], role)
            pa = pwargs(role, pw, mode)
            out = os.path.join(work, "dec_%s.pdf" % base)
            jobs.append((ef, role, pw, "decrypt", rec + pa + ["--decrypt", "--static-id", ef.path, out], out))
            jobs.append((ef, role, pw, "requires", rec + pa + ["--requires-password", ef.path], None))
            jobs.append((ef, role, pw, "isenc", rec + pa + ["--is-encrypted", ef.path], None))
            jobs.append((ef, role, pw, "show", rec + pa + ["--show-encryption", "--show-encryption-key", ef.path], None))
            if role in ("user", "owner", "hexkey", "wrong"):
                out2 = os.path.join(work, "keep_%s.pdf" % base)
                jobs.append((ef, role, pw, "preserve", rec + pa + ["--static-id", "--static-aes-iv", ef.path, out2], out2))
            if role == "user":
                # the writer side of preservation under the option sets that decide whether a stream is re-filtered or copied as it is
                names = list(OPTSETS) if (ef.plan.get("crypt_family") or thorough) else [list(OPTSETS)[n % len(OPTSETS)]]
                for on in names:
                    o5 = os.path.join(work, "keep_%s_%s.pdf" % (base, on))
                    jobs.append((ef, role, pw, "preserve", rec + pa + OPTSETS[on] + ["--static-id", "--static-aes-iv", ef.path, o5], o5))
                if ef.plan.get("crypt_family") or (thorough and n % 4 == 0):
                    # --copy-encryption onto a file that itself has /Crypt streams: the encrypted file is both input and source of the encryption
                    efp = [a.replace("--password=", "--encryption-file-password=") if isinstance(a, str) else a.replace(b"--password=", b"--encryption-file-password=")
                           for a in pa if a != "--password-mode=hex-bytes"]
                    for on in ("default", "preserve", "raw") if ef.plan.get("crypt_family") else ("raw",):
                        o6 = os.path.join(work, "copyself_%s_%s.pdf" % (base, on))
                        jobs.append((ef, role, pw, "copyself", rec + pa + OPTSETS_ALL[on] + ["--static-id", "--static-aes-iv", ef.path,
                                     "--copy-encryption=" + ef.path] + efp + [o6], o6))
            if role in ("user", "wrong") and (n % 3 == 0 or thorough):
                out3 = os.path.join(work, "json_%s.json" % base)
                jobs.append((ef, role, pw, "json", rec + pa + ["--json-output", ef.path, out3], out3))
            if role in ("owner", "wrong") and (n % 3 == 1 or thorough):
                out4 = os.path.join(work, "copy_%s.pdf" % base)
                jobs.append((ef, role, pw, "copyenc", ["--static-id", "--static-aes-iv", ef.plain_path, "--copy-encryption=" + ef.path] +
                             [a.replace("--password=", "--encryption-file-password=") if isinstance(a, str) else a.replace(b"--password=", b"--encryption-file-password=")
                              for a in pa if a != "--password-is-hex-key"] + rec + [out4], out4) if role != "hexkey" else None)
        # a file that is not encrypted at all: the queries' third answer
    jobs = [j for j in jobs if j is not None]
    for ef in efs[:3]:
        jobs.append((ef, "plainfile", b"", "requires", ["--requires-password", ef.plain_path], None))
        jobs.append((ef, "plainfile", b"", "isenc", ["--is-encrypted", ef.plain_path], None))

    def runj(j):
        ef, role, pw, kind, args, outp = j
        if outp and os.path.exists(outp):
            os.unlink(outp)
        rc, so, se = run_qpdf(args, timeout=60)
        return rc, so, se
    res = common.par_map(runj, jobs, workers=4)
    kinds = set()
    to_strict, strict_meta = [], []
    enc_outs = []
    exit_lines = []
    for (ef, role, pw, kind, args, outp), (rc, so, se) in zip(jobs, res):
        uv, ov = expected_flags(ef, pw) if role != "plainfile" else (False, False)
        valid = role == "hexkey" or uv or ov
        argd = [a.decode("latin-1") if isinstance(a, bytes) else a for a in args]
        case = describe(ef, role, pw, {"qpdf_args": argd})
        kinds.add((ef.plan["scheme"], kind, role, rc))
        err = se.decode("latin-1")
        sig = open_signature(ef, role, pw) if role != "plainfile" else ""

        def bad(what, signature="", **kw):
            rep = {"kind": "property-fails-on-implementation", "part": "cli-" + kind, "what": what, "case": case, "exit": rc, "stderr": err[-400:]}
            rep.update(kw)
            chk.violation(rep, signature=signature)
        if kind in ("requires", "isenc"):
            enc = role != "plainfile"
            want = int(run(["c6exit %s %d %d" % ("p" if kind == "requires" else "e", 1 if enc else 0, 1 if valid else 0)])[0])
            if rc != want:
                bad("exit status %d, the manual says %d" % (rc, want), signature=sig or (first_sig(ef) if (rc == 2 and err and "invalid password" not in err) else ""))
            if so or (se and enc and valid):
                pass
            # the outcome of opening as observed (a structural failure of a known-finding class is an error other than the password error)
            tok = "none" if not enc else ("err:damaged" if (rc == 2 and err.strip() and "invalid password" not in err) else
                                          ("ok:0" if rc == 3 or (kind == "isenc" and valid) else "err:password"))
            exit_lines.append(("c6job %s %s 0" % ("p" if kind == "requires" else "e", tok), rc))
            continue
        if kind == "show":
            sh = parse_show(so.decode("latin-1"))
            if valid:
                want_flags = [] if role == "hexkey" else (["owner"] if ov else []) + (["user"] if uv else [])
                probs = []
                if rc not in (0, 3):
                    probs.append("exit %d" % rc)
                if sh.get("incorrect"):
                    probs.append("reports an incorrect password")
                if sh.get("flags") != want_flags:
                    probs.append("reports %r as matched, expected %r" % (sh.get("flags"), want_flags))
                if sh.get("P") != S32(ef.plan["P"]) or sh.get("R") != ef.R:
                    probs.append("R/P %r/%r" % (sh.get("R"), sh.get("P")))
                if sh.get("key", "").lower() != ef.key.hex():
                    probs.append("encryption key %r" % sh.get("key"))
                wantp = run(["c6perms %d %d" % (ef.R, ef.plan["P"])])[0]
                if sh.get("perms", "")[:8] != wantp:
                    probs.append("permission list %s, Table 22 gives %s" % (sh.get("perms"), wantp))
                if probs:
                    s2 = sig
                    if not s2 and len(probs) == 1 and probs[0].startswith("reports [") and ef.V < 5 and len(pw) > 32:
                        s2 = SIG_PREFIX + "v4-long-password-user-flag"
                    if not s2 and len(probs) == 1 and probs[0].startswith("reports [") and ef.V == 2 and ef.kl < 16 and ov and "owner" not in sh.get("flags", []):
                        s2 = SIG_PREFIX + "r3-short-key-owner-password"
                    if not s2 and rc == 2 and "invalid password" not in err:
                        s2 = first_sig(ef)
                    bad("--show-encryption: " + "; ".join(probs), signature=s2, stdout=so.decode("latin-1")[:600])
            else:
                if not sh.get("incorrect") or sh.get("flags"):
                    bad("--show-encryption with a wrong password does not say so", stdout=so.decode("latin-1")[:400])
            continue
        # jobs that write
        exists = outp is not None and os.path.exists(outp) and os.path.getsize(outp) > 0
        if not valid:
            if rc != 2 or (outp and os.path.exists(outp)):
                bad("a wrong password must give exit 2 and no output file (exit %d, output %s)" % (rc, "exists" if outp and os.path.exists(outp) else "absent"),
                    signature=SIG_PREFIX + "copy-encryption-wrong-password-creates-output" if (kind == "copyenc" and rc == 2 and os.path.getsize(outp) == 0) else "")
            elif "invalid password" not in err:
                bad("exit 2 without the password error message")
            continue
        if rc not in (0, 3) or not exists:
            if not sig and kind in ("preserve", "copyenc", "copyself") and ef.plan.get("length_style") == "absent" and ef.V in (2, 4):
                sig = SIG_PREFIX + "preserve-without-length"
            if not sig and "invalid password" not in err:
                sig = first_sig(ef)
            bad("a valid password / the file key: exit %d, output %s" % (rc, "present" if exists else "absent"), signature=sig)
            continue
        if rc == 3 and not sig:
            s3 = first_sig(ef)
            if kind in ("preserve", "copyenc", "copyself") and ef.plan.get("length_style") == "absent" and ef.V in (2, 4, 5):
                s3 = SIG_PREFIX + "preserve-without-length"
            if not s3 and "ignoring attempt to erase item" in err and any(fm == "arr1-dict" for fm, _ in ef.override.values()):
                # writer side (finding F14): /Filter [/Crypt] with ONE /DecodeParms dictionary, stream copied without re-filtering
                s3 = SIG_PREFIX + "crypt-array-one-dict-erase-warning"
            bad("warnings while reading a well-formed encrypted file", signature=s3)
        if kind == "decrypt":
            to_strict.append(outp)
            strict_meta.append((ef, role, pw, case, kind))
        elif kind in ("preserve", "copyenc", "copyself"):
            enc_outs.append((ef, role, pw, case, kind, outp))
        elif kind == "json":
            try:
                objs, trailer, meta = pdfgen.load_qjson(open(outp, "rb").read().decode("utf-8"))
                strip_crypt(objs)
                why = json_compare(ef, objs, trailer)
            except Exception as e:
                why = "qpdf JSON unreadable: %r" % e
            if why:
                bad("--json-output differs from the plaintext document: " + why, signature=first_sig(ef, why))
    # decrypted outputs: strict reader + isomorphism
    sres = filecheck.strict_read(to_strict)
    for path, r, (ef, role, pw, case, kind) in zip(to_strict, sres, strict_meta):
        s3 = first_sig(ef)
        if not r.get("ok"):
            chk.violation({"kind": "property-fails-on-implementation", "part": "cli-decrypt", "what": "--decrypt output is not strictly readable: %s" %
                           filecheck.ERR.get(r.get("code"), r.get("code")), "case": case})
            continue
        sd = filecheck.StrictDoc(r, path)
        if b"Encrypt" in sd.trailer:
            chk.violation({"kind": "property-fails-on-implementation", "part": "cli-decrypt", "what": "--decrypt output still has /Encrypt", "case": case})
            continue
        why = compare_doc(ef, sd.objs, sd.trailer)
        if why:
            chk.violation({"kind": "property-fails-on-implementation", "part": "cli-decrypt", "what": "--decrypt output differs from the plaintext document: " + why,
                           "case": case}, signature=first_sig(ef, why))
    # encrypted outputs (default preservation, --copy-encryption): independent decryptor with the known key
    def runner_plain(lines):
        return run(lines, shards=4)
    eouts = read_encrypted_outputs([(outp, hexs(ef.key)) for ef, role, pw, case, kind, outp in enc_outs], run)
    for (ef, role, pw, case, kind, outp), eo in zip(enc_outs, eouts):
        s3 = first_sig(ef)
        if role == "hexkey" and ef.V < 5 and kind.startswith("preserve"):
            s3 = SIG_PREFIX + "hex-key-preserve-v4"
        if ef.plan.get("length_style") == "absent" and ef.V in (2, 4, 5):
            s3 = SIG_PREFIX + "preserve-without-length"
        kind = kind.split(":")[0]
        if isinstance(eo, Exception):
            chk.violation({"kind": "property-fails-on-implementation", "part": "cli-" + kind, "what": "encrypted output unreadable by the independent reader: %r" % eo,
                           "case": case}, signature=s3)
            continue
        try:
            objs, tr = eo.document()
            info, problems = eo.info, eo.problems
        except Exception as e:
            chk.violation({"kind": "property-fails-on-implementation", "part": "cli-" + kind, "what": "encrypted output unreadable by the independent reader: %r" % e,
                           "case": case}, signature=s3)
            continue
        probs = list(problems[:3])
        if (info["R"], info["V"], S32(info["P"])) != (ef.R, ef.V, S32(ef.plan["P"])):
            probs.append("R/V/P %r" % ((info["R"], info["V"], S32(info["P"])),))
        n = {2: 32, 3: 32, 4: 32}.get(ef.R, 48)
        if info["O"][:n] != ef.O[:n] or info["U"][:n] != ef.U[:n] or info["OE"][:32] != ef.OE[:32] or info["UE"][:32] != ef.UE[:32] or info["Perms"][:16] != ef.Perms[:16]:
            probs.append("/O /U /OE /UE /Perms not copied")
        if bool(info["encmeta"]) != bool(ef.plan["em"]):
            probs.append("/EncryptMetadata %r" % info["encmeta"])
        if kind in ("preserve", "copyself") and info["id1"] != ef.id0 and ef.V < 5:
            probs.append("first /ID changed (the key depends on it)")
        if not probs:
            why = compare_doc(ef, objs, tr) if kind == "preserve" else compare_doc(ef, objs, tr)
            if why:
                probs.append("decrypted with the file key it differs from the plaintext document: " + why)
        if probs:
            if first_sig(ef, " ".join(probs)) == SIG_PREFIX + "sig-contents-without-type":
                s3 = SIG_PREFIX + "sig-contents-without-type"
            m12 = re.search(r"differs from the plaintext document: (\d+) \d+ R: stream", " ".join(probs))
            if m12 and "--linearize" in case.get("qpdf_args", []) and f12_class(ef, int(m12.group(1))):
                s3 = SIG_PREFIX + "crypt-array-erased-in-first-pass"
            if not s3 and not ef.plan["em"] and any("QVM" in p or "metadata" in p.lower() for p in probs):
                s3 = SIG_PREFIX + "cleartext-metadata-dict-string"
            chk.violation({"kind": "property-fails-on-implementation", "part": "cli-" + kind, "what": "; ".join(probs)[:900], "case": case}, signature=s3)
    # model of the job (exit codes) against what the binary did
    mo = run([l for l, rc in exit_lines])
    tie = [(l, rc, o) for (l, rc), o in zip(exit_lines, mo) if o.split()[1] != str(rc)]
    if tie:
        chk.violation({"kind": "correspondence-broken", "correspondence": "corr:C06:exit-codes", "differing_cases": len(tie), "first_case": tie[0][0],
                       "implementation": tie[0][1], "model": tie[0][2]}, no_input=True)
    chk.count("cli", len(jobs), kinds, samples=[{"case": [a if isinstance(a, str) else a.decode("latin-1") for a in jobs[0][4]][:8]}])
    recovery_part(chk, efs, run, drv, work)


PDFDOC = {0x18: 0x02D8, 0x19: 0x02C7, 0x1A: 0x02C6, 0x1B: 0x02D9, 0x1C: 0x02DD, 0x1D: 0x02DB, 0x1E: 0x02DA, 0x1F: 0x02DC,
          0x80: 0x2022, 0x81: 0x2020, 0x82: 0x2021, 0x83: 0x2026, 0x84: 0x2014, 0x85: 0x2013, 0x86: 0x0192, 0x87: 0x2044, 0x88: 0x2039, 0x89: 0x203A,
          0x8A: 0x2212, 0x8B: 0x2030, 0x8C: 0x201E, 0x8D: 0x201C, 0x8E: 0x201D, 0x8F: 0x2018, 0x90: 0x2019, 0x91: 0x201A, 0x92: 0x2122, 0x93: 0xFB01,
          0x94: 0xFB02, 0x95: 0x0141, 0x96: 0x0152, 0x97: 0x0160, 0x98: 0x0178, 0x99: 0x017D, 0x9A: 0x0131, 0x9B: 0x0142, 0x9C: 0x0153, 0x9D: 0x0161,
          0x9E: 0x017E, 0x9F: 0xFFFD, 0xA0: 0x20AC}      # 0x9F is undefined: qpdf exports it as U+FFFD and maps U+FFFD back to 0x9F


def pdfdoc_text(b):
    """PDFDocEncoding (ISO 32000 Annex D) -> text; None when a byte has no character"""
    out = []
    for c in b:
        if c == 0xAD or (c < 0x18 and c not in (8, 9, 10, 12, 13)) or c == 0x7F:
            return None
        out.append(chr(PDFDOC.get(c, c)))
    return "".join(out)


def json_compare(ef, objs, trailer):
    """qpdf JSON v2 -> pdfgen objects; text strings come back as ('ustr', text): compare those by their text"""
    A = plain_objs(ef)

    def conv(o):
        if isinstance(o, tuple) and o and o[0] == "ustr":
            return ("ustr", o[1])
        if isinstance(o, list):
            return [conv(x) for x in o]
        if isinstance(o, dict):
            return {k: conv(v) for k, v in o.items()}
        return o

    def text_of(b):
        if b[:2] == b"\xfe\xff":
            try:
                return b[2:].decode("utf-16-be")
            except Exception:
                return None
        if b[:3] == b"\xef\xbb\xbf":
            try:
                return b[3:].decode("utf-8")
            except Exception:
                return None
        return None
    # replace u: strings by the bytes of the plaintext when their text agrees (PDFDoc = Latin-1 on the characters used here)
    def fix(o, ref):
        if isinstance(o, tuple) and o and o[0] == "ustr":
            if isinstance(ref, Str):
                t = text_of(ref.b)
                if t is None:
                    t = pdfdoc_text(ref.b)
                if t == o[1]:
                    return Str(ref.b)
            return Str(b"<u:" + o[1].encode("utf-8") + b">")
        if isinstance(o, list):
            return [fix(x, ref[k] if isinstance(ref, list) and k < len(ref) else None) for k, x in enumerate(o)]
        if isinstance(o, dict):
            return {k: fix(v, ref.get(k) if isinstance(ref, dict) else None) for k, v in o.items()}
        return o
    B = {}
    for og, o in objs.items():
        ref = A.get(og)
        if isinstance(o, Stream):
            B[og] = Stream(fix(o.d, ref.d if isinstance(ref, Stream) else None), o.data if o.data is not None else b"")
        else:
            B[og] = fix(o, ref if not isinstance(ref, Stream) else None)
    tr = fix(trailer, ef.plain.trailer)
    try:
        dociso.iso(A, ef.plain.trailer, B, tr)
        return None
    except dociso.Mismatch as e:
        return str(e)


# ---------------------------------------------------------------- extension: arbitrary ("wild") encryption dictionaries
WILD_NAMES = [b"A", b"B", b"StdCF", b"Identity"]
CFDP_N = Name(b"CryptFilterDecodeParms")


def wild_dict(rng, V):
    """an encryption dictionary aimed at the case splits of EncryptionParameters::initialize / interpretCF: /CF values that are not
    dictionaries, /CFM V2 / AESV2 / AESV3 / None / absent / unknown / not a name, an entry called Identity, /StmF /StrF /EFF absent, defined,
    undefined, /EncryptMetadata absent / true / false / not a boolean - for every /V (below 4 all of it must be ignored)"""
    R = {1: 2, 2: 3, 4: 4, 5: 5}[V]
    n = 48 if V == 5 else 32
    e = {b"Filter": Name(b"Standard"), b"V": V, b"R": R, b"O": Str(bytes(rng.randrange(256) for _ in range(n))),
         b"U": Str(bytes(rng.randrange(256) for _ in range(n))), b"P": rng.choice([-4, -3904, -1])}
    if V == 2:
        e[b"Length"] = 128
    if V == 5:
        e[b"OE"], e[b"UE"], e[b"Perms"] = Str(bytes(32)), Str(bytes(32)), Str(bytes(16))
    if rng.random() < 0.9:
        cf = {}
        for nm in rng.sample(WILD_NAMES, rng.choice([0, 1, 2, 3, 4])):
            k = rng.randrange(9)
            if k == 0:
                cf[nm] = rng.choice([7, None, Name(b"V2")])
            else:
                ent = {b"Type": Name(b"CryptFilter")}
                m = [None, b"None", b"V2", b"AESV2", b"AESV3", b"Foo", b"V2", b"AESV2"][k - 1]
                if m is not None:
                    ent[b"CFM"] = Name(m) if rng.random() < 0.93 else Str(m)
                cf[nm] = ent
        if cf or rng.random() < 0.5:
            e[b"CF"] = cf
    for key in (b"StmF", b"StrF", b"EFF"):
        if rng.random() < 0.75:
            e[key] = Name(rng.choice(WILD_NAMES + [b"Missing", b"Identity"]))
    k = rng.randrange(5)
    if k < 3:
        e[b"EncryptMetadata"] = [True, False, 0][k]
    return e


def wild_stream_dicts(rng):
    """the /Filter x /DecodeParms shapes aimed at the case splits of QPDF::decryptStream"""
    nm = lambda: Name(rng.choice(WILD_NAMES + [b"Missing"]))
    full = lambda: {b"Type": CFDP_N, b"Name": nm()}
    C, X = Name(b"Crypt"), Name(b"ASCIIHexDecode")
    shapes = [
        {}, {b"Filter": C}, {b"Filter": C, b"DecodeParms": full()}, {b"Filter": C, b"DecodeParms": {b"Name": nm()}},
        {b"Filter": C, b"DecodeParms": {b"Type": CFDP_N}}, {b"Filter": C, b"DecodeParms": {b"Type": Name(b"Other"), b"Name": nm()}},
        {b"Filter": C, b"DecodeParms": [full()]}, {b"Filter": C, b"DecodeParms": []}, {b"Filter": C, b"DecodeParms": None},
        {b"Filter": [C], b"DecodeParms": full()}, {b"Filter": [C], b"DecodeParms": [full()]}, {b"Filter": [C], b"DecodeParms": [None]},
        {b"Filter": [C]}, {b"Filter": [C], b"DecodeParms": [{b"Name": nm()}]}, {b"Filter": [C], b"DecodeParms": [{b"Type": CFDP_N}]},
        {b"Filter": [X, C], b"DecodeParms": [None, full()]}, {b"Filter": [X, C], b"DecodeParms": [full(), None]},
        {b"Filter": [X, C], b"DecodeParms": full()}, {b"Filter": [X, C], b"DecodeParms": [None, full(), None]},
        {b"Filter": [C, X], b"DecodeParms": [{b"Name": nm()}, None]}, {b"Filter": [7, C], b"DecodeParms": [None, full()]},
        {b"Filter": [C, C], b"DecodeParms": [{b"Name": nm()}, {b"Name": nm()}]}, {b"Filter": X}, {b"Filter": [X]},
        {b"Filter": X, b"DecodeParms": full()}, {b"Filter": [C], b"DecodeParms": [7]},
    ]
    return [dict(d) for d in rng.sample(shapes, 7)]


def part_wild(chk, run, drv):
    """model vs library on ARBITRARY encryption dictionaries (well formed or not) opened with the file key: the methods initialize() arrives at
    and, byte for byte, what every string and stream comes back as (the ciphertext is arbitrary); where the ISO rule of DqIso.v defines
    the method and the leaf is outside dq_in_finding_class, the model's method must be that method (dq_method_selection_*, on the
    extracted code)"""
    rng = chk.rng
    work = common.workdir("C06")
    nfiles = 48 if chk.tier != "thorough" else 600
    files = []
    for i in range(nfiles):
        V = [1, 2, 4, 5, 4, 5][i % 6]
        e = wild_dict(rng, V)
        key = bytes(rng.randrange(256) for _ in range({1: 5, 2: 16, 4: 16, 5: 32}[V]))
        D = pdfgen.Doc()
        D.version = b"1.7"
        blob = lambda: bytes(rng.randrange(256) for _ in range(rng.choice([0, 16, 32, 48, 64, 32, 48])))
        D.objects[1] = {b"Type": Name(b"Catalog"), b"Pages": Ref(2), b"Metadata": Ref(5), b"Info6": Ref(6)}
        D.objects[2] = {b"Type": Name(b"Pages"), b"Kids": [Ref(3)], b"Count": 1}
        D.objects[3] = {b"Type": Name(b"Page"), b"Parent": Ref(2), b"MediaBox": [0, 0, 10, 10], b"Contents": Ref(4)}
        D.objects[4] = Stream({}, blob())
        md = {b"Type": Name(b"Metadata"), b"Subtype": Name(b"XML")}
        if rng.random() < 0.3:
            md.update(rng.choice(wild_stream_dicts(rng)))
        D.objects[5] = Stream(md, blob())
        D.objects[6] = {b"A": Str(blob()), b"B": [Str(blob()), {b"C": Str(blob())}]}
        for k, sd in enumerate(wild_stream_dicts(rng)):
            if rng.random() < 0.3:
                sd[b"Note"] = Str(blob())
            D.objects[7 + k] = Stream(sd, blob())
        id0 = bytes(rng.randrange(256) for _ in range(16))
        tr = {b"Root": Ref(1), b"Encrypt": e, b"ID": [Str(id0), Str(id0)]}
        path = os.path.join(work, "wild%03d.pdf" % i)
        with open(path, "wb") as fh:
            fh.write(gen.write_classic_sparse(D, tr))
        files.append((path, V, e, key, id0, D))
    impl = [parse_drv(o) for o in common.run_lines(drv, ["c6leaves %s H:%s 1" % (hexs(p.encode()), k.hex()) for p, V, e, k, i0, D in files], shards=4)]
    opened = run(["c6open " + " ".join(gen.rdict_tokens(e) + [hexs(i0), "H:" + hexs(k)]) for p, V, e, k, i0, D in files], shards=4)
    dl, meta = [], []
    for (p, V, e, k, i0, D), mo in zip(files, opened):
        mf = mo.split()
        if mf[0] != "ok":
            continue
        rd = gen.rdict_tokens(e)
        for n, o in sorted(D.objects.items()):
            leaves = []

            def walk(x, path_):
                if isinstance(x, Str):
                    leaves.append(("s:o", path_, x.b))
                elif isinstance(x, list):
                    for j, y in enumerate(x):
                        walk(y, path_ + ("i%d" % j,))
                elif isinstance(x, dict):
                    for kk in sorted(x):
                        walk(x[kk], path_ + ("k" + hexs(kk),))
            walk(o.d if isinstance(o, Stream) else o, ())
            if isinstance(o, Stream):
                leaves.append((gen.sdict_token(o.d, n == 5), ("stream",), o.data))
            for kind, path_, data in leaves:
                lk = leaf_key({"num": n, "path": path_, "gen": 0})
                dl.append("c6dec " + " ".join(mf[1:13] + [kind, str(n), "0", hexs(data)]))
                dl.append("dqcase " + " ".join(rd + [kind]))
                meta.append((p, V, lk, kind))
    dout = run(dl, shards=4)
    by_file = {p: im for (p, V, e, k, i0, D), im in zip(files, impl)}
    tie, classes, nsel = [], set(), 0
    for (p, V, e, k, i0, D), im, mo in zip(files, impl, opened):
        mf = mo.split()
        if im["ok"] != (mf[0] == "ok"):
            tie.append((p, "-", "-", im.get("raw", "ok")[:120], mo[:120]))
        elif im["ok"]:
            mm = "".join(b if (a == "u" and b == "a") else a for a, b in zip(mf[6] + mf[7] + mf[8], im["methods"]))
            if mm != im["methods"] or im["V"] != mf[1] or im["key"].lower() != mf[9].lower():
                tie.append((p, "-", "initialize", "V=%s methods=%s key=%s" % (im["V"], im["methods"], im["key"]), " ".join(mf[1:10])))
            classes.add(("open", V, mf[6] + mf[7] + mf[8], "CF" in [x.decode() for x in e], "EM" if b"EncryptMetadata" in e else ""))
    for j, (p, V, lk, kind) in enumerate(meta):
        im = by_file[p]
        if not im["ok"]:
            continue
        d, q = dout[2 * j].split(), dout[2 * j + 1].split()
        got = im["leaves"].get(lk)
        mgot = d[1] if d[0] == "ok" else "!error"
        kshape = kind if kind.startswith("s:") else ":".join(kind.split(":")[:2]) + ":" + re.sub(r"[0-9a-f]{2,}", "N", kind.split(":", 2)[2])
        classes.add((V, kshape, d[3] if d[0] == "ok" else d[-1], q[0], q[1]))
        if (got if got is not None else "absent") != mgot and not (got or "").startswith("!"):
            tie.append((p, lk, kind, (got or "absent")[:120], dout[2 * j][:160]))
        elif q[0] != "?" and q[1] == "0":
            nsel += 1
            if (d[3] if d[0] == "ok" else d[-1]) != q[0]:
                tie.append((p, lk, kind, "ISO rule (DqIso.v) method " + q[0] + ", outside the finding class", "model: " + dout[2 * j][:100]))
    if tie:
        t = tie[0]
        chk.violation({"kind": "correspondence-broken", "correspondence": "corr:C06:wild-dictionaries", "differing_cases": len(tie), "file": t[0], "leaf": t[1],
                       "leaf_kind": t[2], "implementation": t[3], "model": t[4]}, no_input=True)
    chk.count("wild-dictionaries", len(meta) + len(files), classes,
              samples=[{"case": dl[0][:200], "model": dout[0][:120], "iso method / class": dout[1]}] if dl else [])
    chk.cov["parts"]["wild-dictionaries"]["leaves_where_the_iso_rule_is_defined_outside_the_class"] = nsel


# ---------------------------------------------------------------- documented password recovery (re-encodings)
def recovery_part(chk, efs, run, drv, work):
    """user password stored in one encoding, supplied in another: opens with recovery, password error without"""
    tagged = [ef for ef in efs if ef.plan.get("tag") in ("latin1", "utf8")]
    jobs = []
    for ef in tagged:
        for role, pw in (("user", ef.user), ("owner", ef.owner)):
            other = pw.decode("latin-1").encode("utf-8") if ef.plan["tag"] == "latin1" else pw.decode("utf-8").encode("latin-1")
            for rec in (True, False):
                jobs.append((ef, role, other, rec))
    if not jobs:
        return
    encs = common.run_lines(drv, ["c6encodings " + hexs(j[2]) for j in jobs])
    mlines = []
    for (ef, role, other, rec), e in zip(jobs, encs):
        mlines.append("c6jobopen " + " ".join(gen.rdict_tokens(ef.encdict) + [hexs(ef.id0), "~", "1" if rec else "0", e, hexs(other)]))
    model = run(mlines)

    def runj(j):
        ef, role, other, rec = j
        return run_qpdf(([] if rec else ["--suppress-password-recovery"]) + [b"--password=" + other, "--requires-password", ef.path])
    res = common.par_map(runj, jobs, workers=4)
    tie = []
    for (ef, role, other, rec), (rc, so, se), mo, e in zip(jobs, res, model, encs):
        cands = [bytes.fromhex(x) if x != "-" else b"" for x in e.split(",")]
        uv = any(expected_flags(ef, c)[0] or expected_flags(ef, c)[1] for c in (cands if rec else [other]))
        want = 3 if uv else 0
        if rc != want:
            chk.violation({"kind": "property-fails-on-implementation", "part": "recovery", "what": "exit %d, expected %d (password in another encoding, recovery %s)" %
                           (rc, want, "on" if rec else "off"), "case": describe(ef, role, other)})
        mrc = 3 if mo.startswith("ok") else 0
        if mrc != rc:
            tie.append((describe(ef, role, other, {"recovery": rec, "encodings": e}), rc, mo[:200]))
    if tie:
        chk.violation({"kind": "correspondence-broken", "correspondence": "corr:C06:recovery", "differing_cases": len(tie), "first_case": tie[0][0],
                       "implementation": tie[0][1], "model": tie[0][2]}, no_input=True)
    chk.count("recovery", len(jobs), set((j[0].plan["scheme"], j[1], j[3], r[0]) for j, r in zip(jobs, res)),
              samples=[{"case": mlines[0][-120:], "model": model[0][:80]}])


# ---------------------------------------------------------------- entry points
def run(chk):
    drv = os.path.join(common.DRV, "drv")
    exe = os.path.join(common.EXTRACT, "model_runner")
    thorough = chk.tier == "thorough"
    runner = Runner(exe, use_cache=not thorough or os.environ.get("C06_CACHE") == "1")
    chk.cov["rule"] = ("static: every (action, input outcome, warnings) of the job model against the manual's exit codes; all 2^8 settings of the permission bits x R "
                       "plus random /P; files: generated documents x {(V,R)} x {StmF, StrF methods independently} x crypt filter naming x /Crypt override forms x "
                       "{classic, object streams + xref stream} x /P spelling x /Length spelling x {user, owner, wrong, empty, hex key} through the library "
                       "(leaf by leaf) and the binary; non-trivial = distinct (scheme, methods, layout, role, outcome) resp. (scheme, leaf class, method) "
                       "resp. (scheme, command, role, exit status); dq-rule: the extracted ISO rule for arbitrary dictionaries and the finding class on "
                       "every leaf of every generated file; wild-dictionaries: arbitrary (also ill-formed) encryption dictionaries x /Filter x /DecodeParms "
                       "shapes opened with the file key, library vs model byte for byte, model method vs ISO rule outside the finding class")
    perms = part_static(chk, runner)
    ps = lambda R, P: runner(["c6perms %d %d" % (R, P)])[0]
    try:
        part_files(chk, runner, drv, ps)
        part_wild(chk, runner, drv)
    finally:
        runner.save()
    chk.cov["r6_memo"] = {"hits": runner.hits, "computed_now": runner.fresh}


def replay(chk, rep):
    drv = os.path.join(common.DRV, "drv")
    exe = common.build_extract()
    runner = Runner(exe, use_cache=True)
    print(json.dumps(rep, indent=1, default=str)[:3000])
    c = rep.get("case") or rep.get("first_case")
    if isinstance(c, dict) and "plan" in c:
        work = common.workdir("C06-replay")
        efs = build_files(chk, [c["plan"]], runner, work)
        ps = lambda R, P: runner(["c6perms %d %d" % (R, P)])[0]
        judge_files(chk, efs, runner, drv, work, random.Random(0), ps)
        print("file:", efs[0].path)
    for k in chk.known_hits:
        print("KNOWN-FINDING: property=%s %s [%s]" % (chk.pid, k["what"][:200], k["id"]))
    for rep_, no_input in chk.violations[:8]:
        print("REPLAY-VIOLATION%s: %s" % (" (tie only)" if no_input else "", json.dumps(rep_, default=str)[:1500]))
    print("replay: %d violation(s), %d known finding(s) observed" % (len(chk.violations), len(chk.known_hits)))
    return 1 if chk.violations else 0
