(* C05: proofs about the crypto layer, qpdf's key derivation model and the ISO reference reader. *)
From QV Require Import Base.Bytes Filters.Filters Filters.C15ProofsB.
From QV Require Import Crypto.MD5 Crypto.SHA2 Crypto.AES Crypto.AesPdf Crypto.KeyDeriv Crypto.IsoRef Crypto.Perms.
Local Open Scope N_scope.

(* /P: on every option list in which --modify is absent, or comes first and the granular options
   after it only restrict further, the permission word qpdf writes is exactly the one the manual's
   table gives; all revisions. Finite and exhaustive: the lists are enumerated in the statement. *)
Lemma P_bits_table_partial_lemma :
  forallb (P_agrees 2) opts_R2 = true /\
  forallb (fun R => forallb (P_agrees R) opts_R3_granular && forallb (P_agrees R) opts_R3_modify_first) [3; 4; 5; 6] = true.
Proof. split; vm_compute; reflexivity. Qed.
