// C12 (extension) driver: QPDFPageLabelDocumentHelper::getLabelsForPageRange on label trees built in-process.
//
//   plabels <trees> <calls>  ->  idx:S:P:St,...  (the new_labels vector after all calls; - when empty)
//
// <trees> = tree/tree/...; a tree is - (document without /PageLabels) or key:S:P:St,... in ascending key order.
// S: 0 absent, 1 /D, 2 /R, 3 /r, 4 /A, 5 /a, 6 /X;  P: 0 absent, n = (p<n>);  St: - absent, an integer, x = 2.5 (not an integer).
// <calls> = f.start.end.newstart;...  : getLabelsForPageRange(start, end, newstart, new_labels) on document f, one shared vector.
#include "drv.hh"
#include <qpdf/QPDF.hh>
#include <qpdf/QPDFObjectHandle.hh>
#include <qpdf/QPDFPageLabelDocumentHelper.hh>
#include <memory>

namespace {
    std::vector<std::string> splitl(std::string const& s, char sep) {
        std::vector<std::string> r;
        if (s.empty()) return r;
        std::string cur;
        for (char c: s) { if (c == sep) { r.push_back(cur); cur.clear(); } else cur.push_back(c); }
        r.push_back(cur);
        return r;
    }
    char const* SN[7] = {"", "/D", "/R", "/r", "/A", "/a", "/X"};
}

static Reg r_plabels("plabels", [](std::vector<std::string> const& a) -> std::string {
    try {
        std::vector<std::shared_ptr<QPDF>> docs;
        for (auto const& t: splitl(a.at(0), '/')) {
            auto q = std::make_shared<QPDF>();
            q->emptyPDF();
            q->setSuppressWarnings(true);
            if (t != "-") {
                auto nums = QPDFObjectHandle::newArray();
                for (auto const& e: splitl(t, ',')) {
                    auto f = splitl(e, ':');
                    auto d = QPDFObjectHandle::newDictionary();
                    int s = std::stoi(f.at(1));
                    if (s) d.replaceKey("/S", QPDFObjectHandle::newName(SN[s]));
                    if (f.at(2) != "0") d.replaceKey("/P", QPDFObjectHandle::newString("p" + f.at(2)));
                    if (f.at(3) == "x") d.replaceKey("/St", QPDFObjectHandle::newReal("2.5"));
                    else if (f.at(3) != "-") d.replaceKey("/St", QPDFObjectHandle::newInteger(std::stoll(f.at(3))));
                    nums.appendItem(QPDFObjectHandle::newInteger(std::stoll(f.at(0))));
                    nums.appendItem(d);
                }
                auto pl = QPDFObjectHandle::newDictionary();
                pl.replaceKey("/Nums", nums);
                q->getRoot().replaceKey("/PageLabels", pl);
            }
            docs.push_back(q);
        }
        std::vector<QPDFObjectHandle> v;
        for (auto const& c: splitl(a.at(1), ';')) {
            auto f = splitl(c, '.');
            QPDFPageLabelDocumentHelper::get(*docs.at(std::stoul(f.at(0)))).getLabelsForPageRange(
                std::stoll(f.at(1)), std::stoll(f.at(2)), std::stoll(f.at(3)), v);
        }
        std::string out;
        for (size_t i = 0; i + 1 < v.size(); i += 2) {
            auto d = v[i + 1];
            auto S = d.getKey("/S"), P = d.getKey("/P"), St = d.getKey("/St");
            int s = 0;
            if (S.isName()) { s = 6; for (int k = 1; k < 6; ++k) if (S.getName() == SN[k]) s = k; }
            std::string p = "0";
            if (P.isString()) p = P.getStringValue().substr(1);
            out += (out.empty() ? "" : ",") + std::to_string(v[i].getIntValue()) + ":" + std::to_string(s) + ":" + p + ":" +
                (St.isInteger() ? std::to_string(St.getIntValue()) : std::string("-"));
        }
        return out.empty() ? "-" : out;
    } catch (std::exception const& e) {
        return std::string("?exception ") + e.what();
    }
});
