# Shared by the file-level checks (C01 C02 C09 C17 ...): inputs (generated + repository corpus),
# writer configurations, running qpdf, reading outputs with the extracted strict reader.
import json, os, re, subprocess, zlib
import common, pdfgen
from pdfgen import Name, Ref, Str, Real, Stream, D, N

CORPUS_DIR = os.path.join(common.REPO, "qpdf", "qtest", "qpdf")

ERR = {1: "header", 2: "startxref/%%EOF tail", 3: "xref section syntax", 4: "trailer dictionary", 5: "xref stream",
       6: "object not exactly at its xref offset / wrong number or generation", 7: "object syntax", 8: "stream keyword/EOL",
       9: "/Length differs from the actual stream length", 10: "endobj missing", 11: "/Size is not highest object number + 1",
       12: "/Root missing or free", 13: "object stream malformed", 14: "compressed-object entry does not match its object stream slot",
       15: "bytes not accounted for / overlapping objects", 16: "/Prev chain", 17: "duplicate dictionary key in trailer",
       18: "flate data of xref/object stream does not inflate to its exact length", 19: "generation"}


def corpus_files():
    return sorted(os.path.join(CORPUS_DIR, f) for f in os.listdir(CORPUS_DIR) if f.endswith(".pdf"))


def strict_read(paths):
    """run the extracted strict reader on files; returns list of dicts"""
    runner = os.path.join(common.EXTRACT, "model_runner")
    outs = common.run_lines(runner, ["strictf " + p for p in paths], shards=8)
    res = []
    for o in outs:
        try:
            res.append(json.loads(o))
        except Exception:
            res.append({"ok": False, "code": -1, "at": 0, "raw": o[:200]})
    return res


def pobj(j):
    """strict-reader JSON value -> pdfgen model"""
    if j is None or j is True or j is False:
        return j
    if isinstance(j, int):
        return j
    if isinstance(j, list):
        return [pobj(x) for x in j]
    if "r" in j:
        return Real(j["r"])
    if "s" in j:
        return Str(bytes.fromhex(j["s"]))
    if "n" in j:
        return Name(bytes.fromhex(j["n"]))
    if "ref" in j:
        return Ref(j["ref"][0], j["ref"][1])
    if "d" in j:
        return {bytes.fromhex(k): pobj(v) for k, v in j["d"]}
    raise ValueError(j)


class StrictDoc:
    """document as seen by the strict reader: objects {(n,g): value or Stream(raw)}"""

    def __init__(self, res, path):
        self.res = res
        self.version = res["version"]
        self.trailer = pobj(res["trailer"])
        self.xref_stream = res["xref_stream"]
        self.objs = {}
        self.where = {}
        data = open(path, "rb").read()
        self.size = len(data)
        for o in res["objects"]:
            v = pobj(o["val"])
            if o["stream"] is not None:
                a, l = o["stream"]
                v = Stream(v, data[a:a + l])
            if o["where"][0] == "c" and b"Encrypt" in self.trailer:
                import dociso
                v = dociso.OPAQUE
            self.objs[(o["num"], o["gen"])] = v
            self.where[(o["num"], o["gen"])] = o["where"]


def png_predict(raw, cols, rng):
    """PNG predictor encoding (Colors 1, 8 bits) with filter types None/Sub/Up per row: inverse of ISO 15948 9.2"""
    raw = raw + bytes(-len(raw) % cols)
    out = bytearray()
    prev = bytes(cols)
    for r in range(0, len(raw), cols):
        row = raw[r:r + cols]
        ft = rng.choice([0, 1, 2])
        if ft == 0:
            enc = row
        elif ft == 1:
            enc = bytes((row[i] - (row[i - 1] if i else 0)) & 255 for i in range(cols))
        else:
            enc = bytes((row[i] - prev[i]) & 255 for i in range(cols))
        out.append(ft)
        out += enc
        prev = row
    return bytes(out), raw


def rl_encode(raw):
    out = bytearray()
    for i in range(0, len(raw), 128):
        c = raw[i:i + 128]
        out.append(len(c) - 1)
        out += c
    out.append(128)
    return bytes(out)


def filtered_stream(rng, d, k):
    """a stream whose filter chain / parameters exercise QPDF_Stream's pairing of /Filter with /DecodeParms and the writer's
    treatment of stream parameters: multi-filter chains with a parameter array, predictors on a non-first filter, indirect
    /Filter, /DecodeParms, array elements (objects nothing else references)"""
    raw = bytes(rng.choice(b"abc \n\x00\xff") for _ in range(rng.choice([8, 64, 96, 300])))
    cols = rng.choice([1, 4, 8, 12])
    shape = rng.randrange(10)
    ahx = lambda b: b.hex().encode() + b">"
    if shape == 9:
        # decode parameters outside their ranges (7.4.4.4: Predictor 1,2,10..15; Colors >= 1; BitsPerComponent 1,2,4,8,16; Columns >= 1;
        # EarlyChange 0,1): such a stream cannot be decoded, so it must be carried over byte for byte with its parameters
        bad = rng.choice([D(Predictor=3, Columns=4), D(Predictor=12, Columns=0), D(Predictor=12, Columns=4, BitsPerComponent=3),
                          D(Predictor=2, Columns=4, Colors=0), D(Predictor=16, Columns=4), D(Predictor=12, Columns=4, BitsPerComponent=32)])
        return Stream({b"Marker": k, b"Filter": N("FlateDecode"), b"DecodeParms": bad}, zlib.compress(raw))
    pred, raw_p = png_predict(raw, cols, rng)
    pp = D(Predictor=rng.choice([10, 12, 15]), Columns=cols)
    if shape == 0:      # Flate + predictor, direct parameters
        return Stream({b"Marker": k, b"Filter": N("FlateDecode"), b"DecodeParms": pp}, zlib.compress(pred))
    if shape == 1:      # [AHx Fl] with [null parms]: the predictor belongs to the SECOND filter
        return Stream({b"Marker": k, b"Filter": [N("ASCIIHexDecode"), N("FlateDecode")], b"DecodeParms": [None, pp]}, ahx(zlib.compress(pred)))
    if shape == 2:      # [Fl AHx] with [parms null]: the predictor belongs to the FIRST filter, applied to hex text
        h = raw.hex().encode()
        h = h + b" " * (-(len(h) + 1) % cols) + b">"          # a whole number of rows, padding before the EOD marker
        predh, _ = png_predict(h, cols, rng)
        # decoded data = hex-decoded (unpredicted h); ground truth is computed by the oracle's own decoder
        return Stream({b"Marker": k, b"Filter": [N("FlateDecode"), N("ASCIIHexDecode")], b"DecodeParms": [pp, None]}, zlib.compress(predh))
    if shape == 3:      # indirect /DecodeParms
        return Stream({b"Marker": k, b"Filter": N("FlateDecode"), b"DecodeParms": d.add(pp)}, zlib.compress(pred))
    if shape == 4:      # indirect /Filter name
        return Stream({b"Marker": k, b"Filter": d.add(N("FlateDecode"))}, zlib.compress(raw))
    if shape == 5:      # indirect elements inside the /Filter and /DecodeParms arrays
        return Stream({b"Marker": k, b"Filter": [d.add(N("ASCIIHexDecode")), N("FlateDecode")], b"DecodeParms": [None, d.add(pp)]}, ahx(zlib.compress(pred)))
    if shape == 6:      # three filters, parameters on the last
        return Stream({b"Marker": k, b"Filter": [N("ASCIIHexDecode"), N("RunLengthDecode"), N("FlateDecode")], b"DecodeParms": [None, None, pp]},
                      ahx(rl_encode(zlib.compress(pred))))
    if shape == 7:      # single non-Flate filters
        return Stream({b"Marker": k, b"Filter": N("RunLengthDecode")}, rl_encode(raw))
    return Stream({b"Marker": k, b"Filter": [N("ASCIIHexDecode")], b"DecodeParms": [None]}, ahx(raw))


def big_xref_check(path):
    """lightweight structural oracle (Python) for outputs too large for the extracted strict reader: newest cross-reference
    section (table or stream, not linearized) -> every in-use entry points exactly at 'N G obj', every compressed entry names a
    slot of an object stream that lists that object there, /Size = highest number + 1. Returns a list of problems."""
    data = open(path, "rb").read()
    m = re.search(rb"startxref\s+(\d+)\s+%%EOF\s*$", data[-200:])
    if not m:
        return ["no startxref/%%EOF tail"]
    xoff = int(m.group(1))
    probs = []
    ents = {}
    if data[xoff:xoff + 4] == b"xref":
        pos = xoff + 4
        mm = re.compile(rb"\s*(\d+) (\d+)\s*\n")
        while True:
            h = mm.match(data, pos)
            if not h:
                break
            start, cnt = int(h.group(1)), int(h.group(2))
            pos = h.end()
            for i in range(cnt):
                line = data[pos:pos + 20]
                if not re.fullmatch(rb"\d{10} \d{5} [nf][ \r][\r\n]", line):
                    return ["malformed xref line for object %d" % (start + i)]
                ents[start + i] = (1 if line[17:18] == b"n" else 0, int(line[:10]), int(line[11:16]))
                pos += 20
        tm = re.search(rb"/Size (\d+)", data[pos:pos + 2000])
        size = int(tm.group(1)) if tm else None
    else:
        h = re.match(rb"(\d+) (\d+) obj\s*<<(.*?)>>\s*stream\r?\n", data[xoff:xoff + 4000], re.S)
        if not h:
            return ["startxref %d points neither at 'xref' nor at an object" % xoff]
        d = h.group(3)
        W = [int(x) for x in re.search(rb"/W \[\s*(\d+) (\d+) (\d+)\s*\]", d).groups()]
        size = int(re.search(rb"/Size (\d+)", d).group(1))
        length = int(re.search(rb"/Length (\d+)", d).group(1))
        im = re.search(rb"/Index \[([\d\s]+)\]", d)
        index = [int(x) for x in im.group(1).split()] if im else [0, size]
        raw = data[xoff + h.end():xoff + h.end() + length]
        if b"/FlateDecode" in d:
            raw = zlib.decompress(raw)
            pm = re.search(rb"/Predictor (\d+)", d)
            if pm and int(pm.group(1)) >= 10:
                cols = int(re.search(rb"/Columns (\d+)", d).group(1))
                out, prev = bytearray(), bytes(cols)
                for r in range(0, len(raw), cols + 1):
                    ft, row = raw[r], raw[r + 1:r + 1 + cols]
                    if ft == 2:
                        row = bytes((a + b) & 255 for a, b in zip(row, prev))
                    elif ft != 0:
                        return ["xref stream uses PNG filter type %d (oracle handles None/Up)" % ft]
                    out += row
                    prev = row
                raw = bytes(out)
        w = sum(W)
        k = 0
        for j in range(0, len(index), 2):
            for n in range(index[j], index[j] + index[j + 1]):
                e = raw[k * w:(k + 1) * w]
                k += 1
                if len(e) < w:
                    return ["xref stream data too short"]
                t = int.from_bytes(e[:W[0]], "big") if W[0] else 1
                ents[n] = (t, int.from_bytes(e[W[0]:W[0] + W[1]], "big"), int.from_bytes(e[W[0] + W[1]:], "big"))
    if size is not None and ents and size != max(ents) + 1:
        probs.append("/Size %s but highest object number is %d" % (size, max(ents)))
    ostm = {}
    for n, (t, a, b) in sorted(ents.items()):
        if t == 1:
            want = b"%d %d obj" % (n, b)
            if data[a:a + len(want)] != want or (a > 0 and data[a - 1:a] not in b"\n\r "):
                probs.append("entry of object %d (offset %d) does not point at '%s'" % (n, a, want.decode()))
        elif t == 2:
            ostm.setdefault(a, []).append((b, n))
    for snum, members in ostm.items():
        e = ents.get(snum)
        if not e or e[0] != 1:
            probs.append("object stream %d of compressed entries is not an in-use object" % snum)
            continue
        h = re.match(rb"\d+ \d+ obj\s*<<(.*?)>>\s*stream\r?\n", data[e[1]:e[1] + 2000], re.S)
        if not h:
            probs.append("object stream %d unreadable" % snum)
            continue
        d = h.group(1)
        length = int(re.search(rb"/Length (\d+)", d).group(1))
        raw = data[e[1] + h.end():e[1] + h.end() + length]
        if b"/FlateDecode" in d:
            raw = zlib.decompress(raw)
        N_ = int(re.search(rb"/N (\d+)", d).group(1))
        nums = [int(x) for x in raw[:int(re.search(rb"/First (\d+)", d).group(1))].split()]
        for idx, n in members:
            if idx >= N_ or nums[2 * idx] != n:
                probs.append("compressed entry of object %d names slot %d of stream %d, which holds %s" % (n, idx, snum, nums[2 * idx] if idx < N_ else "nothing"))
    return probs[:5]


# ------------------------------------------------------------------ generated inputs

def gen_docs(rng, n, big=False):
    """generated documents with ground truth: returns list of (name, bytes, pdfgen.Doc)"""
    out = []
    for i in range(n):
        npages = rng.choice([1, 1, 2, 3, 5, 8])
        d = pdfgen.page_doc(npages, marker="G", kids_levels=rng.choice([1, 2]),
                            rotate={1: 90} if rng.random() < 0.3 else None)
        # extra objects of every scalar kind, shared and cyclic references, nulls, odd strings and names
        extras = {}
        nx = rng.choice([0, 3, 10, 40]) if not big else rng.choice([90, 99, 100, 101, 199, 201, 260])
        prev = None
        for k in range(nx):
            kind = rng.randrange(11)
            if kind == 10:
                # signature dictionaries (12.8.1): /Contents is a hex string that is never encrypted; /Type is optional
                v = {b"ByteRange": [0, 100, 300, 50], b"Contents": Str(bytes(rng.randrange(256) for _ in range(rng.choice([16, 40, 112])))),
                     b"Filter": N("Adobe.PPKLite"), b"Name": Str(b"signer %d" % k)}
                if rng.random() < 0.5:
                    v[b"Type"] = N("Sig")
            elif kind >= 8:
                v = filtered_stream(rng, d, k)
            elif kind == 0:
                if rng.random() < 0.5:
                    v = Str(bytes(rng.randrange(256) for _ in range(rng.choice([0, 1, 5, 30]))))
                else:
                    # literal-form strings (mostly ASCII) with the rare escapes: control characters that need octal escapes
                    # directly followed by digits, DEL, C1 bytes, Latin-1, named escapes, parentheses, backslashes
                    base = bytearray(rng.choice(b"abcXYZ 0123456789") for _ in range(rng.choice([12, 30, 60])))
                    for _ in range(rng.choice([1, 2, 3])):
                        pos = rng.randrange(len(base))
                        base[pos:pos + 1] = bytes([rng.choice([0x18, 0x19, 0x1a, 0x1b, 0x1c, 0x1d, 0x1e, 0x1f, 0x7f, 0x80, 0x9f, 0xa0, 0xff, 8, 9, 10, 12, 13, 40, 41, 92])]) \
                            + bytes([rng.choice(b"0123456789a")])
                    v = Str(bytes(base))
            elif kind == 1:
                v = [rng.randint(-5, 70000), Real(rng.choice(["1.5", "-0.25", "3.", ".5", "0.0", "100.000"])), True, False, None]
            elif kind == 2:
                v = {b"K" + bytes([rng.choice(b"abc#/ ()")]) + b"x": Name(bytes(rng.choice(b"AZaz09#/() \xe9\x7f") for _ in range(rng.randint(1, 6))))}
            elif kind == 3:
                v = D(A=Str(b"(unbalanced"), B=Str(b"bal(anc)ed"), C=Str(b"line\r\nbreak\\"), N=None)
            elif kind == 4 and prev is not None:
                v = D(Prev=prev, Self=Ref(max(d.objects) + 1))
            elif kind == 5:
                if rng.random() < 0.5:
                    v = Stream(D(Marker=k), bytes(rng.randrange(256) for _ in range(rng.choice([0, 1, 100, 3000]))))
                else:
                    # sizes around the writer's filter/compress decisions: empty, tiny, and highly compressible data
                    v = Stream(D(Marker=k), rng.choice([b"", b"q Q", b"\n" * 200, b"q Q" + b"\n" * 200, b"0 " * 40, bytes(33), bytes(31), b"x" * 16]))
            elif kind == 6:
                raw = bytes(rng.choice(b"abc \n") for _ in range(rng.choice([10, 500])))
                v = Stream({b"Filter": N("FlateDecode")}, zlib.compress(raw))
            else:
                v = rng.randint(-2 ** 40, 2 ** 40)
            prev = d.add(v)
            extras[b"X%d" % k] = prev
        if extras:
            d.objects[1][b"Extras"] = d.add(extras)
        # developer extensions (7.12): qpdf owns /ADBE and the directness of /Extensions; other vendors' entries are content
        r = rng.random()
        if r < 0.3:
            ext = {b"XVRF": D(BaseVersion=N("1.7"), ExtensionLevel=rng.randint(1, 9))}
            if rng.random() < 0.6:
                ext[b"ADBE"] = D(BaseVersion=N("1.7"), ExtensionLevel=rng.choice([3, 8])) if rng.random() < 0.5 \
                    else d.add(D(BaseVersion=N("1.7"), ExtensionLevel=3))
            d.objects[1][b"Extensions"] = ext if rng.random() < 0.5 else d.add(ext)
        info = D(Title=Str(b"doc %d" % i), Producer=Str(b"verif"))
        r = rng.random()
        if r < 0.75:
            d.trailer[b"Info"] = d.add(info)
        elif r < 0.9:
            d.trailer[b"Info"] = info                     # direct /Info dictionary (unusual, legal to read)
        if rng.random() < 0.15:
            d.trailer[b"Note"] = Str(b"direct trailer string %d" % i)
        data, _ = pdfgen.write_classic(d, with_id=(b"0123456789abcdef", b"fedcba9876543210") if rng.random() < 0.7 else None)
        out.append(("gen%d" % i, data, d))
    return out


def padded_doc(pad, npages=1):
    """one-page document whose content stream carries `pad` bytes of padding (offset boundaries)"""
    d = pdfgen.page_doc(npages, marker="B")
    # first page's content stream is object 4 (cat 1, pages 2, font 3, cs 4, page 5)
    s = d.objects[4]
    s.data = s.data + b"%" + b"x" * pad + b"\n"
    d.trailer[b"Root"] = Ref(1)
    return d


CONFIGS_QUICK = [
    ["--object-streams=disable"], ["--object-streams=generate"], ["--object-streams=preserve"],
    ["--object-streams=disable", "--compress-streams=n"], ["--object-streams=generate", "--compress-streams=n"],
    ["--linearize"], ["--linearize", "--object-streams=generate"], ["--qdf"], ["--qdf", "--object-streams=generate"],
    ["--stream-data=uncompress", "--newline-before-endstream"], ["--object-streams=generate", "--recompress-flate", "--compression-level=9"],
    ["--min-version=1.6"], ["--force-version=1.3", "--object-streams=generate"], ["--preserve-unreferenced"],
    ["--encrypt", "--user-password=u", "--owner-password=o", "--bits=256", "--"],
    ["--allow-weak-crypto", "--encrypt", "--user-password=u", "--owner-password=o", "--bits=128", "--use-aes=n", "--"],
    ["--linearize", "--encrypt", "--user-password=", "--owner-password=o", "--bits=256", "--", "--object-streams=generate"],
    ["--decode-level=all", "--stream-data=uncompress"], ["--normalize-content=y"], ["--coalesce-contents", "--object-streams=generate"],
    ["--min-version=1.7.8"], ["--force-version=1.7.5", "--object-streams=preserve"],
    ["--allow-weak-crypto", "--encrypt", "--user-password=u", "--owner-password=o", "--bits=128", "--use-aes=y", "--", "--object-streams=generate"],
]


def config_name(cfg):
    return " ".join(cfg)


def run_write(inp, cfg, out, extra=("--static-id", "--static-aes-iv")):
    rc, so, se = common.run_qpdf(list(extra) + list(cfg) + [inp, out])
    return rc, se
