(* The reading of qpdf tokens as the lexical objects of the specification (abstraction function of
   the correspondence between Lex/TokModel.v and Lex/LexSpec.v), and the model-side whole-input lexer:
   nextToken repeated until tt_eof, as impl::Parser drives the tokenizer (allowEOF, ignorable tokens
   not included, no length limit).  The numeric value of an integer token is what
   QUtil::string_to_ll (strtoll, base 10) computes from the token text; a real token keeps its text
   (QPDF_Real stores the spelling), read here as mantissa / 10^scale.  No proofs in this file. *)
From QV Require Import Base.Bytes Lex.TokModel Lex.LexSpec.
Local Open Scope N_scope.

Definition text_sign (s : list N) : bool * list N :=
  match s with
  | b :: r => if b =? 45 then (true, r) else if b =? 43 then (false, r) else (false, s)
  | [] => (false, [])
  end.

Definition int_of_text (s : list N) : Z :=
  let '(neg, ds) := text_sign s in
  let v := Z.of_N (dec_value ds) in if neg then (- v)%Z else v.

Fixpoint real_scan (body : list N) (seen_dot : bool) (m k : N) : N * N :=
  match body with
  | [] => (m, k)
  | b :: r => if b =? 46 then real_scan r true m k
              else real_scan r seen_dot (m * 10 + (b - 48)) (if seen_dot then k + 1 else k)
  end.

Definition real_of_text (s : list N) : Z * N :=
  let '(neg, body) := text_sign s in
  let '(m, k) := real_scan body false 0 0 in
  ((if neg then - Z.of_N m else Z.of_N m)%Z, k).

Definition terr_is_none (e : terr) : bool := match e with TE_none => true | _ => false end.

(* None: the token is bad / carries an error message / is not a lexical object (eof, space, comment) *)
Definition tok_interp (tok : token) : option ptoken :=
  if negb (terr_is_none (tok_err tok)) then None else
  match tok_type tok with
  | TT_array_open => Some PArrOpen
  | TT_array_close => Some PArrClose
  | TT_dict_open => Some PDictOpen
  | TT_dict_close => Some PDictClose
  | TT_brace_open => Some PBraceOpen
  | TT_brace_close => Some PBraceClose
  | TT_integer => Some (PInt (int_of_text (tok_value tok)))
  | TT_real => let '(m, k) := real_of_text (tok_value tok) in Some (PReal m k)
  | TT_string => Some (PStr (tok_value tok))
  | TT_name => match tok_value tok with
               | s :: n => if s =? 47 then Some (PName n) else None
               | [] => None
               end
  | TT_bool => Some (PBool (list_eqb N.eqb (tok_value tok) str_true))
  | TT_null => Some PNull
  | TT_word => Some (PKeyword (tok_value tok))
  | _ => None
  end.

Definition tk_parser : tk := tk_new true false.

Fixpoint model_lex_fuel (fuel : nat) (t : tk) (inp : list N) (pos : N) (acc : list ptoken)
  : option (list ptoken) :=
  match fuel with
  | O => None
  | S f =>
      let '(t1, rest, newpos, _) := next_token 0 t inp pos in
      if ttype_eqb (t_type t1) TT_eof then Some (rev' acc)
      else match tok_interp (tk_token t1) with
           | None => None
           | Some p => model_lex_fuel f t1 rest newpos (p :: acc)
           end
  end.

Definition model_lex (inp : list N) : option (list ptoken) :=
  model_lex_fuel (S (length inp)) tk_parser inp 0 [].
