// C03 reader driver: the real qpdf reads a file from memory (recovery enabled, as the CLI does) and prints its view
// in the same text form as ocaml/h_read.ml prints the view of the extracted reader model (coq/File/RdModel.v):
// version, warning classes, trailer, and for every (obj, gen) of the cross-reference table the value and the raw
// stream bytes.
#include "drv.hh"
#include <qpdf/QPDF.hh>
#include <qpdf/QPDFExc.hh>
#include <qpdf/QPDFObjectHandle.hh>
#include <qpdf/QPDFXRefEntry.hh>
#include <qpdf/Buffer.hh>
#include <fstream>
#include <iterator>
#include <set>

static std::string hx(std::string const& s) { return s.empty() ? std::string() : hex(s); }

static void ser(std::string& out, QPDFObjectHandle o, int depth = 0)
{
    if (depth > 600) { out += "?deep"; return; }
    if (o.isIndirect() && depth > 0) {
        out += "R" + std::to_string(o.getObjectID()) + "." + std::to_string(o.getGeneration());
        return;
    }
    if (o.isNull()) { out += "n"; }
    else if (o.isBool()) { out += o.getBoolValue() ? "t" : "f"; }
    else if (o.isInteger()) { out += "i" + std::to_string(o.getIntValue()); }
    else if (o.isReal()) { out += "r" + hx(o.getRealValue()); }
    else if (o.isString()) { out += "s" + hx(o.getStringValue()); }
    else if (o.isName()) { out += "N" + hx(o.getName()); }
    else if (o.isOperator()) { out += "o" + hx(o.getOperatorValue()); }
    else if (o.isArray()) {
        out += "[";
        int n = o.getArrayNItems();
        for (int i = 0; i < n; ++i) {
            if (i) out += ",";
            ser(out, o.getArrayItem(i), depth + 1);
        }
        out += "]";
    } else if (o.isDictionary() || o.isStream()) {
        QPDFObjectHandle d = o.isStream() ? o.getDict() : o;
        out += "<";
        bool first = true;
        for (auto const& [k, v]: d.getDictAsMap()) {
            if (!v.isIndirect() && v.isNull()) continue;
            if (!first) out += ",";
            first = false;
            out += hx(k) + ":";
            ser(out, v, depth + 1);
        }
        out += ">";
        if (o.isStream()) {
            auto b = o.getRawStreamData();
            out += "|" + hx(std::string(reinterpret_cast<char const*>(b->getBuffer()), b->getSize()));
        }
    } else {
        out += "?type";
    }
}

static bool has(std::string const& s, char const* sub) { return s.find(sub) != std::string::npos; }

static std::string classify(std::string const& m)
{
    if (has(m, "expected endobj")) return "endobj";
    if (has(m, "carriage return only")) return "cr_only";
    if (has(m, "not followed by proper line terminator")) return "no_eol";
    if (has(m, "stream keyword followed by extraneous whitespace")) return "extra_ws";
    if (has(m, "extraneous whitespace seen before xref")) return "xref1";
    if (has(m, "stream dictionary lacks /Length key")) return "len1";
    if (has(m, "/Length key in stream dictionary is not an integer")) return "len2";
    if (has(m, "expected endstream")) return "len3";
    if (has(m, "attempting to recover stream length") || has(m, "recovered stream length") || has(m, "unable to recover stream data")) return "";
    if (has(m, "object has offset 0")) return "offset0";
    if (has(m, "EOF after endobj")) return "exc1";
    if (has(m, "is not a stream")) return "exc2";
    if (has(m, "has incorrect keys")) return "exc3";
    if (has(m, "invalid /First")) return "exc4";
    if (has(m, "expected integer in object stream header")) return "exc5";
    if (has(m, "error reading object")) return "exc6";
    if (has(m, "loop detected resolving object")) return "loop";
    if (has(m, "has wrong type")) return "objstm1";
    if (has(m, "claims to contain itself")) return "objstm2";
    if (has(m, "object id is invalid")) return "objstm3";
    if (has(m, "must be larger than previous offset")) return "objstm4";
    if (has(m, "is too large")) return "objstm5";
    if (has(m, "self-referential object stream")) return "xref3";
    if (has(m, "is impossibly large")) return "xref4";
    if (has(m, "Cross-reference stream data has the wrong size")) return "xref5";
    if (has(m, "reported number of objects") || has(m, "xref entry for the xref stream itself is missing")) return "xref6";
    if (has(m, "stream keyword found in trailer")) return "xref7";
    if (has(m, "ignoring in-use entry with invalid generation")) return "xref2";
    if (has(m, "can't find PDF header")) return "header";
    if (has(m, "/Type entry to /Catalog")) return "catalog_type";
    if (has(m, "returning 0") || has(m, "returning INT_M") || has(m, "returning UINT_MAX") || has(m, "returning largest") || has(m, "returning smallest")) return "conv";
    if (has(m, "expected n n obj")) return "recon1";
    if (has(m, "object with ID 0")) return "recon2";
    if (has(m, "reconstruct") || has(m, "regenerating cross reference")) return "reconstruct";
    if (m.find("expected ") == 0 && has(m, " obj")) return "recon3";
    return "parse";
}

static std::string rd_view(std::string const& data)
{
    QPDF pdf;
    pdf.setSuppressWarnings(true);
    std::string body;
    std::string status = "doc";
    try {
        pdf.processMemoryFile("mem", data.data(), data.size());
        body = " T=";
        ser(body, pdf.getTrailer());
        for (auto const& [og, e]: pdf.getXRefTable()) {
            body += " " + std::to_string(og.getObj()) + "." + std::to_string(og.getGen()) + "=";
            ser(body, pdf.getObject(og));
        }
    } catch (std::logic_error const&) {
        throw;
    } catch (std::exception const& e) {
        status = "fatal";
        body = std::string(" ") + hx(e.what());
    }
    std::set<std::string> cls;
    bool recon = false;
    for (auto const& w: pdf.getWarnings()) {
        auto c = classify(w.getMessageDetail());
        if (c == "reconstruct") recon = true;
        if (!c.empty()) cls.insert(c);
    }
    std::string w;
    for (auto const& c: cls) { if (!w.empty()) w += ","; w += c; }
    if (w.empty()) w = "-";
    return status + " v=" + hx(status == "doc" ? pdf.getPDFVersion() : std::string()) + " recon=" + (recon ? "1" : "0") + " w=" + w + body;
}

static Reg r_rd_view("rd_view", [](std::vector<std::string> const& a) -> std::string { return rd_view(unhex(a.at(0))); });
static Reg r_rd_viewf("rd_viewf", [](std::vector<std::string> const& a) -> std::string {
    std::ifstream f(a.at(0), std::ios::binary);
    std::string data((std::istreambuf_iterator<char>(f)), std::istreambuf_iterator<char>());
    return rd_view(data);
});
