let () = Runner.main ()
