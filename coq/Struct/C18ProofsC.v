(* C18 proofs, part 4 (general, any key type, any tree, any threshold): resetLimits changes nothing
   but /Limits, and split() -- with its recursion up the path and the root push-down -- neither
   loses, duplicates nor reorders entries. *)
From QV Require Import Base.Bytes Struct.NNTreeModel Struct.NNTreeSpec.
Local Open Scope Z_scope.

Section Content.
  Variable K : Type.
  Variable kcmp : K -> K -> comparison.
  Notation node := (nnode K).
  Notation abs := (nn_abs K).
  Notation get := (nn_get K).
  Notation upd := (nn_upd K).

  (* the tree with every /Limits entry removed *)
  Fixpoint nn_erase (n : node) : node :=
    match n with
    | NLeaf _ items => NLeaf None items
    | NInner _ kids => NInner None (map nn_erase kids)
    end.
  Notation E := nn_erase.

  Lemma abs_erase_list : forall kids, (forall k, In k kids -> abs (E k) = abs k) ->
    flat_map abs (map E kids) = flat_map abs kids.
  Proof.
    induction kids as [|k ks IH]; intros H; simpl; [reflexivity|].
    rewrite H by (left; reflexivity). rewrite IH; [reflexivity|]. intros; apply H; right; assumption.
  Qed.

  Lemma nnode_ind' (P : node -> Prop) :
    (forall l items, P (NLeaf l items)) ->
    (forall l kids, Forall P kids -> P (NInner l kids)) -> forall n, P n.
  Proof.
    intros HL HI. fix IH 1. intros [l items|l kids]; [apply HL|]. apply HI.
    revert kids. fix aux 1. intros [|k ks]; constructor; [apply IH|apply aux].
  Qed.

  Lemma abs_erase : forall n, abs (E n) = abs n.
  Proof.
    induction n as [l items|l kids IH] using nnode_ind'; simpl; [reflexivity|].
    apply abs_erase_list. rewrite Forall_forall in IH. exact IH.
  Qed.

  Lemma erase_set_lim : forall l n, E (nn_set_lim K l n) = E n.
  Proof. intros l [? ?|? ?]; reflexivity. Qed.

  Lemma map_upd_nth {A B} (g : A -> B) (f : A -> A) (f' : B -> B) :
    (forall x, g (f x) = f' (g x)) ->
    forall l i, map g (nn_upd_nth l i f) = nn_upd_nth (map g l) i f'.
  Proof.
    intros H. induction l as [|x l IH]; intros [|i]; simpl; try reflexivity.
    - rewrite H. reflexivity.
    - rewrite IH. reflexivity.
  Qed.

  (* erasing commutes with an update whose function commutes with erasing *)
  Lemma erase_upd : forall p root f g, (forall n, E (f n) = g (E n)) ->
    E (upd root p f) = upd (E root) p g.
  Proof.
    induction p as [|i p IH]; intros root f g H; simpl; [apply H|].
    destruct root as [l items|l kids]; simpl; [reflexivity|].
    destruct (i <? 0); simpl; [reflexivity|]. f_equal.
    apply map_upd_nth. intros k. apply IH. exact H.
  Qed.

  Lemma upd_nth_id {A} (l : list A) i (f : A -> A) : (forall x, f x = x) -> nn_upd_nth l i f = l.
  Proof.
    intros H. revert i. induction l as [|x l IH]; intros [|i]; simpl; try reflexivity.
    - rewrite H. reflexivity.
    - rewrite IH. reflexivity.
  Qed.
  Lemma upd_id : forall p root f, (forall n, f n = n) -> upd root p f = root.
  Proof.
    induction p as [|i p IH]; intros root f H; simpl; [apply H|].
    destruct root as [l items|l kids]; [reflexivity|].
    destruct (i <? 0); [reflexivity|]. f_equal. apply upd_nth_id. intros k. apply IH. exact H.
  Qed.

  Lemma erase_upd_set_lim : forall p root l, E (upd root p (nn_set_lim K l)) = E root.
  Proof.
    intros p root l. rewrite (erase_upd p root _ (fun n => n)).
    - apply upd_id. reflexivity.
    - intros n. apply erase_set_lim.
  Qed.

  (* resetLimits changes nothing but /Limits *)
  Lemma reset_loop_erase : forall J da path root w,
    E (fst (nn_reset_loop K kcmp J da path root w)) = E root.
  Proof.
    induction J as [|j IH]; intros da path root w; simpl.
    - apply erase_upd_set_lim.
    - destruct (get root (firstn da path)) as [a|]; [|reflexivity].
      assert (Hc : forall r w', E (fst (match j with
                                        | O => (r, w')
                                        | S _ => nn_reset_loop K kcmp j j path r w'
                                        end)) = E r).
      { intros r w'. destruct j; [reflexivity|]. apply IH. }
      destruct (nn_first_last K a) as [[f l]|]; [|apply Hc].
      match goal with |- context [if ?b then _ else _] => destruct b end; [reflexivity|].
      rewrite Hc. destruct da; [reflexivity|]. apply erase_upd_set_lim.
  Qed.

  (* ---- paths *)
  Lemma znth_map {A B} (g : A -> B) l i : nn_znth (map g l) i = option_map g (nn_znth l i).
  Proof. unfold nn_znth. destruct (i <? 0); [reflexivity|]. apply nth_error_map. Qed.

  Lemma get_erase : forall p root, get (E root) p = option_map E (get root p).
  Proof.
    induction p as [|i p IH]; intros root; simpl; [reflexivity|].
    destruct root as [l items|l kids]; simpl; [reflexivity|].
    rewrite znth_map. destruct (nn_znth kids i); simpl; [apply IH|reflexivity].
  Qed.

  Lemma upd_nth_ext {A} (f g : A -> A) : (forall x, f x = g x) ->
    forall l i, nn_upd_nth l i f = nn_upd_nth l i g.
  Proof.
    intros H. induction l as [|x l IH]; intros [|i]; simpl; try reflexivity.
    - rewrite H. reflexivity.
    - rewrite IH. reflexivity.
  Qed.
  Lemma upd_ext : forall p root f g, (forall n, f n = g n) -> upd root p f = upd root p g.
  Proof.
    induction p as [|i p IH]; intros root f g H; simpl; [apply H|].
    destruct root as [l items|l kids]; [reflexivity|].
    destruct (i <? 0); [reflexivity|]. f_equal. apply upd_nth_ext. intros k. apply IH. exact H.
  Qed.

  Lemma upd_app : forall p q root f, upd root (p ++ q) f = upd root p (fun n => upd n q f).
  Proof.
    induction p as [|i p IH]; intros q root f; simpl; [reflexivity|].
    destruct root as [l items|l kids]; [reflexivity|].
    destruct (i <? 0); [reflexivity|]. f_equal. apply upd_nth_ext. intros k. apply IH.
  Qed.

  Lemma get_app : forall p q root,
    get root (p ++ q) = match get root p with Some n => get n q | None => None end.
  Proof.
    induction p as [|i p IH]; intros q root; simpl; [reflexivity|].
    destruct root as [l items|l kids]; [reflexivity|].
    destruct (nn_znth kids i); [apply IH|reflexivity].
  Qed.

  Lemma znth_upd_nth {A} (l : list A) (i : Z) (f : A -> A) : 0 <= i ->
    nn_znth (nn_upd_nth l (Z.to_nat i) f) i = option_map f (nn_znth l i).
  Proof.
    intros Hi. unfold nn_znth. destruct (i <? 0) eqn:E0; [apply Z.ltb_lt in E0; lia|].
    generalize (Z.to_nat i). clear. intros j. revert j.
    induction l as [|x l IH]; intros [|j]; simpl; try reflexivity. apply IH.
  Qed.

  Lemma znth_nonneg {A} (l : list A) i x : nn_znth l i = Some x -> 0 <= i.
  Proof. unfold nn_znth. destruct (i <? 0) eqn:E0; [discriminate|]. apply Z.ltb_ge in E0. lia. Qed.

  Lemma get_upd_same : forall p root n f, get root p = Some n -> get (upd root p f) p = Some (f n).
  Proof.
    induction p as [|i p IH]; intros root n f H; simpl in *; [congruence|].
    destruct root as [l items|l kids]; [discriminate|].
    destruct (nn_znth kids i) as [k|] eqn:Ek; [|discriminate].
    pose proof (znth_nonneg _ _ _ Ek) as Hi.
    destruct (i <? 0) eqn:E0; [apply Z.ltb_lt in E0; lia|]. simpl.
    rewrite znth_upd_nth by exact Hi. rewrite Ek. simpl. apply IH. exact H.
  Qed.

  Lemma upd_nth_upd_nth {A} (l : list A) i (f g : A -> A) :
    nn_upd_nth (nn_upd_nth l i f) i g = nn_upd_nth l i (fun x => g (f x)).
  Proof.
    revert i. induction l as [|x l IH]; intros [|i]; simpl; try reflexivity. rewrite IH. reflexivity.
  Qed.
  Lemma upd_upd : forall p root f g, upd (upd root p f) p g = upd root p (fun n => g (f n)).
  Proof.
    induction p as [|i p IH]; intros root f g; simpl; [reflexivity|].
    destruct root as [l items|l kids]; simpl; [reflexivity|].
    destruct (i <? 0) eqn:E0; simpl; rewrite ?E0; [reflexivity|]. f_equal.
    rewrite upd_nth_upd_nth. apply upd_nth_ext. intros k. apply IH.
  Qed.

  Lemma flat_map_upd_nth {A B} (F : A -> list B) (l : list A) (j : nat) (g : A -> A) x :
    nth_error l j = Some x ->
    flat_map F (nn_upd_nth l j g) = flat_map F (firstn j l) ++ F (g x) ++ flat_map F (skipn (S j) l).
  Proof.
    revert j. induction l as [|y l IH]; intros [|j] H; simpl in *; try discriminate.
    - injection H as ->. reflexivity.
    - rewrite (IH j H). rewrite <- app_assoc. reflexivity.
  Qed.

  (* the entries of a tree around the node at a path *)
  Lemma abs_context : forall p root n, get root p = Some n ->
    exists pre post, forall f, abs (upd root p f) = pre ++ abs (f n) ++ post.
  Proof.
    induction p as [|i p IH]; intros root n H; simpl in *.
    - injection H as ->. exists [], []. intros f. simpl. rewrite app_nil_r. reflexivity.
    - destruct root as [l items|l kids]; [discriminate|].
      destruct (nn_znth kids i) as [k|] eqn:Ek; [|discriminate].
      pose proof (znth_nonneg _ _ _ Ek) as Hi.
      destruct (IH k n H) as (pre & post & Hc).
      exists (flat_map abs (firstn (Z.to_nat i) kids) ++ pre),
             (post ++ flat_map abs (skipn (S (Z.to_nat i)) kids)).
      intros f. destruct (i <? 0) eqn:E0; [apply Z.ltb_lt in E0; lia|]. simpl.
      unfold nn_znth in Ek. rewrite E0 in Ek.
      rewrite (flat_map_upd_nth abs kids (Z.to_nat i) _ k Ek). rewrite Hc.
      rewrite <- !app_assoc. reflexivity.
  Qed.

  Lemma map_insert_at {A B} (g : A -> B) l i x :
    map g (nn_insert_at l i x) = nn_insert_at (map g l) i (g x).
  Proof. unfold nn_insert_at. rewrite map_app, firstn_map. simpl. rewrite skipn_map. reflexivity. Qed.

  Lemma flat_map_split_kid {A B} (F : A -> list B) (l : list A) (j : nat) (x a b : A) :
    nth_error l j = Some x -> F a ++ F b = F x ->
    flat_map F (nn_insert_at (nn_upd_nth l j (fun _ => a)) (S j) b) = flat_map F l.
  Proof.
    revert j. induction l as [|y l IH]; intros [|j] H Hab; simpl in *; try discriminate.
    - injection H as ->. unfold nn_insert_at. simpl. rewrite <- Hab, <- app_assoc. reflexivity.
    - unfold nn_insert_at in *. simpl. f_equal. apply IH; assumption.
  Qed.

  Lemma firstn_succ_znth (path : list Z) (dp : nat) pk :
    nn_znth path (Z.of_nat dp) = Some pk -> firstn (S dp) path = firstn dp path ++ [pk].
  Proof.
    unfold nn_znth. destruct (Z.of_nat dp <? 0) eqn:E0; [discriminate|].
    rewrite Nat2Z.id. revert dp E0. induction path as [|x path IH]; intros [|dp] _ H; simpl in *; try discriminate.
    - injection H as ->. reflexivity.
    - f_equal. apply IH; [|exact H]. apply Z.ltb_ge. lia.
  Qed.

  (* ---- split body *)
  Lemma split_body_abs : forall t d s s',
    nn_split_body K kcmp t d s = Some s' -> abs (st_root K s') = abs (st_root K s).
  Proof.
    intros t d s s' H. unfold nn_split_body in H.
    destruct d as [|dp]; [discriminate|].
    set (path := st_path K s) in *. set (root := st_root K s) in *.
    destruct (get root (firstn (S dp) path)) as [nd|] eqn:Eg; [|discriminate].
    destruct (nn_znth path (Z.of_nat dp)) as [pk|] eqn:Epk; [|discriminate].
    rewrite (firstn_succ_znth _ _ _ Epk) in *.
    set (pdp := firstn dp path) in *.
    (* the two halves *)
    set (halves := match nd with
                   | NLeaf l items =>
                       let st := nn_start_idx (2 * nn_zlen items) in
                       let sp := Z.to_nat (st / 2) in
                       (NLeaf l (firstn sp items), NLeaf None (skipn sp items), st)
                   | NInner l kids =>
                       let st := nn_start_idx (nn_zlen kids) in
                       let sp := Z.to_nat st in
                       (NInner l (firstn sp kids), NInner None (skipn sp kids), st)
                   end) in *.
    assert (Hhalves : abs (fst (fst halves)) ++ abs (snd (fst halves)) = abs nd).
    { unfold halves. destruct nd as [l items|l kids]; simpl.
      - apply firstn_skipn.
      - rewrite <- flat_map_app, firstn_skipn. reflexivity. }
    destruct halves as [[first_node second0] start_idx]. simpl in Hhalves.
    set (root1 := upd root (pdp ++ [pk]) (fun _ => first_node)) in *.
    destruct (get root1 pdp) as [[?|pl pkids]|] eqn:Eg1; try discriminate.
    destruct ((pk <? 0) || (nn_zlen pkids <? pk + 1)) eqn:Erange; [discriminate|].
    apply orb_false_iff in Erange. destruct Erange as [Epk0 _]. apply Z.ltb_ge in Epk0.
    set (sw := match nn_first_last K second0 with
               | None => (second0, st_warn K s + 1)
               | Some fl => (nn_set_lim K (Some fl) second0, st_warn K s)
               end) in *.
    assert (HEs : E (fst sw) = E second0).
    { unfold sw. destruct (nn_first_last K second0); simpl; [apply erase_set_lim|reflexivity]. }
    destruct sw as [second_node w1]. simpl in HEs.
    set (root2 := upd root1 pdp (fun _ => NInner pl (nn_insert_at pkids (Z.to_nat (pk + 1)) second_node))) in *.
    set (r3 := match dp with
               | O => (root2, w1)
               | S _ => nn_reset_loop K kcmp dp dp path root2 w1
               end) in *.
    assert (HE3 : E (fst r3) = E root2).
    { unfold r3. destruct dp as [|dp']; [reflexivity|]. apply reset_loop_erase. }
    destruct r3 as [root3 w3]. simpl in HE3.
    pose proof (reset_loop_erase (S dp) (S dp) path root3 w3) as HE4.
    destruct (nn_reset_loop K kcmp (S dp) (S dp) path root3 w3) as [root4 w4]. simpl in HE4.
    assert (Hroot' : st_root K s' = root4).
    { destruct (start_idx <=? _) in H; destruct nd; injection H as <-; reflexivity. }
    rewrite Hroot'. clear H Hroot'.
    (* the parent in the original tree *)
    rewrite get_app in Eg. destruct (get root pdp) as [parent0|] eqn:Egp; [|discriminate].
    simpl in Eg. destruct parent0 as [?|pl0 kids0]; [discriminate|].
    destruct (nn_znth kids0 pk) as [k0|] eqn:Ek0; [|discriminate]. injection Eg as ->.
    rewrite <- (abs_erase root4), <- (abs_erase root), HE4, HE3.
    (* everything in the erased world *)
    set (K0 := map E kids0).
    set (j := Z.to_nat pk).
    assert (HEr1 : E root1 = upd (E root) pdp (fun P => upd P [pk] (fun _ => E first_node))).
    { unfold root1. rewrite (erase_upd _ root _ (fun _ => E first_node)) by reflexivity. apply upd_app. }
    assert (HgetE : get (E root) pdp = Some (NInner None K0)).
    { rewrite get_erase, Egp. reflexivity. }
    assert (Hkids : map E pkids = nn_upd_nth K0 j (fun _ => E first_node)).
    { pose proof (get_erase pdp root1) as X. rewrite Eg1 in X. simpl in X.
      rewrite HEr1 in X. rewrite (get_upd_same pdp (E root) _ _ HgetE) in X.
      simpl in X. destruct (pk <? 0) eqn:E0; [apply Z.ltb_lt in E0; lia|].
      injection X as X. symmetry. exact X. }
    assert (HEr2 : E root2 = upd (E root) pdp
                     (fun _ => NInner None (nn_insert_at (nn_upd_nth K0 j (fun _ => E first_node)) (S j) (E second0)))).
    { unfold root2.
      rewrite (erase_upd pdp root1 _ (fun _ => NInner None (nn_insert_at (map E pkids) (Z.to_nat (pk + 1)) (E second0)))).
      - rewrite HEr1, upd_upd. apply upd_ext. intros n. rewrite Hkids.
        replace (Z.to_nat (pk + 1)) with (S j) by (unfold j; lia). reflexivity.
      - intros n. simpl. rewrite map_insert_at, HEs. reflexivity. }
    destruct (abs_context pdp (E root) _ HgetE) as (pre & post & Hc).
    rewrite HEr2, Hc.
    replace (abs (E root)) with (abs (upd (E root) pdp (fun n => n))) by (rewrite upd_id; reflexivity).
    rewrite Hc.
    f_equal. f_equal. simpl.
    apply flat_map_split_kid with (x := E nd).
    - unfold K0, j. rewrite nth_error_map. unfold nn_znth in Ek0.
      destruct (pk <? 0); [discriminate|]. rewrite Ek0. reflexivity.
    - rewrite !abs_erase. exact Hhalves.
  Qed.

  Lemma abs_set_lim : forall l n, abs (nn_set_lim K l n) = abs n.
  Proof. intros l [? ?|? ?]; reflexivity. Qed.

  Lemma split_abs : forall t d s s',
    nn_split K kcmp t d s = Some s' -> abs (st_root K s') = abs (st_root K s).
  Proof.
    intros t. induction d as [|dp IH]; intros s s' H.
    - cbn [nn_split] in H.
      destruct (st_item K s <? 0); [discriminate|].
      cbn [firstn nn_get] in H.
      destruct (nn_split_needed K t (st_root K s)) as [[|]|]; [|injection H as <-; reflexivity|discriminate].
      apply split_body_abs in H. rewrite H. cbn [st_root abs flat_map].
      rewrite app_nil_r. apply abs_set_lim.
    - cbn [nn_split] in H.
      destruct (st_item K s <? 0); [discriminate|].
      destruct (get (st_root K s) (firstn (S dp) (st_path K s))) as [nd|]; [|discriminate].
      destruct (nn_split_needed K t nd) as [[|]|]; [|injection H as <-; reflexivity|discriminate].
      destruct (nn_split_body K kcmp t (S dp) s) as [s2|] eqn:Eb; [|discriminate].
      pose proof (reset_loop_erase (S dp) dp (st_path K s2) (st_root K s2) (st_warn K s2)) as X.
      destruct (nn_reset_loop K kcmp (S dp) dp (st_path K s2) (st_root K s2) (st_warn K s2)) as [r w].
      simpl in X. apply IH in H. rewrite H. cbn [st_root].
      rewrite <- (abs_erase r), X, abs_erase. apply split_body_abs with (t := t) (d := S dp). exact Eb.
  Qed.

  Lemma reset_limits_erase : forall d s, E (st_root K (nn_reset_limits K kcmp d s)) = E (st_root K s).
  Proof.
    intros d s. unfold nn_reset_limits.
    pose proof (reset_loop_erase d d (st_path K s) (st_root K s) (st_warn K s)) as X.
    destruct (nn_reset_loop K kcmp d d (st_path K s) (st_root K s) (st_warn K s)) as [r w]. exact X.
  Qed.
End Content.

(* C18 theorems (every key type and order, every tree -- valid or not --, every threshold and depth) *)

(* resetLimits changes nothing but /Limits entries *)
Lemma nn_reset_limits_only_limits_lemma :
  forall (K : Type) (kcmp : K -> K -> comparison) (d : nat) (s : nnst K),
    nn_erase K (st_root K (nn_reset_limits K kcmp d s)) = nn_erase K (st_root K s).
Proof. exact reset_limits_erase. Qed.

(* split(), including its recursion towards the root and the root push-down, keeps the entries of the
   tree: same keys, same values, same order *)
Lemma nn_split_preserves_content_lemma :
  forall (K : Type) (kcmp : K -> K -> comparison) (t : Z) (d : nat) (s s' : nnst K),
    nn_split K kcmp t d s = Some s' -> nn_abs K (st_root K s') = nn_abs K (st_root K s).
Proof. exact split_abs. Qed.
