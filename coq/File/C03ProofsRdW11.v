(* C03 - rd_reads_writer_output: what the writer model writes, the reader model reads back (plain mode). *)
From QV Require Import Base.Bytes Lex.TokModel Lex.LexSpec Lex.TokInterp Lex.LexRun Lex.LexProofs
     Obj.Unparse Obj.UnparseProofs Obj.SynSpec Obj.SynMachine Obj.ParseModel Obj.ParseProofs Obj.ParseSim
     Obj.Queue Obj.C01QueueProofs File.WriterArith Obj.WriterModel Obj.WmPrinters File.C02Proofs Obj.C01WriterProofs Obj.C01FileProofs
     File.XrefModel File.RdModel File.C03ProofsRd File.C03ProofsRdW File.C03ProofsRdW2 File.C03ProofsRdW3 File.C03ProofsRdW4
     File.C03ProofsRdW5 File.C03ProofsRdP File.C03ProofsRdX File.C03ProofsRdT File.C03ProofsRdTr File.C03ProofsRdW6 File.C03ProofsRdW7
     File.C03ProofsRdW8 File.C03ProofsRdW9 File.C03ProofsRdW10.
From Coq Require Import Lia.
Local Open Scope N_scope.

Lemma rw_offs_lt : forall d, rd_len (WOUT d) < 10 ^ 10 -> Forall (fun ko : N * N => snd ko < 10 ^ 10) (w_offs d).
Proof.
  intros d Hlt. unfold w_offs. rewrite offs_of_idoffs. apply Forall_forall. intros ko Hko.
  apply in_map_iff in Hko. destruct Hko as [p [<- Hp]]. cbn [snd]. apply idoffs_lt in Hp.
  rewrite write_doc_layout_lemma in Hlt. unfold rd_len, w_bodies in Hlt. rewrite !app_length in Hlt. lia.
Qed.

Lemma rw_xoff_lt : forall d, rd_len (WOUT d) < 10 ^ 10 -> w_xoff d < 2 ^ 63 /\ 0 < w_xoff d.
Proof.
  intros d Hlt. rewrite write_doc_layout_lemma in Hlt. unfold rd_len in Hlt. rewrite !app_length in Hlt.
  unfold w_xoff, w_hdr, header in *. rewrite !app_length in *. cbn [length] in *.
  assert ((10:N) ^ 10 < 2 ^ 63) by (vm_compute; reflexivity). lia.
Qed.

Lemma rw_forall2_map : forall (A B C : Type) (Q : A -> B -> Prop) (P : A -> C -> Prop) (h : B -> C) l1 l2,
  Forall2 Q l1 l2 -> (forall a b, In a l1 -> Q a b -> P a (h b)) -> Forall2 P l1 (map h l2).
Proof.
  intros A B C Q P h l1 l2 HF. induction HF as [|a b l1 l2 Hq HF IH]; intros H; cbn [map]; constructor.
  - apply H; [left; reflexivity | exact Hq].
  - apply IH. intros a' b' Ha' Hq'. apply H; [right; exact Ha' | exact Hq'].
Qed.

(* the view of the document d, up to R_obj: version, no shift, no warning, the table of objects 1..n, the trailer
   (with /Size and /ID as written), and for every written object - in the order of the new numbers - its item *)
Definition rw_view_of (d : doc) (v : rd_doc) : Prop :=
  rdd_version v = d_version d /\ rdd_shift v = 0 /\ rdd_warn v = [] /\
  rdd_tbl v = rdt_tbl 1 (w_offs d) /\
  (exists known1 o', rdd_trailer v = rd_fixrefs known1 o' /\
      R_obj o' (rd_sy (d_objects d) (rw_ren d) (rw_trailer_obj (rw_tr_entries d) (d_id1 d) (d_id2 d)))) /\
  exists known, Forall2 (rw_view_item d known) (w_ids d) (rdd_items v).

Lemma rd_reads_writer_output_lemma : forall d, wf_doc d ->
  rw_doc_okb d = true -> rw_sx_onceb d = true -> rw_catalog_ok d ->
  w_n d < 2147483647 -> rd_len (WOUT d) < 10 ^ 10 -> ~ In rw_k_Encrypt (map fst (d_trailer d)) ->
  exists v, rd_view (WOUT d) = RdDoc v /\ rw_view_of d v.
Proof.
  intros d Wd Hok Hsx Hcat Hn Hlt Henc.
  pose proof (wfd_closed d Wd) as Hc. destruct (wfd_size d Wd) as [zs Hsize].
  pose proof (wfd_no_prev d Wd) as Hnoprev. pose proof (wfd_no_xrefstm d Wd) as Hnoxs.
  destruct (wfd_version d Wd) as (a & b & Hver & Ha & Hb).
  set (objs := d_objects d) in *. set (ren := rw_ren d) in *.
  set (otr := rw_trailer_obj (rw_tr_entries d) (d_id1 d) (d_id2 d)) in *.
  unfold rw_doc_okb in Hok. apply andb_true_iff in Hok. destruct Hok as [Hentries Hotr].
  fold objs ren otr in Hotr. destruct (rw_obj_okb_ok _ _ _ Hotr) as (Wt & NDt & Hit & Hrt & Hot & Hlt').
  pose proof (rw_offs_lt d Hlt) as Hoffs. destruct (rw_xoff_lt d Hlt) as [Hx63 Hx0].
  pose proof (rd_writer_bytes_lemma d Wd) as Hbytes.
  set (max_id := N.min 2147483646 (rd_len (WOUT d) / 3)).
  pose proof (rd_max_id_written_step d Hn) as Hmax. fold max_id in Hmax.
  (* trailer entries *)
  apply find_some in Hsize. destruct Hsize as [HsizeIn _].
  assert (HSize : In (k_Size, SyInt (Z.of_N (w_n d + 1))) (rw_sy_entries objs ren (rw_tr_entries d))).
  { apply (rw_sy_in objs ren _ k_Size (OInt (Z.of_N (w_n d + 1)))); [exact (rw_tr_size d zs HsizeIn) | reflexivity]. }
  assert (HPrev : forall sv, ~ In (rw_k_Prev, sv) (rw_sy_entries objs ren (rw_tr_entries d))).
  { intros sv H. apply rw_sy_keys in H. rewrite rw_tr_keys in H. exact (Hnoprev H). }
  assert (HStm : forall sv, ~ In (rw_k_XRefStm, sv) (rw_sy_entries objs ren (rw_tr_entries d))).
  { intros sv H. apply rw_sy_keys in H. rewrite rw_tr_keys in H. exact (Hnoxs H). }
  assert (HEnc : forall sv, ~ In (rw_k_Encrypt, sv) (rw_sy_entries objs ren (rw_tr_entries d))).
  { intros sv H. apply rw_sy_keys in H. rewrite rw_tr_keys in H. exact (Henc H). }
  destruct Hcat as (r & ir & cd & p & ip & pd & HrF & Hrnn & Hfr & Hsr & Hvr & HTy & HPg & Hpnn & Hfp & Hsp & Hvp).
  (* read_xref *)
  destruct (rd_read_xref_written_lemma d max_id (Z.of_N (w_n d + 1)) Wd Hn Hoffs Wt NDt Hit Hrt Hot Hlt' HSize HPrev HStm)
    as (otr' & dm & HRtr & -> & Hxref).
  destruct (rd_view_table_step d max_id Hmax) as (Htbl & Hdel & Htbl1 & Hpass).
  destruct (rd_view_startxref_step d Hx63 Hsx) as (Hscan & tk & rr & np & last & Htok & Hll).
  (* the written root and page tree *)
  assert (Hrw : In r (w_ids d)) by (apply roots_written; [exact Hc | exact (root_in_roots d r HrF)]).
  assert (Hpw : In p (w_ids d)).
  { destruct (queue_complete_lemma _ _ Hc) as [_ Hq]. apply Hq. apply (reach_step _ _ r); [apply Hq; exact Hrw|].
    rewrite (children_graph_of d r ir Hfr Hsr), Hvr. cbn [refs_of]. apply in_flat_map. exists (rw_k_Pages, ORef p).
    split; [exact HPg|]. cbn [snd]. unfold objs. rewrite Hpnn. left. reflexivity. }
  assert (Hrr : ren r = doc_ren d r).
  { unfold ren, rw_ren. pose proof (written_ren_pos d r Hc Hrw). destruct (doc_ren d r =? 0) eqn:E; [apply N.eqb_eq in E; lia | reflexivity]. }
  assert (Hrp : ren p = doc_ren d p).
  { unfold ren, rw_ren. pose proof (written_ren_pos d p Hc Hpw). destruct (doc_ren d p =? 0) eqn:E; [apply N.eqb_eq in E; lia | reflexivity]. }
  set (tbl := rdt_tbl 1 (w_offs d)) in *.
  set (e := mkRdEnv (WOUT d) tbl [] max_id true).
  set (e1 := mkRdEnv (WOUT d) tbl [] max_id false).
  assert (Hlk : forall id, In id (w_ids d) -> rd_lookup tbl (doc_ren d id) 0 <> None).
  { intros id Hid. destruct (rw_offs_at wm_unparse_string wm_unparse_name objs (doc_ren d) (w_ids d)
              (N.of_nat (length (w_hdr d))) (w_hdr d) [] id (Nat2N.id _) Hid) as (_ & _ & off & _ & Hoff & _).
    unfold tbl. rewrite (rd_lookup_written_lemma d _ off Hc Hoff). discriminate. }
  assert (Hentry : forall id fuel, In id (w_ids d) ->
            exists v, rd_resolve (S fuel) e [] (doc_ren d id, 0) = (v, []) /\ rdo_unmod v = false /\
              rw_view_item d (rd_known e) id
                (mkRdItem (doc_ren d id) 0 (rdo_val v)
                   (match rdo_stream v with Some _ => Some (rd_stream_raw (WOUT d) v) | None => None end) (rdo_unmod v))).
  { intros id fuel Hid. apply (rd_view_entry_step d e fuel id); try reflexivity; try assumption.
    rewrite forallb_forall in Hentries. exact (Hentries id Hid). }
  (* the trailer dictionary *)
  rewrite Htbl1 in Hxref. fold tbl e1 in Hxref.
  assert (Hsyt : rd_sy objs ren otr = SyDict (rw_sy_entries objs ren (rw_tr_entries d) ++ [(rw_k_ID, SyArr [SyStr (d_id1 d); SyStr (d_id2 d)])])).
  { unfold otr, rw_trailer_obj. cbn [rd_sy]. unfold rw_sy_entries. rewrite flat_map_app. reflexivity. }
  pose proof HRtr as HRtr'. fold objs in HRtr'. fold ren in HRtr'. fold otr in HRtr'. rewrite Hsyt in HRtr'. inversion HRtr' as [| | | | | | |dm0 acc HRd Eo Hrev|]. subst dm0.
  assert (Hacc : forall k sv, In (k, sv) (rw_sy_entries objs ren (rw_tr_entries d)) -> In (k, sv) acc).
  { intros k sv H. apply in_rev. rewrite Hrev. apply in_or_app. left. exact H. }
  assert (Hacc' : forall k sv, In (k, sv) acc -> In k (map fst (d_trailer d)) \/ k = rw_k_ID).
  { intros k sv H. apply in_rev in H. rewrite Hrev in H. apply in_app_or in H. destruct H as [H|[H|[]]].
    - left. apply rw_sy_keys in H. rewrite rw_tr_keys in H. exact H.
    - right. injection H as <- _. reflexivity. }
  set (dfix := map (fun kv : list N * mobj => match kv with (k0, v0) => (k0, rd_fixrefs (rd_known e1) v0) end) dm).
  assert (GSize : rd_dict_get rd_s_Size dfix = MoInt (Z.of_N (w_n d + 1))).
  { unfold dfix. rewrite rw_get_fixrefs. change rd_s_Size with (47 :: k_Size).
    destruct (rd_dict_lookup_lemma dm acc HRd k_Size _ (Hacc _ _ HSize)) as (v & Hg & Hv). inversion Hv; subst. match goal with HH : _ = rd_dict_get _ _ |- _ => rewrite <- HH end. reflexivity. }
  assert (GEnc : rd_dict_get rd_s_Encrypt dfix = MoNull).
  { unfold dfix. rewrite rw_get_fixrefs. change rd_s_Encrypt with (47 :: rw_k_Encrypt). rewrite (rw_dict_absent dm acc HRd); [reflexivity|].
    intros sv H. destruct (Hacc' _ _ H) as [H1|H1]; [exact (Henc H1) | discriminate H1]. }
  assert (HrIn : In (k_Root, ORef r) (d_trailer d)) by (apply find_some in HrF; tauto).
  assert (GRoot : rd_dict_get rd_s_Root dfix = MoRef (Z.of_N (doc_ren d r)) 0).
  { unfold dfix. rewrite rw_get_fixrefs. change rd_s_Root with (47 :: k_Root).
    assert (Hin : In (k_Root, rd_sy objs ren (ORef r)) (rw_sy_entries objs ren (rw_tr_entries d))).
    { apply rw_sy_in; [apply rw_tr_other; [exact HrIn | reflexivity] | exact Hrnn]. }
    destruct (rd_dict_lookup_lemma dm acc HRd k_Root _ (Hacc _ _ Hin)) as (v & Hg & Hv). cbn [rd_sy] in Hv. inversion Hv; subst.
    match goal with HH : _ = rd_dict_get _ _ |- _ => rewrite <- HH end. cbn [rd_fixrefs]. rewrite Hrr.
    rewrite (rw_known_tbl e1 (doc_ren d r) eq_refl (Hlk r Hrw)). reflexivity. }
  (* the catalog and the page tree root *)
  destruct (Hentry r (S (length tbl)) Hrw) as (vr & Rr & Ur & Ir).
  destruct (Hentry p (S (length tbl)) Hpw) as (vp & Rp & Up & Ip).
  unfold rw_view_item in Ir, Ip. cbn [rdi_obj rdi_gen rdi_unmod rdi_data rdi_val] in Ir, Ip.
  destruct Ir as (_ & _ & _ & Ir). destruct Ip as (_ & _ & _ & Ip). rewrite Hfr, Hsr in Ir. rewrite Hfp, Hsp in Ip.
  destruct Ir as (Sr & or' & Vr & ROr). destruct Ip as (Sp & op' & Vp & ROp).
  assert (Sr' : rdo_stream vr = None) by (destruct (rdo_stream vr); [discriminate Sr | reflexivity]).
  assert (Sp' : rdo_stream vp = None) by (destruct (rdo_stream vp); [discriminate Sp | reflexivity]).
  rewrite Hvr in ROr. rewrite Hvp in ROp. cbn [rd_sy] in ROr, ROp. fold (rw_sy_entries objs ren cd) in ROr. fold (rw_sy_entries objs ren pd) in ROp.
  inversion ROr as [| | | | | | |dmr accr HRr Eor Hrevr|]. subst or'.
  inversion ROp as [| | | | | | |dmp accp HRp Eop Hrevp|]. subst op'.
  cbn [rd_fixrefs] in Vr, Vp.
  set (rdict := map (fun kv : list N * mobj => match kv with (k0, v0) => (k0, rd_fixrefs (rd_known e) v0) end) dmr) in *.
  assert (GType : rd_dict_get rd_s_Type rdict = MoName rd_s_Catalog).
  { unfold rdict. rewrite rw_get_fixrefs. change rd_s_Type with (47 :: rw_k_Type).
    assert (Hin : In (rw_k_Type, SyName rw_k_Catalog) accr).
    { apply in_rev. rewrite Hrevr. apply (rw_sy_in objs ren cd rw_k_Type (OName rw_k_Catalog) HTy). reflexivity. }
    destruct (rd_dict_lookup_lemma dmr accr HRr _ _ Hin) as (v & Hg & Hv). inversion Hv; subst. match goal with HH : _ = rd_dict_get _ _ |- _ => rewrite <- HH end. reflexivity. }
  assert (GPages : rd_dict_get rd_s_Pages rdict = MoRef (Z.of_N (doc_ren d p)) 0).
  { unfold rdict. rewrite rw_get_fixrefs. change rd_s_Pages with (47 :: rw_k_Pages).
    assert (Hin : In (rw_k_Pages, rd_sy objs ren (ORef p)) accr).
    { apply in_rev. rewrite Hrevr. apply (rw_sy_in objs ren cd rw_k_Pages (ORef p) HPg). exact Hpnn. }
    destruct (rd_dict_lookup_lemma dmr accr HRr _ _ Hin) as (v & Hg & Hv). cbn [rd_sy] in Hv. inversion Hv; subst.
    match goal with HH : _ = rd_dict_get _ _ |- _ => rewrite <- HH end. cbn [rd_fixrefs]. rewrite Hrp.
    rewrite (rw_known_tbl e (doc_ren d p) eq_refl (Hlk p Hpw)). reflexivity. }
  (* the /Size test *)
  assert (Hlenids : length (w_offs d) = length (w_ids d)) by (unfold w_offs; apply offs_of_length).
  assert (Hnpos : (0 < length (w_ids d))%nat) by (destruct (w_ids d); [destruct Hrw | cbn; lia]).
  assert (Hmaxobj : N.max (rd_max_obj tbl 0) (rd_max_n [0] 0) = w_n d).
  { unfold tbl. rewrite rdt_max_obj_lemma. destruct (length (w_offs d) =? 0)%nat eqn:E; [apply Nat.eqb_eq in E; lia|].
    cbn [rd_max_n]. unfold w_n. lia. }
  (* every entry of the table *)
  assert (Htblmap : tbl = map (fun ko : N * N => (fst ko, 0, C3Use (snd ko) 0)) (w_offs d)) by (apply rw_tbl_written; exact Hc).
  assert (Hids2 : Forall2 (fun id (ko : N * N) => fst ko = doc_ren d id) (w_ids d) (w_offs d)) by (apply rw_offs_ids).
  (* the view *)
  unfold rd_view. rewrite (rd_writer_header_lemma d a b Hver Ha Hb).
  change (rd_at (WOUT d) 0) with (WOUT d).
  unfold rd_view_at. cbv zeta. fold max_id.
  change (if 1054 <? rd_len (WOUT d) then rd_len (WOUT d) - 1054 else 0) with (rw_sx_start d).
  rewrite Hscan, Htok, Hll.
  assert (E0 : (Z.of_N (w_xoff d) <=? 0)%Z = false) by (apply Z.leb_gt; lia).
  rewrite E0, N2Z.id, Hxref.
  cbn [rdx_trailer rdx_st rdx_pre rdx_w rd_fixrefs]. fold dfix.
  rewrite Htbl, Hdel. fold tbl. rewrite Hpass. fold tbl. fold e.
  unfold rd_has_key. rewrite GEnc. cbv iota.
  rewrite GRoot. cbv iota beta. rewrite !N2Z.id. change (Z.to_N 0) with 0.
  rewrite Rr. cbv iota. rewrite Vr, Sr'. cbv iota.
  rewrite GType. cbv iota. change (rd_beq rd_s_Catalog rd_s_Catalog) with true. cbv iota.
  rewrite GPages. cbv iota beta. rewrite !N2Z.id. change (Z.to_N 0) with 0.
  rewrite Rp. cbv iota. rewrite Vp, Sp'. cbv iota.
  rewrite GSize. unfold rd_clamp.
  assert (Ez1 : (Z.of_N (w_n d + 1) <? -2147483648)%Z = false) by (apply Z.ltb_ge; lia).
  assert (Ez2 : (2147483647 <? Z.of_N (w_n d + 1))%Z = false) by (apply Z.ltb_ge; lia).
  rewrite Ez1, Ez2. cbv iota. rewrite Hmaxobj.
  assert (Ez3 : (Z.of_N (w_n d + 1) <? 1)%Z = false) by (apply Z.ltb_ge; lia).
  assert (Ez4 : (Z.of_N (w_n d + 1) - 1 =? Z.of_N (w_n d))%Z = true) by (apply Z.eqb_eq; lia).
  rewrite Ez3, Ez4. cbn [negb orb app].
  set (FUEL := S (S (length tbl))).
  set (F := fun ent : N * N * c3_xe =>
              let v := fst (rd_resolve FUEL e [] (fst (fst ent), snd (fst ent))) in
              mkRdItem (fst (fst ent)) (snd (fst ent)) (rdo_val v)
                       (match rdo_stream v with Some _ => Some (rd_stream_raw (WOUT d) v) | None => None end) (rdo_unmod v)).
  assert (Hin_tbl : forall x, In x tbl -> exists id (ko : N * N), In id (w_ids d) /\ x = (doc_ren d id, 0, C3Use (snd ko) 0)).
  { intros x Hx. rewrite Htblmap in Hx. apply in_map_iff in Hx. destruct Hx as (ko & <- & Hko).
    clear - Hids2 Hko. induction Hids2 as [|id ko' ids offs Hq HF IH]; [destruct Hko|].
    destruct Hko as [->|Hko].
    - exists id, ko. split; [left; reflexivity | rewrite Hq; reflexivity].
    - destruct (IH Hko) as (id' & ko'' & Hi & He). exists id', ko''. split; [right; exact Hi | exact He]. }
  match goal with |- context [fold_left ?st tbl ([], [])] => set (STEP := st) end.
  assert (Hstep : forall (acc : list rd_item * list rd_w) x, In x tbl -> STEP acc x = (F x :: fst acc, snd acc ++ [])).
  { intros acc0 x Hx. destruct (Hin_tbl x Hx) as (id & ko & Hid & ->).
    destruct (Hentry id (S (length tbl)) Hid) as (v & Rv & Uv & _). fold FUEL in Rv.
    unfold STEP, F. cbn [fst snd]. unfold rd_resolve_top. cbv iota. rewrite Rv. cbn [fst snd].
    f_equal. f_equal. destruct (rdo_val v); try reflexivity. rewrite andb_false_r. reflexivity. }
  rewrite (rw_fold_items _ STEP F (fun _ => []) tbl [] [] Hstep).
  cbn [fst snd]. rewrite (rw_concat_nil _ _ (fun _ : N * N * c3_xe => @nil rd_w) tbl (fun _ _ => eq_refl)).
  cbn [app existsb]. rewrite app_nil_r, rev'_rev, rev_involutive.
  cbn [rd_set_shift rdd_version rdd_trailer rdd_tbl rdd_items rdd_warn].
  eexists. split; [reflexivity|].
  unfold rw_view_of. cbn [rdd_version rdd_shift rdd_warn rdd_tbl rdd_trailer rdd_items].
  split; [symmetry; exact Hver|]. split; [reflexivity|]. split; [reflexivity|]. split; [reflexivity|]. split.
  - exists (rd_known e1), (MoDict dm). split; [reflexivity | exact HRtr].
  - exists (rd_known e). rewrite Htblmap, map_map.
    apply (rw_forall2_map _ _ _ _ _ _ _ _ Hids2). intros id ko Hid Hq.
    destruct (Hentry id (S (length tbl)) Hid) as (v & Rv & Uv & Iv). fold FUEL in Rv.
    unfold F. cbn [fst snd]. rewrite Hq, Rv. cbn [fst]. exact Iv.
Qed.

(* ------------------------------------------------------------------ what the theorem says and what it leaves open
   rd_reads_writer_output: for every wf_doc d with
     rw_doc_okb d      (every written object is found and is an array/dictionary - or a stream whose dictionary is - of the
                        bridge's class: no real numbers, byte strings, names without NUL, printed keys pairwise different,
                        integers within long long, new numbers <= 2^31-1, <= 500 container openings, < 2^32-1 tokens; the
                        same for the trailer with /Size and /ID),
     rw_sx_onceb d     ("startxref" starts nowhere else in the last 1054 bytes of the output),
     rw_catalog_ok d   (/Root is a non-stream dictionary with /Type /Catalog and /Pages a reference to a non-stream dictionary),
     fewer than 2^31-1 objects, an output shorter than 10^10 bytes, no /Encrypt in the trailer,
   the reader model returns RdDoc v (not RdOutside, not RdFatal) with: the document's version, shift 0, NO warning, the table
   of objects 1..n at the recorded offsets, the trailer related by R_obj to the written trailer (entries, /Size = n+1,
   /ID [id1 id2]), and - in the order of the new numbers - one item per written object: its new number, generation 0, its
   value related by R_obj to the document's value under the renumbering (null entries dropped, as the writer drops
   them), and for a stream exactly the document's stream bytes.
   Read values appear as rd_fixrefs known o' (known = "the reference is in the table"): that rd_fixrefs is the identity here
   (every reference of a closed document points to a written object) is NOT proved - it needs an induction over R_obj / R_dict
   through Forall2 and map_put.  Reals remain excluded (side condition).  rw_catalog_ok is a Prop with existential
   witnesses, not a boolean.  Together with write_read_strict_lemma (Obj/C01FileProofs.v: the strict ISO reader reads
   write_doc d back as d) this gives, at model level, for the plain mode: what the writer model writes, both the strict reader
   and the model of qpdf's reader read back. *)
