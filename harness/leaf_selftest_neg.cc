// Negative self-test of harness/translate_leaf.py: every function below uses ONE construct outside the translated subset.
// harness/leafcheck.py asserts on every C02 run that the translator refuses each of them (raises Unsupported naming the
// construct) instead of emitting an approximation.  Not linked into anything.
extern "C" {

struct neg_pair { int a; int b; };

int neg_pointer(int* p) { return *p + 1; }
int neg_float(int a) { double d = a; return static_cast<int>(d * 2.0); }
int neg_goto(int a) { if (a > 0) goto out; a = 1; out: return a; }
int neg_static_local(int a) { static int calls = 0; ++calls; return a + calls; }
int neg_member(neg_pair p) { return p.a + p.b; }
int neg_incr_value(int a) { int b = a++; return a + b; }
int neg_assign_value(int a) { int b = 0; int c = (b = a) + 1; return b + c; }
int neg_comma_value(int a) { int b = (a += 1, a * 2); return b; }
int neg_unknown_call(int a);
int neg_calls_unknown(int a) { return neg_unknown_call(a) + 1; }
int neg_uninitialized(int a) { int b; if (a > 0) { b = 1; } else { b = 2; } return b; }
int neg_return_in_nested_loop(int n) { for (int i = 0; i < n; ++i) { for (int j = 0; j < n; ++j) { if (i * j == 12) { return i; } } } return -1; }
int neg_no_return_path(int a) { if (a > 0) { return 1; } }
int neg_shadow(int a) { int b = a; { int a = 2; b += a; } return b; }
int neg_sizeof(int a) { return a + static_cast<int>(sizeof(long)); }
int neg_array_local(int a) { int t[2] = {a, 1}; return t[0] + t[1]; }
int neg_lambda(int a) { auto f = [](int x) { return x + 1; }; return f(a); }
int neg_throw(int a) { if (a < 0) { throw 1; } return a; }
int neg_reference(int& a) { a += 1; return a; }
int neg_range_for(int a) { int s = 0; int t[3] = {1, 2, 3}; for (int x: t) { s += x; } return s + a; }

}
