(* C13 extension 2 - operations that edit objects IN PLACE through handles obtained from a page or from the root /Pages
   node (QPDFObjectHandle::setArrayItem / replaceKey / appendItem on what getKey returned).  In qpdf a direct value inside
   a dictionary is one QPDFObject shared by every handle to it, so an in-place edit is visible through every holder of
   that object; QPDFObjectHandle::copy() (used by Pages::insert for a page that is already present, by shallowCopyPage,
   by getAllPagesInternal for a repeated kid) copies direct values recursively and keeps references - after it no direct
   value is shared, which is exactly the value semantics of PgModel.v (pg_val is a value, a copy is the same value in
   another object).  Hence an in-place edit through object i changes object i only (direct container) or the indirect
   container object only.  The driver (harness/drv_pages.cc, ops mb / rk / na / kn / ks) performs the edit only when the
   container has the right type and the index is in range, otherwise it reports "ok:skip"; so does the model.
   No proofs in this file. *)
From QV Require Import Base.Bytes Struct.PgModel.
Local Open Scope N_scope.

Inductive pgy_edit :=
| PeSetItem (k : nat) (z : Z)          (* array.setArrayItem(k, Integer z) *)
| PeAppend (z : Z)                     (* array.appendItem(Integer z) *)
| PeSetKey (key : pg_key) (z : Z).     (* dictionary.replaceKey(key, Integer z) *)

(* the edit applied to a container value; None = wrong type / out of range (skipped) *)
Definition pgy_apply (e : pgy_edit) (v : pg_val) : option pg_val :=
  match e, v with
  | PeSetItem k z, PvArr l => if Nat.ltb k (length l) then Some (PvArr (pg_list_set l k (PvInt z))) else None
  | PeAppend z, PvArr l => Some (PvArr (l ++ [PvInt z]))
  | PeSetKey key z, PvDict d => Some (PvDict (pg_dset d key (PvInt z)))
  | _, _ => None
  end.

(* handle(i).getKey(attr) edited in place: attr direct -> object i changes; attr a reference -> the object it names *)
Definition pgy_edit_attr (s : pg_store) (i : N) (attr : pg_key) (e : pgy_edit) : pg_store * pg_res :=
  match pg_lookup s i with
  | Some (PcObj (PvDict d)) =>
      match pg_dget d attr with
      | PvRef j =>
          match pg_lookup s j with
          | Some (PcObj v) => match pgy_apply e v with Some v' => (pg_supd s j (PcObj v'), PrId j) | None => (s, PrDirect) end
          | _ => (s, PrDirect)
          end
      | v => match pgy_apply e v with Some v' => (pg_supd s i (PcObj (PvDict (pg_dset d attr v'))), PrOk) | None => (s, PrDirect) end
      end
  | _ => (s, PrDirect)
  end.

Inductive pgy_kedit :=
| PkNull (a : nat)                     (* kids.setArrayItem(a, null) *)
| PkSwap (a b : nat).                  (* exchange kids a and b *)

(* getRoot()["/Pages"]["/Kids"] edited in place (only when it is a direct array of an indirect /Pages node) *)
Definition pgy_edit_kids (p : pg_doc) (e : pgy_kedit) : pg_doc * bool :=
  match pg_root_pages p with
  | PvRef pn =>
      match pg_hget (pd_store p) (PvRef pn) pgk_Kids with
      | PvArr l =>
          match e with
          | PkNull a =>
              if Nat.ltb a (length l)
              then (pd_with_store p (pg_obj_set_key (pd_store p) pn pgk_Kids (PvArr (pg_list_set l a PvNull))), true)
              else (p, false)
          | PkSwap a b =>
              match nth_error l a, nth_error l b with
              | Some x, Some y =>
                  (pd_with_store p (pg_obj_set_key (pd_store p) pn pgk_Kids (PvArr (pg_list_set (pg_list_set l a y) b x))), true)
              | _, _ => (p, false)
              end
          end
      | _ => (p, false)
      end
  | _ => (p, false)
  end.

Inductive pgy_op :=
| PyBase (o : pg_op)
| PyEdit (d : bool) (i : N) (attr : pg_key) (e : pgy_edit)
| PyKids (d : bool) (e : pgy_kedit).

(* result: the base result; for the in-place edits PrOk (done, the container was a direct value of the object), PrId j
   (done, the container is the indirect object j) or PrDirect (skipped) *)
Definition pgy_step (w : pg_world) (o : pgy_op) : pg_world * pg_res :=
  match o with
  | PyBase o => pg_step w o
  | PyEdit d i attr e =>
      let p := pg_get w d in
      let '(s, r) := pgy_edit_attr (pd_store p) i attr e in
      (pg_put w d (pd_with_store p s), r)
  | PyKids d e =>
      let '(p, done) := pgy_edit_kids (pg_get w d) e in
      (pg_put w d p, if done then PrOk else PrDirect)
  end.
