(* C03 - towards rd_reads_writer_output: two facts about the writer's output used by the reader-side lemmas:
   the trailer entries as printed entries of a dictionary (with /Size replaced by the number written), and the output
   is a byte string. *)
From QV Require Import Base.Bytes Lex.TokModel Lex.LexSpec Lex.TokInterp Lex.LexRun Lex.LexProofs
     Obj.Unparse Obj.UnparseProofs Obj.SynSpec Obj.ParseModel Obj.ParseProofs Obj.ParseSim
     Obj.Queue Obj.C01QueueProofs File.WriterArith File.StrictSyntax Obj.WriterModel Obj.WmPrinters File.C02Proofs
     Obj.C01RoundtripProofs Obj.C01WriterProofs Obj.C01FileProofs
     File.XrefModel File.RdModel File.C03ProofsRd File.C03ProofsRdW File.C03ProofsRdW2.
From Coq Require Import Lia.
Local Open Scope N_scope.

(* the trailer entries with /Size as it is written *)
Definition rw_tr_entries (d : doc) : list (list N * obj) :=
  map (fun kv : list N * obj => if beqb (fst kv) k_Size then (fst kv, OInt (Z.of_N (w_n d + 1))) else kv) (d_trailer d).

Lemma tr_flat_map_ext_in : forall (A B : Type) (f g : A -> list B) l,
  (forall a, In a l -> f a = g a) -> flat_map f l = flat_map g l.
Proof.
  intros A B f g. induction l as [|a t IH]; intros H; [reflexivity|].
  cbn [flat_map]. rewrite (H a (or_introl eq_refl)), IH; [reflexivity|].
  intros x Hx. apply H. right. exact Hx.
Qed.

(* what write_doc prints between `trailer <<` and ` /ID [` is the entry text of that dictionary under the total
   renumbering rw_ren (C03ProofsRdW2.v), which agrees with doc_ren on every written object *)
Lemma rd_trailer_text_lemma : forall d, wf_doc d ->
  flat_map (w_tg d) (d_trailer d) = flat_map (rw_entry_text (d_objects d) (rw_ren d)) (rw_tr_entries d).
Proof.
  intros d W.
  destruct W as [Hc _ _ _ _ _ _ [r [ir [Hroot _]]] [zs Hsize] [Hnd _] _ _].
  destruct (trailer_text_eq d Hnd zs Hsize (d_trailer d) (fun kv H => H)) as [H1 _].
  rewrite H1. change (rw_tr_entries d) with (w_trailer' d). fold (w_trailer' d).
  pose proof (trailer_refs_roots d r zs Hnd Hroot Hsize) as Hroots.
  apply tr_flat_map_ext_in. intros kv Hkv.
  unfold gd, rw_entry_text.
  destruct (is_null_val (d_objects d) (snd kv)) eqn:En; [reflexivity|].
  assert (Hext : forall x, In x (refs_of (d_objects d) (snd kv)) -> doc_ren d x = rw_ren d x).
  { intros x Hx.
    assert (Hr : In x (roots_of d)).
    { apply Hroots. cbn [refs_of]. apply in_flat_map. exists kv. split; [exact Hkv|]. rewrite En. exact Hx. }
    pose proof (written_ren_pos d x Hc (roots_written d x Hc Hr)) as Hp.
    unfold rw_ren. destruct (doc_ren d x =? 0) eqn:E; [apply N.eqb_eq in E; lia | reflexivity]. }
  destruct (ren_ext wm_unparse_string wm_unparse_name (d_objects d) (doc_ren d) (rw_ren d) (snd kv) Hext) as [HU _].
  rewrite HU. reflexivity.
Qed.

(* ------------------------------------------------------------------ bytes of the printed pieces *)
Lemma tr_bk_dec : forall n, bytes_ok (dec_of_N n).
Proof.
  intros n. destruct (dec_of_N_value_lemma n) as (_ & Hd & _).
  destruct (rw_digits_regular _ Hd) as (_ & _ & B & _). exact B.
Qed.

Lemma tr_bk_name : forall n, bytes_ok n -> bytes_ok (wm_unparse_name n).
Proof.
  intros n Hn. unfold wm_unparse_name. constructor; [reflexivity|].
  induction Hn as [|c t Hc Ht IH]; [constructor|].
  cbn [flat_map]. apply Forall_app. split; [|exact IH].
  apply rw_bytes_of.
  exact (byte_sweep (fun c => forallb byteb (wm_name_char c)) ltac:(vm_compute; reflexivity) c Hc).
Qed.

Lemma tr_bk_hexstr : forall s, bytes_ok s -> bytes_ok (hexstr s).
Proof.
  intros s Hs. unfold hexstr. constructor; [reflexivity|]. apply Forall_app. split; [|apply rw_bytes_of; reflexivity].
  induction Hs as [|c t Hc Ht IH]; [constructor|].
  cbn [flat_map]. apply Forall_app. split; [|exact IH].
  apply rw_bytes_of.
  exact (byte_sweep (fun b => forallb byteb [(if b / 16 <? 10 then 48 + b / 16 else 87 + b / 16);
                                            (if b mod 16 <? 10 then 48 + b mod 16 else 87 + b mod 16)])
                    ltac:(vm_compute; reflexivity) c Hc).
Qed.

Lemma tr_bk_real : forall s, parse_number s = Some (StReal s) -> bytes_ok s.
Proof.
  intros s H. destruct (real_spelling_numch s H) as [_ Hn]. clear H.
  induction s as [|c t IH]; [constructor|].
  cbn [forallb] in Hn. apply andb_true_iff in Hn. destruct Hn as [Hc Ht].
  constructor; [|apply IH; exact Ht]. pose proof (numch_range c Hc). lia.
Qed.

Lemma tr_bk_entries : forall objs ren dd,
  Forall (fun kv => wf_key (fst kv) /\ wf_wobj (snd kv)) dd ->
  Forall (fun kv : list N * obj => wf_wobj (snd kv) -> bytes_ok (unparse wm_unparse_string wm_unparse_name objs ren (snd kv))) dd ->
  bytes_ok (flat_map (rw_entry_text objs ren) dd).
Proof.
  intros objs ren. induction dd as [|kv t IH]; intros Hw Hb; [constructor|].
  inversion Hw as [|? ? [[_ Hk] Hv] Hwt]; subst. inversion Hb as [|? ? Hbv Hbt]; subst.
  cbn [flat_map]. apply Forall_app. split; [|apply IH; assumption].
  unfold rw_entry_text. destruct (is_null_val objs (snd kv)); [constructor|].
  apply Forall_app. split; [apply rw_bytes_of; reflexivity|].
  apply Forall_app. split; [apply tr_bk_name; exact Hk|].
  apply Forall_app. split; [apply rw_bytes_of; reflexivity|].
  apply Hbv. exact Hv.
Qed.

Lemma tr_bk_unparse : forall objs ren v, wf_wobj v -> bytes_ok (unparse wm_unparse_string wm_unparse_name objs ren v).
Proof.
  intros objs ren v. induction v as [|b|z|s|s|n|id|l IHl|dd IHd] using obj_ind'; intros W.
  - apply rw_bytes_of; reflexivity.
  - destruct b; apply rw_bytes_of; reflexivity.
  - cbn [unparse]. apply rw_dec_Z_run.
  - cbn [unparse]. cbn [wf_wobj] in W. destruct W as [t [Hp Ht]]. subst t. apply tr_bk_real. exact Hp.
  - cbn [unparse]. cbn [wf_wobj] in W. rewrite rw_string by exact W. apply string_unparse_bytes. exact W.
  - cbn [unparse]. destruct W as [_ W]. apply tr_bk_name. exact W.
  - cbn [unparse]. apply Forall_app. split; [apply tr_bk_dec | apply rw_bytes_of; reflexivity].
  - apply wf_arr in W. rewrite rw_unparse_arr. constructor; [reflexivity|].
    apply Forall_app. split; [|apply rw_bytes_of; reflexivity].
    induction l as [|x t IHt]; [constructor|].
    inversion IHl as [|? ? Hx Ht]; subst. inversion W as [|? ? Wx Wt]; subst.
    cbn [flat_map]. apply Forall_app. split; [|apply IHt; assumption].
    apply Forall_app. split; [apply rw_bytes_of; reflexivity | apply Hx; exact Wx].
  - apply wf_dict in W. rewrite rw_unparse_dict. constructor; [reflexivity|]. constructor; [reflexivity|].
    apply Forall_app. split; [|apply rw_bytes_of; reflexivity].
    apply tr_bk_entries; assumption.
Qed.

Lemma tr_bk_entries_wf : forall objs ren dd, wf_wobj (ODict dd) -> bytes_ok (flat_map (rw_entry_text objs ren) dd).
Proof.
  intros objs ren dd W. apply wf_dict in W. apply tr_bk_entries; [exact W|].
  apply Forall_forall. intros kv _ Hv. apply tr_bk_unparse. exact Hv.
Qed.

Lemma tr_bk_stream_dict : forall objs ren dd len,
  wf_wobj (ODict dd) ->
  bytes_ok (unparse_stream_dict wm_unparse_string wm_unparse_name objs ren (ODict dd) len).
Proof.
  intros objs ren dd len W. unfold unparse_stream_dict. cbn [drop_length].
  apply Forall_app. split; [apply rw_bytes_of; reflexivity|].
  apply Forall_app. split.
  - apply (tr_bk_entries_wf objs ren). apply wf_dict. apply wf_dict in W.
    apply Forall_forall. intros kv Hkv. apply filter_In in Hkv. destruct Hkv as [Hkv _].
    rewrite Forall_forall in W. apply W. exact Hkv.
  - apply Forall_app. split; [apply rw_bytes_of; reflexivity|].
    apply Forall_app. split; [apply rw_bytes_of; reflexivity|].
    apply Forall_app. split; [apply rw_bytes_of; reflexivity|].
    apply Forall_app. split; [apply tr_bk_dec | apply rw_bytes_of; reflexivity].
Qed.

Lemma tr_bk_chunk : forall d id, wf_doc d -> bytes_ok (w_chunk d id).
Proof.
  intros d id W. unfold w_chunk, chunk_of, emit_object.
  apply Forall_app. split.
  { unfold obj_header. apply Forall_app. split; [apply tr_bk_dec | apply rw_bytes_of; reflexivity]. }
  destruct (find_obj (d_objects d) id) as [i|] eqn:Hf.
  - destruct (find_obj_in _ _ _ Hf) as [k Hin].
    assert (Hwv : wf_wobj (i_val i)).
    { pose proof (wfd_objs d W) as Ho. unfold wf_doc_objs in Ho. rewrite Forall_forall in Ho. exact (Ho _ Hin). }
    destruct (i_stream i) as [data|] eqn:Hs.
    + destruct (wfd_streams d W k i Hin) as [dd Hdd]; [rewrite Hs; discriminate|].
      rewrite Hdd in *.
      apply Forall_app. split; [apply tr_bk_stream_dict; exact Hwv|].
      apply Forall_app. split; [apply rw_bytes_of; reflexivity|].
      apply Forall_app. split; [exact (wfd_stream_bytes d W k i data Hin Hs)|].
      apply rw_bytes_of; reflexivity.
    + apply Forall_app. split; [apply tr_bk_unparse; exact Hwv | apply rw_bytes_of; reflexivity].
  - cbn [null_indirect i_stream i_val]. apply rw_bytes_of; reflexivity.
Qed.

Lemma tr_bk_concat : forall (l : list (list N)), Forall bytes_ok l -> bytes_ok (concat l).
Proof.
  induction 1 as [|x t Hx Ht IH]; [constructor|]. cbn [concat]. apply Forall_app. split; assumption.
Qed.

Lemma tr_bk_xref_line : forall off, bytes_ok (xref_line off).
Proof.
  intros off. unfold xref_line, int_to_string_pad.
  apply Forall_app. split; [|apply rw_bytes_of; reflexivity].
  apply Forall_app. split; [|apply tr_bk_dec].
  apply Forall_forall. intros x Hx. apply repeat_spec in Hx. subst x. reflexivity.
Qed.

(* the output of the writer model is a byte string *)
Lemma rd_writer_bytes_lemma : forall d, wf_doc d -> bytes_ok (write_doc wm_unparse_string wm_unparse_name d).
Proof.
  intros d W. rewrite write_doc_layout_lemma.
  apply Forall_app. split.
  { unfold w_hdr, header. destruct (wfd_version d W) as (a & b & Hv & Ha & Hb). rewrite Hv.
    apply Forall_app. split; [apply rw_bytes_of; reflexivity|].
    apply Forall_app. split; [|apply rw_bytes_of; reflexivity].
    unfold is_digit in Ha, Hb. apply andb_true_iff in Ha. apply andb_true_iff in Hb.
    destruct Ha as [_ Ha]. destruct Hb as [_ Hb]. apply N.leb_le in Ha. apply N.leb_le in Hb.
    constructor; [lia|]. constructor; [reflexivity|]. constructor; [lia|]. constructor. }
  apply Forall_app. split.
  { unfold w_bodies. apply tr_bk_concat. apply Forall_forall. intros c Hc. apply in_map_iff in Hc.
    destruct Hc as [id [<- _]]. apply tr_bk_chunk. exact W. }
  apply Forall_app. split.
  { unfold w_xref.
    apply Forall_app. split; [apply rw_bytes_of; reflexivity|].
    apply Forall_app. split; [apply tr_bk_dec|].
    apply Forall_app. split; [apply rw_bytes_of; reflexivity|].
    apply Forall_app. split; [apply rw_bytes_of; reflexivity|].
    unfold w_lines. induction (w_offs d) as [|ko t IH]; [constructor|].
    cbn [flat_map]. apply Forall_app. split; [apply tr_bk_xref_line | exact IH]. }
  apply Forall_app. split.
  { unfold w_trailer.
    apply Forall_app. split; [apply rw_bytes_of; reflexivity|].
    apply Forall_app. split.
    { rewrite (rd_trailer_text_lemma d W). apply tr_bk_entries_wf. apply wf_dict.
      pose proof (wfd_trailer d W) as Wt. apply wf_dict in Wt. rewrite Forall_forall in Wt.
      apply Forall_forall. intros kv' Hkv'. unfold rw_tr_entries in Hkv'. apply in_map_iff in Hkv'.
      destruct Hkv' as [kv [<- Hkv]]. specialize (Wt kv Hkv).
      destruct (beqb (fst kv) k_Size); [|exact Wt]. cbn [fst snd]. split; [apply Wt | exact I]. }
    destruct (wfd_ids d W) as [I1 I2].
    apply Forall_app. split; [apply rw_bytes_of; reflexivity|].
    apply Forall_app. split; [apply tr_bk_hexstr; exact I1|].
    apply Forall_app. split; [apply tr_bk_hexstr; exact I2|].
    apply rw_bytes_of; reflexivity. }
  unfold w_tail.
  apply Forall_app. split; [apply rw_bytes_of; reflexivity|].
  apply Forall_app. split; [apply tr_bk_dec | apply rw_bytes_of; reflexivity].
Qed.
