(* Soundness of the executable document check (Obj/WfDocCheck.v): wf_doc_b d = true implies the
   hypothesis wf_doc of write_read_strict_lemma, hence the theorem holds for every document the
   harness accepts with wf_doc_b. *)
From QV Require Import Base.Bytes File.StrictSyntax File.ReadStrict Obj.Queue Obj.C01QueueProofs Obj.WriterModel
  Obj.WmPrinters Obj.C01WriterProofs Obj.C01RoundtripProofs Obj.C01FileProofs Obj.WfDocCheck.
From Coq Require Import Lia.
Local Open Scope N_scope.

Lemma wfd_b_mem_N_in : forall x l, wfd_b_mem_N x l = true -> In x l.
Proof.
  intros x l H. unfold wfd_b_mem_N in H. apply existsb_exists in H. destruct H as [y [Hy E]].
  apply N.eqb_eq in E. subst y. exact Hy.
Qed.

Lemma wfd_b_mem_N_not : forall x l, wfd_b_mem_N x l = false -> ~ In x l.
Proof.
  intros x l H Hin. assert (E : wfd_b_mem_N x l = true).
  { unfold wfd_b_mem_N. apply existsb_exists. exists x. split; [exact Hin | apply N.eqb_refl]. }
  congruence.
Qed.

Lemma wfd_b_nodup_N_sound : forall l, wfd_b_nodup_N l = true -> NoDup l.
Proof.
  induction l as [|x t IH]; intros H; [constructor|].
  cbn [wfd_b_nodup_N] in H. apply andb_true_iff in H. destruct H as [H1 H2].
  apply negb_true_iff in H1. constructor; [apply wfd_b_mem_N_not; exact H1 | apply IH; exact H2].
Qed.

Lemma wfd_b_mem_key_not : forall k l, wfd_b_mem_key k l = false -> ~ In k l.
Proof.
  intros k l H Hin. assert (E : wfd_b_mem_key k l = true).
  { unfold wfd_b_mem_key. apply existsb_exists. exists k. split; [exact Hin | apply list_eqb_N_eq; reflexivity]. }
  congruence.
Qed.

Lemma wfd_b_nodup_keys_sound : forall l, wfd_b_nodup_keys l = true -> NoDup l.
Proof.
  induction l as [|x t IH]; intros H; [constructor|].
  cbn [wfd_b_nodup_keys] in H. apply andb_true_iff in H. destruct H as [H1 H2].
  apply negb_true_iff in H1. constructor; [apply wfd_b_mem_key_not; exact H1 | apply IH; exact H2].
Qed.

Lemma wfd_b_bytes_sound : forall s, wfd_b_bytes s = true -> Forall (fun b => b < 256) s.
Proof.
  intros s H. unfold wfd_b_bytes in H. rewrite forallb_forall in H. apply Forall_forall.
  intros b Hb. apply N.ltb_lt. apply H. exact Hb.
Qed.

Lemma wfd_b_name_sound : forall n, wfd_b_name n = true -> ~ In 0 n /\ Forall (fun b => b < 256) n.
Proof.
  intros n H. unfold wfd_b_name in H. rewrite forallb_forall in H. split.
  - intros Hin. specialize (H 0 Hin). discriminate H.
  - apply Forall_forall. intros b Hb. specialize (H b Hb). apply andb_true_iff in H.
    apply N.ltb_lt. tauto.
Qed.

Lemma wfd_b_obj_sound : forall o, wfd_b_obj o = true -> wf_wobj o.
Proof.
  induction o as [|b|z|s|s|n|id|l IHl|d IHd] using obj_ind'; intros H; try exact I.
  - cbn [wfd_b_obj] in H. cbn [wf_wobj].
    destruct (parse_number s) as [[z|s'|?|?|?| | | | ]|] eqn:E; try discriminate H.
    apply list_eqb_N_eq in H. subst s'. exists (StReal s). split; reflexivity.
  - apply wfd_b_bytes_sound. exact H.
  - apply wfd_b_name_sound. exact H.
  - apply wf_arr. induction l as [|x t IHt]; [constructor|].
    inversion IHl as [|? ? Hx Ht]; subst.
    change (wfd_b_obj (OArr (x :: t))) with (wfd_b_obj x && wfd_b_obj (OArr t)) in H.
    apply andb_true_iff in H. destruct H as [H1 H2].
    constructor; [apply Hx; exact H1 | apply IHt; assumption].
  - apply wf_dict. induction d as [|kv t IHt]; [constructor|].
    inversion IHd as [|? ? Hx Ht]; subst.
    change (wfd_b_obj (ODict (kv :: t))) with (wfd_b_name (fst kv) && wfd_b_obj (snd kv) && wfd_b_obj (ODict t)) in H.
    apply andb_true_iff in H. destruct H as [H H3]. apply andb_true_iff in H. destruct H as [H1 H2].
    constructor; [|apply IHt; assumption].
    split; [exact (wfd_b_name_sound _ H1) | apply Hx; exact H2].
Qed.

Lemma graph_of_keys : forall d, map fst (graph_of d) = map fst (d_objects d).
Proof. intros d. unfold graph_of. rewrite map_map. reflexivity. Qed.

Lemma wfd_b_closed_sound : forall d, wfd_b_closed d = true -> doc_closed d.
Proof.
  intros d H. unfold wfd_b_closed in H. cbv zeta in H.
  apply andb_true_iff in H. destruct H as [H H3]. apply andb_true_iff in H. destruct H as [H1 H2].
  unfold doc_closed, closed. rewrite graph_of_keys. split; [|split].
  - apply wfd_b_nodup_N_sound. exact H1.
  - intros x Hx. rewrite forallb_forall in H2. apply wfd_b_mem_N_in. apply H2. exact Hx.
  - intros k cs y Hk Hy. rewrite forallb_forall in H3. specialize (H3 (k, cs) Hk). cbn [snd] in H3.
    rewrite forallb_forall in H3. apply wfd_b_mem_N_in. apply H3. exact Hy.
Qed.

Lemma wf_doc_b_sound_lemma : forall d, wf_doc_b d = true -> wf_doc d.
Proof.
  intros d H. unfold wf_doc_b in H. cbv zeta in H.
  apply andb_true_iff in H. destruct H as [H Hxs].
  apply andb_true_iff in H. destruct H as [H Hprev].
  apply andb_true_iff in H. destruct H as [H Hdk].
  apply andb_true_iff in H. destruct H as [H Hnoid].
  apply andb_true_iff in H. destruct H as [H Hndk].
  apply andb_true_iff in H. destruct H as [H Hsize].
  apply andb_true_iff in H. destruct H as [H Hroot].
  apply andb_true_iff in H. destruct H as [H Hid2].
  apply andb_true_iff in H. destruct H as [H Hid1].
  apply andb_true_iff in H. destruct H as [H Hver].
  apply andb_true_iff in H. destruct H as [H Hstr].
  apply andb_true_iff in H. destruct H as [H Htr].
  apply andb_true_iff in H. destruct H as [Hcl Hobjs].
  constructor.
  - apply wfd_b_closed_sound. exact Hcl.
  - unfold wf_doc_objs. apply Forall_forall. intros kv Hkv. rewrite forallb_forall in Hobjs.
    apply wfd_b_obj_sound. apply Hobjs. exact Hkv.
  - apply wfd_b_obj_sound. exact Htr.
  - intros k i Hin Hs. rewrite forallb_forall in Hstr. specialize (Hstr (k, i) Hin). cbn [snd] in Hstr.
    destruct (i_stream i); [|congruence]. destruct (i_val i); try discriminate Hstr. eexists. reflexivity.
  - intros k i data Hin Hs. rewrite forallb_forall in Hstr. specialize (Hstr (k, i) Hin). cbn [snd] in Hstr.
    rewrite Hs in Hstr. destruct (i_val i); try discriminate Hstr. apply wfd_b_bytes_sound. exact Hstr.
  - unfold wfd_b_version in Hver. destruct (d_version d) as [|a [|c [|b [|? ?]]]]; try discriminate Hver.
    apply andb_true_iff in Hver. destruct Hver as [Hver Hb]. apply andb_true_iff in Hver. destruct Hver as [Hc Ha].
    apply N.eqb_eq in Hc. subst c. exists a, b. repeat split; assumption.
  - split; apply wfd_b_bytes_sound; assumption.
  - unfold wfd_b_root in Hroot.
    destruct (find (fun kv => beqb (fst kv) k_Root) (d_trailer d)) as [[k v]|] eqn:E; [|discriminate Hroot].
    destruct v; try discriminate Hroot.
    destruct (find_obj (d_objects d) id) as [i|] eqn:Ef; [|discriminate Hroot].
    apply negb_true_iff in Hroot.
    pose proof (find_some _ _ E) as [_ Hk]. cbn [fst] in Hk. apply beqb_eq in Hk. subst k.
    exists id, i. repeat split; assumption.
  - unfold wfd_b_size in Hsize.
    destruct (find (fun kv => beqb (fst kv) k_Size) (d_trailer d)) as [[k v]|] eqn:E; [|discriminate Hsize].
    destruct v; try discriminate Hsize.
    pose proof (find_some _ _ E) as [_ Hk]. cbn [fst] in Hk. apply beqb_eq in Hk. subst k.
    exists z. reflexivity.
  - split; [|split].
    + apply wfd_b_nodup_keys_sound. exact Hndk.
    + apply negb_true_iff in Hnoid. apply wfd_b_mem_key_not in Hnoid. exact Hnoid.
    + intros k i dd Hin Hv. rewrite forallb_forall in Hdk. specialize (Hdk (k, i) Hin). cbn [snd] in Hdk.
      rewrite Hv in Hdk. apply wfd_b_nodup_keys_sound. exact Hdk.
  - apply negb_true_iff in Hprev. apply wfd_b_mem_key_not in Hprev. exact Hprev.
  - apply negb_true_iff in Hxs. apply wfd_b_mem_key_not in Hxs. exact Hxs.
Qed.

(* the capstone for every document accepted by the executable check *)
Lemma write_read_strict_b_lemma : forall d, wf_doc_b d = true ->
  N.of_nat (length (wm_out d)) < 10 ^ 10 ->
  exists f, read_strict (wm_out d) = RsOk f
    /\ sf_version f = d_version d
    /\ sf_sections f = 1 /\ sf_xref_stream f = false
    /\ sf_trailer f = expected_trailer d
    /\ length (sf_objs f) = length (written (graph_of d) (roots_of d))
    /\ (forall id i, In id (written (graph_of d) (roots_of d)) -> find_obj (d_objects d) id = Some i ->
          exists so, In so (sf_objs f)
                     /\ sobj_view (wm_out d) so = (doc_ren d id, 0, expected_val d i, i_stream i)).
Proof. intros d H. apply write_read_strict_lemma. apply wf_doc_b_sound_lemma. exact H. Qed.

Example wf_doc_b_example : wf_doc_b ex_doc = true.
Proof. vm_compute. reflexivity. Qed.
