# C12 (extension) - page labels, in-process.  Implementation: harness/drv_plabels.cc (QPDFPageLabelDocumentHelper::
# getLabelsForPageRange on label trees built in-process).  Model: coq/Struct/PageLabels.v (extracted, command `plabels`).
# Specification side (below; never looks at the model): ISO 32000-1 12.4.2 - the label of page i is given by the entry with the
# greatest key <= i, numbered from /St (default 1).
import common


def gen_tree(rng):
    if rng.random() < 0.15:
        return None
    k = 0 if rng.random() < 0.75 else rng.randint(1, 4)
    ents = []
    for _ in range(rng.randint(1, 5)):
        st = rng.choice(["-", "-", "1", "5", "16", "0", "-3", "x", "100000"])
        ents.append((k, rng.randint(0, 6), rng.randint(0, 3), st))
        k += rng.randint(1, 4)
    return ents


def tstr(t):
    return "-" if t is None else ",".join("%d:%d:%d:%s" % e for e in t)


def lookup(ents, i):
    """(S, P, number) of page i, None when no range covers it"""
    best = None
    for k, s, p, st in ents or []:
        if k <= i and (best is None or k > best[0]):
            best = (k, s, p, st)
    if best is None:
        return None
    k, s, p, st = best
    try:
        start = int(st)
    except ValueError:
        start = 1
    return (s, p, start + i - k)


def parse_out(s):
    if s == "-":
        return []
    return [(int(a), int(b), int(c), d) for a, b, c, d in (e.split(":") for e in s.split(","))]


def part_labels(chk, drv, runner):
    rng = chk.rng
    n = 3000 if chk.tier == "quick" else 40000
    cases = []
    for _ in range(n):
        kind = rng.choice(["handle", "handle", "split", "free"])
        trees = [gen_tree(rng) for _ in range(rng.randint(1, 3))]
        if kind == "split" and trees[0] is None:
            trees[0] = [(0, 1, 0, "-")]
        calls, expect = [], None
        if kind == "handle":
            sel = []
            runlen = 0
            for j in range(rng.randint(1, 12)):
                if sel and rng.random() < 0.5:
                    f, p = sel[-1][0], sel[-1][1] + 1          # consecutive pages: the redundancy elision
                else:
                    f, p = rng.randrange(len(trees)), rng.randint(0, 14)
                sel.append((f, p))
            calls = ["%d.%d.%d.%d" % (f, p, p, j) for j, (f, p) in enumerate(sel)]
            expect = [lookup(trees[f], p) or (0, 0, 1 + j) for j, (f, p) in enumerate(sel)]
        elif kind == "split":
            a = rng.randint(0, 10)
            b = a + rng.randint(0, 8)
            calls = ["0.%d.%d.0" % (a, b)]
            expect = [lookup(trees[0], a + i) or (0, 0, 1 + i) for i in range(b - a + 1)]
        else:
            pos = 0
            for _ in range(rng.randint(1, 6)):
                f = rng.randrange(len(trees))
                a = rng.randint(0, 12)
                b = a if trees[f] is None else a + rng.choice([0, 0, 1, 3])
                calls.append("%d.%d.%d.%d" % (f, a, b, pos))
                pos += (b - a + 1) if rng.random() < 0.8 else rng.randint(0, 3)
        cases.append(("plabels %s %s" % ("/".join(tstr(t) for t in trees), ";".join(calls)), expect, kind))
    lines = [c[0] for c in cases]
    impl = common.run_lines(drv, lines, shards=4)
    model = common.run_lines(runner, lines, shards=4)
    tie, bad, nontriv, kinds = [], 0, set(), {}
    for i, (line, expect, kind) in enumerate(cases):
        if impl[i].startswith("?"):
            chk.violation({"kind": "property-fails-on-implementation", "part": "plabels", "why": "driver failed", "case": line, "implementation": impl[i][:300]})
            continue
        why = None
        if expect is not None:
            out = parse_out(impl[i])
            for j, want in enumerate(expect):
                got = lookup(out, j)
                if got != want:
                    why = "output page %d: label %r, its source page's effective label is %r" % (j, got, want)
                    break
        if why:
            bad += 1
            if bad <= 5:
                chk.violation({"kind": "property-fails-on-implementation", "part": "plabels", "why": why, "case": line,
                               "implementation": impl[i], "model": model[i], "replay": line})
            continue
        if impl[i] != model[i]:
            tie.append(i)
        kinds[kind] = kinds.get(kind, 0) + 1
        if impl[i].count(",") >= 1:
            nontriv.add(line)
    if tie and not bad:
        i = tie[0]
        chk.violation({"kind": "correspondence-broken", "correspondence": "corr:C12:plabels", "differing_cases": len(tie), "first_case": lines[i],
                       "implementation": impl[i], "model": model[i], "replay": lines[i]}, no_input=True)
    chk.count("plabels", len(cases), nontriv, samples=[{"case": lines[0], "impl": impl[0]}])
    chk.cov["parts"]["plabels"]["distribution"] = kinds
