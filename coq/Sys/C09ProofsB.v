(* C09, fixpoint clause in the plain output mode (qpdf --static-id --object-streams=disable --compress-streams=n
   --decode-level=none), proved at the model level by composing the plain writer model (Obj/WriterModel.v write_doc, tied
   to qpdf byte for byte by C01), the strict reader (File/ReadStrict.v) through C01's write_read_strict, the queue
   invariants (Obj/C01QueueProofs.v) and the numbering fixpoint (Sys/C09Proofs.v). Model: Sys/FixpointModel.v. *)
From QV Require Import Base.Bytes File.StrictSyntax File.ReadStrict Obj.Queue Obj.C01QueueProofs Obj.WriterModel
  Obj.WmPrinters Obj.C01WriterProofs Obj.C01RoundtripProofs Obj.C01FileProofs Sys.EnvModel Sys.C09Proofs Sys.FixpointModel.
From Coq Require Import Lia.
Local Open Scope N_scope.

(* ------------------------------------------------------------------------------------------------
   (5) determinism of the ID in the plain static-id mode: the bytes are a function of the document (and the original
   first /ID element) only - not of the environment (time, output name, random source), nor of the data the
   deterministic-ID digest or the /Info strings would contribute in the other modes. *)
Lemma plain_static_bytes_depend_on_doc_only_lemma : forall md5 md5' e1 e2 orig det1 det2 info1 info2 d,
  fx_plain_write md5 e1 orig det1 info1 d = fx_plain_write md5' e2 orig det2 info2 d.
Proof. reflexivity. Qed.

(* ------------------------------------------------------------------------------------------------
   small list facts *)
Lemma fx_flat_map_single : forall (A B : Type) (F : A -> list B) (G : A -> B) l,
  (forall a, In a l -> F a = [G a]) -> flat_map F l = map G l.
Proof.
  intros A B F G. induction l as [|a l IH]; intros H; [reflexivity|].
  cbn [flat_map map]. rewrite (H a (or_introl eq_refl)). cbn [app]. f_equal.
  apply IH. intros b Hb. apply H. right. exact Hb.
Qed.

Lemma fx_flat_map_map : forall (A B C : Type) (f : A -> B) (F : B -> list C) l,
  flat_map F (map f l) = flat_map (fun a => F (f a)) l.
Proof. intros A B C f F. induction l as [|a l IH]; [reflexivity|]. cbn [map flat_map]. rewrite IH. reflexivity. Qed.

Lemma fx_find_app_skip : forall (A : Type) (p : A -> bool) a b,
  Forall (fun x => p x = false) a -> find p (a ++ b) = find p b.
Proof.
  intros A p a b H. induction H as [|x a Hx _ IH]; [reflexivity|]. cbn [app find]. rewrite Hx. exact IH.
Qed.

Lemma fx_max_ge_acc : forall l m, m <= fold_left (fun m so => N.max m (so_num so)) l m.
Proof.
  induction l as [|a l IH]; intros m; cbn [fold_left]; [lia|].
  specialize (IH (N.max m (so_num a))). lia.
Qed.
Lemma fx_max_ge : forall l m so, In so l -> so_num so <= fold_left (fun m so => N.max m (so_num so)) l m.
Proof.
  induction l as [|a l IH]; intros m so H; [destruct H|]. cbn [fold_left]. destruct H as [H|H].
  - subst a. pose proof (fx_max_ge_acc l (N.max m (so_num so))). lia.
  - apply IH. exact H.
Qed.
Lemma fx_max_le : forall l m B, (forall so, In so l -> so_num so <= B) -> m <= B ->
  fold_left (fun m so => N.max m (so_num so)) l m <= B.
Proof.
  induction l as [|a l IH]; intros m B H Hm; cbn [fold_left]; [exact Hm|].
  apply IH; [intros so Hs; apply H; right; exact Hs|].
  pose proof (H a (or_introl eq_refl)). lia.
Qed.

(* ------------------------------------------------------------------------------------------------
   fx_of_pobj after to_pobj is the renaming fx_rn *)
Lemma fx_of_to_pobj : forall objs ren o, fx_of_pobj (to_pobj objs ren o) = fx_rn objs ren o.
Proof.
  intros objs ren. apply obj_ind'; try reflexivity.
  - intros l IH. rewrite to_pobj_arr. cbn [fx_of_pobj fx_rn]. f_equal. rewrite map_map.
    induction IH as [|x l Hx _ IHl]; [reflexivity|]. cbn [map]. rewrite Hx, IHl. reflexivity.
  - intros d IH. rewrite to_pobj_dict. cbn [fx_of_pobj fx_rn]. f_equal.
    induction IH as [|kv d Hkv _ IHd]; [reflexivity|]. cbn [pdict flat_map].
    destruct (is_null_val objs (snd kv)); [exact IHd|].
    cbn [map app fst snd]. rewrite Hkv, IHd. reflexivity.
Qed.

Lemma fx_of_expected_val : forall d i,
  fx_of_pobj (expected_val d i) = fx_norm_val d i.
Proof.
  intros d i. unfold expected_val, fx_norm_val. change (fx_ren d) with (doc_ren d).
  destruct (i_stream i) as [data|]; [|apply fx_of_to_pobj].
  rewrite <- fx_of_to_pobj.
  destruct (to_pobj (d_objects d) (doc_ren d) (drop_length (i_val i))); try reflexivity.
  cbn [fx_of_pobj]. rewrite map_app. reflexivity.
Qed.

(* ------------------------------------------------------------------------------------------------
   Theorem A: reading the writer model's own output gives fx_norm of the written document *)
Lemma fx_find_unique : forall (l : list sobj) so, NoDup (map so_num l) -> In so l ->
  find (fun o => so_num o =? so_num so) l = Some so.
Proof.
  induction l as [|a l IH]; intros so Hnd Hin; [destruct Hin|].
  cbn [find]. cbn [map] in Hnd. inversion Hnd as [|? ? Hna Hnd']; subst.
  destruct Hin as [Hin|Hin].
  - subst a. rewrite N.eqb_refl. reflexivity.
  - destruct (so_num a =? so_num so) eqn:E.
    + apply N.eqb_eq in E. exfalso. apply Hna. rewrite E. apply in_map. exact Hin.
    + apply IH; assumption.
Qed.

Lemma fx_trailer_norm : forall d,
  ~ In fx_k_ID (map fst (d_trailer d)) ->
  forall l, (forall kv, In kv l -> In kv (d_trailer d)) ->
  fx_trim (map fx_entry
    (flat_map (fun kv => if is_null_val (d_objects d) (snd kv) then []
                         else [(fst kv, if beqb (fst kv) k_Size then SpInt (Z.of_N (w_n d + 1))
                                        else to_pobj (d_objects d) (doc_ren d) (snd kv))]) l))
  = flat_map (fx_norm_entry d) l
  /\ Forall (fun x => beqb (fst x) fx_k_ID = false)
       (map fx_entry
         (flat_map (fun kv => if is_null_val (d_objects d) (snd kv) then []
                              else [(fst kv, if beqb (fst kv) k_Size then SpInt (Z.of_N (w_n d + 1))
                                             else to_pobj (d_objects d) (doc_ren d) (snd kv))]) l)).
Proof.
  intros d Hnoid. induction l as [|kv l IH]; intros Hl; [split; [reflexivity | constructor]|].
  destruct IH as [IH1 IH2]; [intros x Hx; apply Hl; right; exact Hx|].
  cbn [flat_map]. unfold fx_norm_entry at 1.
  destruct (is_null_val (d_objects d) (snd kv)) eqn:En; cbn [orb app]; [split; assumption|].
  cbn [map]. unfold fx_entry at 1 3. cbn [fst snd]. unfold fx_trim in *. cbn [filter fst].
  split.
  - destruct (fx_owned (fst kv)); cbn [negb]; [exact IH1|].
    rewrite IH1. cbn [app]. f_equal. f_equal.
    destruct (beqb (fst kv) k_Size); [reflexivity|]. apply fx_of_to_pobj.
  - constructor; [|exact IH2]. cbn [fst].
    destruct (beqb (fst kv) fx_k_ID) eqn:E; [|reflexivity].
    apply beqb_eq in E. exfalso. apply Hnoid. rewrite <- E. apply in_map. apply Hl. left. reflexivity.
Qed.

Lemma fx_read_write_lemma : forall d, wf_doc d ->
  N.of_nat (length (fx_write d)) < 10 ^ 10 ->
  fx_read (fx_write d) = Some (fx_norm d).
Proof.
  intros d W Hlt. change (fx_write d) with (wm_out d) in *.
  destruct (write_read_strict_lemma d W Hlt) as [f [Hrd [Hver [_ [_ [Htr [Hlen Hobjs]]]]]]].
  unfold fx_read. rewrite Hrd. f_equal.
  pose proof (wfd_closed d W) as Hc.
  set (Wd := written (graph_of d) (roots_of d)) in *.
  set (L := sf_objs f) in *.
  assert (HF1 : map (doc_ren d) Wd = map N.of_nat (seq 1 (length Wd))) by apply (map_f_written _ _ Hc).
  (* every written id has its object in L *)
  assert (Hso : forall id, In id Wd -> exists so i, In so L /\ find_obj (d_objects d) id = Some i
                  /\ sobj_view (wm_out d) so = (doc_ren d id, 0, expected_val d i, i_stream i)).
  { intros id Hin. destruct (written_find_obj d id Hc Hin) as [i Hi].
    destruct (Hobjs id i Hin Hi) as [so [H1 H2]]. exists so, i. repeat split; assumption. }
  assert (Hnum : forall so a b c e, sobj_view (wm_out d) so = (a, b, c, e) -> so_num so = a /\ so_val so = c).
  { intros so a b c e H. unfold sobj_view in H. inversion H. split; reflexivity. }
  assert (Hincl : incl (map (doc_ren d) Wd) (map so_num L)).
  { intros k Hk. apply in_map_iff in Hk. destruct Hk as [id [<- Hin]].
    destruct (Hso id Hin) as [so [i [H1 [_ H3]]]]. apply Hnum in H3. destruct H3 as [H3 _].
    rewrite <- H3. apply in_map. exact H1. }
  assert (Hnd0 : NoDup (map (doc_ren d) Wd)).
  { rewrite HF1. apply NoDup_map_of_nat. apply seq_NoDup. }
  assert (Hnd : NoDup (map so_num L)).
  { apply (NoDup_incl_NoDup Hnd0); [|exact Hincl]. rewrite !map_length. lia. }
  assert (Hincl' : incl (map so_num L) (map (doc_ren d) Wd)).
  { apply (NoDup_length_incl Hnd0); [|exact Hincl]. rewrite !map_length. lia. }
  (* the highest number *)
  assert (Hmax : fx_max_num L = N.of_nat (length Wd)).
  { unfold fx_max_num. apply N.le_antisymm.
    - apply fx_max_le; [|lia]. intros so Hs.
      assert (H : In (so_num so) (map (doc_ren d) Wd)) by (apply Hincl'; apply in_map; exact Hs).
      rewrite HF1 in H. apply in_map_iff in H. destruct H as [j [<- Hj]]. apply in_seq in Hj. lia.
    - destruct (length Wd) as [|n'] eqn:En; [lia|].
      assert (H : In (N.of_nat (S n')) (map so_num L)).
      { apply Hincl. rewrite HF1. apply in_map. apply in_seq. lia. }
      apply in_map_iff in H. destruct H as [so [Hs Hin]]. rewrite <- Hs. apply fx_max_ge. exact Hin. }
  unfold fx_doc_of_file, fx_norm. fold L. fold Wd.
  assert (Hobjs_eq : fx_objects (wm_out d) L = map (fx_norm_obj d) Wd).
  { unfold fx_objects. rewrite Hmax, Nat2N.id, <- HF1, fx_flat_map_map.
    apply fx_flat_map_single. intros id Hin.
    destruct (Hso id Hin) as [so [i [H1 [H2 H3]]]].
    pose proof (Hnum _ _ _ _ _ H3) as [Hn Hv].
    unfold fx_slot. rewrite <- Hn, (fx_find_unique L so Hnd H1).
    unfold fx_norm_obj. change (fx_ren d id) with (doc_ren d id). rewrite Hn, H2.
    f_equal. f_equal. unfold fx_indirect. rewrite Hv, fx_of_expected_val. f_equal.
    unfold sobj_view in H3. inversion H3. reflexivity. }
  rewrite Hobjs_eq, Hver, Htr, expected_trailer_eq. unfold et_entries.
  destruct (wfd_keys_nodup d W) as [_ [Hnoid _]].
  destruct (fx_trailer_norm d Hnoid (d_trailer d) (fun kv H => H)) as [T1 T2].
  rewrite map_app. cbn [map]. unfold fx_entry at 2. cbn [fst snd fx_of_pobj map].
  f_equal.
  - unfold fx_trim. rewrite filter_app. fold (fx_trim (map fx_entry
      (flat_map (fun kv => if is_null_val (d_objects d) (snd kv) then []
                           else [(fst kv, if beqb (fst kv) k_Size then SpInt (Z.of_N (w_n d + 1))
                                          else to_pobj (d_objects d) (doc_ren d) (snd kv))]) (d_trailer d)))).
    rewrite T1. cbn. apply app_nil_r.
  - f_equal. unfold fx_original_id1. rewrite (fx_find_app_skip _ _ _ _ T2). reflexivity.
Qed.

(* ------------------------------------------------------------------------------------------------
   The normal form of the plain writer, and (3): the writer followed by the reader is the identity on it *)
Record fx_normal (d : doc) : Prop := {
  fxn_wf : wf_doc d;
  (* numbered 1..n, the table in key order *)
  fxn_keys : map fst (d_objects d) = fx_ids_1n (length (d_objects d));
  (* every object is reachable, and the numbers are the first-encounter order of the queue *)
  fxn_written : written (graph_of d) (roots_of d) = fx_ids_1n (length (d_objects d));
  (* no dictionary entry with a null value (explicit null, reference to a null or absent object), at any depth *)
  fxn_nonull : forall k i, In (k, i) (d_objects d) -> fx_nonull (d_objects d) (i_val i) = true;
  (* a stream dictionary ends with the actual /Length and has no other /Length *)
  fxn_shape : forall k i data, In (k, i) (d_objects d) -> i_stream i = Some data ->
     exists dd, i_val i = ODict (dd ++ [fx_len_entry data]) /\ Forall (fun kv => beqb (fst kv) k_Length = false) dd;
  fxn_tr_nonull : fx_nonull (d_objects d) (ODict (d_trailer d)) = true;
  (* the trailer is trimmed_trailer(): none of the keys the writer owns *)
  fxn_trimmed : Forall (fun kv => fx_owned (fst kv) = false) (d_trailer d);
  fxn_size : find (fun kv => beqb (fst kv) k_Size) (d_trailer d)
             = Some (k_Size, OInt (Z.of_N (N.of_nat (length (d_objects d)) + 1)));
  (* static-id mode: the second /ID string is the static one, the first one is not empty *)
  fxn_id2 : d_id2 d = static_id;
  fxn_id1 : d_id1 d <> []
}.

Lemma fx_rn_id : forall objs ren o, fx_nonull objs o = true ->
  (forall id, In id (refs_of objs o) -> ren id = id) -> fx_rn objs ren o = o.
Proof.
  intros objs ren.
  apply (obj_ind' (fun o => fx_nonull objs o = true -> (forall id, In id (refs_of objs o) -> ren id = id) ->
                            fx_rn objs ren o = o)); try (intros; reflexivity).
  - intros id _ H. cbn [fx_rn]. rewrite (H id); [reflexivity | left; reflexivity].
  - intros l IH Hn Hr. cbn [fx_rn]. f_equal. cbn [fx_nonull] in Hn. cbn [refs_of] in Hr.
    induction IH as [|x l Hx _ IHl]; [reflexivity|].
    cbn [forallb] in Hn. apply andb_true_iff in Hn. destruct Hn as [Hn1 Hn2].
    cbn [flat_map] in Hr. cbn [map]. f_equal.
    + apply Hx; [exact Hn1|]. intros id Hid. apply Hr. apply in_or_app. left. exact Hid.
    + apply IHl; [exact Hn2|]. intros id Hid. apply Hr. apply in_or_app. right. exact Hid.
  - intros d IH Hn Hr. cbn [fx_rn]. f_equal. cbn [fx_nonull] in Hn. cbn [refs_of] in Hr.
    induction IH as [|kv d Hkv _ IHd]; [reflexivity|].
    cbn [forallb] in Hn. apply andb_true_iff in Hn. destruct Hn as [Hn1 Hn2].
    apply andb_true_iff in Hn1. destruct Hn1 as [Hnn Hn1]. apply negb_true_iff in Hnn.
    cbn [flat_map] in *. rewrite Hnn in *. cbn [app]. f_equal.
    + destruct kv as [k v]. cbn [fst snd] in *. f_equal. apply Hkv; [exact Hn1|].
      intros id Hid. apply Hr. apply in_or_app. left. exact Hid.
    + apply IHd; [exact Hn2|]. intros id Hid. apply Hr. apply in_or_app. right. exact Hid.
Qed.

Lemma fx_find_obj_nodup : forall (l : list (N * indirect)) k i, NoDup (map fst l) -> In (k, i) l -> find_obj l k = Some i.
Proof.
  induction l as [|[k' v] l IH]; intros k i Hnd Hin; [destruct Hin|].
  cbn [map fst] in Hnd. inversion Hnd as [|? ? Hna Hnd']; subst. cbn [find_obj].
  destruct Hin as [Hin|Hin].
  - inversion Hin; subst. rewrite N.eqb_refl. reflexivity.
  - destruct (k' =? k) eqn:E; [|apply IH; assumption].
    apply N.eqb_eq in E. subst k'. exfalso. apply Hna. apply in_map_iff. exists (k, i). split; [reflexivity | exact Hin].
Qed.

Lemma fx_objs_nodup : forall d, doc_closed d -> NoDup (map fst (d_objects d)).
Proof.
  intros d [Hnd _]. unfold graph_of in Hnd. rewrite map_map in Hnd. cbn [fst] in Hnd. exact Hnd.
Qed.

Lemma fx_filter_keep : forall (dd : list (list N * obj)),
  Forall (fun kv => beqb (fst kv) k_Length = false) dd ->
  filter (fun kv => negb (beqb (fst kv) k_Length)) dd = dd.
Proof.
  intros dd H. induction H as [|kv dd Hkv _ IH]; [reflexivity|]. cbn [filter]. rewrite Hkv. cbn [negb]. rewrite IH. reflexivity.
Qed.

Lemma fx_drop_length_shape : forall dd e,
  Forall (fun kv => beqb (fst kv) k_Length = false) dd -> beqb (fst e) k_Length = true ->
  drop_length (ODict (dd ++ [e])) = ODict dd.
Proof.
  intros dd e H He. cbn [drop_length]. rewrite filter_app, (fx_filter_keep dd H). cbn [filter]. rewrite He. cbn [negb].
  rewrite app_nil_r. reflexivity.
Qed.

(* a reference printed in a non-null trailer entry is a root of the queue *)
Lemma fx_trailer_ref_root : forall d r kv x,
  NoDup (map fst (d_trailer d)) ->
  find (fun kv => beqb (fst kv) k_Root) (d_trailer d) = Some (k_Root, ORef r) ->
  In kv (d_trailer d) -> is_null_val (d_objects d) (snd kv) = false ->
  In x (refs_of (d_objects d) (snd kv)) -> In x (roots_of d).
Proof.
  intros d r kv x Hnd Hroot Hkv En Hx.
  destruct (beqb (fst kv) k_Root) eqn:Er.
  - apply beqb_eq in Er. destruct kv as [k v]. cbn [fst snd] in *. subst k.
    pose proof (find_some _ _ Hroot) as [Hr _].
    rewrite (nodup_key_unique _ _ _ _ _ _ Hnd Hkv Hr) in Hx.
    unfold roots_of. rewrite Hroot. apply in_or_app. left. exact Hx.
  - unfold roots_of. apply in_or_app. right. apply in_flat_map. exists kv. split; [exact Hkv|].
    rewrite Er, En. exact Hx.
Qed.

(* on a document numbered in first-encounter order the queue's renumbering is the identity *)
Lemma fx_ren_identity : forall d n, doc_closed d ->
  written (graph_of d) (roots_of d) = fx_ids_1n n ->
  forall x, In x (written (graph_of d) (roots_of d)) -> fx_ren d x = x.
Proof.
  intros d n Hc Hw x Hx. pose proof (renumber_order_lemma _ _ Hc) as Ho.
  rewrite Hw in Ho, Hx. unfold fx_ids_1n in *. rewrite map_length, seq_length, map_map in Ho.
  apply in_map_iff in Hx. destruct Hx as [j [<- Hj]].
  pose proof (proj1 (@map_ext_in_iff _ _ _ _ _) Ho j Hj) as H. cbn beta in H.
  unfold fx_ren. rewrite H. reflexivity.
Qed.

Lemma fx_norm_normal_id : forall d, fx_normal d -> fx_norm d = d.
Proof.
  intros d NF. destruct NF as [W Hkeys Hwr Hnn Hshape Htn Htrim Hsize Hid2 Hid1].
  pose proof (wfd_closed d W) as Hc.
  pose proof (fx_objs_nodup d Hc) as Hndo.
  destruct (wfd_keys_nodup d W) as [Hndt _].
  destruct (wfd_root d W) as [r [ir [Hroot _]]].
  destruct (queue_complete_lemma _ _ Hc) as [_ Hq].
  set (n := length (d_objects d)) in *.
  pose proof (fx_ren_identity d n Hc Hwr) as Hren.
  assert (Hlenw : length (written (graph_of d) (roots_of d)) = n).
  { rewrite Hwr. unfold fx_ids_1n. rewrite map_length, seq_length. reflexivity. }
  (* objects *)
  assert (Hobjs : map (fx_norm_obj d) (written (graph_of d) (roots_of d)) = d_objects d).
  { rewrite Hwr, <- Hkeys, map_map. rewrite <- (map_id (d_objects d)) at 2.
    apply map_ext_in. intros [k i] Hin. cbn [fst].
    assert (Hk : In k (written (graph_of d) (roots_of d))).
    { rewrite Hwr, <- Hkeys. apply in_map_iff. exists (k, i). split; [reflexivity | exact Hin]. }
    pose proof (fx_find_obj_nodup _ _ _ Hndo Hin) as Hf.
    unfold fx_norm_obj. rewrite (Hren k Hk), Hf. f_equal.
    assert (Hv : fx_norm_val d i = i_val i).
    { unfold fx_norm_val. destruct (i_stream i) as [data|] eqn:Es.
      - destruct (Hshape k i data Hin Es) as [dd [Hval Hdd]].
        assert (Hdl : drop_length (i_val i) = ODict dd).
        { rewrite Hval. apply fx_drop_length_shape; [exact Hdd | reflexivity]. }
        rewrite Hdl.
        rewrite fx_rn_id; [rewrite Hval; reflexivity | |].
        + pose proof (Hnn k i Hin) as H. rewrite Hval in H. cbn [fx_nonull] in H. rewrite forallb_app in H.
          apply andb_true_iff in H. exact (proj1 H).
        + intros id Hid. apply Hren. apply Hq. apply (reach_step _ _ k); [apply Hq; exact Hk|].
          rewrite (children_graph_of_stream d k i data Hf Es), Hdl. exact Hid.
      - apply fx_rn_id; [exact (Hnn k i Hin)|].
        intros id Hid. apply Hren. apply Hq. apply (reach_step _ _ k); [apply Hq; exact Hk|].
        rewrite (children_graph_of d k i Hf Es). exact Hid. }
    rewrite Hv. destruct i; reflexivity. }
  (* trailer *)
  assert (Htr : flat_map (fx_norm_entry d) (d_trailer d) = d_trailer d).
  { rewrite <- (map_id (d_trailer d)) at 2. apply fx_flat_map_single. intros kv Hin.
    unfold fx_norm_entry.
    cbn [fx_nonull] in Htn. rewrite forallb_forall in Htn. specialize (Htn kv Hin).
    apply andb_true_iff in Htn. destruct Htn as [Hnull Hnn']. apply negb_true_iff in Hnull.
    rewrite Forall_forall in Htrim. rewrite Hnull, (Htrim kv Hin). cbn [orb]. f_equal.
    destruct kv as [k v]. cbn [fst snd] in *. f_equal.
    destruct (beqb k k_Size) eqn:Es.
    - apply beqb_eq in Es. subst k. pose proof (find_some _ _ Hsize) as [Hs _].
      rewrite Hlenw. symmetry. exact (nodup_key_unique _ _ _ _ _ _ Hndt Hin Hs).
    - apply fx_rn_id; [exact Hnn'|]. intros id Hid. apply Hren. apply Hq. apply reach_root.
      exact (fx_trailer_ref_root d r (k, v) id Hndt Hroot Hin Hnull Hid). }
  unfold fx_norm. rewrite Hobjs, Htr.
  assert (Hi1 : generate_id1 (d_id1 d) static_id = d_id1 d).
  { unfold generate_id1. destruct (d_id1 d); [exfalso; apply Hid1; reflexivity | reflexivity]. }
  rewrite Hi1, <- Hid2. destruct d; reflexivity.
Qed.

(* (3) the writer is idempotent on normal forms: writing a normal form and reading the bytes back gives the SAME
   document (not merely an isomorphic one) *)
Lemma writer_idempotent_on_normal_forms_lemma : forall d, fx_normal d ->
  N.of_nat (length (fx_write d)) < 10 ^ 10 ->
  fx_read (fx_write d) = Some d.
Proof.
  intros d NF Hlt. rewrite (fx_read_write_lemma d (fxn_wf d NF) Hlt), (fx_norm_normal_id d NF). reflexivity.
Qed.

(* hence a normal form is a fixpoint of one generation: plain mode, static id *)
Lemma normal_form_is_fixpoint_lemma : forall d, fx_normal d ->
  N.of_nat (length (fx_write d)) < 10 ^ 10 ->
  fx_regen (fx_write d) = Some (fx_write d).
Proof.
  intros d NF Hlt. unfold fx_regen. rewrite (writer_idempotent_on_normal_forms_lemma d NF Hlt). reflexivity.
Qed.

(* ------------------------------------------------------------------------------------------------
   (2) what generation 1 reads back as is a normal form *)
Definition fx_trimmed (d : doc) : Prop := Forall (fun kv => fx_owned (fst kv) = false) (d_trailer d).

Lemma fx_sub_keys : forall (E : list N * obj -> list (list N * obj)),
  (forall kv, E kv = [] \/ exists v, E kv = [(fst kv, v)]) ->
  forall l, (forall k, In k (map fst (flat_map E l)) -> In k (map fst l))
            /\ (NoDup (map fst l) -> NoDup (map fst (flat_map E l))).
Proof.
  intros E HE. induction l as [|kv l [IH1 IH2]]; [split; [intros k H; exact H | intros H; exact H]|].
  cbn [flat_map map]. rewrite map_app. destruct (HE kv) as [H|[v H]]; rewrite H; cbn [map app fst].
  - split; [intros k Hk; right; apply IH1; exact Hk|].
    intros Hnd. inversion Hnd; subst. apply IH2. assumption.
  - split; [intros k [Hk|Hk]; [left; exact Hk | right; apply IH1; exact Hk]|].
    intros Hnd. inversion Hnd as [|? ? Hna Hnd']; subst. constructor; [|apply IH2; exact Hnd'].
    intros Hin. apply Hna. apply IH1. exact Hin.
Qed.

Lemma fx_nodup_snoc : forall (A : Type) (l : list A) x, NoDup l -> ~ In x l -> NoDup (l ++ [x]).
Proof.
  intros A l x Hnd Hx. induction Hnd as [|a l Ha Hnd IH]; [repeat constructor; intros []|].
  cbn [app]. constructor.
  - intros Hin. apply in_app_or in Hin. destruct Hin as [Hin|[Hin|[]]]; [exact (Ha Hin)|].
    subst a. apply Hx. left. reflexivity.
  - apply IH. intros Hin. apply Hx. right. exact Hin.
Qed.

Definition fx_rn_entry (objs : list (N * indirect)) (ren : N -> N) (kv : list N * obj) : list (list N * obj) :=
  if is_null_val objs (snd kv) then [] else [(fst kv, fx_rn objs ren (snd kv))].
Lemma fx_rn_dict : forall objs ren dd, fx_rn objs ren (ODict dd) = ODict (flat_map (fx_rn_entry objs ren) dd).
Proof. reflexivity. Qed.
Lemma fx_rn_entry_shape : forall objs ren kv, fx_rn_entry objs ren kv = [] \/ exists v, fx_rn_entry objs ren kv = [(fst kv, v)].
Proof. intros objs ren kv. unfold fx_rn_entry. destruct (is_null_val objs (snd kv)); [left; reflexivity | right; eexists; reflexivity]. Qed.
Lemma fx_norm_entry_shape : forall d kv, fx_norm_entry d kv = [] \/ exists v, fx_norm_entry d kv = [(fst kv, v)].
Proof.
  intros d kv. unfold fx_norm_entry.
  destruct (is_null_val (d_objects d) (snd kv) || fx_owned (fst kv)); [left; reflexivity | right; eexists; reflexivity].
Qed.

(* well-formedness of values is kept by the renaming and by dropping /Length *)
Lemma fx_wf_rn : forall objs ren o, wf_wobj o -> wf_wobj (fx_rn objs ren o).
Proof.
  intros objs ren.
  apply (obj_ind' (fun o => wf_wobj o -> wf_wobj (fx_rn objs ren o))); try (intros; assumption); try (intros; exact I).
  - intros l IH Hw. cbn [fx_rn]. apply wf_arr. apply wf_arr in Hw.
    induction IH as [|x l Hx _ IHl]; [constructor|]. inversion Hw; subst. cbn [map]. constructor; [apply Hx; assumption | apply IHl; assumption].
  - intros dd IH Hw. rewrite fx_rn_dict. apply wf_dict. apply wf_dict in Hw.
    induction IH as [|kv dd Hkv _ IHd]; [constructor|]. inversion Hw as [|? ? [Hk Hv] Hw']; subst.
    cbn [flat_map]. apply Forall_app. split; [|apply IHd; exact Hw'].
    unfold fx_rn_entry. destruct (is_null_val objs (snd kv)); constructor; [|constructor].
    cbn [fst snd]. split; [exact Hk | apply Hkv; exact Hv].
Qed.

Lemma fx_wf_drop_length : forall o, wf_wobj o -> wf_wobj (drop_length o).
Proof.
  intros o Hw. destruct o; try exact Hw. cbn [drop_length]. apply wf_dict. apply wf_dict in Hw.
  rewrite Forall_forall in *. intros kv Hin. apply filter_In in Hin. apply Hw. exact (proj1 Hin).
Qed.

Lemma fx_wf_len_key : wf_key k_Length.
Proof. split; [intros H; repeat (destruct H as [H|H]; [discriminate H|]); destruct H | repeat constructor]. Qed.

Section Norm.
  Variable d : doc.
  Hypothesis W : wf_doc d.
  Hypothesis Htrim : fx_trimmed d.

  Let objs := d_objects d.
  Let rho := fx_ren d.
  Let g := graph_of d.
  Let roots := roots_of d.
  Let Wd := written g roots.
  Let objs1 := map (fx_norm_obj d) Wd.

  Let Hc : closed g roots := wfd_closed d W.

  Lemma fxs_written_reach : forall x, In x Wd <-> reach g roots x.
  Proof. exact (proj2 (queue_complete_lemma g roots Hc)). Qed.

  Lemma fxs_inj : forall a b, In a Wd -> In b Wd -> rho a = rho b -> a = b.
  Proof.
    intros a b Ha Hb H. apply (f_inj_reach g roots Hc); [apply fxs_written_reach; exact Ha | apply fxs_written_reach; exact Hb | exact H].
  Qed.

  Lemma fxs_find1_gen : forall l id, (forall a, In a l -> In a Wd) -> In id l ->
    find_obj (map (fx_norm_obj d) l) (rho id) = Some (snd (fx_norm_obj d id)).
  Proof.
    induction l as [|a l IH]; intros id Hl Hin; [destruct Hin|].
    cbn [map find_obj]. unfold fx_norm_obj at 1. cbn [fst]. fold rho.
    destruct (rho a =? rho id) eqn:E.
    - apply N.eqb_eq in E. apply fxs_inj in E; [subst a; reflexivity | apply Hl; left; reflexivity | apply Hl; exact Hin].
    - destruct Hin as [Hin|Hin]; [subst a; rewrite N.eqb_refl in E; discriminate E|].
      apply IH; [intros x Hx; apply Hl; right; exact Hx | exact Hin].
  Qed.
  Lemma fxs_find1 : forall id, In id Wd -> find_obj objs1 (rho id) = Some (snd (fx_norm_obj d id)).
  Proof. intros id Hin. apply fxs_find1_gen; [intros a Ha; exact Ha | exact Hin]. Qed.

  (* a non-null value stays non-null *)
  Lemma fxs_nonnull1 : forall v, is_null_val objs v = false -> (forall id, v = ORef id -> In id Wd) ->
    is_null_val objs1 (fx_rn objs rho v) = false.
  Proof.
    intros v Hn Hv. destruct v; try reflexivity; try discriminate Hn.
    cbn [fx_rn is_null_val]. rewrite (fxs_find1 id (Hv id eq_refl)).
    cbn [is_null_val] in Hn. unfold fx_norm_obj. cbn [snd]. fold objs.
    destruct (find_obj objs id) as [i|]; [|discriminate Hn]. cbn [i_val i_stream].
    unfold fx_norm_val. destruct (i_stream i); [destruct (fx_rn _ _ _); reflexivity|].
    fold objs. fold rho. destruct (i_val i); try reflexivity. discriminate Hn.
  Qed.

  (* references and the absence of null entries after the renaming *)
  Lemma fxs_refs1 : forall o, (forall id, In id (refs_of objs o) -> In id Wd) ->
    refs_of objs1 (fx_rn objs rho o) = map rho (refs_of objs o) /\ fx_nonull objs1 (fx_rn objs rho o) = true.
  Proof.
    apply (obj_ind' (fun o => (forall id, In id (refs_of objs o) -> In id Wd) ->
      refs_of objs1 (fx_rn objs rho o) = map rho (refs_of objs o) /\ fx_nonull objs1 (fx_rn objs rho o) = true));
      try (intros; split; reflexivity).
    - intros l IH Hr. cbn [fx_rn refs_of fx_nonull]. cbn [refs_of] in Hr.
      induction IH as [|x l Hx _ IHl]; [split; reflexivity|].
      cbn [flat_map] in Hr. cbn [map flat_map forallb]. rewrite map_app.
      destruct Hx as [Hx1 Hx2]; [intros id Hid; apply Hr; apply in_or_app; left; exact Hid|].
      destruct IHl as [I1 I2]; [intros id Hid; apply Hr; apply in_or_app; right; exact Hid|].
      rewrite Hx1, Hx2, I1, I2. split; reflexivity.
    - intros dd IH Hr. rewrite fx_rn_dict. cbn [refs_of fx_nonull]. cbn [refs_of] in Hr.
      induction IH as [|kv dd Hkv _ IHd]; [split; reflexivity|].
      cbn [flat_map] in Hr. cbn [flat_map]. rewrite flat_map_app, forallb_app, map_app.
      destruct IHd as [I1 I2]; [intros id Hid; apply Hr; apply in_or_app; right; exact Hid|].
      rewrite I1, I2. unfold fx_rn_entry.
      destruct (is_null_val objs (snd kv)) eqn:En; [split; reflexivity|].
      destruct Hkv as [K1 K2]; [intros id Hid; apply Hr; apply in_or_app; left; exact Hid|].
      cbn [flat_map forallb fst snd].
      rewrite fxs_nonnull1; [rewrite K1, K2, app_nil_r; split; reflexivity | exact En |].
      intros id Hid. apply Hr. apply in_or_app. left. rewrite Hid. left. reflexivity.
  Qed.

  Lemma fxs_children_in : forall id y, In id Wd -> In y (children g id) -> In y Wd.
  Proof.
    intros id y Hid Hy. apply fxs_written_reach. apply (reach_step g roots id); [apply fxs_written_reach; exact Hid | exact Hy].
  Qed.

  (* the dictionary a written stream gets: renamed entries without /Length, then the printed /Length *)
  Definition fxs_l (dd : list (list N * obj)) : list (list N * obj) :=
    flat_map (fx_rn_entry objs rho) (filter (fun kv => negb (beqb (fst kv) k_Length)) dd).
  Lemma fxs_stream_val : forall i data dd, i_stream i = Some data -> i_val i = ODict dd ->
    fx_rn objs rho (drop_length (i_val i)) = ODict (fxs_l dd)
    /\ fx_norm_val d i = ODict (fxs_l dd ++ [fx_len_entry data])
    /\ Forall (fun kv => beqb (fst kv) k_Length = false) (fxs_l dd)
    /\ drop_length (fx_norm_val d i) = ODict (fxs_l dd).
  Proof.
    intros i data dd Hs Hv. rewrite Hv. cbn [drop_length]. rewrite fx_rn_dict. fold (fxs_l dd).
    split; [reflexivity|].
    assert (Hl : Forall (fun kv => beqb (fst kv) k_Length = false) (fxs_l dd)).
    { rewrite Forall_forall. intros kv' Hin. apply in_flat_map in Hin. destruct Hin as [kv [Hkv Hin]].
      apply filter_In in Hkv. destruct Hkv as [_ Hkv]. apply negb_true_iff in Hkv.
      unfold fx_rn_entry in Hin. destruct (is_null_val objs (snd kv)); [destruct Hin|].
      destruct Hin as [<-|[]]. exact Hkv. }
    assert (Hnv : fx_norm_val d i = ODict (fxs_l dd ++ [fx_len_entry data])).
    { unfold fx_norm_val. rewrite Hs, Hv. cbn [drop_length]. fold objs. fold rho. rewrite fx_rn_dict. reflexivity. }
    split; [exact Hnv|]. split; [exact Hl|]. rewrite Hnv. apply fx_drop_length_shape; [exact Hl | reflexivity].
  Qed.

  Lemma fxs_find_in : forall (l : list (N * indirect)) id i, find_obj l id = Some i -> In (id, i) l.
  Proof.
    induction l as [|[k v] l IH]; intros id i H; [discriminate H|]. cbn [find_obj] in H.
    destruct (k =? id) eqn:E.
    - apply N.eqb_eq in E. subst k. injection H as <-. left. reflexivity.
    - right. apply IH. exact H.
  Qed.

  (* the reference graph of what is read back is the renamed graph of Sys/EnvModel.v *)
  Lemma fxs_graph : graph_of (fx_norm d) = renamed_graph g roots.
  Proof.
    unfold graph_of, renamed_graph. cbn [fx_norm d_objects]. fold g roots Wd objs1. unfold objs1 at 2. rewrite map_map.
    apply map_ext_in. intros id Hin.
    destruct (written_find_obj d id Hc Hin) as [i Hi].
    unfold fx_norm_obj. cbn [fst snd]. fold objs in Hi |- *. rewrite Hi. cbn [i_val i_stream].
    change (fx_ren d id) with (num_or0 g roots id). f_equal.
    change (num_or0 g roots) with rho.
    destruct (i_stream i) as [data|] eqn:Es.
    - destruct (wfd_streams d W id i (fxs_find_in _ _ _ Hi)) as [dd Hv]; [rewrite Es; discriminate|].
      destruct (fxs_stream_val i data dd Es Hv) as [H1 [_ [_ H4]]].
      rewrite H4, <- H1.
      assert (Hch : children g id = refs_of objs (drop_length (i_val i)))
        by (unfold g; apply (children_graph_of_stream d id i data Hi Es)).
      assert (Hr : forall y, In y (refs_of objs (drop_length (i_val i))) -> In y Wd)
        by (intros y Hy; apply (fxs_children_in id y Hin); rewrite Hch; exact Hy).
      rewrite (proj1 (fxs_refs1 _ Hr)), Hch. reflexivity.
    - unfold fx_norm_val. rewrite Es. fold objs rho.
      assert (Hch : children g id = refs_of objs (i_val i))
        by (unfold g; apply (children_graph_of d id i Hi Es)).
      assert (Hr : forall y, In y (refs_of objs (i_val i)) -> In y Wd)
        by (intros y Hy; apply (fxs_children_in id y Hin); rewrite Hch; exact Hy).
      rewrite (proj1 (fxs_refs1 _ Hr)), Hch. reflexivity.
  Qed.

  Let size1 : obj := OInt (Z.of_N (N.of_nat (length Wd) + 1)).

  Lemma fxs_find_norm : forall K v, fx_owned K = false ->
    forall l, find (fun kv => beqb (fst kv) K) l = Some (K, v) -> is_null_val objs v = false ->
    find (fun kv => beqb (fst kv) K) (flat_map (fx_norm_entry d) l)
    = Some (K, if beqb K k_Size then size1 else fx_rn objs rho v).
  Proof.
    intros K v Ho. induction l as [|kv l IH]; intros Hf Hn; [discriminate Hf|].
    cbn [find] in Hf. cbn [flat_map]. destruct (beqb (fst kv) K) eqn:E.
    - injection Hf as ->. unfold fx_norm_entry. cbn [fst snd]. fold objs. rewrite Hn, Ho. cbn [orb app find fst].
      cbn [fst] in E. rewrite E. reflexivity.
    - destruct (fx_norm_entry_shape d kv) as [H0|[v0 H0]]; rewrite H0; cbn [app find fst]; [|rewrite E]; apply IH; assumption.
  Qed.

  Lemma fxs_trailer_refs_written : forall kv x, In kv (d_trailer d) -> is_null_val objs (snd kv) = false ->
    In x (refs_of objs (snd kv)) -> In x Wd.
  Proof.
    intros kv x Hkv En Hx. destruct (wfd_root d W) as [r [ir [Hroot _]]]. destruct (wfd_keys_nodup d W) as [Hnd _].
    apply (roots_written d x Hc). exact (fx_trailer_ref_root d r kv x Hnd Hroot Hkv En Hx).
  Qed.

  Lemma fxs_roots_tail : forall l, (forall kv, In kv l -> In kv (d_trailer d)) ->
    flat_map (fun kv => if beqb (fst kv) k_Root || is_null_val objs1 (snd kv) then [] else refs_of objs1 (snd kv))
             (flat_map (fx_norm_entry d) l)
    = map rho (flat_map (fun kv => if beqb (fst kv) k_Root || is_null_val objs (snd kv) then [] else refs_of objs (snd kv)) l).
  Proof.
    induction l as [|kv l IH]; intros Hl; [reflexivity|].
    cbn [flat_map]. rewrite flat_map_app, map_app. f_equal; [|apply IH; intros x Hx; apply Hl; right; exact Hx].
    assert (Hkv : In kv (d_trailer d)) by (apply Hl; left; reflexivity).
    unfold fx_norm_entry. fold objs. pose proof Htrim as Ht. unfold fx_trimmed in Ht. rewrite Forall_forall in Ht.
    rewrite (Ht kv Hkv), orb_false_r.
    destruct (is_null_val objs (snd kv)) eqn:En; [rewrite orb_true_r; reflexivity|].
    cbn [flat_map fst snd]. rewrite app_nil_r, orb_false_r.
    destruct (beqb (fst kv) k_Root) eqn:Er; [reflexivity|]. cbn [orb].
    destruct (beqb (fst kv) k_Size) eqn:Es.
    - cbn [is_null_val refs_of]. destruct (wfd_size d W) as [zs Hsize]. destruct (wfd_keys_nodup d W) as [Hnd _].
      pose proof (find_some _ _ Hsize) as [Hs _]. apply beqb_eq in Es. destruct kv as [k v]. cbn [fst snd] in *. subst k.
      rewrite (nodup_key_unique _ _ _ _ _ _ Hnd Hkv Hs). reflexivity.
    - fold rho.
      assert (Hr : forall y, In y (refs_of objs (snd kv)) -> In y Wd) by (intros y Hy; exact (fxs_trailer_refs_written kv y Hkv En Hy)).
      rewrite fxs_nonnull1; [exact (proj1 (fxs_refs1 _ Hr)) | exact En |].
      intros id Hid. apply Hr. rewrite Hid. left. reflexivity.
  Qed.

  Lemma fxs_roots : roots_of (fx_norm d) = renamed_roots g roots.
  Proof.
    destruct (wfd_root d W) as [r [ir [Hroot [Hfr Hnn]]]].
    unfold roots_of at 1. cbn [fx_norm d_trailer d_objects]. fold g roots Wd objs1.
    rewrite (fxs_find_norm k_Root (ORef r) eq_refl _ Hroot Hnn).
    change (beqb k_Root k_Size) with false. cbn iota.
    rewrite (fxs_roots_tail (d_trailer d) (fun kv H => H)).
    assert (Hr0 : roots = [r] ++ flat_map (fun kv => if beqb (fst kv) k_Root || is_null_val objs (snd kv) then []
                                                     else refs_of objs (snd kv)) (d_trailer d))
      by (unfold roots, roots_of; rewrite Hroot; reflexivity).
    unfold renamed_roots. change (num_or0 g roots) with rho. rewrite Hr0, map_app. reflexivity.
  Qed.

  Lemma fxs_closed1 : doc_closed (fx_norm d).
  Proof. unfold doc_closed. rewrite fxs_graph, fxs_roots. apply (closed_renamed g roots Hc). Qed.

  Lemma fxs_written1 : written (graph_of (fx_norm d)) (roots_of (fx_norm d)) = fx_ids_1n (length Wd).
  Proof. rewrite fxs_graph, fxs_roots. exact (proj1 (renumber_fixpoint_lemma g roots Hc)). Qed.

  Lemma fxs_keys1 : map fst objs1 = fx_ids_1n (length Wd).
  Proof.
    unfold objs1. rewrite map_map. cbn [fx_norm_obj fst]. exact (map_f_written g roots Hc).
  Qed.

  Lemma fxs_in1 : forall k i1, In (k, i1) objs1 ->
    exists id i, In id Wd /\ find_obj objs id = Some i /\ In (id, i) objs /\ k = rho id
                 /\ i1 = {| i_val := fx_norm_val d i; i_stream := i_stream i |}.
  Proof.
    intros k i1 H. unfold objs1 in H. apply in_map_iff in H. destruct H as [id [He Hin]].
    destruct (written_find_obj d id Hc Hin) as [i Hi]. exists id, i.
    unfold fx_norm_obj in He. rewrite Hi in He. inversion He. fold objs in Hi.
    repeat split; try assumption; try reflexivity. apply fxs_find_in. exact Hi.
  Qed.

  Lemma fxs_obj_refs : forall id i, In id Wd -> find_obj objs id = Some i ->
    forall y, In y (refs_of objs (match i_stream i with Some _ => drop_length (i_val i) | None => i_val i end)) -> In y Wd.
  Proof.
    intros id i Hin Hi y Hy. apply (fxs_children_in id y Hin). unfold g.
    destruct (i_stream i) as [data|] eqn:Es.
    - rewrite (children_graph_of_stream d id i data Hi Es). exact Hy.
    - rewrite (children_graph_of d id i Hi Es). exact Hy.
  Qed.

  Lemma fx_filter_flat : forall (A : Type) (f : A -> bool) l, filter f l = flat_map (fun x => if f x then [x] else []) l.
  Proof. intros A f. induction l as [|a l IH]; [reflexivity|]. cbn [filter flat_map]. destruct (f a); cbn [app]; rewrite IH; reflexivity. Qed.

  Lemma fxs_l_nodup : forall dd, NoDup (map fst dd) -> NoDup (map fst (fxs_l dd)).
  Proof.
    intros dd H. unfold fxs_l. apply (proj2 (fx_sub_keys _ (fx_rn_entry_shape objs rho) _)).
    rewrite fx_filter_flat. refine (proj2 (fx_sub_keys _ _ dd) H).
    intros kv. destruct (negb (beqb (fst kv) k_Length)); [right; exists (snd kv); destruct kv; reflexivity | left; reflexivity].
  Qed.

  Lemma fxs_wf_objs1 : wf_doc_objs (fx_norm d).
  Proof.
    unfold wf_doc_objs. cbn [fx_norm d_objects]. fold g roots Wd objs1. rewrite Forall_forall. intros [k i1] Hin.
    destruct (fxs_in1 k i1 Hin) as [id [i [Hid [Hi [Hio [-> ->]]]]]]. cbn [snd i_val].
    pose proof (wfd_objs d W) as Hw. unfold wf_doc_objs in Hw. rewrite Forall_forall in Hw. specialize (Hw (id, i) Hio). cbn [snd] in Hw.
    destruct (i_stream i) as [data|] eqn:Es.
    - destruct (wfd_streams d W id i Hio) as [dd Hv]; [rewrite Es; discriminate|].
      destruct (fxs_stream_val i data dd Es Hv) as [H1 [H2 _]]. rewrite H2. apply wf_dict. apply Forall_app. split.
      + apply wf_dict. rewrite <- H1. apply fx_wf_rn. apply fx_wf_drop_length. exact Hw.
      + constructor; [|constructor]. split; [exact fx_wf_len_key | exact I].
    - unfold fx_norm_val. rewrite Es. apply fx_wf_rn. exact Hw.
  Qed.

  Lemma fxs_wf_trailer1 : wf_wobj (ODict (d_trailer (fx_norm d))).
  Proof.
    cbn [fx_norm d_trailer]. apply wf_dict. rewrite Forall_forall. intros kv' Hin. apply in_flat_map in Hin.
    destruct Hin as [kv [Hkv Hin]]. pose proof (wfd_trailer d W) as Hw. apply wf_dict in Hw. rewrite Forall_forall in Hw.
    destruct (Hw kv Hkv) as [Hk Hv]. unfold fx_norm_entry in Hin.
    destruct (is_null_val (d_objects d) (snd kv) || fx_owned (fst kv)); [destruct Hin|]. destruct Hin as [<-|[]]. cbn [fst snd].
    split; [exact Hk|]. destruct (beqb (fst kv) k_Size); [exact I | apply fx_wf_rn; exact Hv].
  Qed.

  Lemma fxs_keys_trailer1 : forall k, In k (map fst (d_trailer (fx_norm d))) -> In k (map fst (d_trailer d)).
  Proof. exact (proj1 (fx_sub_keys _ (fx_norm_entry_shape d) (d_trailer d))). Qed.

  Lemma fxs_dict_nodup1 : forall k i1 dd, In (k, i1) objs1 -> i_val i1 = ODict dd -> NoDup (map fst dd).
  Proof.
    intros k i1 dd1 Hin Hv1. destruct (fxs_in1 k i1 Hin) as [id [i [Hid [Hi [Hio [-> ->]]]]]]. cbn [i_val] in Hv1.
    destruct (wfd_keys_nodup d W) as [_ [_ Hdn]].
    destruct (i_stream i) as [data|] eqn:Es.
    - destruct (wfd_streams d W id i Hio) as [dd Hv]; [rewrite Es; discriminate|].
      destruct (fxs_stream_val i data dd Es Hv) as [_ [H2 [H3 _]]]. rewrite H2 in Hv1. injection Hv1 as <-.
      rewrite map_app. cbn [map fx_len_entry fst]. apply fx_nodup_snoc; [apply fxs_l_nodup; exact (Hdn id i dd Hio Hv)|].
      intros H. apply in_map_iff in H. destruct H as [kv [Hk Hkv]]. rewrite Forall_forall in H3. specialize (H3 kv Hkv).
      rewrite Hk in H3. discriminate H3.
    - unfold fx_norm_val in Hv1. rewrite Es in Hv1. fold objs rho in Hv1.
      destruct (i_val i) as [| | | | | | |dd|] eqn:Ev; try discriminate Hv1.
      rewrite fx_rn_dict in Hv1. injection Hv1 as <-.
      apply (proj2 (fx_sub_keys _ (fx_rn_entry_shape objs rho) dd)). exact (Hdn id i dd Hio Ev).
  Qed.

  Lemma fxs_wf1 : wf_doc (fx_norm d).
  Proof.
    destruct (wfd_root d W) as [r [ir [Hroot [Hfr Hnn]]]].
    destruct (wfd_size d W) as [zs Hsize].
    destruct (wfd_keys_nodup d W) as [Hnd [Hnoid _]].
    assert (Hr : In r Wd) by (apply (roots_written d r Hc); apply root_in_roots; exact Hroot).
    constructor.
    - exact fxs_closed1.
    - exact fxs_wf_objs1.
    - exact fxs_wf_trailer1.
    - intros k i1 Hin Hs. cbn [fx_norm d_objects] in Hin. destruct (fxs_in1 k i1 Hin) as [id [i [Hid [Hi [Hio [-> ->]]]]]].
      cbn [i_stream i_val] in *. destruct (i_stream i) as [data|] eqn:Es; [|exfalso; apply Hs; reflexivity].
      destruct (wfd_streams d W id i Hio) as [dd Hv]; [rewrite Es; discriminate|].
      destruct (fxs_stream_val i data dd Es Hv) as [_ [H2 _]]. eexists. exact H2.
    - intros k i1 data Hin Hs. cbn [fx_norm d_objects] in Hin. destruct (fxs_in1 k i1 Hin) as [id [i [Hid [Hi [Hio [-> ->]]]]]].
      cbn [i_stream] in Hs. exact (wfd_stream_bytes d W id i data Hio Hs).
    - exact (wfd_version d W).
    - cbn [fx_norm d_id1 d_id2].
      assert (Hst : Forall (fun b => b < 256) static_id) by (repeat constructor).
      split; [|exact Hst]. unfold generate_id1. destruct (d_id1 d) eqn:E; [exact Hst|]. rewrite <- E. exact (proj1 (wfd_ids d W)).
    - exists (rho r), (snd (fx_norm_obj d r)). cbn [fx_norm d_trailer d_objects]. fold g roots Wd objs1. split; [|split].
      + rewrite (fxs_find_norm k_Root (ORef r) eq_refl _ Hroot Hnn). reflexivity.
      + exact (fxs_find1 r Hr).
      + apply (fxs_nonnull1 (ORef r) Hnn). intros id Hid. injection Hid as <-. exact Hr.
    - eexists. cbn [fx_norm d_trailer]. rewrite (fxs_find_norm k_Size (OInt zs) eq_refl _ Hsize eq_refl). reflexivity.
    - split; [|split].
      + exact (proj2 (fx_sub_keys _ (fx_norm_entry_shape d) (d_trailer d)) Hnd).
      + intros H. apply Hnoid. exact (fxs_keys_trailer1 _ H).
      + intros k i1 dd Hin Hv. exact (fxs_dict_nodup1 k i1 dd Hin Hv).
    - intros H. apply (wfd_no_prev d W). exact (fxs_keys_trailer1 _ H).
    - intros H. apply (wfd_no_xrefstm d W). exact (fxs_keys_trailer1 _ H).
  Qed.

  Lemma fxs_normal1 : fx_normal (fx_norm d).
  Proof.
    destruct (wfd_size d W) as [zs Hsize].
    assert (Hlen : length (d_objects (fx_norm d)) = length Wd) by (cbn [fx_norm d_objects]; apply map_length).
    constructor.
    - exact fxs_wf1.
    - rewrite Hlen. exact fxs_keys1.
    - rewrite Hlen. exact fxs_written1.
    - intros k i1 Hin. cbn [fx_norm d_objects] in *. fold g roots Wd objs1 in Hin |- *.
      destruct (fxs_in1 k i1 Hin) as [id [i [Hid [Hi [Hio [-> ->]]]]]]. cbn [i_val].
      pose proof (fxs_obj_refs id i Hid Hi) as Hr.
      destruct (i_stream i) as [data|] eqn:Es.
      + destruct (wfd_streams d W id i Hio) as [dd Hv]; [rewrite Es; discriminate|].
        destruct (fxs_stream_val i data dd Es Hv) as [H1 [H2 _]]. rewrite H2. cbn [fx_nonull]. rewrite forallb_app.
        pose proof (proj2 (fxs_refs1 _ Hr)) as Hn. rewrite H1 in Hn. cbn [fx_nonull] in Hn. rewrite Hn. reflexivity.
      + unfold fx_norm_val. rewrite Es. exact (proj2 (fxs_refs1 _ Hr)).
    - intros k i1 data Hin Hs. cbn [fx_norm d_objects] in Hin.
      destruct (fxs_in1 k i1 Hin) as [id [i [Hid [Hi [Hio [-> ->]]]]]]. cbn [i_val i_stream] in *.
      destruct (wfd_streams d W id i Hio) as [dd Hv]; [rewrite Hs; discriminate|].
      destruct (fxs_stream_val i data dd Hs Hv) as [_ [H2 [H3 _]]]. exists (fxs_l dd). split; assumption.
    - cbn [fx_norm d_objects d_trailer fx_nonull]. fold g roots Wd objs1. rewrite forallb_forall. intros kv' Hin.
      apply in_flat_map in Hin. destruct Hin as [kv [Hkv Hin]]. unfold fx_norm_entry in Hin. fold objs in Hin.
      destruct (is_null_val objs (snd kv)) eqn:En; [destruct Hin|]. cbn [orb] in Hin.
      destruct (fx_owned (fst kv)); [destruct Hin|]. destruct Hin as [<-|[]]. cbn [fst snd].
      destruct (beqb (fst kv) k_Size); [reflexivity|]. fold rho.
      assert (Hr : forall y, In y (refs_of objs (snd kv)) -> In y Wd) by (intros y Hy; exact (fxs_trailer_refs_written kv y Hkv En Hy)).
      rewrite fxs_nonnull1; [exact (proj2 (fxs_refs1 _ Hr)) | exact En |].
      intros id Hid. apply Hr. rewrite Hid. left. reflexivity.
    - cbn [fx_norm d_trailer]. rewrite Forall_forall. intros kv' Hin. apply in_flat_map in Hin. destruct Hin as [kv [Hkv Hin]].
      unfold fx_norm_entry in Hin. destruct (is_null_val (d_objects d) (snd kv) || fx_owned (fst kv)) eqn:E; [destruct Hin|].
      destruct Hin as [<-|[]]. cbn [fst]. apply orb_false_elim in E. exact (proj2 E).
    - rewrite Hlen. cbn [fx_norm d_trailer]. rewrite (fxs_find_norm k_Size (OInt zs) eq_refl _ Hsize eq_refl). reflexivity.
    - reflexivity.
    - cbn [fx_norm d_id1]. unfold generate_id1. destruct (d_id1 d); discriminate.
  Qed.
End Norm.

(* (2) For every well-formed document with a trimmed trailer, what the reader gets back from generation 1 is a normal
   form of the writer: well formed, numbered 1..n in first-encounter order with every object reachable, no null-valued
   dictionary entry, streams carrying the printed /Length, trailer trimmed with /Size n+1, static second ID. *)
Lemma gen1_normal_form_lemma : forall d, wf_doc d -> fx_trimmed d ->
  N.of_nat (length (fx_write d)) < 10 ^ 10 ->
  exists d1, fx_read (fx_write d) = Some d1 /\ d1 = fx_norm d /\ fx_normal d1.
Proof.
  intros d W Ht Hlt. exists (fx_norm d). split; [exact (fx_read_write_lemma d W Hlt)|]. split; [reflexivity|].
  exact (fxs_normal1 d W Ht).
Qed.

(* what the normal form means in the words of the property: nothing unreachable, nothing dangling, and the queue
   renumbers by the identity *)
Lemma normal_form_facts_lemma : forall d, fx_normal d ->
  (forall k i, In (k, i) (d_objects d) -> reach (graph_of d) (roots_of d) k)
  /\ (forall x y, In y (children (graph_of d) x) -> exists i, find_obj (d_objects d) y = Some i)
  /\ (forall k i, In (k, i) (d_objects d) -> renumber (graph_of d) (roots_of d) k = Some k).
Proof.
  intros d NF. destruct NF as [W Hkeys Hwr _ _ _ _ _ _ _].
  pose proof (wfd_closed d W) as Hc. destruct (queue_complete_lemma _ _ Hc) as [_ Hq].
  assert (Hk : forall k i, In (k, i) (d_objects d) -> In k (written (graph_of d) (roots_of d))).
  { intros k i Hin. rewrite Hwr, <- Hkeys. apply in_map_iff. exists (k, i). split; [reflexivity | exact Hin]. }
  split; [|split].
  - intros k i Hin. apply Hq. exact (Hk k i Hin).
  - intros x y Hy. destruct Hc as [Hnd [_ Hcl]]. pose proof (children_in _ _ _ Hy) as Hx.
    pose proof (Hcl _ _ _ Hx Hy) as Hin. unfold graph_of in Hin. rewrite map_map in Hin. cbn [fst] in Hin.
    apply in_map_iff in Hin. destruct Hin as [[k i] [Hk' Hin]]. cbn [fst] in Hk'. subst k. exists i.
    apply fx_find_obj_nodup; [|exact Hin]. unfold graph_of in Hnd. rewrite map_map in Hnd. exact Hnd.
  - intros k i Hin. pose proof (fx_ren_identity d _ Hc Hwr k (Hk k i Hin)) as H.
    pose proof (written_ren_pos d k Hc (Hk k i Hin)) as Hp. unfold fx_ren in H. unfold doc_ren in Hp.
    destruct (renumber (graph_of d) (roots_of d) k); [rewrite H; reflexivity | lia].
Qed.

(* (4) THE FIXPOINT, plain mode (--object-streams=disable --compress-streams=n --decode-level=none), static id:
   for every well-formed document d with a trimmed trailer, with g1 := write d, g2 := write (read g1),
   g3 := write (read g2): the strict reader accepts g1 and g2, and g3 = g2 byte for byte. (The two size hypotheses are
   the cross-reference table's 10-digit offset limit, under which write_read_strict is stated.) *)
Lemma gen2_eq_gen3_plain_lemma : forall d, wf_doc d -> fx_trimmed d ->
  N.of_nat (length (fx_write d)) < 10 ^ 10 ->
  N.of_nat (length (fx_write (fx_norm d))) < 10 ^ 10 ->
  exists g2, fx_gens d = (fx_write d, Some g2, Some g2).
Proof.
  intros d W Ht H1 H2. exists (fx_write (fx_norm d)). unfold fx_gens.
  assert (Hg2 : fx_regen (fx_write d) = Some (fx_write (fx_norm d))).
  { unfold fx_regen. rewrite (fx_read_write_lemma d W H1). reflexivity. }
  rewrite Hg2. rewrite (normal_form_is_fixpoint_lemma (fx_norm d) (fxs_normal1 d W Ht) H2). reflexivity.
Qed.

(* every later generation is the same too *)
Lemma later_generations_equal_lemma : forall d, wf_doc d -> fx_trimmed d ->
  N.of_nat (length (fx_write d)) < 10 ^ 10 ->
  N.of_nat (length (fx_write (fx_norm d))) < 10 ^ 10 ->
  forall k, Nat.iter k (fun o => match o with Some b => fx_regen b | None => None end) (fx_regen (fx_write d))
            = Some (fx_write (fx_norm d)).
Proof.
  intros d W Ht H1 H2.
  assert (Hg2 : fx_regen (fx_write d) = Some (fx_write (fx_norm d))).
  { unfold fx_regen. rewrite (fx_read_write_lemma d W H1). reflexivity. }
  induction k as [|k IH]; [exact Hg2|].
  set (F := fun o : option (list N) => match o with Some b => fx_regen b | None => None end) in *.
  change (Nat.iter (S k) F (fx_regen (fx_write d))) with (F (Nat.iter k F (fx_regen (fx_write d)))). rewrite IH. unfold F.
  exact (normal_form_is_fixpoint_lemma (fx_norm d) (fxs_normal1 d W Ht) H2).
Qed.

(* generation 1 = generation 2 needs the static-id mode on the first document too: a document whose second /ID string is
   not the static one (or whose first one is empty) is written with THAT pair in generation 1 and with the static pair
   from generation 2 on. Witness: C01's example document (d_id2 = []). *)
Lemma gen1_eq_gen2_without_static_id_refuted_lemma : exists d, wf_doc d /\ fx_trimmed d /\
  fx_regen (fx_write d) <> Some (fx_write d).
Proof.
  exists ex_doc. split; [exact wf_doc_example|]. split; [repeat constructor|].
  intros H. vm_compute in H. discriminate H.
Qed.

(* ------------------------------------------------------------------------------------------------
   generation 1 = generation 2 in the static-id mode: the writer's bytes do not change when the document is replaced by
   what the reader gets back from them *)
Section G12.
  Variable d : doc.
  Hypothesis W : wf_doc d.
  Hypothesis Htrim : fx_trimmed d.

  Let objs := d_objects d.
  Let rho := fx_ren d.
  Let Wd := written (graph_of d) (roots_of d).
  Let d1 := fx_norm d.
  Let objs1 := map (fx_norm_obj d) Wd.
  Let ren1 := fx_ren d1.
  Let Hc : closed (graph_of d) (roots_of d) := wfd_closed d W.
  Local Notation US := wm_unparse_string.
  Local Notation UN := wm_unparse_name.

  Lemma g12_written : written (graph_of d1) (roots_of d1) = map rho Wd.
  Proof.
    unfold d1. rewrite (fxs_written1 d W Htrim). unfold fx_ids_1n. symmetry. exact (map_f_written _ _ Hc).
  Qed.

  Lemma g12_ren1 : forall id, In id Wd -> ren1 (rho id) = rho id.
  Proof.
    intros id Hin. unfold ren1.
    apply (fx_ren_identity d1 (length Wd) (fxs_closed1 d W Htrim) (fxs_written1 d W Htrim)).
    rewrite g12_written. apply in_map. exact Hin.
  Qed.

  Lemma g12_unparse : forall o, (forall id, In id (refs_of objs o) -> In id Wd) ->
    unparse US UN objs1 ren1 (fx_rn objs rho o) = unparse US UN objs rho o.
  Proof.
    apply (obj_ind' (fun o => (forall id, In id (refs_of objs o) -> In id Wd) ->
      unparse US UN objs1 ren1 (fx_rn objs rho o) = unparse US UN objs rho o)); try (intros; reflexivity).
    - intros id Hr. cbn [fx_rn unparse]. rewrite g12_ren1; [reflexivity | apply Hr; left; reflexivity].
    - intros l IH Hr. cbn [fx_rn unparse]. f_equal. f_equal. cbn [refs_of] in Hr.
      induction IH as [|x l Hx _ IHl]; [reflexivity|]. cbn [flat_map] in Hr. cbn [map flat_map].
      rewrite Hx by (intros id Hid; apply Hr; apply in_or_app; left; exact Hid).
      rewrite IHl by (intros id Hid; apply Hr; apply in_or_app; right; exact Hid). reflexivity.
    - intros dd IH Hr. rewrite fx_rn_dict. cbn [unparse]. f_equal. f_equal. cbn [refs_of] in Hr.
      induction IH as [|kv dd Hkv _ IHd]; [reflexivity|]. cbn [flat_map] in Hr. cbn [flat_map]. rewrite flat_map_app.
      rewrite IHd by (intros id Hid; apply Hr; apply in_or_app; right; exact Hid). f_equal.
      unfold fx_rn_entry. destruct (is_null_val objs (snd kv)) eqn:En; [reflexivity|].
      cbn [flat_map fst snd]. rewrite app_nil_r.
      assert (Hnn : is_null_val objs1 (fx_rn objs rho (snd kv)) = false)
        by (apply (fxs_nonnull1 d W (snd kv) En); intros id Hid; apply Hr; apply in_or_app; left; rewrite Hid; left; reflexivity).
      rewrite Hnn.
      rewrite Hkv by (intros id Hid; apply Hr; apply in_or_app; left; exact Hid). reflexivity.
  Qed.

  Lemma g12_object : forall id i, In id Wd -> find_obj objs id = Some i ->
    emit_object US UN objs1 ren1 (rho id) {| i_val := fx_norm_val d i; i_stream := i_stream i |}
    = emit_object US UN objs rho (rho id) i.
  Proof.
    intros id i Hin Hi. unfold emit_object. cbn [i_stream i_val]. f_equal.
    pose proof (fxs_obj_refs d W id i Hin Hi) as Hr.
    destruct (i_stream i) as [data|] eqn:Es.
    - destruct (wfd_streams d W id i (fxs_find_in _ _ _ Hi)) as [dd Hv]; [rewrite Es; discriminate|].
      destruct (fxs_stream_val d i data dd Es Hv) as [H1 [_ [_ H4]]].
      pose proof (g12_unparse _ Hr) as HU. fold objs rho in H1. rewrite H1 in HU.
      unfold unparse_stream_dict. rewrite H4. rewrite Hv in HU |- *. cbn [drop_length] in HU |- *.
      cbn [unparse] in HU. apply app_inv_head in HU. apply app_inv_tail in HU. rewrite HU. reflexivity.
    - unfold fx_norm_val. rewrite Es. fold objs rho. rewrite (g12_unparse _ Hr). reflexivity.
  Qed.

  Lemma g12_bodies : forall ids pos cr ofs, (forall id, In id ids -> In id Wd) ->
    emit_bodies US UN objs1 ren1 (map rho ids) pos cr ofs = emit_bodies US UN objs rho ids pos cr ofs.
  Proof.
    induction ids as [|id ids IH]; intros pos cr ofs Hl; [reflexivity|].
    assert (Hin : In id Wd) by (apply Hl; left; reflexivity).
    cbn [map emit_bodies].
    assert (Hf1 : find_obj objs1 (rho id) = Some (snd (fx_norm_obj d id))) by exact (fxs_find1 d W id Hin).
    rewrite Hf1, (g12_ren1 id Hin).
    destruct (written_find_obj d id Hc Hin) as [i Hi]. unfold fx_norm_obj. cbn [snd]. fold objs in Hi |- *. rewrite Hi.
    rewrite (g12_object id i Hin Hi). apply IH. intros x Hx. apply Hl. right. exact Hx.
  Qed.

  Lemma g12_trailer : forall l, (forall kv, In kv l -> In kv (d_trailer d)) ->
    flat_map (fun kv => if is_null_val objs1 (snd kv) then [] else
                        sp ++ UN (fst kv) ++ sp ++
                        (if beqb (fst kv) k_Size then dec_of_N (N.of_nat (length Wd) + 1) else unparse US UN objs1 ren1 (snd kv)))
             (flat_map (fx_norm_entry d) l)
    = flat_map (fun kv => if is_null_val objs (snd kv) then [] else
                          sp ++ UN (fst kv) ++ sp ++
                          (if beqb (fst kv) k_Size then dec_of_N (N.of_nat (length Wd) + 1) else unparse US UN objs rho (snd kv))) l.
  Proof.
    induction l as [|kv l IH]; intros Hl; [reflexivity|].
    cbn [flat_map]. rewrite flat_map_app. rewrite IH by (intros x Hx; apply Hl; right; exact Hx). f_equal.
    assert (Hkv : In kv (d_trailer d)) by (apply Hl; left; reflexivity).
    unfold fx_norm_entry. fold objs. pose proof Htrim as Ht. unfold fx_trimmed in Ht. rewrite Forall_forall in Ht.
    rewrite (Ht kv Hkv), orb_false_r.
    destruct (is_null_val objs (snd kv)) eqn:En; [reflexivity|].
    cbn [flat_map fst snd]. rewrite app_nil_r.
    destruct (beqb (fst kv) k_Size) eqn:Es; [reflexivity|]. fold rho.
    assert (Hr : forall y, In y (refs_of objs (snd kv)) -> In y Wd)
      by (intros y Hy; exact (fxs_trailer_refs_written d W kv y Hkv En Hy)).
    assert (Hnn : is_null_val objs1 (fx_rn objs rho (snd kv)) = false)
      by (apply (fxs_nonnull1 d W (snd kv) En); intros id Hid; apply Hr; rewrite Hid; left; reflexivity).
    rewrite Hnn, (g12_unparse _ Hr). reflexivity.
  Qed.

  Lemma g12_write : d_id2 d = static_id -> d_id1 d <> [] -> fx_write d1 = fx_write d.
  Proof.
    intros Hid2 Hid1. unfold fx_write, write_doc. cbv zeta.
    rewrite g12_written. fold Wd.
    change (fun x => match renumber (graph_of d1) (roots_of d1) x with Some n => n | None => 0 end) with ren1.
    change (fun x => match renumber (graph_of d) (roots_of d) x with Some n => n | None => 0 end) with rho.
    change (d_objects d1) with objs1. change (d_version d1) with (d_version d). fold objs.
    rewrite (g12_bodies Wd _ [] [] (fun id H => H)).
    destruct (emit_bodies US UN objs rho Wd (N.of_nat (length (header (d_version d)))) [] []) as [[chunks ofs] pos].
    rewrite map_length.
    change (d_trailer d1) with (flat_map (fx_norm_entry d) (d_trailer d)).
    rewrite (g12_trailer (d_trailer d) (fun kv H => H)).
    change (d_id2 d1) with static_id. rewrite <- Hid2.
    change (d_id1 d1) with (generate_id1 (d_id1 d) static_id).
    assert (Hi1 : generate_id1 (d_id1 d) static_id = d_id1 d)
      by (unfold generate_id1; destruct (d_id1 d); [exfalso; apply Hid1; reflexivity | reflexivity]).
    rewrite Hi1. reflexivity.
  Qed.
End G12.

(* generation 1 = generation 2 = generation 3 when the first document is itself in the static-id mode (second /ID string
   the static one, first one not empty - what generateID produces): plain mode. *)
Lemma gen1_eq_gen2_plain_lemma : forall d, wf_doc d -> fx_trimmed d ->
  d_id2 d = static_id -> d_id1 d <> [] ->
  N.of_nat (length (fx_write d)) < 10 ^ 10 ->
  fx_gens d = (fx_write d, Some (fx_write d), Some (fx_write d)).
Proof.
  intros d W Ht Hid2 Hid1 Hlt.
  pose proof (g12_write d W Ht Hid2 Hid1) as Heq.
  assert (H2 : N.of_nat (length (fx_write (fx_norm d))) < 10 ^ 10) by (rewrite Heq; exact Hlt).
  destruct (gen2_eq_gen3_plain_lemma d W Ht Hlt H2) as [g2 Hg]. unfold fx_gens in *.
  assert (Hr : fx_regen (fx_write d) = Some (fx_write d)).
  { unfold fx_regen. rewrite (fx_read_write_lemma d W Hlt), Heq. reflexivity. }
  rewrite Hr in *. injection Hg as <- Hg3. rewrite Hr. reflexivity.
Qed.
