// C12 (extension) driver: inheritable attributes on page trees built in-process.
//
//   pattr <root id> <objects> <ops>   ->  <result>/<result>...#<root id>#<objects>
//
// <objects> = id=def;id=def;...  with ids 3,4,5,... in ascending order (1 and 2 are the catalog and the empty page tree of
// QPDF::emptyPDF, which is left unreferenced).  def =
//     o:<obj>                                         any other object
//     n:<parent|->:<count|->:<c>,<m>,<r>,<o>:<oth>:<kids>    /Pages node; c,m,r,o = /CropBox,/MediaBox,/Resources,/Rotate
//     p:<parent|->:<c>,<m>,<r>,<o>:<oth>                     /Page
// a slot is - (absent), @id (indirect reference) or a direct <obj>;  <obj> = z null | i<int> integer | s<c> name /S<c> |
// r<c> rectangle [0 0 c c] | d<c> dictionary <</K c>> (d0 = <<>>) | a<c> array [c];  <oth> = - or codes joined by '.'
// (4 /ArtBox, 5 /UserUnit, 6 /Zfoo);  <kids> = - or ids joined by '.'.
// <ops> = - or ops joined by '/':  push:<allow>:<warn>  find:<id>  remove:<id>  insert:<pos>:<c>,<m>,<r>,<o>:<oth>  all
//         rotate:<id>:<angle>:<relative>
// result = ok | pos:<n> | ids:<id.id...> | warn:<node>.<key code>,... | err:q (QPDFExc) | err:r (runtime_error) | err:o
// The dump after the last op lists, in id order, the tree reachable from /Root /Pages, every /Page object (reachable or
// not) and every object that is not a page-tree object, in the input syntax.
#include "drv.hh"
#include <qpdf/QPDF_private.hh>

#include <qpdf/QPDF.hh>
#include <qpdf/QPDFExc.hh>
#include <qpdf/QPDFObjectHandle.hh>
#include <set>
#include <stdexcept>

namespace {
    std::vector<std::string> splitc(std::string const& s, char sep) {
        std::vector<std::string> r;
        if (s == "-" || s.empty()) return r;
        std::string cur;
        for (char c: s) { if (c == sep) { r.push_back(cur); cur.clear(); } else cur.push_back(c); }
        r.push_back(cur);
        return r;
    }
    char const* IK[4] = {"/CropBox", "/MediaBox", "/Resources", "/Rotate"};
    std::string oth_name(int code) { return code == 4 ? "/ArtBox" : code == 5 ? "/UserUnit" : code == 6 ? "/Zfoo" : "/Q" + std::to_string(code); }
    int oth_code(std::string const& k) { return k == "/ArtBox" ? 4 : k == "/UserUnit" ? 5 : k == "/Zfoo" ? 6 : 99; }

    QPDFObjectHandle mkobj(std::string const& s) {
        long long c = s.size() > 1 ? std::stoll(s.substr(1)) : 0;
        switch (s.at(0)) {
        case 'z': return QPDFObjectHandle::newNull();
        case 'i': return QPDFObjectHandle::newInteger(c);
        case 's': return QPDFObjectHandle::newName("/S" + std::to_string(c));
        case 'r': return QPDFObjectHandle::parse("[0 0 " + std::to_string(c) + " " + std::to_string(c) + "]");
        case 'd': return c == 0 ? QPDFObjectHandle::newDictionary() : QPDFObjectHandle::parse("<</K " + std::to_string(c) + ">>");
        case 'a': return QPDFObjectHandle::parse("[" + std::to_string(c) + "]");
        }
        throw std::logic_error("bad obj " + s);
    }
    std::string strobj(QPDFObjectHandle o) {
        if (o.isNull()) return "z";
        if (o.isInteger()) return "i" + std::to_string(o.getIntValue());
        if (o.isName()) { auto n = o.getName(); return "s" + (n.size() > 2 && n[1] == 'S' ? n.substr(2) : std::string("?")); }
        if (o.isArray()) {
            int n = o.getArrayNItems();
            if (o.isRectangle()) { auto e = o.getArrayItem(2); return "r" + std::to_string(static_cast<long long>(e.getNumericValue())); }
            auto e = n > 0 ? o.getArrayItem(0) : QPDFObjectHandle::newNull();
            return "a" + (e.isInteger() ? std::to_string(e.getIntValue()) : std::string("?"));
        }
        if (o.isDictionary()) { auto e = o.getKey("/K"); return "d" + (e.isInteger() ? std::to_string(e.getIntValue()) : std::string("0")); }
        return "?";
    }
    QPDFObjectHandle mkval(QPDF& q, std::string const& s) {
        if (s.at(0) == '@') return q.getObject(std::stoi(s.substr(1)), 0);
        return mkobj(s);
    }
    void fill_dict(QPDF& q, QPDFObjectHandle d, std::string const& attrs, std::string const& oth) {
        auto sl = splitc(attrs, ',');
        for (size_t k = 0; k < 4 && k < sl.size(); ++k) {
            if (sl[k] != "-") d.replaceKey(IK[k], mkval(q, sl[k]));
        }
        for (auto const& c: splitc(oth, '.')) {
            int code = std::stoi(c);
            d.replaceKey(oth_name(code), code == 4 ? QPDFObjectHandle::parse("[1 1 2 2]") : code == 5 ? QPDFObjectHandle::newReal("2.5") : QPDFObjectHandle::newInteger(1));
        }
    }
    std::string str_dict(QPDFObjectHandle d) {
        std::string out;
        auto m = d.getDictAsMap();
        for (int k = 0; k < 4; ++k) {
            if (k) out += ",";
            auto it = m.find(IK[k]);
            if (it == m.end()) out += "-";
            else if (it->second.isIndirect()) out += "@" + std::to_string(it->second.getObjectID());
            else out += strobj(it->second);
        }
        out += ":";
        std::string oth;
        for (auto const& [k, v]: m) {
            if (k == "/Type" || k == "/Parent" || k == "/Kids" || k == "/Count") continue;
            bool inh = false;
            for (auto ik: IK) if (k == ik) inh = true;
            if (inh) continue;
            oth += (oth.empty() ? "" : ".") + std::to_string(oth_code(k));
        }
        return out + (oth.empty() ? "-" : oth);
    }
    std::string ref_or_dash(QPDFObjectHandle o) {
        return o.isIndirect() ? std::to_string(o.getObjectID()) : o.isNull() ? std::string("-") : std::string("d");
    }
    void reach(QPDFObjectHandle node, std::set<int>& seen, int depth) {
        if (depth > 60 || !node.isDictionary() || !node.isIndirect() || !seen.insert(node.getObjectID()).second) return;
        auto kids = node.getKey("/Kids");
        if (kids.isArray()) for (int i = 0; i < kids.getArrayNItems(); ++i) reach(kids.getArrayItem(i), seen, depth + 1);
    }
    std::string dump(QPDF& q) {
        auto pages = q.getRoot().getKey("/Pages");
        std::set<int> seen;
        reach(pages, seen, 0);
        std::string out = ref_or_dash(pages) + "#";
        size_t n = q.getObjectCount();
        bool first = true;
        for (size_t i = 3; i <= n; ++i) {
            auto oh = q.getObject(static_cast<int>(i), 0);
            std::string def;
            if (oh.isDictionary() && oh.getKey("/Type").isName() && oh.getKey("/Type").getName() == "/Pages") {
                if (!seen.count(static_cast<int>(i))) continue;
                auto c = oh.getKey("/Count");
                std::string kids;
                auto ka = oh.getKey("/Kids");
                if (ka.isArray()) for (int j = 0; j < ka.getArrayNItems(); ++j) kids += (j ? "." : "") + ref_or_dash(ka.getArrayItem(j));
                def = "n:" + ref_or_dash(oh.getKey("/Parent")) + ":" + (c.isInteger() ? std::to_string(c.getIntValue()) : std::string("-")) + ":" +
                    str_dict(oh) + ":" + (kids.empty() ? "-" : kids);
            } else if (oh.isDictionary() && oh.getKey("/Type").isName() && oh.getKey("/Type").getName() == "/Page") {
                def = "p:" + ref_or_dash(oh.getKey("/Parent")) + ":" + str_dict(oh);
            } else {
                def = "o:" + strobj(oh);
            }
            out += (first ? "" : ";") + std::to_string(i) + "=" + def;
            first = false;
        }
        return out;
    }

    std::string run(std::vector<std::string> const& a) {
        QPDF q;
        q.emptyPDF();
        q.setSuppressWarnings(true);
        if (q.getObjectCount() != 2) return "?emptyPDF has " + std::to_string(q.getObjectCount()) + " objects";
        auto defs = splitc(a.at(1), ';');
        std::vector<std::pair<int, std::vector<std::string>>> parsed;
        for (auto const& e: defs) {
            auto eq = e.find('=');
            int id = std::stoi(e.substr(0, eq));
            auto h = q.newIndirectNull();
            if (h.getObjectID() != id) return "?id " + std::to_string(id) + " got " + std::to_string(h.getObjectID());
            // fields may be empty only as "-", so a plain split is enough
            std::vector<std::string> f;
            std::string cur;
            for (char c: e.substr(eq + 1)) { if (c == ':') { f.push_back(cur); cur.clear(); } else cur.push_back(c); }
            f.push_back(cur);
            parsed.emplace_back(id, f);
        }
        for (auto const& [id, f]: parsed) {
            if (f.at(0) == "o") {
                if (f.at(1) != "z") q.replaceObject(id, 0, mkobj(f.at(1)));
            } else if (f.at(0) == "n") {
                auto d = QPDFObjectHandle::newDictionary();
                d.replaceKey("/Type", QPDFObjectHandle::newName("/Pages"));
                if (f.at(1) != "-") d.replaceKey("/Parent", q.getObject(std::stoi(f.at(1)), 0));
                if (f.at(2) != "-") d.replaceKey("/Count", QPDFObjectHandle::newInteger(std::stoll(f.at(2))));
                fill_dict(q, d, f.at(3), f.at(4));
                auto kids = QPDFObjectHandle::newArray();
                for (auto const& k: splitc(f.at(5), '.')) kids.appendItem(q.getObject(std::stoi(k), 0));
                d.replaceKey("/Kids", kids);
                q.replaceObject(id, 0, d);
            } else {
                auto d = QPDFObjectHandle::newDictionary();
                d.replaceKey("/Type", QPDFObjectHandle::newName("/Page"));
                if (f.at(1) != "-") d.replaceKey("/Parent", q.getObject(std::stoi(f.at(1)), 0));
                fill_dict(q, d, f.at(2), f.at(3));
                q.replaceObject(id, 0, d);
            }
        }
        q.getRoot().replaceKey("/Pages", q.getObject(std::stoi(a.at(0)), 0));
        (void)q.getWarnings();

        std::string out;
        bool firstop = true;
        for (auto const& op: splitc(a.at(2), '/')) {
            std::vector<std::string> f;
            std::string cur;
            for (char c: op) { if (c == ':') { f.push_back(cur); cur.clear(); } else cur.push_back(c); }
            f.push_back(cur);
            std::string r = "ok";
            bool want_warn = false;
            try {
                if (f.at(0) == "push") {
                    want_warn = f.at(2) == "1";
                    q.doc().pages().pushInheritedAttributesToPage(f.at(1) == "1", f.at(2) == "1");
                } else if (f.at(0) == "find") {
                    r = "pos:" + std::to_string(q.doc().pages().find(QPDFObjGen(std::stoi(f.at(1)), 0)));
                } else if (f.at(0) == "remove") {
                    auto h = q.getObject(std::stoi(f.at(1)), 0);
                    q.removePage(h);
                } else if (f.at(0) == "insert") {
                    auto d = QPDFObjectHandle::newDictionary();
                    d.replaceKey("/Type", QPDFObjectHandle::newName("/Page"));
                    fill_dict(q, d, f.at(2), f.at(3));
                    q.doc().pages().insert(d, std::stoi(f.at(1)));
                } else if (f.at(0) == "all") {
                    r = "ids:";
                    bool fi = true;
                    for (auto const& p: q.getAllPages()) { r += (fi ? "" : ".") + std::to_string(p.getObjectID()); fi = false; }
                } else if (f.at(0) == "rotate") {
                    q.getObject(std::stoi(f.at(1)), 0).rotatePage(std::stoi(f.at(2)), f.at(3) == "1");
                } else {
                    r = "?op";
                }
            } catch (QPDFExc const&) {
                r = "err:q";
            } catch (std::runtime_error const&) {
                r = "err:r";
            } catch (std::exception const&) {
                r = "err:o";
            }
            auto ws = q.getWarnings();
            if (want_warn && r == "ok") {
                r = "warn:";
                bool fw = true;
                for (auto const& w: ws) {
                    std::string m = w.getMessageDetail();
                    auto p = m.find("Unknown key ");
                    if (p == std::string::npos) continue;
                    auto e = m.find(' ', p + 12);
                    std::string key = m.substr(p + 12, e - (p + 12));
                    std::string ob = w.getObject();   // "Pages object: object N 0"
                    auto po = ob.rfind("object ");
                    std::string idn = ob.substr(po + 7, ob.find(' ', po + 7) - (po + 7));
                    r += (fw ? "" : ",") + idn + "." + std::to_string(oth_code(key));
                    fw = false;
                }
            }
            out += (firstop ? "" : "/") + r;
            firstop = false;
        }
        return out + "#" + dump(q);
    }
}

static Reg r_pattr("pattr", [](std::vector<std::string> const& a) -> std::string {
    try {
        return run(a);
    } catch (std::exception const& e) {
        return std::string("?exception ") + e.what();
    }
});
