(* C12 (extension) - model of the name-usage analysis of unreferenced-resource removal:
     ResourceFinder::handleObject            (libqpdf/ResourceFinder.cc)       - abstracted to its result, see rpn_uses
     QPDFPageObjectHelper::removeUnreferencedResourcesHelper / removeUnreferencedResources, forEachXObject / forEachFormXObject
                                              (libqpdf/QPDFPageObjectHelper.cc)
     QPDFObjectHandle::isFormXObject         (a stream whose /Subtype is /Form; /Type is NOT consulted)
   Written from the C++.  A page or XObject is a node: its content stream is represented by what ResourceFinder extracts
   from it - the list of (name, resource type) for every resource operator preceded by a name (0 = /Font: Tf, 1 = /XObject:
   Do, 2 = any other type: CS cs gs SCN scn BDC DP sh) - and by the flag `bad` (tokenising warned or threw).  rpn_hasres says
   whether getAttribute("/Resources") is a dictionary; rpn_fonts / rpn_xobjs are its /Font and /XObject sub-dictionaries
   (key order = std::map order; a missing sub-dictionary is the empty list).  The XObject entries are nodes themselves
   (images: rpn_isform = false).
   The C++ visits the form XObjects breadth first with a queue, running the helper on a form BEFORE its own /XObject
   dictionary is expanded; the helper's decision for a form depends on that form alone and `unresolved` only grows, so
   the visiting order does not matter: the model walks depth first, helper first.  Forms shared by several dictionaries
   appear once per use (the seen-set of forEachXObject only avoids repeating an idempotent visit); cycles are outside.
   No proofs in this file. *)
From QV Require Import Base.Bytes.
From Coq Require Import List NArith Bool.
Import ListNotations.
Local Open Scope N_scope.

Inductive rpn_node : Type :=
  RpnNode (id : N) (isform : bool) (bad : bool) (uses : list (N * N)) (hasres : bool)
          (fonts : list (N * N)) (xobjs : list (N * rpn_node)).

Definition rpn_id (n : rpn_node) := match n with RpnNode i _ _ _ _ _ _ => i end.
Definition rpn_isform (n : rpn_node) := match n with RpnNode _ f _ _ _ _ _ => f end.
Definition rpn_bad (n : rpn_node) := match n with RpnNode _ _ b _ _ _ _ => b end.
Definition rpn_uses (n : rpn_node) := match n with RpnNode _ _ _ u _ _ _ => u end.
Definition rpn_hasres (n : rpn_node) := match n with RpnNode _ _ _ _ h _ _ => h end.
Definition rpn_fonts (n : rpn_node) := match n with RpnNode _ _ _ _ _ f _ => f end.
Definition rpn_xobjs (n : rpn_node) := match n with RpnNode _ _ _ _ _ _ x => x end.

Definition rpn_mem (x : N) (l : list N) : bool := existsb (N.eqb x) l.

(* names_by_resource_type["/Font"] and ["/XObject"], in that order *)
Definition rpn_typed_names (uses : list (N * N)) : list N :=
  map fst (filter (fun u => snd u =? 0) uses) ++ map fst (filter (fun u => snd u =? 1) uses).

(* the decision part of removeUnreferencedResourcesHelper: (ok, unresolved') *)
Definition rpn_decide (bad : bool) (uses : list (N * N)) (hasres : bool) (known : list N) (unres : list N) : bool * list N :=
  if bad then (false, unres)
  else
    let local := filter (fun nm => negb (rpn_mem nm known)) (rpn_typed_names uses) in
    let unres' := local ++ unres in
    match local with
    | [] => (true, unres')
    | _ :: _ => if hasres then (false, unres') else (true, unres')
    end.

(* whether key stays in a /Font or /XObject dictionary when the helper prunes *)
Definition rpn_keep (is_page : bool) (uses : list (N * N)) (unres : list N) (key : N) : bool :=
  (is_page && rpn_mem key unres) || rpn_mem key (map fst uses).

(* a FORM XObject: helper, then its remaining form XObjects *)
Fixpoint rpn_walk (n : rpn_node) (unres : list N) {struct n} : rpn_node * list N * bool :=
  match n with
  | RpnNode id isform bad uses hasres fonts xobjs =>
      let known := if hasres then map fst fonts ++ map fst xobjs else [] in
      let '(ok, unres1) := rpn_decide bad uses hasres known unres in
      let keep := fun key => negb ok || rpn_keep false uses unres1 key in
      let fonts' := filter (fun e => keep (fst e)) fonts in
      let '(xobjs', unres2, fails) :=
        (fix go (l : list (N * rpn_node)) (u : list N) {struct l} : list (N * rpn_node) * list N * bool :=
           match l with
           | [] => ([], u, false)
           | (k, c) :: l' =>
               if negb hasres then ((k, c) :: l', u, false)       (* no resources: no /XObject dictionary to walk *)
               else if negb (keep k) then go l' u                    (* removed by the helper before the queue reaches it *)
               else if rpn_isform c then
                 let '(c', u1, f1) := rpn_walk c u in
                 let '(l'', u2, f2) := go l' u1 in
                 ((k, c') :: l'', u2, f1 || f2)
               else
                 let '(l'', u2, f2) := go l' u in ((k, c) :: l'', u2, f2)
           end) xobjs unres1 in
      (RpnNode id isform bad uses hasres fonts' xobjs', unres2, negb ok || fails)
  end.

(* QPDFPageObjectHelper::removeUnreferencedResources on a PAGE *)
Definition rpn_run (p : rpn_node) : rpn_node :=
  match p with
  | RpnNode id isform bad uses hasres fonts xobjs =>
      let '(xobjs1, unres, fails) :=
        (fix go (l : list (N * rpn_node)) (u : list N) {struct l} : list (N * rpn_node) * list N * bool :=
           match l with
           | [] => ([], u, false)
           | (k, c) :: l' =>
               if negb hasres then ((k, c) :: l', u, false)
               else if rpn_isform c then
                 let '(c', u1, f1) := rpn_walk c u in
                 let '(l'', u2, f2) := go l' u1 in
                 ((k, c') :: l'', u2, f1 || f2)
               else
                 let '(l'', u2, f2) := go l' u in ((k, c) :: l'', u2, f2)
           end) xobjs [] in
      if fails then RpnNode id isform bad uses hasres fonts xobjs1
      else
        let known := if hasres then map fst fonts ++ map fst xobjs1 else [] in
        let '(ok, unres1) := rpn_decide bad uses hasres known unres in
        if ok then
          RpnNode id isform bad uses hasres
                  (filter (fun e => rpn_keep true uses unres1 (fst e)) fonts)
                  (filter (fun e => rpn_keep true uses unres1 (fst e)) xobjs1)
        else RpnNode id isform bad uses hasres fonts xobjs1
  end.
