(* C16.  Model of how qpdf turns the /Contents entry of a page into the LIST of content streams it works on,
   written from the C++ of /repo:
     libqpdf/QPDFObjectHandle.cc   arrayOrStreamToStreamArray, getPageContents, pipeContentStreams / pipePageContents,
                                   coalesceContentStreams (+ CoalesceProvider::provideStreamData), filterPageContents
   A /Contents value is a direct value or a reference into the object table (types in Struct/ContentObj.v); only what
   these functions look at is kept: an object is a stream (with its decoded data), an array of values, null, or anything else.  The list that
   arrayOrStreamToStreamArray returns has one entry PER ARRAY ELEMENT that is a stream, in array order: an object
   listed twice is in the list twice (the result carries object numbers so that this can be stated).  Streams are
   always indirect objects in qpdf, so `CvStream` does not exist as a direct value.  No proofs in this file.
   All names carry the prefix c16_ / Cv / Co / Ck / Cw (extracted OCaml names are global). *)
From QV Require Import Base.Bytes Lex.TokModel Struct.ContentNorm Struct.ContentObj.
Local Open Scope N_scope.

Fixpoint c16_lookup (st : c16_store) (n : N) : option c16_co :=
  match st with
  | [] => None
  | (k, o) :: r => if k =? n then Some o else c16_lookup r n
  end.

(* what the type tests of a QPDFObjectHandle answer after resolving a reference.  A reference to an object that does
   not exist resolves to null; that null and a null written in place belong to no QPDF (BaseHandle::qpdf() == nullptr),
   whereas the null held by an existing object (`5 0 obj null endobj`) and every other parsed value do. *)
Inductive c16_kind :=
| CkStream (n : N) (data : list N)
| CkArr (items : list c16_cv)
| CkNull                             (* null without an owning QPDF *)
| CkNullOwned
| CkOther.

Definition c16_kind_of (st : c16_store) (v : c16_cv) : c16_kind :=
  match v with
  | CvRef n =>
      match c16_lookup st n with
      | Some (CoStream d) => CkStream n d
      | Some (CoArr items) => CkArr items
      | Some CoNull => CkNullOwned
      | None => CkNull
      | Some CoOther => CkOther
      end
  | CvArr items => CkArr items
  | CvNull => CkNull
  | CvOther => CkOther
  end.

(* warnings of arrayOrStreamToStreamArray *)
Inductive c16_cwarn :=
| CwNonStreamItem (index : N)        (* "item index i (from 0)": "ignoring non-stream in an array of streams" *)
| CwThrown (index : N)               (* the same for an item without an owning QPDF: BaseHandle::warn THROWS it *)
| CwNeither.                         (* "object is supposed to be a stream or an array of streams but is neither" *)

(* for (int i = 0; i < n_items; ++i) { item = array[i]; if (item.isStream()) result.emplace_back(item); else item.warn(...) }
   item.warn(e): `if (!qpdf()) throw e; qpdf()->warn(e)`.  The loop is written out for every item; an exception leaves it
   at the first CwThrown (c16_first_thrown below), the warnings listed before that one have been issued, the result is lost. *)
Fixpoint c16_array_items (st : c16_store) (items : list c16_cv) (i : N) : list (N * list N) * list c16_cwarn :=
  match items with
  | [] => ([], [])
  | it :: r =>
      let '(res, ws) := c16_array_items st r (i + 1) in
      match c16_kind_of st it with
      | CkStream n d => ((n, d) :: res, ws)
      | CkNull => (res, CwThrown i :: ws)
      | _ => (res, CwNonStreamItem i :: ws)
      end
  end.

(* QPDFObjectHandle::arrayOrStreamToStreamArray on the value of /Contents:
     if (auto array = as_array(strict)) {...} else if (isStream()) {result = {*this}} else if (!null()) warn(...) *)
Definition c16_stream_array (st : c16_store) (v : c16_cv) : list (N * list N) * list c16_cwarn :=
  match c16_kind_of st v with
  | CkArr items => c16_array_items st items 0
  | CkStream n d => ([(n, d)], [])
  | CkNull | CkNullOwned => ([], [])
  | CkOther => ([], [CwNeither])
  end.

(* the exception, if any: index of the first item whose warning is thrown, and the warnings issued before it *)
Fixpoint c16_first_thrown (ws : list c16_cwarn) : option N :=
  match ws with
  | [] => None
  | CwThrown i :: _ => Some i
  | _ :: r => c16_first_thrown r
  end.

Fixpoint c16_warnings_issued (ws : list c16_cwarn) : list c16_cwarn :=
  match ws with
  | [] => []
  | CwThrown _ :: _ => []
  | w :: r => w :: c16_warnings_issued r
  end.

(* getPageContents(): the object numbers, in order, with repetitions *)
Definition c16_page_streams (st : c16_store) (v : c16_cv) : list N := map fst (fst (c16_stream_array st v)).

Definition c16_page_warnings (st : c16_store) (v : c16_cv) : list c16_cwarn := snd (c16_stream_array st v).

(* pipeContentStreams / pipePageContents: every stream of that list through c16_coalesce_loop (ContentNorm.v) *)
Definition c16_page_content (st : c16_store) (v : c16_cv) : list N :=
  c16_coalesce (map snd (fst (c16_stream_array st v))).

(* coalesceContentStreams: nothing happens unless /Contents is an array (direct or indirect); then /Contents becomes a
   new stream whose provider pipes the old value.  Some d = replaced by a stream with data d. *)
Definition c16_coalesce_contents (st : c16_store) (v : c16_cv) : option (list N) :=
  match c16_kind_of st v with
  | CkArr _ => Some (c16_page_content st v)
  | _ => None
  end.

(* the provider is the only caller of arrayOrStreamToStreamArray here: no array, no warning *)
Definition c16_coalesce_warnings (st : c16_store) (v : c16_cv) : list c16_cwarn :=
  match c16_kind_of st v with
  | CkArr _ => c16_page_warnings st v
  | _ => []
  end.

(* filterPageContents(ContentNormalizer) and the tokens any token filter behind filterPageContents sees *)
Definition c16_page_filter (st : c16_store) (v : c16_cv) : list N * bool * bool :=
  c16_normalize_run (c16_page_content st v).

Definition c16_page_tokens (st : c16_store) (v : c16_cv) : list token := c16_tokens (c16_page_content st v).

(* addContentTokenFilter(filter): coalesceContentStreams(); getKey("/Contents").addTokenFilter(filter) - the latter asserts
   a stream (None = the type error it throws); what the stream then yields through the filter *)
Definition c16_add_token_filter (st : c16_store) (v : c16_cv) : option (list N * bool * bool) :=
  match c16_kind_of st v with
  | CkArr _ | CkStream _ _ => Some (c16_page_filter st v)
  | _ => None
  end.

(* addPageContents(new_contents, first): /Contents becomes the array of getPageContents() with the new stream (object
   number `fresh`) put before or after it *)
Definition c16_add_page_contents (st : c16_store) (v : c16_cv) (first : bool) (fresh : N) : list N :=
  let old := c16_page_streams st v in
  if first then fresh :: old else old ++ [fresh].

(* ... and what pipePageContents yields afterwards (every entry of the new array is a stream) *)
Definition c16_add_page_content (st : c16_store) (v : c16_cv) (first : bool) (newdata : list N) : list N :=
  let old := map snd (fst (c16_stream_array st v)) in
  c16_coalesce (if first then newdata :: old else old ++ [newdata]).
