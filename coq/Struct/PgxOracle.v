(* C13 extension - executable specification functions (extracted as oracles; no proofs here).

   pgx_leaves: ISO 32000-1 7.7.3.2/7.7.3.3: a page tree node is a dictionary with /Kids; "the
   leaves of the tree, taken in order, are the pages of the document".  A kid is an interior node
   exactly when it is a dictionary that has /Kids.  The result is the list of content markers
   (/Mk, None when there is none) of the leaves in document order, or None when what hangs under
   the node is not a tree of dictionaries (a kid that is no dictionary, /Kids that is no array, a
   loop or nesting deeper than the fuel).  Written from the standard, not from QPDF_pages.cc: it
   repairs nothing and knows no cache. *)
From QV Require Import Base.Bytes Struct.PgModel.
Local Open Scope N_scope.

Definition pgx_mk_of (s : pg_store) (dk : pg_dict) : option Z :=
  match pg_rv s (pg_dget dk pgk_Mk) with PvInt z => Some z | _ => None end.

Fixpoint pgx_leaves (fuel : nat) (s : pg_store) (node : pg_val) : option (list (option Z)) :=
  match fuel with
  | O => None
  | S f =>
    match pg_rv s node with
    | PvDict d =>
        match pg_rv s (pg_dget d pgk_Kids) with
        | PvArr l =>
            fold_right (fun kid acc =>
              match acc with
              | None => None
              | Some rest =>
                  match pg_rv s kid with
                  | PvDict dk =>
                      if pg_is_null s (pg_dget dk pgk_Kids)
                      then Some (pgx_mk_of s dk :: rest)
                      else match pgx_leaves f s kid with Some x => Some (x ++ rest) | None => None end
                  | _ => None
                  end
              end) (Some []) l
        | _ => None
        end
    | _ => None
    end
  end.

(* the page list a document shows: the leaves under the catalog's /Pages *)
Definition pgx_doc_leaves (p : pg_doc) : option (list (option Z)) :=
  pgx_leaves 42 (pd_store p) (pg_root_pages p).

(* ------------------------------------------------------------------ the domain of the unrestricted page theorems, decidable *)
(* pgx_flat_chk p = true implies pgx_flat p K for K = the root's kids (C13ProofsH.v: flat_check_sound): the harness
   evaluates it on every document it generates and after every step of the ext histories, so the share of the explored
   states that lies inside the theorems' hypothesis is measured, not assumed *)
Definition pgx_leafy_chk (s : pg_store) (k : N) : bool :=
  match pg_lookup s k with
  | Some (PcObj (PvDict dk)) =>
      (match pg_dget dk pgk_Kids with PvNull => true | _ => false end) &&
      (match pg_dget dk pgk_Type with
       | PvRef _ => false
       | PvName n => negb (pg_key_eqb n pgk_Pages) && negb (pg_key_eqb n pgk_Catalog)
       | _ => true
       end)
  | _ => false
  end.

Fixpoint pgx_nodup_chk (l : list N) : bool :=
  match l with [] => true | x :: t => negb (pg_memN x t) && pgx_nodup_chk t end.

Definition pgx_flat_chk (p : pg_doc) : bool :=
  match pg_root_pages p with
  | PvRef pn =>
      match pg_lookup (pd_store p) pn with
      | Some (PcObj (PvDict d)) =>
          match pg_dget d pgk_Kids with
          | PvArr l =>
              let K := map (fun v => match v with PvRef k => k | _ => 0 end) l in
              forallb pg_is_ref l &&
              (match pg_dget d pgk_Count with PvInt z => (z =? pg_len K)%Z | _ => false end) &&
              (match pg_dget d pgk_Parent with PvNull => true | _ => false end) &&
              negb (pn =? pd_root p) && negb (pg_memN pn K) && negb (pg_memN (pd_root p) K) &&
              pgx_nodup_chk K && forallb (pgx_leafy_chk (pd_store p)) K && negb (pd_invalid p)
          | _ => false
          end
      | _ => false
      end
  | _ => false
  end.
