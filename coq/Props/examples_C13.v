(* non-vacuity: the hypotheses of the C13 theorems are met by concrete, non-trivial objects *)
Example pg_ex_world_good : pg_good pg_ex_world.
Proof. exact pg_ex_good. Qed.

(* a covered history with re-insertion of a present page (copy), removal, insertion relative to a page, a rejected
   lookup and a swap of two pages *)
Definition pg_ex_history : list pg_op :=
  [PoAddPage false (PhObj false 3) true;
   PoRemove false (PhObj false 4);
   PoAddPageAt false (PhDirect (PvDict [(pgk_Mk, PvInt 9)])) false (PhObj false 3);
   PoFind false 99;
   PoSwap false 3 6;
   PoHAddPage true (PhObj true 4) false].

Lemma pg_hist_cons : forall w o t w', pg_adm w o -> fst (pg_step w o) = w' -> pg_hist w' t -> pg_hist w (o :: t).
Proof. intros w o t w' Ha <- Ht. split; assumption. Qed.
Example pg_ex_history_covered : pg_hist pg_ex_world pg_ex_history.
Proof.
  unfold pg_ex_history.
  repeat (eapply pg_hist_cons;
          [vm_compute; repeat split; try discriminate; try lia; try (intros; discriminate) | vm_compute; reflexivity | ]).
  exact I.
Qed.

Example pg_ex_history_trace :
  map fst (pg_trace pg_ex_world pg_ex_history) =
    [([10; 10; 11], [10; 11]); ([10; 10], [10; 11]); ([10; 10; 9], [10; 11]); ([10; 10; 9], [10; 11]);
     ([10; 10; 9], [10; 11]); ([10; 10; 9], [10; 11; 11])]%Z
  /\ map snd (pg_trace pg_ex_world pg_ex_history) = [false; false; false; true; false; false].
Proof. vm_compute. split; reflexivity. Qed.

(* a source with sharing (7 is referenced twice), a cycle (6 <-> 7), a reference to a page (3), to the /Pages node (2)
   and a stream (5): what copy_iso_partial speaks about is not empty *)
Definition pg_ex_src : pg_doc :=
  mkPgDoc ((7, PcObj (PvDict [([66], PvRef 6); ([86], PvInt 7)])) ::
           (6, PcObj (PvDict [([65], PvRef 7); ([66], PvRef 7); ([80], PvRef 2); ([81], PvRef 3); ([83], PvRef 5)])) :: pg_ex_store)
          1 [3; 4] [(3, 0%Z); (4, 1%Z)] true false [] [].

Example pg_ex_copy :
  let '(src', dst', e, r) := pg_copied pg_ex_src pg_ex_doc 6 in
  e = None /\ r = PvRef 6 /\ src' = pg_ex_src /\
  rev (pgc_tocopy (pg_cres pg_ex_src pg_ex_doc 6)) = [6; 7; 5] /\
  pd_omap dst' = [(5, 9); (3, 8); (7, 7); (6, 6)] /\
  pg_lookup (pd_store dst') 6 = Some (PcObj (PvDict [([65], PvRef 7); ([66], PvRef 7); ([81], PvRef 8); ([83], PvRef 9)])) /\
  pg_lookup (pd_store dst') 7 = Some (PcObj (PvDict [([66], PvRef 6); ([86], PvInt 7)])) /\
  pg_lookup (pd_store dst') 8 = Some (PcObj PvNull) /\
  pg_stream_data dst' 9 = Some [65].
Proof. vm_compute. repeat split; reflexivity. Qed.

(* ---- extension (c13full): the unrestricted theorems start from documents as read (cache never filled) ---- *)
Example pgx_ex_start : pgx_W (pgx_wc_world 2).
Proof. exact pages_example_start_lemma. Qed.

(* getAllPages, updateAllPagesCache, re-insertion of a present page (a copy is made), removal of every page (the list
   becomes empty), pushInheritedAttributesToPage on the empty list, the helper's addPage at the end, a foreign copy,
   replaceObject with a reserved object and with an indirect dictionary (both rejected) *)
Definition pgx_ex_history : list pg_op :=
  [PoGetPages false; PoRefresh false;
   PoAddPage false (PhObj false 3) true;
   PoRemove false (PhObj false 3); PoRemove false (PhObj false 4); PoRemove false (PhObj false 5);
   PoPushInh false;
   PoHAddPage false (PhDirect pgx_new_page) false;
   PoCopyForeign true (PhObj false 4);
   PoReplaceReserved false 3;
   PoReplaceInd false 3 (PhObj false 4);
   PoFind true 4].

Lemma pgx_hist_cons : forall w o t w', pgx_adm2 w o -> fst (pg_step w o) = w' -> pgx_hist w' t -> pgx_hist w (o :: t).
Proof. intros w o t w' Ha <- Ht. split; assumption. Qed.
Example pgx_ex_history_covered : pgx_hist (pgx_wc_world 2) pgx_ex_history.
Proof.
  unfold pgx_ex_history.
  repeat (eapply pgx_hist_cons;
          [vm_compute; repeat split; try discriminate; try (intros; discriminate);
           try (right; repeat split; try reflexivity; try discriminate; try (intros; discriminate)) | vm_compute; reflexivity | ]).
  exact I.
Qed.

Example pgx_ex_history_trace :
  map fst (pgx_trace (pgx_wc_world 2) pgx_ex_history) =
    [([10; 11], [10; 11]); ([10; 11], [10; 11]); ([10; 10; 11], [10; 11]); ([10; 11], [10; 11]); ([10], [10; 11]); ([], [10; 11]);
     ([], [10; 11]); ([99], [10; 11]); ([99], [10; 11]); ([99], [10; 11]); ([99], [10; 11]); ([99], [10; 11])]%Z
  /\ map snd (pgx_trace (pgx_wc_world 2) pgx_ex_history) = [false; false; false; false; false; false; false; false; false; true; true; false].
Proof. vm_compute. split; reflexivity. Qed.
