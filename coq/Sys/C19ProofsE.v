(* C19 - proofs. Part 5: the refinement theorems over EVERY option table.  The two front-end models (Sys/JobFront.v) refine the
   specification Sys/JobSpecX.v - main options, files, --global, --encrypt (Sys/JobSpec.v), the page selection at ANY place of the
   job (Sys/JobPagesSpec.v), --overlay / --underlay, --add-attachment, --copy-attachments-from, --set-page-labels - hence agree with
   each other.  Facts about the generated tables are computed; everything about values, words, files and jobs is proved for all
   strings / all jobs by induction. *)
From Coq Require Import String.
From Coq Require Import List NArith ZArith Bool Lia.
From QV Require Import Base.Bytes Sys.JobTypes Sys.JobTableSpec Gen.JobTables Sys.JobFront Sys.JobSpec Sys.JobPagesSpec Sys.JobSpecX.
Require Import QV.Sys.C19ProofsB QV.Sys.C19ProofsD.
Import ListNotations.
Open Scope N_scope.

(* ------------------------------------------------------------------ what the nested handlers leave alone *)
Definition xa_frame (s : astate) : bool * bool * bool * bool * bool * bstr * bstr :=
  (a_gave_input s, a_gave_output s, a_used_enc_pw s, a_pages_file s, a_pages_range s, a_user s, a_owner s).
Definition xa_pgf (s : astate) : bool * bool := (a_pages_file s, a_pages_range s).

Lemma xa_frame_emit : forall c s, xa_frame (a_emit c s) = xa_frame s.
Proof. intros c s. destruct s; reflexivity. Qed.
Lemma xa_frame_set_table : forall t s, xa_frame (a_set_table t s) = xa_frame s.
Proof. intros t s. destruct s; reflexivity. Qed.
Lemma xa_frame_set_acc : forall l s, xa_frame (a_set_acc l s) = xa_frame s.
Proof. intros l s. destruct s; reflexivity. Qed.
Lemma xa_frame_emits : forall cs s, xa_frame (a_emits cs s) = xa_frame s.
Proof. induction cs as [|c cs IH]; intros s; [reflexivity|]. cbn [a_emits]. rewrite IH. apply xa_frame_emit. Qed.

Lemma xa_pgf_emit : forall c s, xa_pgf (a_emit c s) = xa_pgf s.
Proof. intros c s. destruct s; reflexivity. Qed.
Lemma xa_pgf_set_table : forall t s, xa_pgf (a_set_table t s) = xa_pgf s.
Proof. intros t s. destruct s; reflexivity. Qed.
Lemma xa_pgf_set_acc : forall l s, xa_pgf (a_set_acc l s) = xa_pgf s.
Proof. intros l s. destruct s; reflexivity. Qed.
Lemma xa_pgf_set_pw : forall u o b s, xa_pgf (a_set_pw u o b s) = xa_pgf s.
Proof. intros u o b s. destruct s; reflexivity. Qed.
Lemma xa_pgf_set_gave : forall i o s, xa_pgf (a_set_gave i o s) = xa_pgf s.
Proof. intros i o s. destruct s; reflexivity. Qed.
Lemma xa_pgf_emits : forall cs s, xa_pgf (a_emits cs s) = xa_pgf s.
Proof. induction cs as [|c cs IH]; intros s; [reflexivity|]. cbn [a_emits]. rewrite IH. apply xa_pgf_emit. Qed.
Lemma xa_frame_pgf : forall s s', xa_frame s' = xa_frame s -> xa_pgf s' = xa_pgf s.
Proof. intros s s' H. unfold xa_frame in H. unfold xa_pgf. inversion H. reflexivity. Qed.

Ltac xa_pgf_tac :=
  repeat first [rewrite xa_pgf_emits | rewrite xa_pgf_set_table | rewrite xa_pgf_emit | rewrite xa_pgf_set_acc
               | rewrite xa_pgf_set_pw | rewrite xa_pgf_set_gave]; reflexivity.

Lemma xa_calls_close : forall t c s, a_calls (a_set_table t (a_emit c s)) = c :: a_calls s.
Proof. intros t c s. destruct s; reflexivity. Qed.
Lemma xa_table_close : forall t c s, a_table (a_set_table t (a_emit c s)) = t.
Proof. intros t c s. destruct s; reflexivity. Qed.
Lemma xa_table_emits : forall cs s, a_table (a_emits cs s) = a_table s.
Proof. intros cs s. exact (proj1 (a_emits_fields cs s)). Qed.

(* ------------------------------------------------------------------ single words, generically *)
Lemma xa_step_open : forall files sole s flag e,
  flag_ok flag = true -> a_lookup MAIN flag = Some e -> a_lookup B"help" flag = None -> a_table s = MAIN ->
  a_step files sole (B"--" ++ flag) s = inl (a_apply files e false [] s).
Proof.
  intros files sole s flag e Hf Hl Hh Ht.
  destruct flag as [|c X]; [cbn in Hf; discriminate|].
  assert (Hnoeq : no_eq (c :: X) = true).
  { pose proof Hf as Hf2. unfold flag_ok in Hf2. repeat (apply andb_true_iff in Hf2; destruct Hf2 as [Hf2 ?]). assumption. }
  change (B"--" ++ c :: X) with (45 :: 45 :: c :: X).
  apply a_step_option with (flag := c :: X); [exact Hf|rewrite Ht; exact Hl|exact Hh|].
  rewrite (split_none c X Hnoeq). reflexivity.
Qed.

Lemma xa_step_close : forall files sole s e,
  bstr_eqb (a_table s) MAIN = false -> a_lookup (a_table s) B"--" = Some e ->
  a_step files sole B"--" s =
  inl (match run_target files e [] s with AOk s' => AOk (a_set_table MAIN s') | AErr s' k => AErr s' k end).
Proof.
  intros files sole s e Hm Hl. unfold a_step. change (bstr_eqb B"--" B"--") with true. cbv beta iota.
  rewrite Hm, Hl. destruct (run_target files e [] s); reflexivity.
Qed.

Lemma xa_step_pos : forall files sole f s e, positional_word f = true -> a_lookup_pos (a_table s) = Some e ->
  a_step files sole f s = inl (run_target files e f s).
Proof.
  intros files sole f s e Hp Hl. destruct (positional_word_facts f Hp) as [H1 H2].
  unfold a_step. rewrite H1, H2, Hl. reflexivity.
Qed.

(* ------------------------------------------------------------------ one nested block  <opener> <body> --  *)
Section XBlock.
  Variables (files : list bstr) (sole : bool) (opener t : bstr) (beginc endc : cfg_call).
  Hypothesis Hopen : forall s, a_table s = MAIN -> a_step files sole opener s = inl (AOk (a_set_table t (a_emit beginc s))).
  Hypothesis Hclose : forall s, a_table s = t -> a_step files sole B"--" s = inl (AOk (a_set_table MAIN (a_emit endc s))).

  Lemma xa_block : forall (body : list bstr) (bd : list cfg_call * bool),
    (forall rest s, a_table s = t -> exists k, a_loop files sole (body ++ rest) s =
        if snd bd then a_loop files sole rest (a_emits (fst bd) s)
        else mk_fe_res (rev' (a_calls (a_emits (fst bd) s))) (EFront k)) ->
    forall rest s, a_table s = MAIN ->
    exists k s', (snd bd = true -> a_table s' = MAIN) /\ xa_frame s' = xa_frame s /\
                 a_calls s' = rev (fst (xj_block beginc bd endc)) ++ a_calls s /\
                 a_loop files sole (opener :: body ++ B"--" :: rest) s =
                 if snd bd then a_loop files sole rest s' else mk_fe_res (rev' (a_calls s')) (EFront k).
  Proof.
    intros body bd Hbody rest s Ht.
    set (s1 := a_set_table t (a_emit beginc s)).
    assert (Ht1 : a_table s1 = t) by (unfold s1; apply xa_table_close).
    assert (Hc1 : a_calls s1 = beginc :: a_calls s) by (unfold s1; apply xa_calls_close).
    assert (Hf1 : xa_frame s1 = xa_frame s) by (unfold s1; rewrite xa_frame_set_table, xa_frame_emit; reflexivity).
    destruct (Hbody (B"--" :: rest) s1 Ht1) as [k Hk].
    destruct bd as [cs ok]. cbn [fst snd] in *. unfold xj_block. cbn [fst snd].
    destruct ok.
    - exists 0, (a_set_table MAIN (a_emit endc (a_emits cs s1))).
      split; [intros _; apply xa_table_close|].
      split; [rewrite xa_frame_set_table, xa_frame_emit, xa_frame_emits; exact Hf1|].
      split.
      { rewrite xa_calls_close, a_emits_calls, Hc1. cbn [rev]. rewrite rev_app_distr. cbn [rev app].
        rewrite <- !app_assoc. reflexivity. }
      cbn [a_loop]. rewrite (Hopen s Ht). fold s1. rewrite Hk. cbn [a_loop].
      rewrite Hclose by (rewrite xa_table_emits; exact Ht1). reflexivity.
    - exists k, (a_emits cs s1).
      split; [discriminate|].
      split; [rewrite xa_frame_emits; exact Hf1|].
      split.
      { rewrite a_emits_calls, Hc1. cbn [rev]. rewrite app_nil_r. rewrite <- !app_assoc. reflexivity. }
      cbn [a_loop]. rewrite (Hopen s Ht). fold s1. exact Hk.
  Qed.

  (* the words of a block whose file is positional *)
  Variable obj : bstr.
  Hypothesis Hpos : forall f s, positional_word f = true -> a_table s = t ->
    a_step files sole f s = inl (AOk (a_emit (CCall obj B"file" [f]) s)).

  Lemma xa_words : forall ws, Forall (xj_wf_word argv_table t) ws -> forall rest s, a_table s = t ->
    exists k, a_loop files sole (map xj_word_argv ws ++ rest) s =
      if snd (xj_words_denote obj ws) then a_loop files sole rest (a_emits (fst (xj_words_denote obj ws)) s)
      else mk_fe_res (rev' (a_calls (a_emits (fst (xj_words_denote obj ws)) s))) (EFront k).
  Proof.
    induction ws as [|w ws IH]; intros Hwf rest s Ht.
    - exists 0. reflexivity.
    - pose proof (Forall_inv Hwf) as Hw. pose proof (Forall_inv_tail Hwf) as Hl.
      destruct w as [e v|f]; cbn [map app a_loop xj_words_denote xj_word_denote xj_word_argv].
      + destruct Hw as [Hin Hsub]. destruct (sub_opt_cfg_opt _ e Hsub) as [Hm Htb].
        pose proof (entry_ok_of_wf e Hin Hm) as Hok.
        rewrite (a_step_word e v s files sole Hm Hok (eq_trans Ht (eq_sym Htb))).
        destruct (opt_denote e v) as [c|].
        * destruct (IH Hl rest (a_emit c s)) as [k Hk]. { destruct s; exact Ht. }
          exists k. rewrite Hk. destruct (xj_words_denote obj ws) as [cs ok]. cbn. reflexivity.
        * exists (rej_kind e). reflexivity.
      + cbn [xj_wf_word] in Hw. rewrite (Hpos f s Hw Ht).
        destruct (IH Hl rest (a_emit (CCall obj B"file" [f]) s)) as [k Hk]. { destruct s; exact Ht. }
        exists k. rewrite Hk. destruct (xj_words_denote obj ws) as [cs ok]. cbn. reflexivity.
  Qed.
End XBlock.

(* ------------------------------------------------------------------ blocks one after the other *)
Lemma xa_blocks : forall (A : Type) files sole (f : A -> list cfg_call * bool) (render : A -> list bstr) (P : A -> Prop),
  (forall x rest s, P x -> a_table s = MAIN ->
     exists k s', (snd (f x) = true -> a_table s' = MAIN) /\ xa_frame s' = xa_frame s /\
                  a_calls s' = rev (fst (f x)) ++ a_calls s /\
                  a_loop files sole (render x ++ rest) s =
                  if snd (f x) then a_loop files sole rest s' else mk_fe_res (rev' (a_calls s')) (EFront k)) ->
  forall l, Forall P l -> forall rest s, a_table s = MAIN ->
  exists k s', (snd (xj_seq f l) = true -> a_table s' = MAIN) /\ xa_frame s' = xa_frame s /\
               a_calls s' = rev (fst (xj_seq f l)) ++ a_calls s /\
               a_loop files sole (flat_map render l ++ rest) s =
               if snd (xj_seq f l) then a_loop files sole rest s' else mk_fe_res (rev' (a_calls s')) (EFront k).
Proof.
  intros A files sole f render P Hblk. induction l as [|x l IH]; intros Hl rest s Ht.
  - exists 0, s. cbn. auto.
  - pose proof (Forall_inv Hl) as Hx. pose proof (Forall_inv_tail Hl) as Hr.
    cbn [flat_map xj_seq]. rewrite <- app_assoc.
    destruct (Hblk x (flat_map render l ++ rest) s Hx Ht) as [k [s1 [H1 [H2 [H3 H4]]]]].
    destruct (f x) as [cs ok]. cbn [fst snd] in *. destruct ok.
    + destruct (IH Hr rest s1 (H1 eq_refl)) as [k2 [s2 [G1 [G2 [G3 G4]]]]].
      exists k2, s2. destruct (xj_seq f l) as [cs2 ok2]. cbn [fst snd] in *.
      split; [exact G1|]. split; [rewrite G2; exact H2|].
      split; [rewrite G3, H3, rev_app_distr, <- app_assoc; reflexivity|].
      rewrite H4. exact G4.
    + exists k, s1. cbn [fst snd]. split; [discriminate|]. split; [exact H2|]. split; [exact H3|exact H4].
Qed.

(* ------------------------------------------------------------------ table facts (computed on the generated tables) *)
Definition UO : bstr := B"underlay/overlay".
Definition ATT : bstr := B"attachment".
Definition CATT : bstr := B"copy-attachment".
Definition SPL : bstr := B"set-page-labels".
Definition E_OVERLAY := mk_aentry MAIN B"overlay" KBare [] (TManual B"argOverlay").
Definition E_UNDERLAY := mk_aentry MAIN B"underlay" KBare [] (TManual B"argUnderlay").
Definition E_UO_POS := mk_aentry UO [] KPositional [] (TManual B"argUOPositional").
Definition E_UO_END := mk_aentry UO B"--" KEnd [] (TManual B"argEndUnderlayOverlay").
Definition E_UO_FILE := mk_aentry UO B"file" KParam [] (TConfig C_UO B"file").
Definition E_ADDATT := mk_aentry MAIN B"add-attachment" KBare [] (TManual B"argAddAttachment").
Definition E_ATT_POS := mk_aentry ATT [] KPositional [] (TManual B"argAttPositional").
Definition E_ATT_END := mk_aentry ATT B"--" KEnd [] (TManual B"argEndAttachment").
Definition E_COPYATT := mk_aentry MAIN B"copy-attachments-from" KBare [] (TManual B"argCopyAttachmentsFrom").
Definition E_CATT_POS := mk_aentry CATT [] KPositional [] (TManual B"argCopyAttPositional").
Definition E_CATT_END := mk_aentry CATT B"--" KEnd [] (TManual B"argEndCopyAttachment").
Definition E_LABELS := mk_aentry MAIN B"set-page-labels" KBare [] (TManual B"argSetPageLabels").
Definition E_SPL_POS := mk_aentry SPL [] KPositional [] (TManual B"argPageLabelsPositional").
Definition E_SPL_END := mk_aentry SPL B"--" KEnd [] (TManual B"argEndSetPageLabels").

Lemma xa_lookup_facts :
  (a_lookup MAIN B"overlay" = Some E_OVERLAY /\ a_lookup B"help" B"overlay" = None) /\
  (a_lookup MAIN B"underlay" = Some E_UNDERLAY /\ a_lookup B"help" B"underlay" = None) /\
  (a_lookup_pos UO = Some E_UO_POS /\ a_lookup UO B"--" = Some E_UO_END /\ cfg_opt E_UO_FILE = true /\ argv_entry_ok E_UO_FILE = true) /\
  (a_lookup MAIN B"add-attachment" = Some E_ADDATT /\ a_lookup B"help" B"add-attachment" = None) /\
  (a_lookup_pos ATT = Some E_ATT_POS /\ a_lookup ATT B"--" = Some E_ATT_END) /\
  (a_lookup MAIN B"copy-attachments-from" = Some E_COPYATT /\ a_lookup B"help" B"copy-attachments-from" = None) /\
  (a_lookup_pos CATT = Some E_CATT_POS /\ a_lookup CATT B"--" = Some E_CATT_END) /\
  (a_lookup MAIN B"set-page-labels" = Some E_LABELS /\ a_lookup B"help" B"set-page-labels" = None) /\
  (a_lookup_pos SPL = Some E_SPL_POS /\ a_lookup SPL B"--" = Some E_SPL_END).
Proof. vm_compute. repeat split; reflexivity. Qed.

(* ---- the openers, the terminators and the positional word of each table *)
Lemma xa_open_uo : forall files sole (over : bool) s, a_table s = MAIN ->
  a_step files sole (B"--" ++ (if over then B"overlay" else B"underlay")) s =
  inl (AOk (a_set_table UO (a_emit (CCall C_MAIN (if over then B"overlay" else B"underlay") []) s))).
Proof.
  intros files sole over s Ht. destruct xa_lookup_facts as [[O1 O2] [[U1 U2] _]]. destruct over.
  - rewrite (xa_step_open files sole s B"overlay" E_OVERLAY eq_refl O1 O2 Ht). reflexivity.
  - rewrite (xa_step_open files sole s B"underlay" E_UNDERLAY eq_refl U1 U2 Ht). reflexivity.
Qed.

Lemma xa_close_uo : forall files sole s, a_table s = UO ->
  a_step files sole B"--" s = inl (AOk (a_set_table MAIN (a_emit (CCall C_UO B"endUnderlayOverlay" []) s))).
Proof.
  intros files sole s Ht. destruct xa_lookup_facts as [_ [_ [[_ [H _]] _]]].
  rewrite (xa_step_close files sole s E_UO_END); [reflexivity|rewrite Ht; reflexivity|rewrite Ht; exact H].
Qed.

Lemma xa_pos_uo : forall files sole f s, positional_word f = true -> a_table s = UO ->
  a_step files sole f s = inl (AOk (a_emit (CCall C_UO B"file" [f]) s)).
Proof.
  intros files sole f s Hp Ht. destruct xa_lookup_facts as [_ [_ [[H _] _]]].
  rewrite (xa_step_pos files sole f s E_UO_POS Hp); [reflexivity|rewrite Ht; exact H].
Qed.

Lemma xa_open_att : forall files sole s, a_table s = MAIN ->
  a_step files sole (B"--" ++ B"add-attachment") s = inl (AOk (a_set_table ATT (a_emit (CCall C_MAIN B"addAttachment" []) s))).
Proof.
  intros files sole s Ht. destruct xa_lookup_facts as [_ [_ [_ [[H1 H2] _]]]].
  rewrite (xa_step_open files sole s B"add-attachment" E_ADDATT eq_refl H1 H2 Ht). reflexivity.
Qed.
Lemma xa_close_att : forall files sole s, a_table s = ATT ->
  a_step files sole B"--" s = inl (AOk (a_set_table MAIN (a_emit (CCall C_ATT B"endAddAttachment" []) s))).
Proof.
  intros files sole s Ht. destruct xa_lookup_facts as [_ [_ [_ [_ [[_ H] _]]]]].
  rewrite (xa_step_close files sole s E_ATT_END); [reflexivity|rewrite Ht; reflexivity|rewrite Ht; exact H].
Qed.
Lemma xa_pos_att : forall files sole f s, positional_word f = true -> a_table s = ATT ->
  a_step files sole f s = inl (AOk (a_emit (CCall C_ATT B"file" [f]) s)).
Proof.
  intros files sole f s Hp Ht. destruct xa_lookup_facts as [_ [_ [_ [_ [[H _] _]]]]].
  rewrite (xa_step_pos files sole f s E_ATT_POS Hp); [reflexivity|rewrite Ht; exact H].
Qed.

Lemma xa_open_catt : forall files sole s, a_table s = MAIN ->
  a_step files sole (B"--" ++ B"copy-attachments-from") s =
  inl (AOk (a_set_table CATT (a_emit (CCall C_MAIN B"copyAttachmentsFrom" []) s))).
Proof.
  intros files sole s Ht. destruct xa_lookup_facts as [_ [_ [_ [_ [_ [[H1 H2] _]]]]]].
  rewrite (xa_step_open files sole s B"copy-attachments-from" E_COPYATT eq_refl H1 H2 Ht). reflexivity.
Qed.
Lemma xa_close_catt : forall files sole s, a_table s = CATT ->
  a_step files sole B"--" s = inl (AOk (a_set_table MAIN (a_emit (CCall C_COPY_ATT B"endCopyAttachmentsFrom" []) s))).
Proof.
  intros files sole s Ht. destruct xa_lookup_facts as [_ [_ [_ [_ [_ [_ [[_ H] _]]]]]]].
  rewrite (xa_step_close files sole s E_CATT_END); [reflexivity|rewrite Ht; reflexivity|rewrite Ht; exact H].
Qed.
Lemma xa_pos_catt : forall files sole f s, positional_word f = true -> a_table s = CATT ->
  a_step files sole f s = inl (AOk (a_emit (CCall C_COPY_ATT B"file" [f]) s)).
Proof.
  intros files sole f s Hp Ht. destruct xa_lookup_facts as [_ [_ [_ [_ [_ [_ [[H _] _]]]]]]].
  rewrite (xa_step_pos files sole f s E_CATT_POS Hp); [reflexivity|rewrite Ht; exact H].
Qed.

(* ------------------------------------------------------------------ one block of each kind *)
Definition xa_block_post (files : list bstr) (sole : bool) (d : list cfg_call * bool) (words rest : list bstr) (s : astate) : Prop :=
  exists k s', (snd d = true -> a_table s' = MAIN) /\ xa_frame s' = xa_frame s /\
               a_calls s' = rev (fst d) ++ a_calls s /\
               a_loop files sole (words ++ rest) s =
               if snd d then a_loop files sole rest s' else mk_fe_res (rev' (a_calls s')) (EFront k).

Lemma xa_block_att : forall files sole ws rest s, Forall (xj_wf_word argv_table ATT) ws -> a_table s = MAIN ->
  xa_block_post files sole (xj_att_denote ws) (xj_block_argv B"add-attachment" ws) rest s.
Proof.
  intros files sole ws rest s Hwf Ht. unfold xa_block_post, xj_att_denote, xj_block_argv.
  cbn [app]. rewrite <- app_assoc. cbn [app].
  exact (xa_block files sole (B"--" ++ B"add-attachment") ATT _ _ (xa_open_att files sole) (xa_close_att files sole)
           (map xj_word_argv ws) (xj_words_denote B"c_att" ws)
           (fun rest0 s0 H0 => xa_words files sole ATT B"c_att" (xa_pos_att files sole) ws Hwf rest0 s0 H0) rest s Ht).
Qed.

Lemma xa_block_catt : forall files sole ws rest s, Forall (xj_wf_word argv_table CATT) ws -> a_table s = MAIN ->
  xa_block_post files sole (xj_copyatt_denote ws) (xj_block_argv B"copy-attachments-from" ws) rest s.
Proof.
  intros files sole ws rest s Hwf Ht. unfold xa_block_post, xj_copyatt_denote, xj_block_argv.
  cbn [app]. rewrite <- app_assoc. cbn [app].
  exact (xa_block files sole (B"--" ++ B"copy-attachments-from") CATT _ _ (xa_open_catt files sole) (xa_close_catt files sole)
           (map xj_word_argv ws) (xj_words_denote B"c_copy_att" ws)
           (fun rest0 s0 H0 => xa_words files sole CATT B"c_copy_att" (xa_pos_catt files sole) ws Hwf rest0 s0 H0) rest s Ht).
Qed.

Lemma xa_uo_opts_wf : forall named u, xj_wf_uo argv_table named u ->
  Forall (xj_wf_word argv_table UO) (map (fun p : aentry * bstr => XjOpt (fst p) (snd p)) (xj_uo_opts u)).
Proof.
  intros named u [_ H]. induction (xj_uo_opts u) as [|p l IH]; [constructor|].
  pose proof (Forall_inv H) as [H1 [H2 _]]. constructor; [split; assumption|]. apply IH. exact (Forall_inv_tail H).
Qed.

Lemma xa_block_uo : forall files sole named (over : bool) u rest s, xj_wf_uo argv_table named u -> a_table s = MAIN ->
  xa_block_post files sole (xj_uo_denote (if over then B"overlay" else B"underlay") u)
                (xj_uo_argv named (if over then B"overlay" else B"underlay") u) rest s.
Proof.
  intros files sole named over u rest s Hwf Ht. unfold xa_block_post, xj_uo_denote, xj_uo_argv.
  pose proof (xa_uo_opts_wf named u Hwf) as Hopts. destruct Hwf as [Hfile _].
  set (opts := map (fun p : aentry * bstr => XjOpt (fst p) (snd p)) (xj_uo_opts u)) in *.
  set (fw := if named then B"--file=" ++ xj_uo_file u else xj_uo_file u).
  assert (Hmap : map (fun p : aentry * bstr => word_of (fst p) (snd p)) (xj_uo_opts u) = map xj_word_argv opts).
  { unfold opts. rewrite map_map. reflexivity. }
  rewrite Hmap.
  assert (Hbody : forall rest0 s0, a_table s0 = UO -> exists k, a_loop files sole ((fw :: map xj_word_argv opts) ++ rest0) s0 =
            if snd (xj_words_denote B"c_uo" (xj_uo_words u))
            then a_loop files sole rest0 (a_emits (fst (xj_words_denote B"c_uo" (xj_uo_words u))) s0)
            else mk_fe_res (rev' (a_calls (a_emits (fst (xj_words_denote B"c_uo" (xj_uo_words u))) s0))) (EFront k)).
  { intros rest0 s0 H0. unfold xj_uo_words. fold opts. cbn [xj_words_denote xj_word_denote app a_loop].
    assert (Hfirst : a_step files sole fw s0 = inl (AOk (a_emit (CCall B"c_uo" B"file" [xj_uo_file u]) s0))).
    { unfold fw. destruct named.
      - destruct xa_lookup_facts as [_ [_ [[_ [_ [C O]]] _]]].
        change (B"--file=" ++ xj_uo_file u) with (word_of E_UO_FILE (xj_uo_file u)).
        rewrite (a_step_word E_UO_FILE (xj_uo_file u) s0 files sole C O H0). reflexivity.
      - cbn [orb] in Hfile. exact (xa_pos_uo files sole (xj_uo_file u) s0 Hfile H0). }
    rewrite Hfirst. cbv beta iota.
    destruct (xa_words files sole UO B"c_uo" (xa_pos_uo files sole) opts Hopts rest0 (a_emit (CCall B"c_uo" B"file" [xj_uo_file u]) s0)) as [k Hk].
    { destruct s0; exact H0. }
    exists k. etransitivity; [exact Hk|]. destruct (xj_words_denote B"c_uo" opts) as [cs ok]. cbn. reflexivity. }
  cbn [app]. rewrite <- app_assoc. cbn [app].
  change (fw :: map xj_word_argv opts ++ B"--" :: rest) with ((fw :: map xj_word_argv opts) ++ B"--" :: rest).
  exact (xa_block files sole (B"--" ++ (if over then B"overlay" else B"underlay")) UO _ _
           (xa_open_uo files sole over) (xa_close_uo files sole) (fw :: map xj_word_argv opts) _ Hbody rest s Ht).
Qed.

(* ---- --set-page-labels w ... -- *)
Lemma xa_open_spl : forall files sole s, a_table s = MAIN ->
  a_step files sole (B"--" ++ B"set-page-labels") s = inl (AOk (a_set_acc [] (a_set_table SPL s))).
Proof.
  intros files sole s Ht. destruct xa_lookup_facts as [_ [_ [_ [_ [_ [_ [_ [[H1 H2] _]]]]]]]].
  rewrite (xa_step_open files sole s B"set-page-labels" E_LABELS eq_refl H1 H2 Ht). reflexivity.
Qed.

Lemma xa_spl_words : forall files sole l rest s, Forall (fun w => positional_word w = true) l -> a_table s = SPL ->
  a_loop files sole (l ++ rest) s = a_loop files sole rest (a_set_acc (a_acc s ++ l) s).
Proof.
  intros files sole. induction l as [|w l IH]; intros rest s Hl Ht.
  - cbn [app]. rewrite app_nil_r. destruct s; reflexivity.
  - pose proof (Forall_inv Hl) as Hw. pose proof (Forall_inv_tail Hl) as Hr.
    destruct xa_lookup_facts as [_ [_ [_ [_ [_ [_ [_ [_ [H _]]]]]]]]].
    cbn [app a_loop]. rewrite (xa_step_pos files sole w s E_SPL_POS Hw) by (rewrite Ht; exact H).
    change (run_target files E_SPL_POS w s) with (AOk (a_set_acc (a_acc s ++ [w]) s)). cbv beta iota.
    rewrite IH; [|exact Hr|destruct s; exact Ht].
    destruct s; cbn. rewrite <- app_assoc. reflexivity.
Qed.

Lemma xa_block_spl : forall files sole l rest s, Forall (fun w => positional_word w = true) l -> a_table s = MAIN ->
  exists s', a_table s' = MAIN /\ xa_frame s' = xa_frame s /\ a_calls s' = CCall C_MAIN B"setPageLabels" l :: a_calls s /\
             a_loop files sole (B"--set-page-labels" :: l ++ B"--" :: rest) s = a_loop files sole rest s'.
Proof.
  intros files sole l rest s Hl Ht.
  set (s1 := a_set_acc [] (a_set_table SPL s)).
  assert (Ht1 : a_table s1 = SPL) by (unfold s1; destruct s; reflexivity).
  exists (a_set_table MAIN (a_set_acc [] (a_emit (CCall C_MAIN B"setPageLabels" l) (a_set_acc l s1)))).
  split; [destruct s; reflexivity|]. split; [destruct s; reflexivity|]. split; [destruct s; reflexivity|].
  cbn [a_loop]. change (B"--set-page-labels") with (B"--" ++ B"set-page-labels"). rewrite (xa_open_spl files sole s Ht). fold s1.
  rewrite (xa_spl_words files sole l (B"--" :: rest) s1 Hl Ht1).
  replace (a_acc s1 ++ l) with l by (unfold s1; destruct s; reflexivity).
  cbn [a_loop].
  destruct xa_lookup_facts as [_ [_ [_ [_ [_ [_ [_ [_ [_ H]]]]]]]]].
  rewrite (xa_step_close files sole (a_set_acc l s1) E_SPL_END); [|unfold s1; destruct s; reflexivity|unfold s1; destruct s; exact H].
  unfold s1. destruct s; reflexivity.
Qed.

(* ------------------------------------------------------------------ the items of Sys/JobSpec.v *)
(* as Sys/C19ProofsB.a_loop_item; in addition the two flags of the --pages handler are left alone *)
Lemma xa_loop_base : forall files sole it rest s gi go,
  wf_item argv_table it -> a_inv s gi go -> pos_ok it gi go = true ->
  exists k s', (snd (denote_item it) = true -> a_inv s' (fst (pos_next it gi go)) (snd (pos_next it gi go))) /\
               a_calls s' = rev (argv_calls_item it) ++ a_calls s /\ xa_pgf s' = xa_pgf s /\
               a_loop files sole (argv_of_item it ++ rest) s =
               if snd (denote_item it) then a_loop files sole rest s' else mk_fe_res (rev' (a_calls s')) (EFront k).
Proof.
  intros files sole it rest s gi go Hwf [Ht [Hgi [Hgo Hused]]] Hpos.
  destruct it as [e v|e vs|f|f| | |l|u o bits l]; cbn [argv_calls_item].
  - (* IOpt *)
    destruct (wf_item_main_opt (IOpt e v) e (or_introl (ex_intro _ v eq_refl)) Hwf) as [Hin [Hm Htb]].
    pose proof (entry_ok_of_wf e Hin Hm) as Hok. rewrite <- Htb in Ht.
    pose proof (a_loop_vals files sole e Hm Hok [v] rest s Ht) as H. cbn [map app] in H. cbn [argv_of_item app].
    rewrite H. cbn [denote_vals denote_item]. rewrite Htb in Ht. destruct (opt_denote e v) as [c|]; cbn.
    + exists 0, (a_emit c s). split; [intros _; destruct s; unfold a_inv in *; cbn in *; auto|]. split; [destruct s; reflexivity|].
      split; [apply xa_pgf_emit|reflexivity].
    + exists (rej_kind e), s. split; [unfold a_inv; auto|]. split; [reflexivity|]. split; reflexivity.
  - (* IArr *)
    destruct (wf_item_main_opt (IArr e vs) e (or_intror (ex_intro _ vs eq_refl)) Hwf) as [Hin [Hm Htb]].
    pose proof (entry_ok_of_wf e Hin Hm) as Hok. rewrite <- Htb in Ht.
    cbn [argv_of_item denote_item]. rewrite (a_loop_vals files sole e Hm Hok vs rest s Ht).
    destruct (denote_vals e vs) as [cs ok]. cbn [fst snd pos_next]. rewrite Htb in Ht.
    exists (rej_kind e), (a_emits cs s). split; [intros _; apply a_emits_inv; unfold a_inv; auto|]. split; [apply a_emits_calls|].
    split; [apply xa_pgf_emits|]. destruct ok; reflexivity.
  - (* IIn *)
    cbn [pos_ok] in Hpos. apply andb_true_iff in Hpos. destruct Hpos as [Hg Hp]. apply negb_true_iff in Hg. subst gi.
    cbn [argv_of_item app a_loop denote_item fst snd pos_next].
    rewrite (a_step_positional files sole f s Hp Ht). rewrite a_manual_positional. rewrite Hg. cbn [negb].
    exists 0, (a_set_gave true (a_gave_output s) (a_emit (CCall C_MAIN B"inputFile" [f]) s)).
    split; [intros _; destruct s; unfold a_inv; cbn in *; subst; auto|]. split; [destruct s; reflexivity|].
    split; [destruct s; reflexivity|reflexivity].
  - (* IOut *)
    cbn [pos_ok] in Hpos. apply andb_true_iff in Hpos. destruct Hpos as [Hg Hp]. apply andb_true_iff in Hg. destruct Hg as [Hg1 Hg2].
    apply negb_true_iff in Hg2. subst gi go.
    cbn [argv_of_item app a_loop denote_item fst snd pos_next].
    rewrite (a_step_positional files sole f s Hp Ht). rewrite a_manual_positional. rewrite Hg1, Hg2. cbn [negb].
    exists 0, (a_set_gave true true (a_emit (CCall C_MAIN B"outputFile" [f]) s)).
    split; [intros _; destruct s; unfold a_inv; cbn in *; subst; auto|]. split; [destruct s; reflexivity|].
    split; [destruct s; reflexivity|reflexivity].
  - (* IEmpty *)
    cbn [argv_of_item app a_loop denote_item fst snd pos_next].
    rewrite (a_step_empty files sole s Ht).
    exists 0, (a_set_gave true (a_gave_output s) (a_emit (CCall C_MAIN B"emptyInput" []) s)).
    split; [intros _; destruct s; unfold a_inv; cbn in *; subst; auto|]. split; [destruct s; reflexivity|].
    split; [destruct s; reflexivity|reflexivity].
  - (* IReplace *)
    cbn [argv_of_item app a_loop denote_item fst snd pos_next].
    rewrite (a_step_replace files sole s Ht).
    exists 0, (a_set_gave (a_gave_input s) true (a_emit (CCall C_MAIN B"replaceInput" []) s)).
    split; [intros _; destruct s; unfold a_inv; cbn in *; subst; auto|]. split; [destruct s; reflexivity|].
    split; [destruct s; reflexivity|reflexivity].
  - (* IGlobal *)
    cbn [wf_item] in Hwf. fold (wf_subs B"global" l) in Hwf.
    cbn [argv_of_item app a_loop denote_item pos_next fst snd].
    rewrite (a_step_global files sole s Ht).
    set (s1 := a_set_table B"global" (a_set_acc [] (a_emit (CCall C_MAIN B"global" []) s))).
    assert (Ht1 : a_table s1 = B"global") by (destruct s; reflexivity).
    assert (Hp1 : xa_pgf s1 = xa_pgf s) by (unfold s1; xa_pgf_tac).
    rewrite <- app_assoc. cbn [app].
    destruct (a_loop_subs files sole B"global" l Hwf (B"--" :: rest) s1 Ht1) as [k Hk].
    destruct (denote_subs l) as [cs ok]. cbn [fst snd] in *.
    destruct (a_emits_fields cs s1) as [F1 [F2 [F3 F4]]].
    destruct ok.
    + exists 0, (a_set_table MAIN (a_emit (CCall C_GLOBAL B"endGlobal" []) (a_emits cs s1))).
      destruct (close_table_fields MAIN (CCall C_GLOBAL B"endGlobal" []) (a_emits cs s1)) as [G1 [G2 [G3 [G4 G5]]]].
      split.
      { intros _. unfold a_inv. rewrite G1, G2, G3, G5, F2, F3, F4. unfold s1. destruct s; cbn in *. auto. }
      split.
      { rewrite G4. rewrite a_emits_calls. unfold s1. destruct s; cbn. rewrite rev_app_distr. cbn. rewrite <- app_assoc. reflexivity. }
      split.
      { rewrite xa_pgf_set_table, xa_pgf_emit, xa_pgf_emits. exact Hp1. }
      etransitivity; [exact Hk|]. cbn [a_loop]. rewrite (a_step_end_global files sole (a_emits cs s1)) by (rewrite F1; exact Ht1). reflexivity.
    + exists k, (a_emits cs s1). split; [discriminate|].
      split; [|split; [rewrite xa_pgf_emits; exact Hp1|exact Hk]].
      rewrite a_emits_calls. unfold s1. destruct s; cbn. rewrite app_nil_r. rewrite <- app_assoc. reflexivity.
  - (* IEncrypt *)
    cbn [wf_item] in Hwf. destruct Hwf as [Hb [Hu [Ho Hl]]].
    assert (Hsubs : wf_subs (enc_table bits) l).
    { unfold wf_subs. eapply Forall_impl; [|exact Hl]. intros p [H1 [H2 _]]. auto. }
    set (s0 := a_set_table B"encryption" (a_set_acc [] (a_emit ENC0 s))).
    set (s1 := a_emit (CCall C_MAIN B"encrypt" [bits; u; o]) (a_set_table (enc_table bits) (a_set_acc [] (a_set_pw u o false s0)))).
    set (words := map (fun p : aentry * bstr => word_of (fst p) (snd p)) l).
    assert (Hhead : a_loop files sole (argv_of_item (IEncrypt u o bits l) ++ rest) s = a_loop files sole (words ++ B"--" :: rest) s1).
    { cbn [argv_of_item app a_loop]. rewrite (a_step_encrypt files sole s Ht). fold s0. fold words.
      rewrite <- app_assoc. cbn [app].
      apply (a_loop_enc_head files sole u o bits (words ++ B"--" :: rest) s0 Hb Hu Ho); unfold s0; destruct s; cbn in *; auto. }
    assert (Ht1 : a_table s1 = enc_table bits) by (unfold s1, s0; destruct s; reflexivity).
    assert (Hp1 : xa_pgf s1 = xa_pgf s) by (unfold s1, s0; xa_pgf_tac).
    destruct (a_loop_subs files sole (enc_table bits) l Hsubs (B"--" :: rest) s1 Ht1) as [k Hk]. fold words in Hk.
    cbn [denote_item pos_next fst snd].
    destruct (denote_subs l) as [cs ok]. cbn [fst snd] in *.
    destruct (a_emits_fields cs s1) as [F1 [F2 [F3 F4]]].
    destruct ok.
    + exists 0, (a_set_table MAIN (a_emit (CCall C_ENC B"endEncrypt" []) (a_emits cs s1))).
      destruct (close_table_fields MAIN (CCall C_ENC B"endEncrypt" []) (a_emits cs s1)) as [G1 [G2 [G3 [G4 G5]]]].
      split.
      { intros _. unfold a_inv. rewrite G1, G2, G3, G5, F2, F3, F4. unfold s1, s0. destruct s; cbn in *. auto. }
      split.
      { rewrite G4. rewrite a_emits_calls. unfold s1, s0. destruct s; cbn. rewrite rev_app_distr. cbn. rewrite <- !app_assoc. reflexivity. }
      split.
      { rewrite xa_pgf_set_table, xa_pgf_emit, xa_pgf_emits. exact Hp1. }
      etransitivity; [exact Hhead|]. etransitivity; [exact Hk|].
      cbn [a_loop]. rewrite (a_step_end_enc files sole bits (a_emits cs s1) Hb) by (rewrite F1; exact Ht1). reflexivity.
    + exists k, (a_emits cs s1). split; [discriminate|].
      split; [|split; [rewrite xa_pgf_emits; exact Hp1|etransitivity; [exact Hhead|exact Hk]]].
      rewrite a_emits_calls. unfold s1, s0. destruct s; cbn. rewrite app_nil_r. rewrite <- !app_assoc. reflexivity.
Qed.

(* ------------------------------------------------------------------ the argv front end refines the specification *)
(* the calls the argv front end makes for an item: those of its denotation, preceded for --encrypt by encrypt(0, "", "") *)
Definition xj_argv_calls_item (it : xj_item) : list cfg_call :=
  match it with XjBase b => argv_calls_item b | _ => fst (xj_denote_item it) end.
Fixpoint xj_argv_calls (j : list xj_item) : list cfg_call :=
  match j with
  | [] => []
  | it :: r => if snd (xj_denote_item it) then xj_argv_calls_item it ++ xj_argv_calls r else xj_argv_calls_item it
  end.

Definition xj_pos_ok (it : xj_item) (gi go pg : bool) : bool :=
  match it with XjBase b => pos_ok b gi go | XjPages _ => negb pg | _ => true end.
Definition xj_next_gi (it : xj_item) (gi go : bool) : bool := match it with XjBase b => fst (pos_next b gi go) | _ => gi end.
Definition xj_next_go (it : xj_item) (gi go : bool) : bool := match it with XjBase b => snd (pos_next b gi go) | _ => go end.
Definition xj_next_pg (it : xj_item) (pg : bool) : bool := match it with XjPages _ => true | _ => pg end.

Lemma xj_wf_pos_cons : forall it r gi go pg,
  xj_wf_pos (it :: r) gi go pg =
  xj_pos_ok it gi go pg && xj_wf_pos r (xj_next_gi it gi go) (xj_next_go it gi go) (xj_next_pg it pg).
Proof. intros it r gi go pg. destruct it; reflexivity. Qed.

Definition xa_inv (s : astate) (gi go pg : bool) : Prop := a_inv s gi go /\ (pg = false -> xa_pgf s = (false, false)).

Lemma xa_inv_frame : forall s s' gi go pg, xa_inv s gi go pg -> a_table s' = MAIN -> xa_frame s' = xa_frame s -> xa_inv s' gi go pg.
Proof.
  intros s s' gi go pg [[Ht [Hgi [Hgo Hu]]] Hpg] Ht' Hf. unfold xa_frame in Hf. inversion Hf as [[F1 F2 F3 F4 F5 F6 F7]].
  split.
  - unfold a_inv. rewrite Ht', F1, F2, F3. auto.
  - intros H. unfold xa_pgf. rewrite F4, F5. exact (Hpg H).
Qed.

Lemma xa_item_of_blocks : forall files sole d words rest s gi go pg,
  xa_inv s gi go pg -> xa_block_post files sole d words rest s ->
  exists k s', (snd d = true -> xa_inv s' gi go pg) /\ a_calls s' = rev (fst d) ++ a_calls s /\
               a_loop files sole (words ++ rest) s =
               if snd d then a_loop files sole rest s' else mk_fe_res (rev' (a_calls s')) (EFront k).
Proof.
  intros files sole d words rest s gi go pg Hinv [k [s' [H1 [H2 [H3 H4]]]]].
  exists k, s'. split; [|split; assumption].
  intros Hok. apply (xa_inv_frame s s' gi go pg Hinv (H1 Hok) H2).
Qed.

Lemma xa_blocks_post : forall (A : Type) files sole (f : A -> list cfg_call * bool) (render : A -> list bstr) (P : A -> Prop),
  (forall x rest s, P x -> a_table s = MAIN -> xa_block_post files sole (f x) (render x) rest s) ->
  forall l, Forall P l -> forall rest s, a_table s = MAIN -> xa_block_post files sole (xj_seq f l) (flat_map render l) rest s.
Proof. intros A files sole f render P H l Hl rest s Ht. exact (xa_blocks A files sole f render P H l Hl rest s Ht). Qed.

Lemma xa_loop_item : forall files sole named it rest s gi go pg,
  xj_wf_item argv_table files named it -> xa_inv s gi go pg -> xj_pos_ok it gi go pg = true ->
  exists k s', (snd (xj_denote_item it) = true -> xa_inv s' (xj_next_gi it gi go) (xj_next_go it gi go) (xj_next_pg it pg)) /\
               a_calls s' = rev (xj_argv_calls_item it) ++ a_calls s /\
               a_loop files sole (xj_argv_of_item named it ++ rest) s =
               if snd (xj_denote_item it) then a_loop files sole rest s' else mk_fe_res (rev' (a_calls s')) (EFront k).
Proof.
  intros files sole named it rest s gi go pg Hwf Hinv Hpos.
  pose proof Hinv as [Hainv Hpg]. pose proof Hainv as [Ht _].
  destruct it as [b|l|l|l|l|l|l];
    cbn [xj_wf_item xj_pos_ok xj_next_gi xj_next_go xj_next_pg xj_argv_calls_item xj_denote_item xj_argv_of_item] in *.
  - (* base *)
    destruct (xa_loop_base files sole b rest s gi go Hwf Hainv Hpos) as [k [s' [H1 [H2 [H3 H4]]]]].
    exists k, s'. split; [|split; assumption].
    intros Hok. split; [exact (H1 Hok)|]. intros Hf. rewrite H3. exact (Hpg Hf).
  - (* pages *)
    apply negb_true_iff in Hpos. specialize (Hpg Hpos). unfold xa_pgf in Hpg.
    assert (Hpf : a_pages_file s = false) by (exact (f_equal fst Hpg)).
    assert (Hpr : a_pages_range s = false) by (exact (f_equal snd Hpg)).
    destruct (pg_block files sole named l rest s gi go Hainv Hpf Hpr Hwf) as [s' [H1 [H2 H3]]].
    exists 0, s'. cbn [fst snd]. split; [|split; assumption].
    intros _. split; [exact H1|discriminate].
  - (* overlay *)
    exact (xa_item_of_blocks files sole _ _ rest s gi go pg Hinv
             (xa_blocks_post _ files sole (xj_uo_denote B"overlay") (xj_uo_argv named B"overlay") (xj_wf_uo argv_table named)
                (fun x rest0 s0 Hx H0 => xa_block_uo files sole named true x rest0 s0 Hx H0) l Hwf rest s Ht)).
  - (* underlay *)
    exact (xa_item_of_blocks files sole _ _ rest s gi go pg Hinv
             (xa_blocks_post _ files sole (xj_uo_denote B"underlay") (xj_uo_argv named B"underlay") (xj_wf_uo argv_table named)
                (fun x rest0 s0 Hx H0 => xa_block_uo files sole named false x rest0 s0 Hx H0) l Hwf rest s Ht)).
  - (* add-attachment *)
    exact (xa_item_of_blocks files sole _ _ rest s gi go pg Hinv
             (xa_blocks_post _ files sole xj_att_denote (xj_block_argv B"add-attachment") (Forall (xj_wf_word argv_table ATT))
                (fun x rest0 s0 Hx H0 => xa_block_att files sole x rest0 s0 Hx H0) l Hwf rest s Ht)).
  - (* copy-attachments-from *)
    exact (xa_item_of_blocks files sole _ _ rest s gi go pg Hinv
             (xa_blocks_post _ files sole xj_copyatt_denote (xj_block_argv B"copy-attachments-from") (Forall (xj_wf_word argv_table CATT))
                (fun x rest0 s0 Hx H0 => xa_block_catt files sole x rest0 s0 Hx H0) l Hwf rest s Ht)).
  - (* set-page-labels *)
    destruct (xa_block_spl files sole l rest s Hwf Ht) as [s' [H1 [H2 [H3 H4]]]].
    exists 0, s'. cbn [fst snd rev app]. split; [intros _; exact (xa_inv_frame s s' gi go pg Hinv H1 H2)|].
    split; [exact H3|]. rewrite <- H4. cbn [app]. rewrite <- app_assoc. reflexivity.
Qed.

Lemma xa_loop_job : forall files sole named j s gi go pg,
  Forall (xj_wf_item argv_table files named) j -> xj_wf_pos j gi go pg = true -> xa_inv s gi go pg ->
  res_is (a_loop files sole (xj_render_argv named j) s) (rev (a_calls s)) (xj_argv_calls j) (snd (xj_denote_items j)).
Proof.
  intros files sole named. induction j as [|it j IH]; intros s gi go pg Hwf Hpos Hinv.
  - unfold res_is. cbn [xj_render_argv flat_map xj_denote_items xj_seq xj_argv_calls fst snd a_loop].
    destruct Hinv as [[Ht _] _]. rewrite Ht.
    rewrite bstr_eqb_refl. rewrite rev'_rev. cbn [rev app]. reflexivity.
  - pose proof (Forall_inv Hwf) as Hit. pose proof (Forall_inv_tail Hwf) as Hj.
    rewrite xj_wf_pos_cons in Hpos. apply andb_true_iff in Hpos. destruct Hpos as [Hp1 Hp2].
    cbn [xj_render_argv flat_map].
    destruct (xa_loop_item files sole named it (flat_map (xj_argv_of_item named) j) s gi go pg Hit Hinv Hp1) as [k [s' [Hinv' [Hcalls Heq]]]].
    rewrite Heq. unfold xj_denote_items. cbn [xj_seq xj_argv_calls]. fold (xj_denote_items j).
    destruct (xj_denote_item it) as [cs ok] eqn:Hd. cbn [fst snd] in *.
    destruct ok.
    + specialize (IH _ _ _ _ Hj Hp2 (Hinv' eq_refl)). fold (xj_render_argv named j).
      rewrite Hcalls in IH. rewrite rev_app_distr, rev_involutive in IH.
      unfold xj_denote_items in *. destruct (xj_seq xj_denote_item j) as [cs2 ok2]. cbn [fst snd] in *.
      unfold res_is in *. destruct ok2.
      * rewrite IH. rewrite <- !app_assoc. reflexivity.
      * destruct IH as [k2 IH]. exists k2. rewrite IH. rewrite <- !app_assoc. reflexivity.
    + unfold res_is. cbn [snd]. exists k. rewrite rev'_rev, Hcalls, rev_app_distr, rev_involutive. reflexivity.
Qed.

(* argv_refines_spec (DESIGN §5 C19), over every option table: for every job made of main-table options bound to a Config method
   (given once or repeatable) with ANY value string, the positional files, --empty / --replace-input, the nested tables --global,
   --encrypt user owner 40|128|256 (minus the two 40-bit options of tables_equivalent_refuted), --pages at any place of the job (at
   most once; named spelling, or positional spelling readable in the working directory `files`), --overlay / --underlay (any number
   of blocks, file positional or --file=), --add-attachment / --copy-attachments-from (any number of blocks, the file at any place
   among the options), --set-page-labels, the command-line front end makes exactly the Config calls of the job's denotation
   (preceded for --encrypt by the preliminary encrypt(0,"","")), ends with the consistency check when the job is acceptable and with
   a usage error otherwise. *)
Lemma argv_refines_spec_lemma : forall files named j, xj_wf_job argv_table files named j ->
  res_is (front_argv files (xj_render_argv named j)) [] (xj_argv_calls j) (snd (xj_denote_items j)).
Proof.
  intros files named j [Hwf Hpos]. unfold front_argv.
  generalize (match xj_render_argv named j with [_] => true | _ => false end). intros sole.
  apply (xa_loop_job files sole named j a_init false false false Hwf Hpos).
  split; [unfold a_inv; cbn; auto|]. intros _. reflexivity.
Qed.

(* ================================================================== the JSON front end refines the specification *)
Definition xj_word_key (w : xj_word) : bstr := match w with XjOpt e _ => camel (ae_flag e) | XjFile _ => B"file" end.
Definition xj_word_val (w : xj_word) : bstr := match w with XjOpt _ v => v | XjFile f => f end.
Lemma xj_word_member_eq : forall w, xj_word_member w = (xj_word_key w, JJStr (xj_word_val w)).
Proof. intros w. destruct w; reflexivity. Qed.

(* the string member k: x of a dictionary at path dp is accepted by the schema and handled with the call r (None: rejected) *)
Definition xj_mem_ok (dp : list bstr) (k x : bstr) (r : option cfg_call) : Prop :=
  schema_has_child dp k = true /\ schema_node (dp ++ [k]) = Some SString /\ is_nil (j_entries (dp ++ [k])) = false /\
  forall s, exists kk, j_handle (dp ++ [k]) (JJStr x) s = match r with Some c => JOk (j_emit c s) | None => JErr s (EFront kk) end.

Definition xj_word_ok (dp : list bstr) (obj : bstr) (w : xj_word) : Prop :=
  xj_mem_ok dp (xj_word_key w) (xj_word_val w) (xj_word_denote obj w).

Lemma xj_dict_words : forall dp obj ws k0 dp', dp = k0 :: dp' -> Forall (xj_word_ok dp obj) ws ->
  sub_members_ok dp (map xj_word_member ws) = true /\
  forall s, exists k, dict_go dp (map xj_word_member ws) s =
            if snd (xj_words_denote obj ws) then JOk (j_emits (fst (xj_words_denote obj ws)) s)
            else JErr (j_emits (fst (xj_words_denote obj ws)) s) (EFront k).
Proof.
  intros dp obj ws k0 dp' Hdp. induction ws as [|w ws IH]; intros Hwf.
  - split; [reflexivity|]. intros s. exists 0. reflexivity.
  - pose proof (Forall_inv Hwf) as [Hc [Hn [Hne Hh]]]. pose proof (Forall_inv_tail Hwf) as Hl.
    destruct (IH Hl) as [IH1 IH2]. cbn [map]. rewrite xj_word_member_eq. split.
    + cbn [sub_members_ok]. rewrite Hc. rewrite check_schema_str.
      replace (match dp ++ [xj_word_key w] with [] => Some SDict | _ :: _ => schema_node (dp ++ [xj_word_key w]) end)
        with (schema_node (dp ++ [xj_word_key w])) by (rewrite Hdp; reflexivity).
      rewrite Hn. exact IH1.
    + intros s. rewrite (dict_go_cons_ne dp _ _ _ s Hne). destruct (Hh s) as [kk Hkk]. rewrite Hkk.
      cbn [xj_words_denote]. destruct (xj_word_denote obj w) as [c|].
      * destruct (IH2 (j_emit c s)) as [k Hk]. exists k. rewrite Hk.
        destruct (xj_words_denote obj ws) as [cs ok]. cbn. reflexivity.
      * exists kk. reflexivity.
Qed.

(* an option whose key has the generated string handler *)
Lemma xj_opt_ok_scalar : forall dp e v k0 dp', dp = k0 :: dp' ->
  In e argv_table -> cfg_opt e = true -> json_sub_entry_ok dp e = true ->
  xj_mem_ok dp (camel (ae_flag e)) v (opt_denote e v).
Proof.
  intros dp e v k0 dp' Hdp Hin Hm Hfact.
  pose proof (argv_ok_shape e (entry_ok_of_wf e Hin Hm)) as Hshape.
  destruct (scalar_facts_inv _ _ _ _ Hfact) as [Hc [Hok Hn]].
  destruct (scalar_ok_on_inv _ _ Hok) as [Hne _].
  split; [exact Hc|]. split; [exact Hn|]. split.
  { destruct (j_entries (dp ++ [camel (ae_flag e)])); [congruence|reflexivity]. }
  intros s. exists (jrej_kind e). rewrite (j_handle_str e _ v s Hm Hshape Hok). destruct (opt_denote e v); reflexivity.
Qed.

(* a key with a hand-written string handler that makes one call *)
Lemma xj_key_ok_manual : forall dp k h x c,
  schema_has_child dp k = true -> schema_node (dp ++ [k]) = Some SString -> is_nil (j_entries (dp ++ [k])) = false ->
  find is_jmanual (j_entries (dp ++ [k])) = Some (mk_jentry (dp ++ [k]) JManual [] (TManual h)) -> is_ignore h = false ->
  (forall s, j_manual_string h x s = JOk (j_emit c s)) ->
  xj_mem_ok dp k x (Some c).
Proof.
  intros dp k h x c Hc Hn Hne Hm Hi Hs. split; [exact Hc|]. split; [exact Hn|]. split; [exact Hne|].
  intros s. exists 0. rewrite (j_handle_manual _ x s _ Hm Hi). cbn [handler_name je_target]. apply Hs.
Qed.

(* ---- a key holding an array of dictionaries *)
Definition xj_arr_node (K ha h : bstr) : Prop :=
  schema_has_child [] K = true /\ schema_node [K] = Some SArray /\ schema_node [K; ARRK] = Some SDict /\
  is_nil (j_entries [K]) = false /\ find is_jmanual (j_entries [K]) = None /\
  find is_jarray (j_entries [K]) = Some (mk_jentry [K] JArray [] (TManual ha)) /\ noop_array ha = true /\
  find is_jmanual (j_entries [K; ARRK]) = None /\
  find is_jdict (j_entries [K; ARRK]) = Some (mk_jentry [K; ARRK] JDict [] (TManual h)).

Section XJArr.
  Variables (K ha h : bstr).
  Hypothesis Hnode : xj_arr_node K ha h.
  Variables (A : Type) (f : A -> list cfg_call * bool) (mem : A -> list (bstr * jjv)) (P : A -> Prop).
  Hypothesis Hone : forall x, P x ->
    sub_members_ok [K; ARRK] (mem x) = true /\
    forall s, exists k, dict_walk [K; ARRK] h (mem x) s =
              if snd (f x) then JOk (j_emits (fst (f x)) s) else JErr (j_emits (fst (f x)) s) (EFront k).

  Lemma xj_arr_go : forall l, Forall P l -> forall s,
    exists k, arr_go [K; ARRK] (map (fun x => JJObj (mem x)) l) s =
              if snd (xj_seq f l) then JOk (j_emits (fst (xj_seq f l)) s) else JErr (j_emits (fst (xj_seq f l)) s) (EFront k).
  Proof.
    destruct Hnode as [_ [_ [_ [_ [_ [_ [_ [N8 N9]]]]]]]].
    induction l as [|x l IH]; intros Hl s.
    - exists 0. reflexivity.
    - pose proof (Forall_inv Hl) as Hx. pose proof (Forall_inv_tail Hl) as Hr.
      cbn [map xj_seq]. rewrite arr_go_obj. rewrite j_handle_obj_eq. rewrite N8, N9. cbn [handler_name je_target].
      destruct (Hone x Hx) as [_ Hw]. destruct (Hw s) as [k Hk]. rewrite Hk.
      destruct (f x) as [cs ok]. cbn [fst snd]. destruct ok.
      + destruct (IH Hr (j_emits cs s)) as [k2 Hk2]. exists k2. rewrite Hk2.
        destruct (xj_seq f l) as [cs2 ok2]. cbn [fst snd]. rewrite j_emits_app. reflexivity.
      + exists k. reflexivity.
  Qed.

  Lemma xj_arr_schema : forall l, Forall P l -> all_items_ok [K] (map (fun x => JJObj (mem x)) l) = true.
  Proof.
    destruct Hnode as [_ [_ [N3 _]]].
    induction l as [|x l IH]; intros Hl; [reflexivity|].
    pose proof (Forall_inv Hl) as Hx. pose proof (Forall_inv_tail Hl) as Hr.
    cbn [map all_items_ok]. change ([K] ++ [ARRK]) with (K :: [ARRK]). rewrite (check_schema_obj K [ARRK] _ N3).
    rewrite (proj1 (Hone x Hx)). exact (IH Hr).
  Qed.

  Lemma xj_arr_member : forall l s, Forall P l ->
    (if schema_has_child [] K then check_schema [K] (JJArr (map (fun x => JJObj (mem x)) l)) else false) = true /\
    j_entries [K] <> [] /\
    exists k, j_handle [K] (JJArr (map (fun x => JJObj (mem x)) l)) s =
              if snd (xj_seq f l) then JOk (j_emits (fst (xj_seq f l)) s) else JErr (j_emits (fst (xj_seq f l)) s) (EFront k).
  Proof.
    intros l s Hl. pose proof Hnode as [N1 [N2 [N3 [N4 [N5 [N6 [N7 _]]]]]]].
    split; [rewrite N1, (check_schema_arr K _ N2); exact (xj_arr_schema l Hl)|].
    split; [intro H; rewrite H in N4; discriminate|].
    rewrite j_handle_arr_eq. rewrite N5, N6. cbn [handler_name je_target].
    destruct (noop_array_begin_end ha s N7) as [Hb _]. rewrite Hb. change ([K] ++ [ARRK]) with [K; ARRK].
    destruct (xj_arr_go l Hl s) as [k Hk]. exists k. rewrite Hk.
    destruct (xj_seq f l) as [cs ok]. cbn [fst snd]. destruct ok; [|reflexivity].
    exact (proj2 (noop_array_begin_end ha (j_emits cs s) N7)).
  Qed.
End XJArr.

(* ---- one dictionary block: begin handler, members, end handler *)
Lemma xj_walk_block : forall dp h members pre (body : list cfg_call * bool) endc s,
  j_begin_dict h members s = JOk (j_emits pre s) -> (forall s2, j_end_dict h s2 = JOk (j_emit endc s2)) ->
  (exists k, dict_go dp members (j_emits pre s) =
             if snd body then JOk (j_emits (fst body) (j_emits pre s)) else JErr (j_emits (fst body) (j_emits pre s)) (EFront k)) ->
  exists k, dict_walk dp h members s =
            if snd body then JOk (j_emits (pre ++ fst body ++ [endc]) s) else JErr (j_emits (pre ++ fst body) s) (EFront k).
Proof.
  intros dp h members pre [cs ok] endc s Hb He [k Hk]. cbn [fst snd] in *. exists k. unfold dict_walk. rewrite Hb, Hk.
  destruct ok.
  - rewrite He. rewrite !j_emits_app. reflexivity.
  - rewrite j_emits_app. reflexivity.
Qed.

(* ---- table facts (computed) *)
Definition KOV (over : bool) : bstr := if over then B"overlay" else B"underlay".
Definition E_UO_PW := mk_aentry UO B"password" KParam [] (TConfig C_UO B"password").
Definition E_CATT_PW := mk_aentry CATT B"password" KParam [] (TConfig C_COPY_ATT B"password").
Definition KATT : bstr := B"addAttachment".
Definition KCATT : bstr := B"copyAttachmentsFrom".

Lemma xj_node_uo : forall over : bool,
  xj_arr_node (KOV over) (if over then B"beginOverlayArray" else B"beginUnderlayArray") (if over then B"beginOverlay" else B"beginUnderlay").
Proof. intros over. unfold xj_arr_node. destruct over; vm_compute; repeat split; reflexivity. Qed.
Lemma xj_node_att : xj_arr_node KATT B"beginAddAttachmentArray" B"beginAddAttachment".
Proof. unfold xj_arr_node. vm_compute. repeat split; reflexivity. Qed.
Lemma xj_node_catt : xj_arr_node KCATT B"beginCopyAttachmentsFromArray" B"beginCopyAttachmentsFrom".
Proof. unfold xj_arr_node. vm_compute. repeat split; reflexivity. Qed.

Lemma xj_entries_uo : forall over : bool,
  forallb (fun e => json_sub_entry_ok [KOV over; ARRK] e || aentry_same e E_UO_PW || aentry_same e E_UO_FILE)
          (filter (sub_opt UO) argv_table) = true.
Proof. intros over. destruct over; vm_compute; reflexivity. Qed.
Lemma xj_entries_att : forallb (json_sub_entry_ok [KATT; ARRK]) (filter (sub_opt ATT) argv_table) = true.
Proof. vm_compute. reflexivity. Qed.
Lemma xj_entries_catt :
  forallb (fun e => json_sub_entry_ok [KCATT; ARRK] e || aentry_same e E_CATT_PW) (filter (sub_opt CATT) argv_table) = true.
Proof. vm_compute. reflexivity. Qed.

(* the keys with hand-written handlers *)
Definition xj_manual_key (dp : list bstr) (k h : bstr) : Prop :=
  schema_has_child dp k = true /\ schema_node (dp ++ [k]) = Some SString /\ is_nil (j_entries (dp ++ [k])) = false /\
  find is_jmanual (j_entries (dp ++ [k])) = Some (mk_jentry (dp ++ [k]) JManual [] (TManual h)).

Lemma xj_manual_keys :
  (forall over : bool, xj_manual_key [KOV over; ARRK] B"file" (if over then B"setupOverlayFile" else B"setupUnderlayFile") /\
                       xj_manual_key [KOV over; ARRK] B"password" (if over then B"setupOverlayPassword" else B"setupUnderlayPassword")) /\
  xj_manual_key [KATT; ARRK] B"file" B"setupAddAttachmentFile" /\
  xj_manual_key [KCATT; ARRK] B"file" B"setupCopyAttachmentsFromFile" /\
  xj_manual_key [KCATT; ARRK] B"password" B"setupCopyAttachmentsFromPassword".
Proof.
  split; [intros over; unfold xj_manual_key; destruct over; vm_compute; repeat split; reflexivity|].
  unfold xj_manual_key. vm_compute. repeat split; reflexivity.
Qed.

(* ---- the words of each table *)
Lemma xj_att_word_ok : forall w, xj_wf_word argv_table ATT w -> xj_word_ok [KATT; ARRK] B"c_att" w.
Proof.
  intros [e v|f] Hw; unfold xj_word_ok; cbn [xj_word_key xj_word_val xj_word_denote].
  - destruct Hw as [Hin Hsub]. destruct (sub_opt_cfg_opt _ e Hsub) as [Hm _].
    apply (xj_opt_ok_scalar [KATT; ARRK] e v KATT [ARRK] eq_refl Hin Hm).
    pose proof xj_entries_att as H. rewrite forallb_forall in H. apply H. apply filter_In. auto.
  - destruct xj_manual_keys as [_ [[M1 [M2 [M3 M4]]] _]].
    exact (xj_key_ok_manual [KATT; ARRK] B"file" B"setupAddAttachmentFile" f _ M1 M2 M3 M4 eq_refl (fun s => eq_refl)).
Qed.

Lemma xj_catt_word_ok : forall w, xj_wf_word argv_table CATT w -> xj_word_ok [KCATT; ARRK] B"c_copy_att" w.
Proof.
  intros [e v|f] Hw; unfold xj_word_ok; cbn [xj_word_key xj_word_val xj_word_denote].
  - destruct Hw as [Hin Hsub]. destruct (sub_opt_cfg_opt _ e Hsub) as [Hm _].
    pose proof xj_entries_catt as H. rewrite forallb_forall in H.
    assert (Hf : In e (filter (sub_opt CATT) argv_table)) by (apply filter_In; auto).
    specialize (H e Hf). apply orb_true_iff in H. destruct H as [H|H].
    + exact (xj_opt_ok_scalar [KCATT; ARRK] e v KCATT [ARRK] eq_refl Hin Hm H).
    + apply aentry_same_eq in H. subst e.
      destruct xj_manual_keys as [_ [_ [_ [M1 [M2 [M3 M4]]]]]].
      exact (xj_key_ok_manual [KCATT; ARRK] B"password" B"setupCopyAttachmentsFromPassword" v _ M1 M2 M3 M4 eq_refl (fun s => eq_refl)).
  - destruct xj_manual_keys as [_ [_ [[M1 [M2 [M3 M4]]] _]]].
    exact (xj_key_ok_manual [KCATT; ARRK] B"file" B"setupCopyAttachmentsFromFile" f _ M1 M2 M3 M4 eq_refl (fun s => eq_refl)).
Qed.

Lemma xj_uo_opt_ok : forall (over : bool) e v,
  In e argv_table -> sub_opt UO e = true -> bstr_eqb (ae_flag e) B"file" = false ->
  xj_word_ok [KOV over; ARRK] B"c_uo" (XjOpt e v).
Proof.
  intros over e v Hin Hsub Hnf. unfold xj_word_ok; cbn [xj_word_key xj_word_val xj_word_denote].
  destruct (sub_opt_cfg_opt _ e Hsub) as [Hm _].
  pose proof (xj_entries_uo over) as H. rewrite forallb_forall in H.
  assert (Hf : In e (filter (sub_opt UO) argv_table)) by (apply filter_In; auto).
  specialize (H e Hf). apply orb_true_iff in H. destruct H as [H|H]; [apply orb_true_iff in H; destruct H as [H|H]|].
  - exact (xj_opt_ok_scalar [KOV over; ARRK] e v (KOV over) [ARRK] eq_refl Hin Hm H).
  - apply aentry_same_eq in H. subst e.
    destruct xj_manual_keys as [MK _]. destruct (MK over) as [_ [M1 [M2 [M3 M4]]]].
    refine (xj_key_ok_manual [KOV over; ARRK] B"password" _ v _ M1 M2 M3 M4 _ _); destruct over; first [reflexivity | intros s; reflexivity].
  - apply aentry_same_eq in H. subst e. cbn in Hnf. discriminate.
Qed.

(* ---- one block of each table *)
Lemma xj_one_att : forall ws, Forall (xj_wf_word argv_table ATT) ws ->
  sub_members_ok [KATT; ARRK] (map xj_word_member ws) = true /\
  forall s, exists k, dict_walk [KATT; ARRK] B"beginAddAttachment" (map xj_word_member ws) s =
            if snd (xj_att_denote ws) then JOk (j_emits (fst (xj_att_denote ws)) s)
            else JErr (j_emits (fst (xj_att_denote ws)) s) (EFront k).
Proof.
  intros ws Hwf.
  assert (Hok : Forall (xj_word_ok [KATT; ARRK] B"c_att") ws) by (eapply Forall_impl; [|exact Hwf]; exact xj_att_word_ok).
  destruct (xj_dict_words [KATT; ARRK] B"c_att" ws KATT [ARRK] eq_refl Hok) as [D1 D2].
  split; [exact D1|]. intros s.
  destruct (xj_walk_block [KATT; ARRK] B"beginAddAttachment" (map xj_word_member ws) [CCall C_MAIN B"addAttachment" []]
              (xj_words_denote B"c_att" ws) (CCall C_ATT B"endAddAttachment" []) s eq_refl (fun s2 => eq_refl)
              (D2 _)) as [k Hk].
  exists k. rewrite Hk. unfold xj_att_denote, xj_block. cbn [fst snd].
  destruct (xj_words_denote B"c_att" ws) as [cs ok]. cbn [fst snd]. destruct ok; [reflexivity|]. cbn [app]. rewrite app_nil_r. reflexivity.
Qed.

Lemma xj_one_catt : forall ws, Forall (xj_wf_word argv_table CATT) ws ->
  sub_members_ok [KCATT; ARRK] (map xj_word_member ws) = true /\
  forall s, exists k, dict_walk [KCATT; ARRK] B"beginCopyAttachmentsFrom" (map xj_word_member ws) s =
            if snd (xj_copyatt_denote ws) then JOk (j_emits (fst (xj_copyatt_denote ws)) s)
            else JErr (j_emits (fst (xj_copyatt_denote ws)) s) (EFront k).
Proof.
  intros ws Hwf.
  assert (Hok : Forall (xj_word_ok [KCATT; ARRK] B"c_copy_att") ws) by (eapply Forall_impl; [|exact Hwf]; exact xj_catt_word_ok).
  destruct (xj_dict_words [KCATT; ARRK] B"c_copy_att" ws KCATT [ARRK] eq_refl Hok) as [D1 D2].
  split; [exact D1|]. intros s.
  destruct (xj_walk_block [KCATT; ARRK] B"beginCopyAttachmentsFrom" (map xj_word_member ws) [CCall C_MAIN B"copyAttachmentsFrom" []]
              (xj_words_denote B"c_copy_att" ws) (CCall C_COPY_ATT B"endCopyAttachmentsFrom" []) s eq_refl (fun s2 => eq_refl)
              (D2 _)) as [k Hk].
  exists k. rewrite Hk. unfold xj_copyatt_denote, xj_block. cbn [fst snd].
  destruct (xj_words_denote B"c_copy_att" ws) as [cs ok]. cbn [fst snd]. destruct ok; [reflexivity|]. cbn [app]. rewrite app_nil_r. reflexivity.
Qed.

Definition xj_uo_members (u : xj_uospec) : list (bstr * jjv) := map xj_word_member (xj_uo_words u).

Lemma xj_one_uo : forall (over : bool) named u, xj_wf_uo argv_table named u ->
  sub_members_ok [KOV over; ARRK] (xj_uo_members u) = true /\
  forall s, exists k, dict_walk [KOV over; ARRK] (if over then B"beginOverlay" else B"beginUnderlay") (xj_uo_members u) s =
            if snd (xj_uo_denote (KOV over) u) then JOk (j_emits (fst (xj_uo_denote (KOV over) u)) s)
            else JErr (j_emits (fst (xj_uo_denote (KOV over) u)) s) (EFront k).
Proof.
  intros over named u [_ Hopts].
  set (opts := map (fun p : aentry * bstr => XjOpt (fst p) (snd p)) (xj_uo_opts u)).
  assert (Hok : Forall (xj_word_ok [KOV over; ARRK] B"c_uo") opts).
  { unfold opts. induction (xj_uo_opts u) as [|p l IH]; [constructor|].
    pose proof (Forall_inv Hopts) as [H1 [H2 H3]]. constructor; [exact (xj_uo_opt_ok over (fst p) (snd p) H1 H2 H3)|].
    apply IH. exact (Forall_inv_tail Hopts). }
  destruct (xj_dict_words [KOV over; ARRK] B"c_uo" opts (KOV over) [ARRK] eq_refl Hok) as [D1 D2].
  destruct xj_manual_keys as [MK _]. destruct (MK over) as [[F1 [F2 [F3 F4]]] _].
  unfold xj_uo_members, xj_uo_words. fold opts. cbn [map xj_word_member].
  split.
  { cbn [sub_members_ok]. rewrite F1. rewrite check_schema_str_node; [exact D1|discriminate|exact F2]. }
  intros s.
  set (f := xj_uo_file u).
  set (pre := [CCall C_MAIN (KOV over) []; CCall C_UO B"file" [f]]).
  assert (Hgo : exists k, dict_go [KOV over; ARRK] ((B"file", JJStr f) :: map xj_word_member opts) (j_emits pre s) =
            if snd (xj_words_denote B"c_uo" opts) then JOk (j_emits (fst (xj_words_denote B"c_uo" opts)) (j_emits pre s))
            else JErr (j_emits (fst (xj_words_denote B"c_uo" opts)) (j_emits pre s)) (EFront k)).
  { destruct (D2 (j_emits pre s)) as [k Hk]. exists k.
    rewrite (dict_go_cons_ne [KOV over; ARRK] B"file" (JJStr f) _ (j_emits pre s) F3).
    rewrite (j_handle_ignore _ f (j_emits pre s) _ F4) by (destruct over; reflexivity). exact Hk. }
  assert (Hbegin : j_begin_dict (if over then B"beginOverlay" else B"beginUnderlay") ((B"file", JJStr f) :: map xj_word_member opts) s =
                   JOk (j_emits pre s)) by (destruct over; reflexivity).
  assert (Hend : forall s2, j_end_dict (if over then B"beginOverlay" else B"beginUnderlay") s2 =
                            JOk (j_emit (CCall C_UO B"endUnderlayOverlay" []) s2)) by (intros s2; destruct over; reflexivity).
  destruct (xj_walk_block [KOV over; ARRK] _ _ pre (xj_words_denote B"c_uo" opts) _ s Hbegin Hend Hgo) as [k Hk].
  exists k. etransitivity; [exact Hk|]. unfold xj_uo_denote, xj_block, xj_uo_words. fold opts. fold f. cbn [xj_words_denote xj_word_denote].
  destruct (xj_words_denote B"c_uo" opts) as [cs ok]. cbn [fst snd]. unfold pre.
  destruct ok; [reflexivity|]. cbn [app]. rewrite app_nil_r. reflexivity.
Qed.

(* ---- "setPageLabels": [w, ...] *)
Definition KSPL : bstr := B"setPageLabels".
Lemma xj_spl_facts :
  schema_has_child [] KSPL = true /\ schema_node [KSPL] = Some SArray /\ schema_node [KSPL; ARRK] = Some SString /\
  is_nil (j_entries [KSPL]) = false /\ find is_jmanual (j_entries [KSPL]) = None /\
  find is_jarray (j_entries [KSPL]) = Some (mk_jentry [KSPL] JArray [] (TManual B"beginSetPageLabelsArray")) /\
  find is_jmanual (j_entries [KSPL; ARRK]) = Some (mk_jentry [KSPL; ARRK] JManual [] (TManual B"setupSetPageLabels")).
Proof. vm_compute. repeat split; reflexivity. Qed.

Lemma xj_spl_go : forall l s,
  arr_go [KSPL; ARRK] (map JJStr l) s = JOk (mk_jstate (j_acc s ++ l) (j_pages_open s) (j_calls s)).
Proof.
  destruct xj_spl_facts as [_ [_ [_ [_ [_ [_ M]]]]]].
  induction l as [|w l IH]; intros s.
  - cbn [map]. rewrite arr_go_nil, app_nil_r. destruct s; reflexivity.
  - cbn [map]. rewrite arr_go_str. rewrite (j_handle_manual _ w s _ M eq_refl). cbn [handler_name je_target].
    change (j_manual_string B"setupSetPageLabels" w s) with (JOk (mk_jstate (j_acc s ++ [w]) (j_pages_open s) (j_calls s))). cbv beta iota.
    rewrite IH. cbn [j_acc j_pages_open j_calls]. rewrite <- app_assoc. reflexivity.
Qed.

Definition xj_jinv (s : jstate) : Prop := j_pages_open s = false /\ j_acc s = [].
Lemma xj_jinv_emits : forall cs s, xj_jinv s -> xj_jinv (j_emits cs s).
Proof. intros cs s [H1 H2]. destruct (j_emits_open cs s) as [E1 E2]. split; congruence. Qed.

Lemma xj_spl_member : forall l s, xj_jinv s ->
  (if schema_has_child [] KSPL then check_schema [KSPL] (JJArr (map JJStr l)) else false) = true /\
  j_entries [KSPL] <> [] /\
  j_handle [KSPL] (JJArr (map JJStr l)) s = JOk (j_emits [CCall C_MAIN B"setPageLabels" l] s).
Proof.
  intros l s [_ Hacc]. destruct xj_spl_facts as [S1 [S2 [S3 [N [M0 [A0 _]]]]]].
  split; [rewrite S1, (check_schema_arr KSPL _ S2); exact (all_items_str KSPL l S3)|].
  split; [intro H; rewrite H in N; discriminate|].
  rewrite j_handle_arr_eq. rewrite M0, A0. cbn [handler_name je_target].
  change (j_begin_array B"beginSetPageLabelsArray" s) with (JOk s). change ([KSPL] ++ [ARRK]) with [KSPL; ARRK]. cbv beta iota.
  rewrite xj_spl_go. rewrite Hacc. cbn [app].
  destruct s as [a o c]. cbn in Hacc. subst a. reflexivity.
Qed.

(* ---- one member of the job object *)
Lemma xj_member : forall files named it s, xj_wf_item argv_table files named it -> xj_jinv s ->
  (if schema_has_child [] (fst (xj_json_of_item it)) then check_schema [fst (xj_json_of_item it)] (snd (xj_json_of_item it)) else false) = true /\
  j_entries [fst (xj_json_of_item it)] <> [] /\
  exists kind, j_handle [fst (xj_json_of_item it)] (snd (xj_json_of_item it)) s =
  if snd (xj_denote_item it) then JOk (j_emits (fst (xj_denote_item it)) s)
  else JErr (j_emits (fst (xj_denote_item it)) s) (EFront kind).
Proof.
  intros files named it s Hwf Hinv.
  destruct it as [b|l|l|l|l|l|l]; cbn [xj_wf_item xj_json_of_item xj_denote_item] in *.
  - exact (j_member b s Hwf).
  - destruct (pg_j_member l s (proj1 Hinv)) as [Hne Hh].
    split; [exact (pg_schema_member l)|]. split; [exact Hne|]. exists 0. cbn [fst snd]. exact Hh.
  - exact (xj_arr_member (KOV true) _ _ (xj_node_uo true) xj_uospec (xj_uo_denote (KOV true)) xj_uo_members (xj_wf_uo argv_table named)
             (xj_one_uo true named) l s Hwf).
  - exact (xj_arr_member (KOV false) _ _ (xj_node_uo false) xj_uospec (xj_uo_denote (KOV false)) xj_uo_members (xj_wf_uo argv_table named)
             (xj_one_uo false named) l s Hwf).
  - exact (xj_arr_member KATT _ _ xj_node_att (list xj_word) xj_att_denote (map xj_word_member) (Forall (xj_wf_word argv_table ATT))
             xj_one_att l s Hwf).
  - exact (xj_arr_member KCATT _ _ xj_node_catt (list xj_word) xj_copyatt_denote (map xj_word_member) (Forall (xj_wf_word argv_table CATT))
             xj_one_catt l s Hwf).
  - destruct (xj_spl_member l s Hinv) as [H1 [H2 H3]]. split; [exact H1|]. split; [exact H2|]. exists 0. exact H3.
Qed.

Lemma xj_members_ok_job : forall files named j, Forall (xj_wf_item argv_table files named) j ->
  members_ok (map xj_json_of_item j) = true.
Proof.
  intros files named. induction j as [|it j IH]; intros H; [reflexivity|]. inversion H as [|? ? Hit Hj]; subst.
  cbn [map members_ok]. destruct (xj_json_of_item it) as [k v] eqn:Hk.
  assert (Hi : xj_jinv (mk_jstate [] false [])) by (split; reflexivity).
  destruct (xj_member files named it (mk_jstate [] false []) Hit Hi) as [H1 _]. rewrite Hk in H1. cbn [fst snd] in H1.
  rewrite H1. exact (IH Hj).
Qed.

Lemma xj_top_job : forall files named j s, Forall (xj_wf_item argv_table files named) j -> xj_jinv s ->
  exists k, j_top_members (map xj_json_of_item j) s =
  if snd (xj_denote_items j) then JOk (j_emits (fst (xj_denote_items j)) s)
  else JErr (j_emits (fst (xj_denote_items j)) s) (EFront k).
Proof.
  intros files named. induction j as [|it j IH]; intros s H Hinv.
  - exists 0. reflexivity.
  - pose proof (Forall_inv H) as Hit. pose proof (Forall_inv_tail H) as Hj.
    unfold xj_denote_items. cbn [map j_top_members xj_seq]. fold (xj_denote_items j).
    destruct (xj_json_of_item it) as [k v] eqn:Hk.
    destruct (xj_member files named it s Hit Hinv) as [_ [Hne [kind Hh]]]. rewrite Hk in Hne, Hh. cbn [fst snd] in Hne, Hh.
    destruct (j_entries [k]) as [|je0 es0] eqn:Hes; [congruence|].
    rewrite Hh. destruct (xj_denote_item it) as [cs ok]. cbn [fst snd]. destruct ok.
    + destruct (IH (j_emits cs s) Hj (xj_jinv_emits cs s Hinv)) as [k2 IH2]. exists k2. rewrite IH2.
      destruct (xj_denote_items j) as [cs2 ok2]. cbn [fst snd]. rewrite j_emits_app. reflexivity.
    + exists kind. reflexivity.
Qed.

(* json_refines_spec, over every option table (the jobs of argv_refines_spec; members in any order): the job-JSON front end passes
   the schema check and makes exactly the Config calls of the job's denotation *)
Lemma json_refines_spec_lemma : forall files named j, Forall (xj_wf_item argv_table files named) j ->
  res_is (front_json false (xj_render_json j)) [] (fst (xj_denote_items j)) (snd (xj_denote_items j)).
Proof.
  intros files named j Hwf. unfold front_json, xj_render_json. rewrite check_schema_top.
  rewrite (xj_members_ok_job files named j Hwf). cbn [negb].
  assert (Hi : xj_jinv (mk_jstate [] false [])) by (split; reflexivity).
  destruct (xj_top_job files named j (mk_jstate [] false []) Hwf Hi) as [k Hk]. rewrite Hk.
  unfold res_is. destruct (xj_denote_items j) as [cs ok]. cbn [fst snd]. destruct ok.
  - rewrite rev'_rev. cbn [rev]. rewrite j_emits_calls. cbn [j_calls]. rewrite app_nil_r, rev_involutive. reflexivity.
  - exists k. rewrite rev'_rev, j_emits_calls. cbn [j_calls]. rewrite app_nil_r, rev_involutive. reflexivity.
Qed.

(* ================================================================== the two front ends agree *)
Definition xj_no_enc0 (l : list cfg_call) : Prop := forallb (fun c => negb (is_enc0 c)) l = true.

Lemma xj_no_enc0_strip : forall l, xj_no_enc0 l -> strip_enc0 l = l.
Proof. intros l H. unfold strip_enc0. apply pg_filter_id. exact H. Qed.
Lemma xj_no_enc0_app : forall a b, xj_no_enc0 a -> xj_no_enc0 b -> xj_no_enc0 (a ++ b).
Proof. intros a b Ha Hb. unfold xj_no_enc0 in *. rewrite forallb_app, Ha, Hb. reflexivity. Qed.
Lemma xj_no_enc0_cons : forall c l, is_enc0 c = false -> xj_no_enc0 l -> xj_no_enc0 (c :: l).
Proof. intros c l Hc Hl. unfold xj_no_enc0 in *. cbn [forallb]. rewrite Hc, Hl. reflexivity. Qed.

Lemma xj_file_not_enc0 : forall obj f, is_enc0 (CCall obj B"file" [f]) = false.
Proof. intros obj f. cbn. rewrite andb_false_r. reflexivity. Qed.

Lemma xj_no_enc0_words : forall obj ws, xj_no_enc0 (fst (xj_words_denote obj ws)).
Proof.
  intros obj. induction ws as [|w ws IH]; [reflexivity|]. cbn [xj_words_denote].
  destruct (xj_word_denote obj w) as [c|] eqn:Hc; [|reflexivity].
  destruct (xj_words_denote obj ws) as [cs ok]. cbn [fst] in *.
  apply xj_no_enc0_cons; [|exact IH].
  destruct w as [e v|f]; cbn [xj_word_denote] in Hc.
  - exact (opt_denote_not_enc0 e v c Hc).
  - inversion Hc; subst. apply xj_file_not_enc0.
Qed.

Lemma xj_no_enc0_block : forall beginc body endc, is_enc0 beginc = false -> is_enc0 endc = false -> xj_no_enc0 (fst body) ->
  xj_no_enc0 (fst (xj_block beginc body endc)).
Proof.
  intros beginc [cs ok] endc Hb He Hc. unfold xj_block. cbn [fst snd] in *.
  apply xj_no_enc0_cons; [exact Hb|]. apply xj_no_enc0_app; [exact Hc|]. destruct ok; [|reflexivity].
  apply xj_no_enc0_cons; [exact He|reflexivity].
Qed.

Lemma xj_no_enc0_seq : forall (A : Type) (f : A -> list cfg_call * bool) l, (forall x, xj_no_enc0 (fst (f x))) -> xj_no_enc0 (fst (xj_seq f l)).
Proof.
  intros A f l H. induction l as [|x l IH]; [reflexivity|]. cbn [xj_seq]. pose proof (H x) as Hx.
  destruct (f x) as [cs ok]. cbn [fst] in *. destruct ok; [|exact Hx].
  destruct (xj_seq f l) as [cs2 ok2]. cbn [fst] in *. apply xj_no_enc0_app; assumption.
Qed.

Lemma xj_strip_item : forall files named it, xj_wf_item argv_table files named it ->
  strip_enc0 (xj_argv_calls_item it) = fst (xj_denote_item it).
Proof.
  intros files named it Hwf. destruct it as [b|l|l|l|l|l|l]; cbn [xj_wf_item xj_argv_calls_item xj_denote_item] in *.
  - exact (strip_item b Hwf).
  - cbn [fst]. apply pg_strip_denote.
  - apply xj_no_enc0_strip. apply xj_no_enc0_seq. intros u. unfold xj_uo_denote.
    apply xj_no_enc0_block; [reflexivity|reflexivity|apply xj_no_enc0_words].
  - apply xj_no_enc0_strip. apply xj_no_enc0_seq. intros u. unfold xj_uo_denote.
    apply xj_no_enc0_block; [reflexivity|reflexivity|apply xj_no_enc0_words].
  - apply xj_no_enc0_strip. apply xj_no_enc0_seq. intros ws. unfold xj_att_denote.
    apply xj_no_enc0_block; [reflexivity|reflexivity|apply xj_no_enc0_words].
  - apply xj_no_enc0_strip. apply xj_no_enc0_seq. intros ws. unfold xj_copyatt_denote.
    apply xj_no_enc0_block; [reflexivity|reflexivity|apply xj_no_enc0_words].
  - reflexivity.
Qed.

Lemma xj_strip_argv_calls : forall files named j, Forall (xj_wf_item argv_table files named) j ->
  strip_enc0 (xj_argv_calls j) = fst (xj_denote_items j).
Proof.
  intros files named. induction j as [|it j IH]; intros Hwf; [reflexivity|].
  pose proof (Forall_inv Hwf) as Hit. pose proof (Forall_inv_tail Hwf) as Hj.
  unfold xj_denote_items. cbn [xj_argv_calls xj_seq]. fold (xj_denote_items j). pose proof (xj_strip_item files named it Hit) as Hs.
  destruct (xj_denote_item it) as [cs ok]. cbn [fst snd] in *. destruct ok.
  - rewrite strip_app, Hs, (IH Hj). destruct (xj_denote_items j). reflexivity.
  - exact Hs.
Qed.

(* nested_equivalent (DESIGN §5 C19), over every option table: command line (either spelling of file names) and job JSON make the
   same Config calls (the command line's preliminary encrypt(0, "", "") apart), and one is rejected as a usage error iff the other is *)
Lemma nested_equivalent_lemma : forall files named j, xj_wf_job argv_table files named j ->
  strip_enc0 (r_calls (front_argv files (xj_render_argv named j))) = r_calls (front_json false (xj_render_json j)) /\
  ((r_end (front_argv files (xj_render_argv named j)) = EFin /\ r_end (front_json false (xj_render_json j)) = EFin) \/
   (exists k1 k2, r_end (front_argv files (xj_render_argv named j)) = EFront k1 /\ r_end (front_json false (xj_render_json j)) = EFront k2)).
Proof.
  intros files named j Hwf. pose proof (argv_refines_spec_lemma files named j Hwf) as HA.
  destruct Hwf as [Hwf _]. pose proof (json_refines_spec_lemma files named j Hwf) as HJ.
  pose proof (xj_strip_argv_calls files named j Hwf) as HS.
  unfold res_is in *. destruct (snd (xj_denote_items j)).
  - rewrite HA, HJ. cbn [r_calls r_end app]. split; [|left; split; reflexivity].
    rewrite strip_app, HS. reflexivity.
  - destruct HA as [k1 HA]. destruct HJ as [k2 HJ]. rewrite HA, HJ. cbn [r_calls r_end app]. split; [exact HS|].
    right. exists k1, k2. split; reflexivity.
Qed.

(* usage_errors_agree, over every option table *)
Lemma usage_errors_agree_lemma : forall files named j, xj_wf_job argv_table files named j ->
  is_front_usage (front_argv files (xj_render_argv named j)) <-> is_front_usage (front_json false (xj_render_json j)).
Proof.
  intros files named j Hwf. destruct (nested_equivalent_lemma files named j Hwf) as [_ [[H1 H2]|[k1 [k2 [H1 H2]]]]]; unfold is_front_usage.
  - rewrite H1, H2. split; intros [k Hk]; discriminate.
  - rewrite H1, H2. split; intros _; eauto.
Qed.

(* ================================================================== argv + --job-json-file (partial job JSON) *)
Lemma xj_denote_items_app : forall a b, snd (xj_denote_items a) = true ->
  xj_denote_items (a ++ b) = (fst (xj_denote_items a) ++ fst (xj_denote_items b), snd (xj_denote_items b)).
Proof.
  unfold xj_denote_items. induction a as [|it a IH]; intros b H.
  - cbn. destruct (xj_seq xj_denote_item b). reflexivity.
  - cbn [app xj_seq] in *. destruct (xj_denote_item it) as [cs ok]. destruct ok; [|discriminate].
    destruct (xj_seq xj_denote_item a) as [cs2 ok2] eqn:Ha. cbn [fst snd] in *. rewrite (IH b H).
    cbn [fst snd]. rewrite app_assoc. reflexivity.
Qed.

Lemma xj_argv_calls_app : forall a b, snd (xj_denote_items a) = true -> xj_argv_calls (a ++ b) = xj_argv_calls a ++ xj_argv_calls b.
Proof.
  unfold xj_denote_items. induction a as [|it a IH]; intros b H; [reflexivity|].
  cbn [app xj_argv_calls xj_seq] in *. destruct (xj_denote_item it) as [cs ok]. cbn [snd]. destruct ok; [|discriminate].
  destruct (xj_seq xj_denote_item a) as [cs2 ok2] eqn:Ha. cbn [fst snd] in *. rewrite (IH b H). rewrite app_assoc. reflexivity.
Qed.

Lemma xj_json_partial_refines : forall files named j, Forall (xj_wf_item argv_table files named) j -> snd (xj_denote_items j) = true ->
  front_json true (xj_render_json j) = mk_fe_res (fst (xj_denote_items j)) EFin.
Proof.
  intros files named j Hwf Hok. unfold front_json, xj_render_json. rewrite check_schema_top.
  rewrite (xj_members_ok_job files named j Hwf). cbn [negb].
  assert (Hi : xj_jinv (mk_jstate [] false [])) by (split; reflexivity).
  destruct (xj_top_job files named j (mk_jstate [] false []) Hwf Hi) as [k Hk]. rewrite Hk. rewrite Hok.
  rewrite rev'_rev, j_emits_calls. cbn [j_calls]. rewrite app_nil_r, rev_involutive. reflexivity.
Qed.

(* mixture_equivalent (DESIGN §5 C19), over every option table: the command line  <j1> --job-json-file=F <j3>  makes the calls of
   j1, then Config::jobJsonFile(F), then the calls of j3 and the consistency check; reading F as a partial job
   (initializeFromJson(.., true)) where F holds the job JSON of j2 makes exactly the calls of j2 (and no consistency check); and the
   merged command line <j1> <j2> <j3> makes the calls of j1, j2, j3 and the consistency check - the same as what the JSON reading
   makes for j2, the preliminary encrypt(0, "", "") apart.  j1, j2, j3 range over the jobs of argv_refines_spec.  What
   Config::jobJsonFile does in between (reading the file, JSON::parse) is outside the front-end model and exercised by the
   'cli-mix' rendering of the end-to-end runs. *)
Lemma mixture_equivalent_lemma : forall files named e F j1 j2 j3,
  ae_target e = TConfig C_MAIN B"jobJsonFile" -> ae_kind e = KParam ->
  xj_wf_job argv_table files named (j1 ++ [XjBase (IOpt e F)] ++ j3) -> xj_wf_job argv_table files named (j1 ++ j2 ++ j3) ->
  snd (xj_denote_items j1) = true -> snd (xj_denote_items j2) = true -> snd (xj_denote_items j3) = true ->
  front_argv files (xj_render_argv named (j1 ++ [XjBase (IOpt e F)] ++ j3)) =
    mk_fe_res (xj_argv_calls j1 ++ [CCall C_MAIN B"jobJsonFile" [F]] ++ xj_argv_calls j3 ++ [CHECK]) EFin /\
  front_json true (xj_render_json j2) = mk_fe_res (fst (xj_denote_items j2)) EFin /\
  front_argv files (xj_render_argv named (j1 ++ j2 ++ j3)) =
    mk_fe_res (xj_argv_calls j1 ++ xj_argv_calls j2 ++ xj_argv_calls j3 ++ [CHECK]) EFin /\
  strip_enc0 (xj_argv_calls j2) = fst (xj_denote_items j2).
Proof.
  intros files named e F j1 j2 j3 Htg Hkind Hwf1 Hwf2 H1 H2 H3.
  assert (Hc : opt_denote e F = Some (CCall C_MAIN B"jobJsonFile" [F])).
  { unfold opt_denote. rewrite Htg, Hkind. reflexivity. }
  assert (Hwf2' : Forall (xj_wf_item argv_table files named) j2).
  { destruct Hwf2 as [Hwf2 _]. apply Forall_app in Hwf2. destruct Hwf2 as [_ Hwf2]. apply Forall_app in Hwf2. tauto. }
  split; [|split; [|split]].
  - pose proof (argv_refines_spec_lemma files named _ Hwf1) as HA. unfold res_is in HA.
    rewrite (xj_denote_items_app j1 _ H1) in HA. rewrite (xj_argv_calls_app j1 _ H1) in HA. cbn [fst snd] in HA.
    unfold xj_denote_items in HA. cbn [app xj_seq xj_denote_item denote_item xj_argv_calls xj_argv_calls_item argv_calls_item] in HA.
    rewrite Hc in HA. cbn [fst snd] in HA. fold (xj_denote_items j3) in HA.
    destruct (xj_denote_items j3) as [cs3 ok3] eqn:H3'. cbn [fst snd] in *. subst ok3.
    cbn [fst snd app] in HA. cbn [app]. rewrite HA. rewrite <- app_assoc. reflexivity.
  - apply (xj_json_partial_refines files named); auto.
  - pose proof (argv_refines_spec_lemma files named _ Hwf2) as HA. unfold res_is in HA.
    rewrite (xj_denote_items_app j1 _ H1) in HA. rewrite (xj_denote_items_app j2 _ H2) in HA. cbn [fst snd] in HA.
    rewrite (xj_argv_calls_app j1 _ H1) in HA. rewrite (xj_argv_calls_app j2 _ H2) in HA.
    rewrite H3 in HA. rewrite HA. rewrite <- !app_assoc. reflexivity.
  - apply (xj_strip_argv_calls files named). exact Hwf2'.
Qed.

(* ================================================================== the tables *)
(* tables_equivalent (DESIGN §5 C19) modulo the listed, machine-checked exceptions: every command-line option bound to a Config method
   has its job-JSON handler (same path, kind, choice list, Config method) UNLESS it is one of known_table_divergences; the options
   that do not match are EXACTLY that list (the two 40-bit options of tables_equivalent_refuted, nothing else, and both of them do
   diverge); conversely every JSON handler has its option; hand-written handlers have their named keys; the schema has exactly the
   nodes of the handler tree *)
Lemma tables_equivalent_lemma :
  forallb (fun e => match_json json_table e || divergent e) (auto_aentries argv_table) = true /\
  map (fun e => (ae_table e, ae_flag e)) (filter (fun e => negb (match_json json_table e)) (auto_aentries argv_table)) =
    known_table_divergences /\
  forallb (match_argv argv_table) (auto_jentries json_table) = true /\
  forallb (manual_argv_ok json_table) (manual_aentries argv_table) = true /\
  forallb manual_json_ok (manual_jentries json_table) = true /\
  forallb (schema_has schema_table) json_table = true /\
  forallb (schema_covered json_table) schema_table = true.
Proof. vm_compute. repeat split; reflexivity. Qed.
