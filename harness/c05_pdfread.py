# Independent, strict little reader for the files qpdf writes in the C05 check: sequential object
# scan (every "N G obj" at top level, streams skipped by their direct /Length), object parser,
# object streams (after the caller decrypted and inflated them). It never looks at qpdf's xref data:
# what matters here is every string and every stream that is physically present in the file.
import re, zlib
from pdfgen import Str, Name, Ref, Real, Stream

WS = b"\x00\t\n\x0c\r "
DELIM = b"()<>[]{}/%"


class ParseError(Exception):
    pass


class P:
    def __init__(self, data, pos=0):
        self.d, self.i = data, pos

    def skip_ws(self):
        d = self.d
        while self.i < len(d):
            c = d[self.i]
            if c in WS:
                self.i += 1
            elif c == 0x25:
                while self.i < len(d) and d[self.i] not in b"\r\n":
                    self.i += 1
            else:
                break

    def peek(self, n=1):
        return self.d[self.i:self.i + n]

    def token_regular(self):
        s = self.i
        d = self.d
        while self.i < len(d) and d[self.i] not in WS and d[self.i] not in DELIM:
            self.i += 1
        return d[s:self.i]

    def parse_obj(self):
        self.skip_ws()
        d = self.d
        if self.i >= len(d):
            raise ParseError("eof")
        c = d[self.i]
        if c == 0x28:
            return self.lit_string()
        if c == 0x3c:
            if self.peek(2) == b"<<":
                return self.dict_()
            return self.hex_string()
        if c == 0x5b:
            self.i += 1
            out = []
            while True:
                self.skip_ws()
                if self.peek() == b"]":
                    self.i += 1
                    return out
                out.append(self.parse_obj())
        if c == 0x2f:
            return self.name()
        tok = self.token_regular()
        if tok == b"true":
            return True
        if tok == b"false":
            return False
        if tok == b"null":
            return None
        if re.fullmatch(rb"[+-]?\d+", tok):
            # reference?
            save = self.i
            m = re.match(rb"[\x00\t\n\x0c\r ]+(\d+)[\x00\t\n\x0c\r ]+R(?![^\x00\t\n\x0c\r ()<>\[\]{}/%])", d[self.i:self.i + 40])
            if m and not tok.startswith((b"+", b"-")):
                self.i += m.end()
                return Ref(int(tok), int(m.group(1)))
            self.i = save
            return int(tok)
        if re.fullmatch(rb"[+-]?(\d+\.\d*|\.\d+)", tok):
            return Real(tok.decode())
        raise ParseError("unexpected token %r at %d" % (tok[:20], self.i))

    def name(self):
        self.i += 1
        raw = self.token_regular()
        out = bytearray()
        j = 0
        while j < len(raw):
            if raw[j] == 0x23 and j + 2 < len(raw) + 0 and re.fullmatch(rb"[0-9a-fA-F]{2}", raw[j + 1:j + 3]):
                out.append(int(raw[j + 1:j + 3], 16))
                j += 3
            else:
                out.append(raw[j])
                j += 1
        return Name(bytes(out))

    def hex_string(self):
        self.i += 1
        e = self.d.index(b">", self.i)
        h = bytes(c for c in self.d[self.i:e] if c not in WS)
        self.i = e + 1
        if len(h) % 2:
            h += b"0"
        return Str(bytes.fromhex(h.decode()))

    def lit_string(self):
        d = self.d
        self.i += 1
        depth = 1
        out = bytearray()
        while True:
            if self.i >= len(d):
                raise ParseError("unterminated string")
            c = d[self.i]
            self.i += 1
            if c == 0x5c:
                e = d[self.i]
                self.i += 1
                if e in b"nrtbf":
                    out.append({0x6e: 10, 0x72: 13, 0x74: 9, 0x62: 8, 0x66: 12}[e])
                elif 0x30 <= e <= 0x37:
                    v = e - 0x30
                    for _ in range(2):
                        if self.i < len(d) and 0x30 <= d[self.i] <= 0x37:
                            v = v * 8 + d[self.i] - 0x30
                            self.i += 1
                        else:
                            break
                    out.append(v & 255)
                elif e == 13:
                    if self.i < len(d) and d[self.i] == 10:
                        self.i += 1
                elif e == 10:
                    pass
                else:
                    out.append(e)
            elif c == 0x28:
                depth += 1
                out.append(c)
            elif c == 0x29:
                depth -= 1
                if depth == 0:
                    return Str(bytes(out))
                out.append(c)
            elif c == 13:
                if self.i < len(d) and d[self.i] == 10:
                    self.i += 1
                out.append(10)
            else:
                out.append(c)

    def dict_(self):
        self.i += 2
        out = {}
        while True:
            self.skip_ws()
            if self.peek(2) == b">>":
                self.i += 2
                return out
            if self.peek() != b"/":
                raise ParseError("dictionary key expected at %d" % self.i)
            k = self.name()
            out[k.b] = self.parse_obj()


def scan_file(data):
    """returns (header_version bytes, objects {(num, gen): (obj | Stream(dict, raw bytes), offset)},
    trailers [dict], order [(num, gen)]). Streams keep their RAW (still encrypted / filtered) bytes."""
    m = re.match(rb"%PDF-(\d\.\d)", data)
    if not m:
        raise ParseError("no header")
    version = m.group(1)
    objs, order, trailers = {}, [], []
    i = m.end()
    pat = re.compile(rb"(?:^|[\r\n])(\d+) (\d+) obj\b|(?:^|[\r\n])trailer\b")
    while True:
        mm = pat.search(data, i)
        if not mm:
            break
        if mm.group(1) is None:
            p = P(data, mm.end())
            trailers.append(p.parse_obj())
            i = p.i
            continue
        num, gen = int(mm.group(1)), int(mm.group(2))
        off = mm.start(1)
        p = P(data, mm.end())
        o = p.parse_obj()
        p.skip_ws()
        if p.peek(6) == b"stream":
            p.i += 6
            if p.peek(2) == b"\r\n":
                p.i += 2
            elif p.peek(1) == b"\n":
                p.i += 1
            else:
                raise ParseError("bad stream keyword EOL in %d %d" % (num, gen))
            ln = o.get(b"Length")
            if not isinstance(ln, int):
                raise ParseError("stream %d %d without a direct /Length" % (num, gen))
            raw = data[p.i:p.i + ln]
            p.i += ln
            p.skip_ws()
            if p.peek(9) != b"endstream":
                raise ParseError("endstream not at /Length in %d %d" % (num, gen))
            p.i += 9
            o = Stream(o, raw)
            p.skip_ws()
        if p.peek(6) != b"endobj":
            raise ParseError("endobj expected in %d %d at %d" % (num, gen, p.i))
        i = p.i + 6
        objs[(num, gen)] = (o, off)
        order.append((num, gen))
    return version, objs, trailers, order


def parse_objstm(d, plain):
    """contents of an object stream (already decrypted and unfiltered): {num: obj}"""
    n, first = d[b"N"], d[b"First"]
    p = P(plain, 0)
    pairs = []
    for _ in range(n):
        a = p.parse_obj()
        b = p.parse_obj()
        pairs.append((a, b))
    out = {}
    for num, off in pairs:
        out[num] = P(plain, first + off).parse_obj()
    return out


def unfilter(d, data):
    """undo /FlateDecode (the only filter the generated inputs and qpdf's defaults produce here)"""
    f = d.get(b"Filter")
    if f is None:
        return data
    fl = f if isinstance(f, list) else [f]
    for x in fl:
        if x == Name(b"FlateDecode"):
            data = zlib.decompress(data)
        else:
            raise ParseError("filter %r not handled by the C05 reader" % x)
    return data


def walk_strings(o, path=()):
    """yield (path, Str) for every string inside o (not descending into Stream data)"""
    if isinstance(o, Str):
        yield path, o
    elif isinstance(o, list):
        for k, x in enumerate(o):
            yield from walk_strings(x, path + (k,))
    elif isinstance(o, dict):
        for k, x in o.items():
            yield from walk_strings(x, path + (k,))
    elif isinstance(o, Stream):
        yield from walk_strings(o.d, path)
