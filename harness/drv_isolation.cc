// C20 driver: isolation of separate documents.
//  iso <history>        sequential bystander driver: 2-3 live documents + fresh-parse probes; after every
//                       step the whole observable world is dumped (see dump()). Each history runs in a forked
//                       child so that every case starts from pristine process-wide statics.
//  isofile <hexpdf>.. / thr ...   see below.
// The history syntax is shared with ocaml/h_isolation.ml (the extracted model) and harness/c20.py.
#include "drv.hh"
#include <qpdf/QPDF.hh>
#include <qpdf/QPDFJob.hh>
#include <qpdf/QPDFObjectHandle.hh>
#include <qpdf/QPDFWriter.hh>
#include <qpdf/QUtil.hh>
#include <qpdf/Pl_Buffer.hh>
#include <qpdf/Pl_Discard.hh>
#include <qpdf/JSON.hh>
#include <qpdf/Buffer.hh>
#include <qpdf/BufferInputSource.hh>
#include <atomic>
#include <cstring>
#include <memory>
#include <thread>
#include <sys/wait.h>
#include <unistd.h>

namespace {

std::vector<std::string> split(std::string const& s, char sep) {
    std::vector<std::string> r; std::string cur;
    for (char c: s) { if (c == sep) { r.push_back(cur); cur.clear(); } else cur.push_back(c); }
    r.push_back(cur);
    return r;
}

unsigned long long fnv(std::string const& s) {
    unsigned long long h = 1469598103934665603ULL;
    for (unsigned char c: s) { h ^= c; h *= 1099511628211ULL; }
    return h;
}
std::string hx64(unsigned long long v) { char b[32]; snprintf(b, sizeof b, "%016llx", v); return b; }

// token stream (see c20.py) -> PDF text
std::string tokens_to_pdf(std::string const& toks) {
    std::string out;
    for (auto const& t: split(toks, '.')) {
        if (t.empty()) continue;
        switch (t[0]) {
        case 'n': out += "null "; break;
        case 't': out += "true "; break;
        case 'f': out += "false "; break;
        case 'i': out += t.substr(1) + " "; break;
        case 'N': out += "/" + t.substr(1) + " "; break;
        case 'r': out += t.substr(1) + " 0 R "; break;
        case '[': out += "[ "; break;
        case ']': out += "] "; break;
        case '<': out += "<< "; break;
        case '>': out += ">> "; break;
        case 'z': { int n = std::stoi(t.substr(1)); for (int i = 0; i < n; ++i) out += "null "; break; }
        default: throw std::runtime_error("bad token " + t);
        }
    }
    return out;
}

template <class F> std::string safe(F f) {
    try { return f(); }
    catch (std::logic_error const&) { return "!L"; }
    catch (std::exception const&) { return "!R"; }
}

struct World {
    std::map<int, std::unique_ptr<QPDF>> docs;           // live documents
    std::map<int, std::pair<int, QPDFObjectHandle>> roots; // held handles: root number -> (document tag, handle)
    int ndocs = 1;                                        // next document id (ids are 1,2,3,...; 0 is the model's scratch arena)

    QPDF* doc(int d) { auto it = docs.find(d); return it == docs.end() ? nullptr : it->second.get(); }

    // handle expression: r<k> | o<id>  followed by /i<n> (getArrayItem) /v<n> (getArrayAsVector()[n]) /k<c> (getKey)
    // value expression additionally: I<z> newInteger, U newNull, Y<c> newName, B newArray, G newDictionary.
    // returns false when a guard fails ("skip": the operation is not performed, same rule in the model)
    bool eval(int d, std::string const& e, QPDFObjectHandle& out, bool as_value = false) {
        auto parts = split(e, '/');
        std::string const& h = parts[0];
        if (h.empty()) return false;
        QPDFObjectHandle cur;
        switch (h[0]) {
        case 'r': {
            auto it = roots.find(std::stoi(h.substr(1)));
            if (it == roots.end() || it->second.first != d) return false;
            cur = it->second.second; break; }
        case 'o': {
            QPDF* q = doc(d); if (!q) return false;
            int id = std::stoi(h.substr(1));
            if (id < 3 || id > static_cast<int>(q->getObjectCount())) return false;
            cur = q->getObject(id, 0); break; }
        case 'I': cur = QPDFObjectHandle::newInteger(std::stoll(h.substr(1))); break;
        case 'U': cur = QPDFObjectHandle::newNull(); break;
        case 'Y': cur = QPDFObjectHandle::newName("/" + h.substr(1)); break;
        case 'B': cur = QPDFObjectHandle::newArray(); break;
        case 'G': cur = QPDFObjectHandle::newDictionary(); break;
        default: return false;
        }
        for (size_t i = 1; i < parts.size(); ++i) {
            std::string const& s = parts[i];
            if (s.empty()) return false;
            if (s[0] == 'i') {
                int n = std::stoi(s.substr(1));
                if (!cur.isArray() || n < 0 || n >= cur.getArrayNItems()) return false;
                cur = cur.getArrayItem(n);
            } else if (s[0] == 'v') {
                int n = std::stoi(s.substr(1));
                if (!cur.isArray() || n < 0 || n >= cur.getArrayNItems()) return false;
                cur = cur.getArrayAsVector().at(static_cast<size_t>(n));
            } else if (s[0] == 'k') {
                if (!cur.isDictionary()) return false;
                cur = cur.getKey("/" + s.substr(1));
            } else return false;
        }
        // a value that is put into a container must be a scalar, an indirect object or a freshly made object
        // (keeps the object graph of direct objects acyclic; same guard in the model)
        if (as_value && (h[0] == 'r' || h[0] == 'o') && (cur.isArray() || cur.isDictionary()) && !cur.isIndirect()) return false;
        out = cur;
        return true;
    }

    std::string dump() {
        std::string out;
        for (auto& [d, q]: docs) {
            out += "d" + std::to_string(d) + "{";
            std::string js;
            int n = static_cast<int>(q->getObjectCount());
            for (int id = 3; id <= n; ++id) {
                auto oh = q->getObject(id, 0);
                out += std::to_string(id) + "=" + safe([&] { return oh.unparseResolved(); }) + ";";
                js += safe([&] { return oh.getJSON(2, true).unparse(); }) + ";";
            }
            out += "}j" + hx64(fnv(js)) + " ";
        }
        for (auto& [r, p]: roots) {
            auto& oh = p.second;
            out += "r" + std::to_string(r) + "@" + std::to_string(p.first) + "=" + safe([&] { return oh.unparse(); }) + "~" +
                safe([&] { return oh.unparseResolved(); }) + "j" + hx64(fnv(safe([&] { return oh.getJSON(2, true).unparse(); }))) + " ";
        }
        // fresh-parse probes: objects obtained independently of every document
        out += "F=" + safe([&] { return QPDFObjectHandle::parse("[ null 1 << /K null /L [ null ] >> ]").unparse(); });
        out += "~" + safe([&] {
            std::string t = "[ 5 ";
            for (int i = 0; i < 101; ++i) t += "null ";
            t += "]";
            std::string expect = t;
            auto a = QPDFObjectHandle::parse(t);
            auto v = a.getArrayAsVector();
            return std::to_string(a.getArrayNItems()) + ":" + v.at(0).unparse() + "," + v.at(1).unparse() + "," + v.at(101).unparse() +
                "," + a.getArrayItem(3).unparse() + "," + (a.unparse() == expect ? std::string("=") : a.unparse());
        });
        return out;
    }

    std::string step(std::string const& op) {
        auto f = split(op, ',');
        char k = f.at(0).at(0);
        int d = f.size() > 1 ? std::stoi(f[1]) : -1;
        QPDF* q = doc(d);
        QPDFObjectHandle h, v;
        switch (k) {
        case 'D':
            if (d != ndocs) return "skip";
            docs[d] = std::make_unique<QPDF>();
            docs[d]->emptyPDF();
            ++ndocs;
            return "ok";
        case 'P': {   // P,d,r,tokens : root r := QPDFObjectHandle::parse(&doc d, text)
            if (!q) return "skip";
            int r = std::stoi(f.at(2));
            if (r / 10 != d) return "skip";
            roots[r] = {d, QPDFObjectHandle::parse(q, tokens_to_pdf(f.at(3)))};
            return "ok"; }
        case 'H': {   // H,d,r,hx : root r := handle
            if (std::stoi(f.at(2)) / 10 != d || !eval(d, f.at(3), h)) return "skip";
            roots[std::stoi(f.at(2))] = {d, h};
            return "ok"; }
        case 'M':     // M,d,hx : makeIndirectObject
            if (!q || !eval(d, f.at(2), h)) return "skip";
            q->makeIndirectObject(h);
            return "ok";
        case 'K':     // K,d,hx,key,vx : replaceKey
            if (!eval(d, f.at(2), h) || !h.isDictionary() || !eval(d, f.at(4), v, true)) return "skip";
            h.replaceKey("/" + f.at(3), v);
            return "ok";
        case 'R':     // R,d,hx,key : removeKey
            if (!eval(d, f.at(2), h) || !h.isDictionary()) return "skip";
            h.removeKey("/" + f.at(3));
            return "ok";
        case 'A':     // A,d,hx,vx : appendItem
            if (!eval(d, f.at(2), h) || !h.isArray() || !eval(d, f.at(3), v, true)) return "skip";
            h.appendItem(v);
            return "ok";
        case 'S': {   // S,d,hx,n,vx : setArrayItem
            if (!eval(d, f.at(2), h) || !h.isArray() || !eval(d, f.at(4), v, true)) return "skip";
            int n = std::stoi(f.at(3));
            if (n < 0 || n >= h.getArrayNItems()) return "skip";
            h.setArrayItem(n, v);
            return "ok"; }
        case 'E': {   // E,d,hx,n : eraseItem
            if (!eval(d, f.at(2), h) || !h.isArray()) return "skip";
            int n = std::stoi(f.at(3));
            if (n < 0 || n >= h.getArrayNItems()) return "skip";
            h.eraseItem(n);
            return "ok"; }
        case 'O': {   // O,d,id,vx : replaceObject(id, 0, value)
            if (!q) return "skip";
            int id = std::stoi(f.at(2));
            if (id < 3 || id > static_cast<int>(q->getObjectCount()) || !eval(d, f.at(3), v)) return "skip";
            if (v.isIndirect()) return "skip";
            q->replaceObject(id, 0, v);
            return "ok"; }
        case 'X':     // X,d : destroy the document
            if (!q) return "skip";
            docs.erase(d);
            return "ok";
        case 'W': {   // W,d : write the document to memory; the result carries a hash of the bytes
            if (!q) return "skip";
            QPDFWriter w(*q);
            w.setOutputMemory();
            w.setStaticID(true);
            if (f.size() > 2 && f[2] == "q") w.setQDFMode(true);
            if (f.size() > 2 && f[2] == "o") w.setObjectStreamMode(qpdf_o_generate);
            w.write();
            auto b = w.getBufferSharedPointer();
            return "ok:" + hx64(fnv(std::string(reinterpret_cast<char const*>(b->getBuffer()), b->getSize()))); }
        case 'J': {   // J,d : whole-document JSON export (observation only)
            if (!q) return "skip";
            Pl_Buffer p("json");
            q->writeJSON(2, &p, qpdf_dl_none, qpdf_sj_none, "", {});
            return "ok:" + hx64(fnv(p.getString())); }
        case 'C': {   // C,d,s,id,r : root r := doc d.copyForeignObject(doc s.getObject(id))
            QPDF* s = doc(std::stoi(f.at(2)));
            if (!q || !s || s == q) return "skip";
            int id = std::stoi(f.at(3));
            if (id < 3 || id > static_cast<int>(s->getObjectCount())) return "skip";
            auto fo = s->getObject(id, 0);
            if (!fo.isIndirect() || fo.getOwningQPDF() != s) return "skip";
            roots[std::stoi(f.at(4))] = {d, q->copyForeignObject(fo)};
            return "ok"; }
        default:
            return "?op";
        }
    }

    std::string run(std::string const& hist) {
        std::string out = "init|" + dump();
        for (auto const& op: split(hist, ';')) {
            if (op.empty()) continue;
            std::string res;
            try { res = step(op); }
            catch (std::logic_error const& e) { res = "!L"; }
            catch (std::exception const& e) { res = "!R"; }
            out += "#" + res + "|" + dump();
        }
        return out;
    }
};

std::string in_child(std::function<std::string()> fn) {
    int fd[2];
    if (pipe(fd) != 0) return "?pipe";
    fflush(nullptr);
    pid_t pid = fork();
    if (pid < 0) return "?fork";
    if (pid == 0) {
        close(fd[0]);
        std::string r;
        try { r = fn(); } catch (std::exception const& e) { r = std::string("?exception ") + e.what(); }
        size_t off = 0;
        while (off < r.size()) { ssize_t n = write(fd[1], r.data() + off, r.size() - off); if (n <= 0) break; off += static_cast<size_t>(n); }
        close(fd[1]);
        _exit(0);
    }
    close(fd[1]);
    std::string r; char buf[65536]; ssize_t n;
    while ((n = read(fd[0], buf, sizeof buf)) > 0) r.append(buf, static_cast<size_t>(n));
    close(fd[0]);
    int st = 0; waitpid(pid, &st, 0);
    if (!WIFEXITED(st) || WEXITSTATUS(st) != 0) return "?crashed status=" + std::to_string(st) + " " + r;
    for (auto& c: r) if (c == '\n' || c == '\r') c = ' ';
    return r;
}

} // namespace

static Reg r_iso("iso", [](std::vector<std::string> const& a) -> std::string {
    std::string hist = a.empty() ? "" : a[0];
    return in_child([hist] { World w; return w.run(hist); });
});

// ------------------------------------------------------------------------------------------------------
//  thr <nthreads> <rounds> <seed> <workdir> <file1,file2,...> [nulls]
//  N threads, each running <rounds> independent jobs on its OWN instances (QPDF, QPDFWriter, QPDFJob); the jobs
//  are chosen from (seed, thread, round).  Phase 1 runs the threads concurrently, phase 2 runs the very same
//  jobs one after the other in the main thread; the output hashes must be equal.  Built with -fsanitize=thread
//  (drv-tsan) the run also produces ThreadSanitizer reports (TSAN_OPTIONS=log_path=...), which c20.py attributes.
//  No job calls a process-wide setter (those are documented as global configuration).
#include <qpdf/QPDFPageDocumentHelper.hh>
#include <qpdf/QPDFPageObjectHelper.hh>
#include <fstream>
#include <mutex>
#include <condition_variable>

namespace {

struct Rng {   // splitmix64
    unsigned long long s;
    unsigned long long next() { unsigned long long z = (s += 0x9e3779b97f4a7c15ULL); z = (z ^ (z >> 30)) * 0xbf58476d1ce4e5b9ULL;
        z = (z ^ (z >> 27)) * 0x94d049bb133111ebULL; return z ^ (z >> 31); }
    unsigned pick(unsigned n) { return static_cast<unsigned>(next() % n); }
};

std::string slurp(std::string const& path) {
    std::ifstream f(path, std::ios::binary);
    std::stringstream ss; ss << f.rdbuf(); return ss.str();
}

std::string write_mem(QPDF& q, int mode) {
    QPDFWriter w(q);
    w.setOutputMemory();
    w.setStaticID(true);
    switch (mode) {
    case 1: w.setQDFMode(true); break;
    case 2: w.setObjectStreamMode(qpdf_o_generate); break;
    case 3: w.setLinearization(true); break;
    case 4: w.setStreamDataMode(qpdf_s_uncompress); break;
    case 5: w.setObjectStreamMode(qpdf_o_disable); w.setCompressStreams(true); w.setRecompressFlate(true); break;
    case 6: w.setR3EncryptionParametersInsecure("u", "o", true, true, true, true, true, true, qpdf_r3p_full); break;
    default: break;
    }
    w.write();
    auto b = w.getBufferSharedPointer();
    return std::string(reinterpret_cast<char const*>(b->getBuffer()), b->getSize());
}

struct ThrCfg { std::vector<std::string> files; std::vector<std::string> data; std::string workdir; bool nulls; };

std::string job(ThrCfg const& cfg, unsigned long long seed, int tid, int round) {
    Rng r{seed * 1000003ULL + static_cast<unsigned long long>(tid) * 7919ULL + static_cast<unsigned long long>(round)};
    r.next();
    unsigned kind = r.pick(8);
    size_t fi = r.pick(static_cast<unsigned>(cfg.files.size()));
    std::string const& data = cfg.data[fi];
    std::string tag = std::to_string(kind) + ":";
    try {
        switch (kind) {
        case 0: {   // build a document through the object API
            QPDF q; q.emptyPDF();
            auto a = QPDFObjectHandle::parse(&q, cfg.nulls ? "[ null 1 << /K null /L [ null 2 ] >> ]" : "[ 7 1 << /K /V /L [ true 2 ] >> ]");
            auto ind = q.makeIndirectObject(a);
            q.getTrailer().replaceKey("/QV", ind);
            a.appendItem(QPDFObjectHandle::newInteger(round));
            a.getArrayItem(2).replaceKey("/M", QPDFObjectHandle::newName("/X"));
            auto copy = a.shallowCopy();
            q.makeIndirectObject(copy);
            return tag + hx64(fnv(write_mem(q, static_cast<int>(r.pick(3))) + a.unparseResolved() + a.getJSON(2, true).unparse()));
        }
        case 1: {   // open, JSON export
            QPDF q; q.processMemoryFile("mem", data.data(), data.size());
            Pl_Buffer p("json");
            q.writeJSON(2, &p, qpdf_dl_generalized, qpdf_sj_inline, "", {});
            return tag + hx64(fnv(p.getString()));
        }
        case 2: {   // open, write in one of the modes
            QPDF q; q.processMemoryFile("mem", data.data(), data.size());
            return tag + hx64(fnv(write_mem(q, static_cast<int>(r.pick(7)))));
        }
        case 3: {   // JSON export, JSON import, write
            QPDF q; q.processMemoryFile("mem", data.data(), data.size());
            Pl_Buffer p("json");
            q.writeJSON(2, &p, qpdf_dl_none, qpdf_sj_inline, "", {});
            std::string js = p.getString();
            QPDF q2;
            auto is = std::make_shared<BufferInputSource>("json", js);
            q2.createFromJSON(is);
            return tag + hx64(fnv(write_mem(q2, static_cast<int>(r.pick(2)))));
        }
        case 4: {   // mutate pages, copy a page from a second (own) instance, write
            QPDF q; q.processMemoryFile("mem", data.data(), data.size());
            QPDF other; other.processMemoryFile("mem2", cfg.data[(fi + 1) % cfg.data.size()].data(), cfg.data[(fi + 1) % cfg.data.size()].size());
            QPDFPageDocumentHelper dh(q), oh(other);
            auto pages = dh.getAllPages();
            auto opages = oh.getAllPages();
            if (!pages.empty()) pages.at(0).rotatePage(90, true);
            if (!opages.empty()) dh.addPage(opages.at(r.pick(static_cast<unsigned>(opages.size()))), false);
            if (pages.size() > 1) dh.removePage(pages.at(1));
            q.getRoot().replaceKey("/QVT", QPDFObjectHandle::newInteger(tid));
            q.getRoot().removeKey("/QVT");
            std::string o1 = write_mem(q, static_cast<int>(r.pick(4)));
            std::string o2 = write_mem(other, 0);       // the source of the copy must be unchanged
            return tag + hx64(fnv(o1)) + hx64(fnv(o2));
        }
        case 5: {   // QPDFJob from argv
            std::string out = cfg.workdir + "/thr-" + std::to_string(tid) + "-" + std::to_string(round) + ".pdf";
            static char const* const opts[] = {"--qdf", "--linearize", "--object-streams=generate", "--stream-data=uncompress", "--rotate=+90:1", "--decode-level=all"};
            std::string opt = opts[r.pick(6)];
            std::vector<char const*> argv = {"qpdf", cfg.files[fi].c_str(), "--static-id", opt.c_str(), out.c_str(), nullptr};
            QPDFJob j;
            j.initializeFromArgv(argv.data());
            j.run();
            std::string res = slurp(out);
            return tag + std::to_string(j.getExitCode()) + hx64(fnv(res));
        }
        case 6: {   // inspect: walk every object, decode every stream
            QPDF q; q.processMemoryFile("mem", data.data(), data.size());
            std::string acc;
            for (auto& o: q.getAllObjects()) {
                acc += o.unparseResolved();
                if (o.isStream()) {
                    Pl_Buffer p("s");
                    if (o.pipeStreamData(&p, 0, qpdf_dl_all, false, false)) acc += p.getString();
                } else if (o.isDictionary()) {
                    for (auto const& k: o.getKeys()) acc += k;
                } else if (o.isArray()) {
                    for (auto const& it: o.getArrayAsVector()) acc += it.unparse();
                }
            }
            return tag + hx64(fnv(acc));
        }
        default: {  // QPDFJob from JSON, JSON output to a file
            std::string out = cfg.workdir + "/thr-" + std::to_string(tid) + "-" + std::to_string(round) + ".json";
            std::string js = "{\"inputFile\": \"" + cfg.files[fi] + "\", \"outputFile\": \"" + out + "\", \"jsonOutput\": \"2\", \"staticId\": \"\"}";
            QPDFJob j;
            j.initializeFromJson(js);
            j.run();
            return tag + std::to_string(j.getExitCode()) + hx64(fnv(slurp(out)));
        }
        }
    } catch (std::exception const& e) {
        return tag + std::string("!") + e.what();
    }
}

} // namespace

static Reg r_thr("thr", [](std::vector<std::string> const& a) -> std::string {
    int n = std::stoi(a.at(0)), rounds = std::stoi(a.at(1));
    unsigned long long seed = std::stoull(a.at(2));
    ThrCfg cfg;
    cfg.workdir = a.at(3);
    cfg.files = split(a.at(4), ',');
    cfg.nulls = a.size() > 5 && a[5] == "nulls";
    for (auto const& f: cfg.files) cfg.data.push_back(slurp(f));
    std::vector<std::vector<std::string>> conc(static_cast<size_t>(n)), solo(static_cast<size_t>(n));
    {
        std::mutex m; std::condition_variable cv; int ready = 0; bool go = false;
        std::vector<std::thread> ts;
        for (int t = 0; t < n; ++t) {
            ts.emplace_back([&, t] {
                { std::unique_lock<std::mutex> lk(m); ++ready; cv.notify_all(); cv.wait(lk, [&] { return go; }); }
                for (int k = 0; k < rounds; ++k) conc[static_cast<size_t>(t)].push_back(job(cfg, seed, t, k));
            });
        }
        { std::unique_lock<std::mutex> lk(m); cv.wait(lk, [&] { return ready == n; }); go = true; cv.notify_all(); }
        for (auto& t: ts) t.join();
    }
    for (int t = 0; t < n; ++t)
        for (int k = 0; k < rounds; ++k) solo[static_cast<size_t>(t)].push_back(job(cfg, seed, t, k));
    std::string out;
    int diff = 0;
    for (int t = 0; t < n; ++t)
        for (int k = 0; k < rounds; ++k) {
            auto const& c = conc[static_cast<size_t>(t)][static_cast<size_t>(k)];
            auto const& s = solo[static_cast<size_t>(t)][static_cast<size_t>(k)];
            if (c != s) { ++diff; out += " t" + std::to_string(t) + "r" + std::to_string(k) + ":" + c + "!=" + s; }
        }
    std::string kinds;
    std::map<char, int> cnt;
    for (auto& v: solo) for (auto& s: v) { cnt[s[0]]++; if (s.find('!') != std::string::npos) cnt['!']++; }
    for (auto& [c, k]: cnt) kinds += std::string(1, c) + "=" + std::to_string(k) + ",";
    return "jobs=" + std::to_string(n * rounds) + " diff=" + std::to_string(diff) + " kinds=" + kinds + out;
});

// ------------------------------------------------------------------------------------------------------
//  isofile <seed> <nsteps> <file0,file1,file2>
//  Bystander oracle on real files (no model): three live documents; every step mutates ONE of them through the
//  public API; after every step the complete JSON of every document and of a freshly opened file is hashed.
//  Output: init|h0,h1,h2,hF#<op>|<acting document>|h0,h1,h2,hF#...
#include <qpdf/QPDFObjGen.hh>
namespace {

std::string full_json(QPDF& q) {
    Pl_Buffer p("json");
    q.writeJSON(2, &p, qpdf_dl_none, qpdf_sj_inline, "", {});
    std::string js = p.getString();
    // the header records which lazy computations the instance has performed so far (not document content)
    for (char const* key: {"\"calledgetallpages\": ", "\"pushedinheritedpageresources\": "}) {
        auto i = js.find(key);
        if (i != std::string::npos) { auto j = js.find('\n', i); js.erase(i, j == std::string::npos ? std::string::npos : j - i); }
    }
    return js;
}

struct FileWorld {
    std::vector<std::string> data;
    std::vector<std::unique_ptr<QPDF>> docs;
    std::string fresh_data;

    void open(size_t i) {
        docs[i] = std::make_unique<QPDF>();
        docs[i]->setSuppressWarnings(true);
        docs[i]->processMemoryFile("doc", data[i].data(), data[i].size());
    }
    std::string dump_dir;   // debugging aid: when set, the JSON behind every hash is written there
    int dump_n = 0;
    std::string hashes() {
        std::string out;
        int k = 0;
        for (auto& d: docs) {
            out += safe([&] {
                std::string js;
                try { js = full_json(*d); }
                catch (std::exception const& e) {
                    if (!dump_dir.empty()) { std::ofstream f(dump_dir + "/s" + std::to_string(dump_n) + "-d" + std::to_string(k) + ".err"); f << e.what(); }
                    // a copied stream whose source stream (in a destroyed document) was itself fed by a StreamDataProvider
                    if (std::string(e.what()).find("operation for stream attempted on non-stream object") != std::string::npos)
                        return std::string("!stream-source-destroyed");
                    throw;
                }
                if (!dump_dir.empty()) { std::ofstream f(dump_dir + "/s" + std::to_string(dump_n) + "-d" + std::to_string(k) + ".json"); f << js; }
                return hx64(fnv(js)); }) + ",";
            ++k;
        }
        ++dump_n;
        out += safe([&] {
            QPDF f; f.setSuppressWarnings(true);
            f.processMemoryFile("fresh", fresh_data.data(), fresh_data.size());
            return hx64(fnv(full_json(f) + QPDFObjectHandle::parse("[ null 1 << /K null >> (s) 1.5 ]").unparse()));
        });
        return out;
    }
    std::string step(Rng& r, size_t a, std::string& opname) {
        QPDF& q = *docs[a];
        size_t other = (a + 1 + r.pick(2)) % 3;
        unsigned k = r.pick(12);
        switch (k) {
        case 0: opname = "rootkey"; q.getRoot().replaceKey("/QVK", QPDFObjectHandle::newInteger(static_cast<int>(r.pick(100)))); break;
        case 1: opname = "newobj"; {
            auto d = QPDFObjectHandle::parse(&q, "<< /A [ null 1 (str) ] /B null /C << /D 2.5 >> >>");
            q.getRoot().replaceKey("/QVN", q.makeIndirectObject(d)); } break;
        case 2: opname = "makeind-item"; {
            auto v = q.getRoot().getKey("/QV");
            if (v.isArray() && v.getArrayNItems() > 0) {
                auto it = v.getArrayItem(0);
                if (it.isNull() && !it.isIndirect()) opname += ":null";   // a parsed null: the trigger of finding D6
                q.makeIndirectObject(it);
            } } break;
        case 3: opname = "replaceobj"; {
            int n = static_cast<int>(q.getObjectCount());
            int id = 1 + static_cast<int>(r.pick(static_cast<unsigned>(n)));
            auto o = q.getObject(id, 0);
            if (!o.isStream() && !o.isPageObject() && !o.isPagesObject() && id > 2)
                q.replaceObject(id, 0, QPDFObjectHandle::parse(&q, "[ null /R 7 ]")); } break;
        case 4: opname = "rotate"; {
            auto pages = QPDFPageDocumentHelper(q).getAllPages();
            if (!pages.empty()) pages.at(r.pick(static_cast<unsigned>(pages.size()))).rotatePage(90, true); } break;
        case 5: opname = "removepage"; {
            QPDFPageDocumentHelper dh(q); auto pages = dh.getAllPages();
            if (pages.size() > 1) dh.removePage(pages.at(r.pick(static_cast<unsigned>(pages.size())))); } break;
        case 6: opname = "addpage-from:" + std::to_string(other); {
            QPDFPageDocumentHelper dh(q), oh(*docs[other]); auto op = oh.getAllPages();
            if (!op.empty()) dh.addPage(op.at(r.pick(static_cast<unsigned>(op.size()))), r.pick(2) == 0); } break;
        case 7: opname = "copyforeign-from:" + std::to_string(other); {
            QPDF& s = *docs[other];
            int n = static_cast<int>(s.getObjectCount());
            auto fo = s.getObject(1 + static_cast<int>(r.pick(static_cast<unsigned>(n))), 0);
            if (fo.isIndirect() && !fo.isPagesObject() && !fo.isNull())
                q.getRoot().replaceKey("/QVC", q.copyForeignObject(fo)); } break;
        case 8: opname = "write"; (void)write_mem(q, static_cast<int>(r.pick(6))); break;
        case 9: opname = "json"; (void)full_json(q); break;
        case 10: opname = "updatejson"; {
            std::string js = "{\"qpdf\": [{\"jsonversion\": 2, \"pushedinheritedpageresources\": false, \"calledgetallpages\": false, \"maxobjectid\": 1}, "
                             "{\"trailer\": {\"value\": {\"/Root\": \"1 0 R\", \"/QVU\": " + std::to_string(r.pick(50)) + "}}}]}";
            auto is = std::make_shared<BufferInputSource>("json", js);
            q.updateFromJSON(is); } break;
        default: opname = "reopen"; docs[a].reset(); open(a); break;
        }
        return opname;
    }
};

} // namespace

static Reg r_isofile("isofile", [](std::vector<std::string> const& a) -> std::string {
    unsigned long long seed = std::stoull(a.at(0));
    int nsteps = std::stoi(a.at(1));
    auto files = split(a.at(2), ',');
    return in_child([=] {
        FileWorld w;
        for (auto const& f: files) w.data.push_back(slurp(f));
        w.fresh_data = w.data.at(0);
        if (a.size() > 3) w.dump_dir = a[3];
        w.docs.resize(3);
        for (size_t i = 0; i < 3; ++i) w.open(i);
        Rng r{seed};
        r.next();
        std::string out = "init|" + w.hashes();
        for (int k = 0; k < nsteps; ++k) {
            size_t acting = r.pick(3);
            std::string opname = "?";
            std::string res;
            try { w.step(r, acting, opname); res = opname; }
            catch (std::logic_error const& e) { res = opname + ":!L"; }
            catch (std::exception const& e) { res = opname + ":!R"; }
            out += "#" + res + "|" + std::to_string(acting) + "|" + w.hashes();
        }
        return out;
    });
});

// ------------------------------------------------------------------------------------------------------
//  isolog <history>
//  Where does each document's output go?  c<d> create document d; r<d>s  d.setOutputStreams(&oss_d, &oss_d)
//  (deprecated but supported); r<d>l  d.setLogger(private logger writing to oss_d); e<d>w  QPDF::warn on d;
//  e<d>o  a warning raised through an object handle of d; e<d>i  d.getLogger()->info(); e<d>e  d.getLogger()->error();
//  x<d> destroy d.  std::cerr / std::cout (the sinks of QPDFLogger::defaultLogger()) are captured.  Every emission
//  carries a unique token; the step's result lists the sinks in which the token was found (cerr, cout, o<k>).
#include <qpdf/QPDFLogger.hh>
#include <qpdf/QPDFExc.hh>
#include <iostream>
#include <set>
namespace {
#pragma GCC diagnostic push
#pragma GCC diagnostic ignored "-Wdeprecated-declarations"
std::string run_isolog(std::string const& hist) {
    std::ostringstream cap_err, cap_out;
    auto* old_err = std::cerr.rdbuf(cap_err.rdbuf());
    auto* old_out = std::cout.rdbuf(cap_out.rdbuf());
    std::map<int, std::unique_ptr<QPDF>> docs;
    std::map<int, std::unique_ptr<std::ostringstream>> oss;
    std::string out;
    int n = 0;
    for (auto const& op: split(hist, ';')) {
        if (op.empty()) continue;
        char k = op[0];
        size_t pos = 1;
        while (pos < op.size() && isdigit(static_cast<unsigned char>(op[pos]))) ++pos;
        int d = std::stoi(op.substr(1, pos - 1));
        char sub = pos < op.size() ? op[pos] : ' ';
        std::string res = "ok";
        try {
            QPDF* q = docs.count(d) ? docs[d].get() : nullptr;
            if (k == 'c') { docs[d] = std::make_unique<QPDF>(); docs[d]->emptyPDF(); }
            else if (!q) res = "skip";
            else if (k == 'x') docs.erase(d);
            else if (k == 'r') {
                if (!oss.count(d)) oss[d] = std::make_unique<std::ostringstream>();
                if (sub == 's') q->setOutputStreams(oss[d].get(), oss[d].get());
                else { auto l = QPDFLogger::create(); l->setOutputStreams(oss[d].get(), oss[d].get()); q->setLogger(l); }
            } else if (k == 'e') {
                std::string tok = "TOK" + std::to_string(++n) + "d" + std::to_string(d) + "!";
                if (sub == 'w') q->warn(QPDFExc(qpdf_e_damaged_pdf, "doc" + std::to_string(d), "", 0, tok));
                else if (sub == 'o') {
                    auto a = QPDFObjectHandle::parse(q, "[ 1 2 ]");
                    a.setObjectDescription(q, tok);
                    (void)a.getArrayItem(99);
                }
                else if (sub == 'i') q->getLogger()->info(tok + "\n");
                else q->getLogger()->error(tok + "\n");
                std::cerr.flush(); std::cout.flush();
                std::string where;
                if (cap_err.str().find(tok) != std::string::npos) where += "cerr,";
                if (cap_out.str().find(tok) != std::string::npos) where += "cout,";
                for (auto& [kk, o]: oss) if (o->str().find(tok) != std::string::npos) where += "o" + std::to_string(kk) + ",";
                res = where.empty() ? "nowhere" : where.substr(0, where.size() - 1);
            } else res = "?op";
        } catch (std::logic_error const&) { res = "!L"; }
        catch (std::exception const&) { res = "!R"; }
        out += (out.empty() ? "" : "#") + op + "=" + res;
    }
    docs.clear();
    std::cerr.rdbuf(old_err);
    std::cout.rdbuf(old_out);
    return out;
}
#pragma GCC diagnostic pop

// deep, number-free dump of an object: indirect references are expanded in place (once per path)
std::string deep_dump(QPDFObjectHandle oh, int depth, std::set<QPDFObjGen>& path) {
    if (depth > 12) return "...";
    bool ind = oh.isIndirect();
    QPDFObjGen og;
    if (ind) { og = oh.getObjGen(); if (path.count(og)) return "<loop>"; path.insert(og); }
    std::string r = ind ? "@" : "";
    if (oh.isStream()) {
        r += "stream" + deep_dump(oh.getDict().shallowCopy(), depth + 1, path) + ":";
        r += safe([&] { auto b = oh.getStreamData(qpdf_dl_generalized); return hex(std::string(reinterpret_cast<char const*>(b->getBuffer()), b->getSize())); });
    } else if (oh.isArray()) {
        r += "[";
        for (auto const& it: oh.getArrayAsVector()) r += deep_dump(it, depth + 1, path) + " ";
        r += "]";
    } else if (oh.isDictionary()) {
        r += "<<";
        for (auto const& key: oh.getKeys()) {
            if (key == "/Parent") { r += key + " (parent) "; continue; }
            r += key + " " + deep_dump(oh.getKey(key), depth + 1, path) + " ";
        }
        r += ">>";
    } else r += safe([&] { return oh.unparseResolved(); });
    if (ind) path.erase(og);
    return r;
}
std::string deep_of(QPDFObjectHandle oh) { std::set<QPDFObjGen> p; return deep_dump(oh, 0, p); }

// what the destination gets from one source: copyForeignObject of the given ids + addPage of the first page
std::string copy_from(QPDF& dst, QPDF& src, std::vector<int> const& ids, bool add_page) {
    std::string r;
    for (int id: ids) {
        if (id < 1 || id > static_cast<int>(src.getObjectCount())) continue;
        auto fo = src.getObject(id, 0);
        if (!fo.isIndirect() || fo.isPagesObject() || fo.isNull()) { r += std::to_string(id) + "=skip;"; continue; }
        r += std::to_string(id) + "=" + safe([&] { return deep_of(dst.copyForeignObject(fo)); }) + ";";
    }
    if (add_page) {
        r += "page=" + safe([&] {
            auto pages = QPDFPageDocumentHelper(src).getAllPages();
            if (pages.empty()) return std::string("none");
            QPDFPageDocumentHelper(dst).addPage(pages.at(0), false);
            auto dp = QPDFPageDocumentHelper(dst).getAllPages();
            return deep_of(dp.back().getObjectHandle());
        }) + ";";
    }
    return r;
}

} // namespace

static Reg r_isolog("isolog", [](std::vector<std::string> const& a) -> std::string {
    std::string hist = a.empty() ? "" : a[0];
    return in_child([hist] { return run_isolog(hist); });
});

//  isocopy <seed> <rounds> <file0,file1,...> [heap]
//  One long-lived destination copies the SAME object ids (and the first page) from a sequence of sources; each
//  source is created, used and destroyed inside the loop body, at the SAME ADDRESS (placement new into one buffer;
//  with "heap": make_unique in the loop).  Every round's copies must equal (deep, number-free dump) the copies a
//  fresh destination makes when that source is the only one.  Output: round<k>:<file index>:same|DIFF ...
static Reg r_isocopy("isocopy", [](std::vector<std::string> const& a) -> std::string {
    unsigned long long seed = std::stoull(a.at(0));
    int rounds = std::stoi(a.at(1));
    auto files = split(a.at(2), ',');
    bool heap = a.size() > 3 && a[3] == "heap";
    return in_child([=] {
        std::vector<std::string> data;
        for (auto const& f: files) data.push_back(slurp(f));
        Rng r{seed}; r.next();
        std::vector<int> ids;
        for (int i = 0; i < 4; ++i) ids.push_back(1 + static_cast<int>(r.pick(9)));
        QPDF dst; dst.setSuppressWarnings(true); dst.processMemoryFile("dst", data.at(0).data(), data.at(0).size());
        alignas(QPDF) static unsigned char buf[sizeof(QPDF)];
        std::string out;
        std::string addr;
        for (int k = 0; k < rounds; ++k) {
            size_t fi = (k == 0) ? 1 % data.size() : r.pick(static_cast<unsigned>(data.size()));
            bool add_page = r.pick(2) == 0;
            std::string got, want;
            {
                std::unique_ptr<QPDF> hp;
                QPDF* src;
                if (heap) { hp = std::make_unique<QPDF>(); src = hp.get(); } else src = new (buf) QPDF();
                src->setSuppressWarnings(true);
                src->processMemoryFile("src", data[fi].data(), data[fi].size());
                char ab[32]; snprintf(ab, sizeof ab, "%p", static_cast<void*>(src));
                if (addr.empty()) addr = ab; else if (addr != ab) addr = "moved";
                got = copy_from(dst, *src, ids, add_page);
                if (!heap) src->~QPDF();
            }
            {
                QPDF d2; d2.setSuppressWarnings(true); d2.processMemoryFile("dst", data.at(0).data(), data.at(0).size());
                QPDF s2; s2.setSuppressWarnings(true); s2.processMemoryFile("src", data[fi].data(), data[fi].size());
                // bring the solo destination to the same number of pages so that "the last page" means the same thing
                want = copy_from(d2, s2, ids, add_page);
            }
            out += " round" + std::to_string(k) + ":" + std::to_string(fi) + ":" + (got == want ? "same" : "DIFF[" + hx64(fnv(got)) + "!=" + hx64(fnv(want)) + "]");
        }
        return "addr=" + std::string(addr == "moved" ? "moved" : "reused") + out;
    });
});

// ------------------------------------------------------------------------------------------------------
//  isox <history>
//  Storage that several parties can reach (model: coq/Sys/HeapShare.v).  Party 0 is the program (handles that belong
//  to no document), parties 1.. are documents.  Alphabet (d = acting party):
//    D,d            QPDF q; q.emptyPDF()                  F,d,<imm>    open the fixed file [setImmediateCopyFrom(true)]
//    P,d,r,toks     variable r := parse([&q,] text)       (d = 0: no context -> an owner-less "template" value)
//    H,d,r,hx       variable r := handle                  M,d,hx       makeIndirectObject
//    K,d,hx,key,vx / A,d,hx,vx / S,d,hx,n,vx   replaceKey / appendItem / setArrayItem; vx may name a variable obtained
//                   from ANOTHER party (a template, a direct value of another document) when that value is pure
//    R,d,hx,key / E,d,hx,n   removeKey / eraseItem        X,d  ~QPDF       W,d  write (result: hash)
//    N,d,r,hex      variable r := q.newStream(data)       Z,d,hx,hex   hx.replaceStreamData(string)
//    C,d,s,hx,r     variable r := q.copyForeignObject(handle hx of document s)
//    G,d,hx,b / g,d,hx,b     buffer variable b := hx.getRawStreamData() / hx.getStreamData()
//    V,d,b          buffer variable b := QPDFWriter(q) memory output (getBufferSharedPointer)
//    U,0,b,pos,byte buffer variable b ->getBuffer()[pos] = byte       (the program edits a Buffer the library handed out)
//    B,d,hx,b       hx.replaceStreamData(buffer variable b, {}, {})    (from then on the Buffer belongs to d's stream)
//  Guards (same in the model; a failed guard gives "skip"): an in-place edit / makeIndirectObject / data replacement
//  only of an object no other party can see; no cycles among direct containers; /Length is never touched or shown.
//  After every step: every object of every live document (unparse; streams: dictionary + raw data), JSON hash, hash of
//  the bytes QPDFWriter produces, every variable, every buffer variable, and the fresh-parse probes.
#include <qpdf/QPDFObjectHandle_private.hh>
#include <list>
namespace {

std::string hex0(std::string const& s) {
    static char const* d = "0123456789abcdef";
    std::string r;
    for (unsigned char c: s) { r.push_back(d[c >> 4]); r.push_back(d[c & 15]); }
    return r;
}

std::string strip_length(std::string s) {
    size_t i = 0;
    while ((i = s.find("/Length ", i)) != std::string::npos) {
        size_t j = i + 8;
        while (j < s.size() && isdigit(static_cast<unsigned char>(s[j]))) ++j;
        if (j > i + 8 && j < s.size() && s[j] == ' ') s.erase(i, j + 1 - i); else i = j;
    }
    return s;
}

std::string fixed_file() {
    std::vector<std::string> objs = {
        "<< /Type /Catalog /Pages 2 0 R >>",
        "<< /Type /Pages /Kids [ ] /Count 0 >>",
        "<< /A 7 /Length 5 >>\nstream\nhello\nendstream",
        "<< /K [ 1 2 ] /Length 3 >>\nstream\nabc\nendstream",
        "<< /A [ 1 << /B 2 >> ] /C /D >>"};
    std::string out = "%PDF-1.4\n";
    std::vector<size_t> offs;
    for (size_t i = 0; i < objs.size(); ++i) {
        offs.push_back(out.size());
        out += std::to_string(i + 1) + " 0 obj\n" + objs[i] + "\nendobj\n";
    }
    size_t xref = out.size();
    out += "xref\n0 " + std::to_string(objs.size() + 1) + "\n0000000000 65535 f \n";
    for (auto o: offs) { char b[32]; snprintf(b, sizeof b, "%010zu 00000 n \n", o); out += b; }
    out += "trailer\n<< /Size " + std::to_string(objs.size() + 1) + " /Root 1 0 R >>\nstartxref\n" + std::to_string(xref) + "\n%%EOF\n";
    return out;
}

struct XWorld {
    static constexpr int FUEL = 40;
    // a destroyed document's storage is never given back: a direct object that was parsed with the document as context
    // and never attached to it keeps its QPDF* after ~QPDF, and checkOwnership compares that pointer; with address
    // reuse the outcome of a later insertion would depend on the allocator (identity by address is part "copy")
    struct InPlace { void operator()(QPDF* q) const { q->~QPDF(); } };
    std::map<int, std::unique_ptr<QPDF, InPlace>> docs;
    std::map<int, std::pair<int, QPDFObjectHandle>> roots;   // variable -> (party it was obtained from, handle)
    struct Held { bool given; std::shared_ptr<Buffer> buf; bool opaque; std::string shadow; };
    std::map<int, Held> held;
    std::list<std::string> filedata;
    int ndocs = 1;

    QPDF* doc(int d) { auto it = docs.find(d); return it == docs.end() ? nullptr : it->second.get(); }

    static bool plain(QPDFObjectHandle const& h) { return !(h.isStream() || h.isReserved() || h.isDestroyed()); }

    // the objects one unparse reads: the object, its direct descendants, the indirect items themselves
    static void clos(QPDFObjectHandle h, int fuel, std::vector<QPDFObjectHandle>& out) {
        out.push_back(h);
        if (fuel == 0) return;
        auto kid = [&](QPDFObjectHandle const& e) { if (!e.isIndirect()) clos(e, fuel - 1, out); else out.push_back(e); };
        if (h.isDestroyed() || h.isReserved()) return;
        if (h.isStream()) clos(h.getDict(), fuel - 1, out);
        else if (h.isArray()) { for (auto const& e: h.getArrayAsVector()) kid(e); }
        else if (h.isDictionary()) { for (auto const& kv: h.getDictAsMap()) kid(kv.second); }
    }
    static bool member(QPDFObjectHandle const& t, std::vector<QPDFObjectHandle> const& v) {
        for (auto const& x: v) if (x.isSameObjectAs(t)) return true;
        return false;
    }
    std::vector<QPDFObjectHandle> party_cells(int p) {
        std::vector<QPDFObjectHandle> out;
        if (QPDF* q = doc(p)) {
            int n = static_cast<int>(q->getObjectCount());
            for (int id = 3; id <= n; ++id) clos(q->getObject(id, 0), FUEL + 1, out);
        }
        for (auto& [r, pr]: roots) if (pr.first == p) clos(pr.second, FUEL + 1, out);
        return out;
    }
    bool shared(int a, QPDFObjectHandle const& t) {
        for (int p = 0; p < ndocs; ++p) if (p != a && member(t, party_cells(p))) return true;
        return false;
    }
    static bool pure(QPDFObjectHandle const& v) {
        std::vector<QPDFObjectHandle> c; clos(v, FUEL, c);
        for (auto const& x: c) if (x.isIndirect() || !plain(x)) return false;
        return true;
    }
    static bool copyable(QPDFObjectHandle const& t) {
        if (t.isStream()) return pure(t.getDict()) && !qpdf::Stream(t).getStreamDataProvider();
        if (t.isNull() || !plain(t)) return false;
        std::vector<QPDFObjectHandle> c; clos(t, FUEL, c);
        for (auto const& x: c) if (!x.isSameObjectAs(t) && (x.isIndirect() || !plain(x))) return false;
        return true;
    }

    // handle expression evaluated on behalf of party d; any: a variable of another party may be named (cross := true)
    bool eval(int d, std::string const& e, QPDFObjectHandle& out, bool any, bool& cross) {
        auto parts = split(e, '/');
        std::string const& h = parts[0];
        if (h.empty()) return false;
        QPDFObjectHandle cur;
        cross = false;
        switch (h[0]) {
        case 'r': {
            auto it = roots.find(std::stoi(h.substr(1)));
            if (it == roots.end()) return false;
            if (it->second.first != d) { if (!any) return false; cross = true; }
            cur = it->second.second; break; }
        case 'o': {
            QPDF* q = doc(d); if (!q) return false;
            int id = std::stoi(h.substr(1));
            if (id < 3 || id > static_cast<int>(q->getObjectCount())) return false;
            cur = q->getObject(id, 0); break; }
        case 'I': cur = QPDFObjectHandle::newInteger(std::stoll(h.substr(1))); break;
        case 'U': cur = QPDFObjectHandle::newNull(); break;
        case 'Y': cur = QPDFObjectHandle::newName("/" + h.substr(1)); break;
        case 'B': cur = QPDFObjectHandle::newArray(); break;
        case 'G': cur = QPDFObjectHandle::newDictionary(); break;
        default: return false;
        }
        for (size_t i = 1; i < parts.size(); ++i) {
            std::string const& s = parts[i];
            if (s.empty()) return false;
            if (s[0] == 'i') {
                int n = std::stoi(s.substr(1));
                if (!cur.isArray() || n < 0 || n >= cur.getArrayNItems()) return false;
                cur = cur.getArrayItem(n);
            } else if (s[0] == 'k') {
                if (!cur.isDictionary()) return false;
                cur = cur.getKey("/" + s.substr(1));
            } else if (s[0] == 'd') {
                if (!cur.isStream()) return false;
                cur = cur.getDict();
            } else return false;
        }
        out = cur;
        return true;
    }

    static std::string raw_data(QPDFObjectHandle oh) {
        Pl_Buffer p("raw");
        (void)oh.pipeStreamData(&p, 0, qpdf_dl_none, true, false);   // the result only says whether filtering was done
        return p.getString();
    }
    static std::string show(QPDFObjectHandle oh) {
        if (oh.isStream())
            return "S" + safe([&] { return strip_length(oh.getDict().unparseResolved()); }) + ":" + safe([&] { return hex0(raw_data(oh)); });
        return safe([&] { return strip_length(oh.unparseResolved()); });
    }
    static std::string written(QPDF& q) {
        QPDFWriter w(q);
        w.setOutputMemory();
        w.setStaticID(true);
        w.setPreserveUnreferencedObjects(true);
        w.write();
        auto b = w.getBufferSharedPointer();
        return std::string(reinterpret_cast<char const*>(b->getBuffer()), b->getSize());
    }

    std::string dump() {
        std::string out;
        for (auto& [d, q]: docs) {
            out += "d" + std::to_string(d) + "{";
            std::string js;
            int n = static_cast<int>(q->getObjectCount());
            for (int id = 3; id <= n; ++id) {
                auto oh = q->getObject(id, 0);
                out += std::to_string(id) + "=" + show(oh) + ";";
                js += safe([&] { return oh.getJSON(2, true).unparse(); }) + ";";
            }
            out += "}j" + hx64(fnv(js)) + "w" + safe([&] { return hx64(fnv(written(*q))); }) + " ";
        }
        for (auto& [r, p]: roots) {
            auto& oh = p.second;
            out += "r" + std::to_string(r) + "@" + std::to_string(p.first) + "=" + safe([&] { return strip_length(oh.unparse()); }) + "~" +
                show(oh) + "j" + hx64(fnv(safe([&] { return oh.getJSON(2, true).unparse(); }))) + " ";
        }
        for (auto& [r, h]: held) {
            std::string cur(reinterpret_cast<char const*>(h.buf->getBuffer()), h.buf->getSize());
            out += "b" + std::to_string(r) + "=" + (h.opaque ? (cur == h.shadow ? std::string("w") : std::string("CHANGED")) : hex0(cur)) + " ";
        }
        out += "F=" + safe([&] { return QPDFObjectHandle::parse("[ null 1 << /K null /L [ null ] >> ]").unparse(); });
        return out;
    }

    // "<letter>!" performs the operation although the library lets another party see the target (used by c20.py only when
    // the model says that no other party can: then the sharing itself is the defect and its effect is what we want to see)
    bool force = false;
    bool shared_guard(int a, QPDFObjectHandle const& t, std::string& why) {
        if (!shared(a, t)) return false;
        if (force) return false;
        why = "skip^shared";
        return true;
    }

    std::string step(std::string const& op) {
        auto f = split(op, ',');
        char k = f.at(0).at(0);
        force = f.at(0).size() > 1 && f.at(0)[1] == '!';
        int d = f.size() > 1 ? std::stoi(f[1]) : -1;
        QPDF* q = doc(d);
        QPDFObjectHandle h, v;
        bool cross = false, c2 = false;
        std::string why;
        switch (k) {
        case 'D': case 'F':
            if (d != ndocs || d == 0) return "skip";
            docs[d] = std::unique_ptr<QPDF, InPlace>(new (::operator new(sizeof(QPDF))) QPDF());
            if (k == 'D') docs[d]->emptyPDF();
            else {
                docs[d]->setSuppressWarnings(true);
                if (f.at(2) == "1") docs[d]->setImmediateCopyFrom(true);
                filedata.push_back(fixed_file());
                docs[d]->processMemoryFile("fixed", filedata.back().data(), filedata.back().size());
            }
            ++ndocs;
            return "ok";
        case 'P': {
            int r = std::stoi(f.at(2));
            if (!(d == 0 || q) || r / 10 != d) return "skip";
            std::string text = tokens_to_pdf(f.at(3));
            if (text.empty() || (text[0] != '[' && text[0] != '<')) return "skip";
            roots[r] = {d, d == 0 ? QPDFObjectHandle::parse(text) : QPDFObjectHandle::parse(q, text)};
            return "ok"; }
        case 'H':
            if (std::stoi(f.at(2)) / 10 != d || d >= ndocs || !eval(d, f.at(3), h, false, cross)) return "skip";
            roots[std::stoi(f.at(2))] = {d, h};
            return "ok";
        case 'M':
            if (!q || !eval(d, f.at(2), h, false, cross)) return "skip";
            if (h.isIndirect()) return "skip";
            if (shared_guard(d, h, why)) return why;
            q->makeIndirectObject(h);
            return "ok";
        case 'K': case 'A': case 'S': {
            std::string const& vx = f.at(k == 'K' ? 4 : (k == 'A' ? 3 : 4));
            if (!eval(d, f.at(2), h, false, cross) || !eval(d, vx, v, true, c2)) return "skip";
            std::vector<QPDFObjectHandle> cv; clos(v, FUEL, cv);
            if (vx.find("/d") != std::string::npos || member(h, cv) || (c2 && !pure(v))) return "skip";
            if (k == 'K' ? (f.at(3) == "L" || !h.isDictionary()) : (!h.isArray() || (k == 'S' && (std::stoi(f.at(3)) < 0 || std::stoi(f.at(3)) >= h.getArrayNItems())))) return "skip";
            if (shared_guard(d, h, why)) return why;
            if (k == 'K') {
                if (f.at(3) == "L" || !h.isDictionary()) return "skip";
                h.replaceKey("/" + f.at(3), v);
            } else if (k == 'A') {
                if (!h.isArray()) return "skip";
                h.appendItem(v);
            } else {
                int n = std::stoi(f.at(3));
                if (!h.isArray() || n < 0 || n >= h.getArrayNItems()) return "skip";
                h.setArrayItem(n, v);
            }
            return "ok"; }
        case 'R': case 'E': {
            if (!eval(d, f.at(2), h, false, cross)) return "skip";
            if (k == 'R' ? (f.at(3) == "L" || !h.isDictionary()) : (!h.isArray() || std::stoi(f.at(3)) < 0 || std::stoi(f.at(3)) >= h.getArrayNItems())) return "skip";
            if (shared_guard(d, h, why)) return why;
            if (k == 'R') {
                if (f.at(3) == "L" || !h.isDictionary()) return "skip";
                h.removeKey("/" + f.at(3));
            } else {
                int n = std::stoi(f.at(3));
                if (!h.isArray() || n < 0 || n >= h.getArrayNItems()) return "skip";
                h.eraseItem(n);
            }
            return "ok"; }
        case 'X':
            if (!q) return "skip";
            docs.erase(d);
            return "ok";
        case 'W':
            if (!q) return "skip";
            return "ok:" + hx64(fnv(written(*q)));
        case 'N': {
            int r = std::stoi(f.at(2));
            if (!q || r / 10 != d) return "skip";
            roots[r] = {d, q->newStream(unhex(f.at(3)))};
            return "ok"; }
        case 'Z':
            if (!eval(d, f.at(2), h, false, cross) || !h.isStream()) return "skip";
            if (shared_guard(d, h, why)) return why;
            h.replaceStreamData(unhex(f.at(3)), QPDFObjectHandle(), QPDFObjectHandle());
            return "ok";
        case 'C': {
            int s = std::stoi(f.at(2)), r = std::stoi(f.at(4));
            QPDF* sq = doc(s);
            if (!q || !sq || s == d || r / 10 != d || !eval(s, f.at(3), h, false, cross)) return "skip";
            if (!h.isIndirect() || h.getOwningQPDF() != sq || !copyable(h)) return "skip";
            roots[r] = {d, q->copyForeignObject(h)};
            return "ok"; }
        case 'G': case 'g': {
            if (!eval(d, f.at(2), h, false, cross) || !h.isStream()) return "skip";
            auto b = (k == 'G') ? h.getRawStreamData() : h.getStreamData(qpdf_dl_generalized);
            held[std::stoi(f.at(3))] = Held{false, b, false, std::string(reinterpret_cast<char const*>(b->getBuffer()), b->getSize())};
            return "ok"; }
        case 'V': {
            if (!q) return "skip";
            QPDFWriter w(*q);
            w.setOutputMemory();
            w.setStaticID(true);
            w.setPreserveUnreferencedObjects(true);
            w.write();
            auto b = w.getBufferSharedPointer();
            held[std::stoi(f.at(2))] = Held{false, b, true, std::string(reinterpret_cast<char const*>(b->getBuffer()), b->getSize())};
            return "ok"; }
        case 'U': {
            auto it = held.find(std::stoi(f.at(2)));
            if (d != 0 || it == held.end() || it->second.given) return "skip";
            size_t pos = static_cast<size_t>(std::stoi(f.at(3)));
            if (pos >= it->second.buf->getSize()) return it->second.opaque ? "ok" : "skip";
            it->second.buf->getBuffer()[pos] = static_cast<unsigned char>(std::stoi(f.at(4)));
            it->second.shadow[pos] = static_cast<char>(std::stoi(f.at(4)));
            return "ok"; }
        case 'B': {
            auto it = held.find(std::stoi(f.at(3)));
            if (!eval(d, f.at(2), h, false, cross) || !h.isStream() || it == held.end()) return "skip";
            if (it->second.given || it->second.opaque) return "skip";
            if (shared_guard(d, h, why)) return why;
            h.replaceStreamData(it->second.buf, QPDFObjectHandle(), QPDFObjectHandle());
            it->second.given = true;
            return "ok"; }
        default:
            return "?op";
        }
    }

    std::string run(std::string const& hist) {
        std::string out = "init|" + dump();
        for (auto const& op: split(hist, ';')) {
            if (op.empty()) continue;
            std::string res;
            try { res = step(op); }
            catch (std::logic_error const& e) { res = "!L"; }
            catch (std::exception const& e) { res = "!R"; }
            out += "#" + res + "|" + dump();
        }
        return out;
    }
};

} // namespace

static Reg r_isox("isox", [](std::vector<std::string> const& a) -> std::string {
    std::string hist = a.empty() ? "" : a[0];
    return in_child([hist] { XWorld w; return w.run(hist); });
});
