(* non-vacuity: the hint stream of a real output (3-page pdfgen.page_doc document, qpdf --linearize --static-id;
   per page 4/2/2 objects of 335/230/230 bytes, pages 1 and 2 using shared objects 2 and 3, four first-page
   groups of 121/111/71/32 bytes, first page object at 570 before the hint stream is inserted) is what the model
   computes, the decoder reads it back, and the tables satisfy the hypotheses of hint_roundtrip. *)
Definition ex_pages : list lh_cpage :=
  [{| cpg_nobjects := 4; cpg_length := 335; cpg_shared := [] |};
   {| cpg_nobjects := 2; cpg_length := 230; cpg_shared := [2; 3] |};
   {| cpg_nobjects := 2; cpg_length := 230; cpg_shared := [2; 3] |}].
Definition ex_no_outline : hg_table := {| hg_first_obj := 0; hg_first_offset := 0; hg_nobjects := 0; hg_length := 0 |}.
Definition ex_stream : list N := [0; 0; 0; 2; 0; 0; 2; 58; 0; 2; 0; 0; 0; 230; 0; 7; 0; 0; 0; 0; 0; 0; 0; 0; 0; 230; 0; 7; 0; 2; 0; 3; 0; 0; 0; 4; 128; 210; 0; 0; 40; 77; 48; 210; 0; 0; 0; 0; 0; 0; 0; 0; 0; 0; 0; 0; 0; 4; 0; 0; 0; 4; 0; 0; 0; 0; 0; 32; 0; 7; 179; 61; 56; 0; 0].

Example ex_encode_real_bytes : lh_encode ex_pages 570 [121; 111; 71; 32] 4 0 0 ex_no_outline = Some (ex_stream, 46, 0).
Proof. vm_compute. reflexivity. Qed.

Example ex_decode_real_bytes :
  match af_decode_hints 3 ex_stream 46 None with
  | Some (hp, hs, None, _) =>
      (hp_min_nobjects hp, hp_bits_nobjects hp, hp_min_length hp, hp_bits_length hp, map pe_identifiers (hp_entries hp), hs_ntotal hs, hs_min_length hs)
      = (2, 2, 230, 7, [[]; [2; 3]; [2; 3]], 4, 32)
  | _ => False
  end.
Proof. vm_compute. reflexivity. Qed.

Example ex_hypotheses_satisfiable : forall p, In p ex_pages -> cpage_ok 4 p.
Proof.
  intros p Hp. unfold ex_pages in Hp. cbn [In] in Hp.
  destruct Hp as [<-|[<-|[<-|[]]]]; unfold cpage_ok; cbn [cpg_nobjects cpg_length cpg_shared length In];
    (repeat split; try reflexivity; intros i Hi; cbn [In] in Hi; intuition (subst; reflexivity)).
Qed.

Example ex_nbits : map nbits [0; 1; 2; 3; 4; 105; 255; 256; 2147483647] = [0; 1; 2; 2; 3; 7; 8; 9; 31].
Proof. vm_compute. reflexivity. Qed.

(* a set of users that the classification sends to part 6, one to part 8 and one to part 7 *)
Example ex_parts : map (fun us => lc_part false (lc_classify us))
   [[OuPage 0; OuPage 2]; [OuPage 1; OuPage 2]; [OuPage 3]; [OuRoot]; [OuThumb 1]; [OuRootKey pk_AcroForm; OuPage 2]] = [6; 8; 7; 4; 9; 4].
Proof. vm_compute. reflexivity. Qed.
