(* C03 - theorems about the model of qpdf's object-level reader (File/RdModel.v): stream extents
   (validateStreamLineEnd + readStream), header rebasing (findHeader + OffsetInputSource). *)
From QV Require Import Base.Bytes Lex.TokModel Obj.ParseModel File.XrefModel File.RdModel File.StrictSyntax File.ReadStrict.
From Coq Require Import Lia.
Local Open Scope N_scope.

(* ------------------------------------------------------------------ helpers *)
Lemma rd_at_app : forall (a b : list N), rd_at (a ++ b) (rd_len a) = b.
Proof.
  intros a b. unfold rd_at, rd_len. rewrite Nnat.Nat2N.id.
  induction a as [|x a IH]; simpl; auto.
Qed.

Lemma rd_len_app : forall (a b : list N), rd_len (a ++ b) = rd_len a + rd_len b.
Proof. intros. unfold rd_len. rewrite app_length. lia. Qed.

Lemma rd_firstn_app : forall (a b : list N), firstn (N.to_nat (rd_len a)) (a ++ b) = a.
Proof.
  intros a b. unfold rd_len. rewrite Nnat.Nat2N.id.
  induction a as [|x a IH]; simpl; [destruct b; reflexivity | now rewrite IH].
Qed.

(* ------------------------------------------------------------------ validateStreamLineEnd *)
(* LF: the data starts right after it, no warning *)
Lemma rd_eol_lf_lemma : forall data pos, rd_stream_eol (10 :: data) pos [] = (data, pos + 1, []).
Proof. reflexivity. Qed.

(* CR LF: the data starts after both, no warning - even when the data itself starts with LF or CR *)
Lemma rd_eol_crlf_lemma : forall data pos, rd_stream_eol (13 :: 10 :: data) pos [] = (data, pos + 2, []).
Proof. reflexivity. Qed.

(* lone CR (the next byte is not LF): the data starts after the CR, with the warning *)
Lemma rd_eol_cr_lemma : forall c data pos, c <> 10 ->
  rd_stream_eol (13 :: c :: data) pos [] = (c :: data, pos + 1, [RdW_cr_only]).
Proof.
  intros c data pos H. simpl. destruct (c =? 10) eqn:E; [apply N.eqb_eq in E; contradiction | reflexivity].
Qed.

(* CR followed by data that starts with LF is indistinguishable from CR LF: the LF is taken as part of the
   line end (this is why ISO 32000-1 7.3.8.1 forbids a lone CR) *)
Lemma rd_eol_cr_eats_lf_lemma : forall data pos,
  rd_stream_eol ([13] ++ (10 :: data)) pos [] = (data, pos + 2, []).
Proof. reflexivity. Qed.

(* ------------------------------------------------------------------ readStream: the extent is exactly /Length bytes *)
(* `endstream` is the next token at [epos] *)
Definition rd_end_follows (file : list N) (epos : N) : Prop :=
  exists tok rest newpos last,
    rd_tok 0 (rd_at file epos) epos = (tok, rest, newpos, last) /\ rd_is_word tok rd_s_endstream = true.

(* any spelling of /Length: direct, or indirect and resolved (wherever the referenced object is in the file) *)
Definition rd_length_is (resolve : N * N -> rd_obj * list rd_w) (d : list (list N * mobj)) (n : N) : Prop :=
  rd_dict_get rd_s_Length d = MoInt (Z.of_N n) \/
  exists id gen, rd_dict_get rd_s_Length d = MoRef id gen /\
                 resolve (Z.to_N id, Z.to_N gen) = (mkRdObj (MoInt (Z.of_N n)) None false, []).

Lemma rd_read_stream_core : forall file t resolve og d inp pos inp1 spos w1 n,
  rd_stream_eol inp pos [] = (inp1, spos, w1) ->
  rd_length_is resolve d n ->
  rd_end_follows file (spos + n) ->
  exists rest p,
    rd_read_stream file t resolve og d inp pos = (mkRdObj (MoDict d) (Some (spos, n)) false, rest, p, w1).
Proof.
  intros file t resolve og d inp pos inp1 spos w1 n He Hl (tok & rest & np & last & Ht & Hw).
  unfold rd_read_stream. rewrite He.
  assert (Hz : (Z.of_N n <? 0)%Z = false) by (apply Z.ltb_ge; lia).
  destruct Hl as [Hd | (id & gen & Hd & Hr)].
  - rewrite Hd. cbv beta iota. rewrite Hz. rewrite N2Z.id. rewrite Ht. rewrite Hw.
    exists rest, np. now rewrite !app_nil_r.
  - rewrite Hd. rewrite Hr. cbn [rdo_stream rdo_val]. cbv beta iota. rewrite Hz. rewrite N2Z.id. rewrite Ht. rewrite Hw.
    exists rest, np. now rewrite !app_nil_r.
Qed.

(* the legal line ends (LF, CR LF), any /Length spelling: the stream bytes are exactly the /Length bytes that follow the
   line end, whatever they are (they may start or end with CR / LF), and there is no warning *)
Lemma rd_stream_extent_lemma : forall file t resolve og d pre eol data tail,
  file = pre ++ eol ++ data ++ tail ->
  eol = [10] \/ eol = [13; 10] ->
  rd_length_is resolve d (rd_len data) ->
  rd_end_follows file (rd_len pre + rd_len eol + rd_len data) ->
  exists rest p,
    let o := mkRdObj (MoDict d) (Some (rd_len pre + rd_len eol, rd_len data)) false in
    rd_read_stream file t resolve og d (eol ++ data ++ tail) (rd_len pre) = (o, rest, p, []) /\
    rd_stream_raw file o = data.
Proof.
  intros file t resolve og d pre eol data tail Hf He Hl Hend.
  assert (Heol : rd_stream_eol (eol ++ data ++ tail) (rd_len pre) [] = (data ++ tail, rd_len pre + rd_len eol, [])).
  { destruct He as [-> | ->]; reflexivity. }
  destruct (rd_read_stream_core file t resolve og d _ _ _ _ _ _ Heol Hl Hend) as (rest & p & H).
  exists rest, p. split; [exact H|].
  unfold rd_stream_raw. simpl rdo_stream.
  rewrite Hf. rewrite <- rd_len_app. rewrite app_assoc. rewrite rd_at_app. apply rd_firstn_app.
Qed.

(* lone CR (tolerated with a warning): same extent, exactly one warning *)
Lemma rd_stream_extent_cr_lemma : forall file t resolve og d pre c data tail,
  file = pre ++ [13] ++ (c :: data) ++ tail -> c <> 10 ->
  rd_length_is resolve d (rd_len (c :: data)) ->
  rd_end_follows file (rd_len pre + 1 + rd_len (c :: data)) ->
  exists rest p,
    let o := mkRdObj (MoDict d) (Some (rd_len pre + 1, rd_len (c :: data))) false in
    rd_read_stream file t resolve og d ([13] ++ (c :: data) ++ tail) (rd_len pre) = (o, rest, p, [RdW_cr_only]) /\
    rd_stream_raw file o = c :: data.
Proof.
  intros file t resolve og d pre c data tail Hf Hc Hl Hend.
  assert (Heol : rd_stream_eol ([13] ++ (c :: data) ++ tail) (rd_len pre) [] = ((c :: data) ++ tail, rd_len pre + 1, [RdW_cr_only])).
  { simpl. destruct (c =? 10) eqn:E; [apply N.eqb_eq in E; contradiction | reflexivity]. }
  destruct (rd_read_stream_core file t resolve og d _ _ _ _ _ _ Heol Hl Hend) as (rest & p & H).
  exists rest, p. split; [exact H|].
  unfold rd_stream_raw. simpl rdo_stream.
  rewrite Hf. replace (rd_len pre + 1) with (rd_len (pre ++ [13])) by (rewrite rd_len_app; reflexivity).
  rewrite app_assoc. rewrite rd_at_app. apply rd_firstn_app.
Qed.

(* `endstream` follows: after the data comes an optional end-of-line marker (none, LF, CR, CR LF), the keyword and
   a white-space character or the end of the input.  Proved by running the tokenizer model on the keyword. *)
Lemma rd_end_follows_lemma : forall pre e dl rest,
  e = [] \/ e = [10] \/ e = [13] \/ e = [13; 10] ->
  dl = [] \/ (exists r, dl = 10 :: r) \/ (exists r, dl = 13 :: r) \/ (exists r, dl = 32 :: r) ->
  rest = e ++ rd_s_endstream ++ dl ->
  rd_end_follows (pre ++ rest) (rd_len pre).
Proof.
  intros pre e dl rest He Hd ->. unfold rd_end_follows. rewrite rd_at_app.
  destruct He as [-> | [-> | [-> | ->]]];
    (destruct Hd as [-> | [(r & ->) | [(r & ->) | (r & ->)]]]);
    match goal with
    | |- exists tok rest newpos last, ?X = _ /\ _ =>
        let v := eval vm_compute in X in
        match v with
        | (?a, ?b, ?c, ?dd) => exists a, b, c, dd; split; [vm_compute; reflexivity | vm_compute; reflexivity]
        end
    end.
Qed.

(* ------------------------------------------------------------------ header rebasing *)
Lemma rd_set_shift_twice : forall a b r, rd_set_shift a (rd_set_shift b r) = rd_set_shift a r.
Proof. intros a b [d | c w | c w]; reflexivity. Qed.

Lemma rd_find_header_here : forall n f p v,
  rd_find_header 1 f 0 = Some (0, v) -> rd_find_header (S n) f p = Some (p, v).
Proof.
  intros n f p v H. destruct f as [|c t]; [discriminate|].
  cbn [rd_find_header] in H |- *.
  destruct (rd_prefix rd_s_PDF (c :: t)); [|discriminate].
  destruct (rd_version (skipn 5 (rd_line 1024 (c :: t)))) as [v'|]; [|discriminate].
  now inversion H.
Qed.

Lemma rd_find_header_skip : forall junk f n p,
  (forall i, (i < length junk)%nat -> rd_prefix rd_s_PDF (skipn i (junk ++ f)) = false) ->
  rd_find_header (length junk + n) (junk ++ f) p = rd_find_header n f (p + rd_len junk).
Proof.
  induction junk as [|a junk IH]; intros f n p H.
  - simpl. unfold rd_len. simpl. now rewrite N.add_0_r.
  - change (length (a :: junk) + n)%nat with (S (length junk + n)).
    cbn [rd_find_header app].
    pose proof (H 0%nat ltac:(simpl; lia)) as H0. cbn [skipn app] in H0. rewrite H0.
    rewrite IH.
    + f_equal. unfold rd_len. cbn [length]. lia.
    + intros i Hi. apply (H (S i)). simpl. lia.
Qed.

(* k < 1024 bytes before the header in which no "%PDF-" starts: every offset is shifted by k (the reader works on the
   input from the header on) and nothing else changes: the view is the view of the file without the junk *)
Lemma rd_header_rebase_lemma : forall junk f v,
  rd_len junk < 1024 ->
  (forall i, (i < length junk)%nat -> rd_prefix rd_s_PDF (skipn i (junk ++ f)) = false) ->
  rd_find_header 1 f 0 = Some (0, v) ->
  rd_view (junk ++ f) = rd_set_shift (rd_len junk) (rd_view f).
Proof.
  intros junk f v Hk Hno Hh.
  assert (Hlen : (length junk < 1024)%nat) by (unfold rd_len in Hk; lia).
  unfold rd_view.
  replace 1024%nat with (length junk + S (1023 - length junk))%nat at 1 by lia.
  rewrite rd_find_header_skip by exact Hno.
  rewrite (rd_find_header_here _ _ _ _ Hh). rewrite N.add_0_l. rewrite rd_at_app.
  replace 1024%nat with (S 1023) by reflexivity.
  rewrite (rd_find_header_here _ _ _ _ Hh).
  change (rd_at f 0) with f. now rewrite rd_set_shift_twice.
Qed.

(* 1024 bytes of junk: the header is not found (the search stops at offset 1023) *)
Lemma rd_header_limit_lemma : forall junk f,
  rd_len junk = 1024 ->
  (forall i, (i < length junk)%nat -> rd_prefix rd_s_PDF (skipn i (junk ++ f)) = false) ->
  rd_find_header 1024 (junk ++ f) 0 = None.
Proof.
  intros junk f Hk Hno.
  assert (Hlen : length junk = 1024%nat) by (unfold rd_len in Hk; lia).
  replace 1024%nat with (length junk + 0)%nat at 1 by lia.
  rewrite rd_find_header_skip by exact Hno. reflexivity.
Qed.

(* ------------------------------------------------------------------ concrete files (non-vacuity, and one divergence) *)
(* a one-section classic file whose object 4 is `4 0 obj 1 0 R endobj` *)
Definition rd_ex_ref : list N := [37; 80; 68; 70; 45; 49; 46; 52; 10; 49; 32; 48; 32; 111; 98; 106; 10; 60; 60; 32; 47; 84; 121; 112; 101; 32; 47; 67; 97; 116; 97; 108; 111; 103; 32; 47; 80; 97; 103; 101; 115; 32; 50; 32; 48; 32; 82; 32; 62; 62; 10; 101; 110; 100; 111; 98; 106; 10; 50; 32; 48; 32; 111; 98; 106; 10; 60; 60; 32; 47; 84; 121; 112; 101; 32; 47; 80; 97; 103; 101; 115; 32; 47; 75; 105; 100; 115; 32; 91; 51; 32; 48; 32; 82; 93; 32; 47; 67; 111; 117; 110; 116; 32; 49; 32; 62; 62; 10; 101; 110; 100; 111; 98; 106; 10; 51; 32; 48; 32; 111; 98; 106; 10; 60; 60; 32; 47; 84; 121; 112; 101; 32; 47; 80; 97; 103; 101; 32; 47; 80; 97; 114; 101; 110; 116; 32; 50; 32; 48; 32; 82; 32; 47; 77; 101; 100; 105; 97; 66; 111; 120; 32; 91; 48; 32; 48; 32; 57; 32; 57; 93; 32; 62; 62; 10; 101; 110; 100; 111; 98; 106; 10; 52; 32; 48; 32; 111; 98; 106; 10; 49; 32; 48; 32; 82; 10; 101; 110; 100; 111; 98; 106; 10; 120; 114; 101; 102; 10; 48; 32; 53; 10; 48; 48; 48; 48; 48; 48; 48; 48; 48; 48; 32; 54; 53; 53; 51; 53; 32; 102; 32; 10; 48; 48; 48; 48; 48; 48; 48; 48; 48; 57; 32; 48; 48; 48; 48; 48; 32; 110; 32; 10; 48; 48; 48; 48; 48; 48; 48; 48; 53; 56; 32; 48; 48; 48; 48; 48; 32; 110; 32; 10; 48; 48; 48; 48; 48; 48; 48; 49; 49; 53; 32; 48; 48; 48; 48; 48; 32; 110; 32; 10; 48; 48; 48; 48; 48; 48; 48; 49; 56; 50; 32; 48; 48; 48; 48; 48; 32; 110; 32; 10; 116; 114; 97; 105; 108; 101; 114; 10; 60; 60; 32; 47; 83; 105; 122; 101; 32; 53; 32; 47; 82; 111; 111; 116; 32; 49; 32; 48; 32; 82; 32; 62; 62; 10; 115; 116; 97; 114; 116; 120; 114; 101; 102; 10; 50; 48; 51; 10; 37; 37; 69; 79; 70; 10].
(* "j" + a one-section classic file with two streams: CR LF after `stream`, data LF a b, /Length 6 0 R defined after the
   stream; LF after `stream`, data x y LF, direct /Length *)
Definition rd_ex_streams : list N := [106; 37; 80; 68; 70; 45; 49; 46; 52; 10; 49; 32; 48; 32; 111; 98; 106; 10; 60; 60; 32; 47; 84; 121; 112; 101; 32; 47; 67; 97; 116; 97; 108; 111; 103; 32; 47; 80; 97; 103; 101; 115; 32; 50; 32; 48; 32; 82; 32; 62; 62; 10; 101; 110; 100; 111; 98; 106; 10; 50; 32; 48; 32; 111; 98; 106; 10; 60; 60; 32; 47; 84; 121; 112; 101; 32; 47; 80; 97; 103; 101; 115; 32; 47; 75; 105; 100; 115; 32; 91; 51; 32; 48; 32; 82; 93; 32; 47; 67; 111; 117; 110; 116; 32; 49; 32; 62; 62; 10; 101; 110; 100; 111; 98; 106; 10; 51; 32; 48; 32; 111; 98; 106; 10; 60; 60; 32; 47; 84; 121; 112; 101; 32; 47; 80; 97; 103; 101; 32; 47; 80; 97; 114; 101; 110; 116; 32; 50; 32; 48; 32; 82; 32; 47; 77; 101; 100; 105; 97; 66; 111; 120; 32; 91; 48; 32; 48; 32; 57; 32; 57; 93; 32; 62; 62; 10; 101; 110; 100; 111; 98; 106; 10; 52; 32; 48; 32; 111; 98; 106; 10; 60; 60; 32; 47; 76; 101; 110; 103; 116; 104; 32; 54; 32; 48; 32; 82; 32; 62; 62; 10; 115; 116; 114; 101; 97; 109; 13; 10; 10; 97; 98; 13; 10; 101; 110; 100; 115; 116; 114; 101; 97; 109; 10; 101; 110; 100; 111; 98; 106; 10; 53; 32; 48; 32; 111; 98; 106; 10; 60; 60; 32; 47; 76; 101; 110; 103; 116; 104; 32; 51; 32; 62; 62; 10; 115; 116; 114; 101; 97; 109; 10; 120; 121; 10; 10; 101; 110; 100; 115; 116; 114; 101; 97; 109; 10; 101; 110; 100; 111; 98; 106; 10; 54; 32; 48; 32; 111; 98; 106; 10; 51; 10; 101; 110; 100; 111; 98; 106; 10; 120; 114; 101; 102; 10; 48; 32; 55; 10; 48; 48; 48; 48; 48; 48; 48; 48; 48; 48; 32; 54; 53; 53; 51; 53; 32; 102; 32; 10; 48; 48; 48; 48; 48; 48; 48; 48; 48; 57; 32; 48; 48; 48; 48; 48; 32; 110; 32; 10; 48; 48; 48; 48; 48; 48; 48; 48; 53; 56; 32; 48; 48; 48; 48; 48; 32; 110; 32; 10; 48; 48; 48; 48; 48; 48; 48; 49; 49; 53; 32; 48; 48; 48; 48; 48; 32; 110; 32; 10; 48; 48; 48; 48; 48; 48; 48; 49; 56; 50; 32; 48; 48; 48; 48; 48; 32; 110; 32; 10; 48; 48; 48; 48; 48; 48; 48; 50; 52; 48; 32; 48; 48; 48; 48; 48; 32; 110; 32; 10; 48; 48; 48; 48; 48; 48; 48; 50; 57; 50; 32; 48; 48; 48; 48; 48; 32; 110; 32; 10; 116; 114; 97; 105; 108; 101; 114; 10; 60; 60; 32; 47; 83; 105; 122; 101; 32; 55; 32; 47; 82; 111; 111; 116; 32; 49; 32; 48; 32; 82; 32; 62; 62; 10; 115; 116; 97; 114; 116; 120; 114; 101; 102; 10; 51; 48; 57; 10; 37; 37; 69; 79; 70; 10].

Definition rd_has_item (d : rd_doc) (obj : N) (v : mobj) (data : option (list N)) : bool :=
  existsb (fun it => (rdi_obj it =? obj) &&
                     match rdi_val it, v with
                     | MoInt a, MoInt b => (a =? b)%Z
                     | MoDict _, MoDict _ => true
                     | _, _ => false
                     end &&
                     match rdi_data it, data with
                     | Some a, Some b => list_eqb N.eqb a b
                     | None, None => true
                     | _, _ => false
                     end) (rdd_items d).

(* the reader model reads the example with the two streams: header found at offset 1, no warning, the stream bytes are
   exactly the /Length bytes (3 each: LF a b and x y LF), the indirect /Length defined after its stream is resolved;
   the strict reader accepts the same file without the junk byte and finds the same extents *)
Lemma rd_reads_example_lemma :
  match rd_view rd_ex_streams, read_strict (tl rd_ex_streams) with
  | RdDoc d, RsOk sf =>
      rdd_shift d = 1 /\ rdd_warn d = [] /\
      rd_has_item d 4 (MoDict []) (Some [10; 97; 98]) = true /\
      rd_has_item d 5 (MoDict []) (Some [120; 121; 10]) = true /\
      rd_has_item d 6 (MoInt 3) None = true /\
      existsb (fun o => (so_num o =? 4) && match so_stream o with Some (_, l) => l =? 3 | None => false end) (sf_objs sf) = true
  | _, _ => False
  end.
Proof. vm_compute. repeat split; reflexivity. Qed.

(* a divergence between the strict reader (specification) and qpdf's reader: an indirect object whose value is itself
   an indirect reference.  The strict reader accepts the file and gives object 4 the value `1 0 R`; Parser::parse_first
   returns the integer 1 at once (the two-slot integer buffer that recognises `n g R` exists only inside containers),
   readObject then finds `0` where it expects endobj and warns.  So the statement "the reader model agrees with the
   strict reader on EVERY file the strict reader accepts" is false as it stands; it needs the hypothesis that no indirect
   object is a bare reference. *)
Lemma rd_toplevel_ref_differs_lemma :
  match rd_view rd_ex_ref, read_strict rd_ex_ref with
  | RdDoc d, RsOk sf =>
      existsb (fun o => (so_num o =? 4) && match so_val o with SpRef 1 0 => true | _ => false end) (sf_objs sf) = true /\
      rd_has_item d 4 (MoInt 1) None = true /\
      existsb (fun w => match w with RdW_endobj => true | _ => false end) (rdd_warn d) = true
  | _, _ => False
  end.
Proof. vm_compute. repeat split; reflexivity. Qed.


(* ------------------------------------------------------------------ the "keep only the highest generation" pass *)
Definition rd_obj_of (e : N * N * c3_xe) : N := fst (fst e).
Definition rd_gen_of (e : N * N * c3_xe) : N := snd (fst e).
(* std::map order on (obj, gen) *)
Definition rd_klt (a b : N * N * c3_xe) : Prop :=
  rd_obj_of a < rd_obj_of b \/ (rd_obj_of a = rd_obj_of b /\ rd_gen_of a < rd_gen_of b).
Fixpoint rd_sorted (l : rd_tbl) : Prop :=
  match l with
  | [] => True
  | a :: r => (forall b, In b r -> rd_klt a b) /\ rd_sorted r
  end.

Lemma rd_gen_pass_cons : forall a b r,
  rd_gen_pass (a :: b :: r) =
  if (rd_obj_of a =? rd_obj_of b) && (0 <? rd_obj_of b) then rd_gen_pass (b :: r) else a :: rd_gen_pass (b :: r).
Proof. reflexivity. Qed.

Lemma rd_gen_pass_in : forall l e, In e (rd_gen_pass l) -> In e l.
Proof.
  induction l as [|a r IH]; intros e H; [exact H|].
  destruct r as [|b r']; [exact H|].
  rewrite rd_gen_pass_cons in H.
  destruct ((rd_obj_of a =? rd_obj_of b) && (0 <? rd_obj_of b)).
  - right. apply IH. exact H.
  - destruct H as [H|H]; [left; exact H | right; apply IH; exact H].
Qed.

Lemma rd_gen_pass_highest : forall l e, rd_sorted l -> In e (rd_gen_pass l) -> 0 < rd_obj_of e ->
  forall e', In e' l -> rd_obj_of e' = rd_obj_of e -> rd_gen_of e' <= rd_gen_of e.
Proof.
  induction l as [|a r IH]; intros e Hs Hin Hpos e' Hin' Ho; [destruct Hin|].
  destruct Hs as [Hmin Hs].
  destruct r as [|b r'].
  - destruct Hin as [E|[]]. destruct Hin' as [E'|[]]. subst. lia.
  - rewrite rd_gen_pass_cons in Hin.
    destruct ((rd_obj_of a =? rd_obj_of b) && (0 <? rd_obj_of b)) eqn:C.
    + apply andb_prop in C. destruct C as [C1 C2]. apply N.eqb_eq in C1.
      destruct Hin' as [E'|Hin'].
      * subst a.
        assert (Hb : rd_gen_of b <= rd_gen_of e) by (apply (IH e Hs Hin Hpos b); [left; reflexivity | lia]).
        destruct (Hmin b (or_introl eq_refl)) as [K|[_ K]]; lia.
      * apply (IH e Hs Hin Hpos e' Hin' Ho).
    + assert (Hab : 0 < rd_obj_of a -> rd_obj_of a < rd_obj_of b).
      { intros Hp. destruct (Hmin b (or_introl eq_refl)) as [K|[K1 K2]]; [exact K|].
        rewrite K1 in C. rewrite N.eqb_refl in C. simpl in C. apply N.ltb_ge in C. lia. }
      destruct Hs as [Hminb Hs'].
      assert (Hge : forall x, In x (b :: r') -> rd_obj_of b <= rd_obj_of x).
      { intros x [<-|Hx]; [lia|]. destruct (Hminb x Hx) as [K|[K _]]; lia. }
      destruct Hin as [E|Hin].
      * subst a. destruct Hin' as [E'|Hin']; [subst; lia|].
        exfalso. pose proof (Hge e' Hin'). specialize (Hab Hpos). lia.
      * destruct Hin' as [E'|Hin'].
        -- subst a. exfalso. pose proof (Hge e (rd_gen_pass_in _ _ Hin)).
           assert (0 < rd_obj_of e') by lia. specialize (Hab H0). lia.
        -- apply (IH e (conj Hminb Hs') Hin Hpos e' Hin' Ho).
Qed.

Lemma rd_sorted_key_inj : forall l e1 e2, rd_sorted l -> In e1 l -> In e2 l ->
  rd_obj_of e1 = rd_obj_of e2 -> rd_gen_of e1 = rd_gen_of e2 -> e1 = e2.
Proof.
  induction l as [|a r IH]; intros e1 e2 Hs0 H1 H2 Ho Hg; [destruct H1|].
  destruct Hs0 as [Hmin Hs].
  destruct H1 as [E1|H1], H2 as [E2|H2].
  - congruence.
  - subst a. destruct (Hmin e2 H2) as [K|[_ K]]; lia.
  - subst a. destruct (Hmin e1 H1) as [K|[_ K]]; lia.
  - apply (IH e1 e2 Hs H1 H2 Ho Hg).
Qed.

Lemma rd_gen_pass_survives : forall l e', In e' l -> exists e, In e (rd_gen_pass l) /\ rd_obj_of e = rd_obj_of e'.
Proof.
  induction l as [|a r IH]; intros e' H; [destruct H|].
  destruct r as [|b r'].
  - destruct H as [<-|[]]. exists a. split; [left; reflexivity | reflexivity].
  - rewrite rd_gen_pass_cons.
    destruct ((rd_obj_of a =? rd_obj_of b) && (0 <? rd_obj_of b)) eqn:C.
    + destruct H as [<-|H].
      * apply andb_prop in C. destruct C as [C1 _]. apply N.eqb_eq in C1.
        destruct (IH b (or_introl eq_refl)) as (e & He & Ho). exists e. split; [exact He | lia].
      * apply IH. exact H.
    + destruct H as [<-|H].
      * exists a. split; [left; reflexivity | reflexivity].
      * destruct (IH e' H) as (e & He & Ho). exists e. split; [right; exact He | exact Ho].
Qed.

(* the table in map order *)
Lemma rd_insert_sorted_in : forall e l x, In x (rd_insert_sorted e l) -> x = e \/ In x l.
Proof.
  intros e. induction l as [|h t IH]; intros x H.
  - destruct H as [<-|[]]. left; reflexivity.
  - cbn [rd_insert_sorted] in H. destruct e as [[o g] xe]. destruct h as [[o' g'] xh].
    destruct ((o <? o') || ((o =? o') && (g <? g'))).
    + destruct H as [<-|H]; [left; reflexivity | right; exact H].
    + destruct ((o =? o') && (g =? g')).
      * right. exact H.
      * destruct H as [<-|H]; [right; left; reflexivity|]. destruct (IH x H) as [->|K]; [left; reflexivity | right; right; exact K].
Qed.

Lemma rd_insert_sorted_sorted : forall e l, rd_sorted l -> rd_sorted (rd_insert_sorted e l).
Proof.
  intros [[o g] xe]. induction l as [|h t IH]; intros Hs.
  - cbn. split; [intros b []| exact I].
  - cbn [rd_insert_sorted]. destruct h as [[o' g'] xh].
    destruct Hs as [Hmin Hs].
    destruct ((o <? o') || ((o =? o') && (g <? g'))) eqn:C1.
    + assert (K : rd_klt (o, g, xe) (o', g', xh)).
      { unfold rd_klt, rd_obj_of, rd_gen_of. cbn. apply orb_prop in C1. destruct C1 as [C|C].
        - left. apply N.ltb_lt. exact C.
        - apply andb_prop in C. destruct C as [Ca Cb]. right. split; [apply N.eqb_eq; exact Ca | apply N.ltb_lt; exact Cb]. }
      split; [|split; assumption].
      intros b [<-|Hb]; [exact K|].
      specialize (Hmin b Hb). unfold rd_klt, rd_obj_of, rd_gen_of in *. cbn in *. lia.
    + destruct ((o =? o') && (g =? g')) eqn:C2; [split; assumption|].
      split.
      * intros b Hb. destruct (rd_insert_sorted_in _ _ _ Hb) as [->|Hb'].
        -- unfold rd_klt, rd_obj_of, rd_gen_of. cbn.
           apply orb_false_elim in C1. destruct C1 as [Ca Cb]. apply N.ltb_ge in Ca.
           apply andb_false_elim in Cb. apply andb_false_elim in C2.
           destruct (N.eq_dec o o') as [->|Hne].
           ++ right. split; [reflexivity|]. rewrite N.eqb_refl in *.
              destruct Cb as [Cb|Cb]; [discriminate|]. destruct C2 as [C2|C2]; [discriminate|].
              apply N.ltb_ge in Cb. apply N.eqb_neq in C2. lia.
           ++ left. lia.
        -- apply Hmin. exact Hb'.
      * apply IH. exact Hs.
Qed.

Lemma rd_sort_sorted : forall t, rd_sorted (fold_right rd_insert_sorted [] t).
Proof. induction t as [|a t IH]; cbn; [exact I | apply rd_insert_sorted_sorted; exact IH]. Qed.

Lemma rd_sort_in : forall t x, In x (fold_right rd_insert_sorted [] t) -> In x t.
Proof.
  induction t as [|a t IH]; cbn; intros x H; [exact H|].
  destruct (rd_insert_sorted_in _ _ _ H) as [->|K]; [left; reflexivity | right; apply IH; exact K].
Qed.

Lemma rd_insert_sorted_keeps : forall e l x, In x l -> exists y, In y (rd_insert_sorted e l) /\ fst y = fst x.
Proof.
  intros e. induction l as [|h t IH]; intros x H; [destruct H|].
  cbn [rd_insert_sorted]. destruct e as [[o g] xe]. destruct h as [[o' g'] xh].
  destruct ((o <? o') || ((o =? o') && (g <? g'))).
  - exists x. split; [right; exact H | reflexivity].
  - destruct ((o =? o') && (g =? g')).
    + exists x. split; [exact H | reflexivity].
    + destruct H as [<-|H].
      * exists (o', g', xh). split; [left; reflexivity | reflexivity].
      * destruct (IH x H) as (y & Hy & Hk). exists y. split; [right; exact Hy | exact Hk].
Qed.

Lemma rd_insert_sorted_has : forall e l, exists y, In y (rd_insert_sorted e l) /\ fst y = fst e.
Proof.
  intros e. induction l as [|h t IH].
  - exists e. split; [left; reflexivity | reflexivity].
  - cbn [rd_insert_sorted]. destruct e as [[o g] xe]. destruct h as [[o' g'] xh].
    destruct ((o <? o') || ((o =? o') && (g <? g'))).
    + exists (o, g, xe). split; [left; reflexivity | reflexivity].
    + destruct ((o =? o') && (g =? g')) eqn:C.
      * apply andb_prop in C. destruct C as [Ca Cb]. apply N.eqb_eq in Ca. apply N.eqb_eq in Cb. subst.
        exists (o', g', xh). split; [left; reflexivity | reflexivity].
      * destruct IH as (y & Hy & Hk). exists y. split; [right; exact Hy | exact Hk].
Qed.

Lemma rd_sort_keeps : forall t x, In x t -> exists y, In y (fold_right rd_insert_sorted [] t) /\ fst y = fst x.
Proof.
  induction t as [|a t IH]; intros x H; [destruct H|]. cbn.
  destruct H as [<-|H].
  - apply rd_insert_sorted_has.
  - destruct (IH x H) as (y & Hy & Hk). destruct (rd_insert_sorted_keeps a _ y Hy) as (z & Hz & Hk2).
    exists z. split; [exact Hz | congruence].
Qed.

(* rd_highest_generation_only: for EVERY table t built while the sections were read (whatever the chain was), the table
   that read_xref leaves, rd_gen_pass (sort t), holds for each positive object number
   (a) at most one entry, (b) which is an entry of t with the highest generation t has for that number,
   (c) and every number of t is still there. *)
Lemma rd_highest_generation_only_lemma : forall (t : rd_tbl),
  let final := rd_gen_pass (fold_right rd_insert_sorted [] t) in
  (forall e1 e2, In e1 final -> In e2 final -> rd_obj_of e1 = rd_obj_of e2 -> 0 < rd_obj_of e1 -> e1 = e2) /\
  (forall e, In e final -> 0 < rd_obj_of e ->
     In e t /\ forall e', In e' t -> rd_obj_of e' = rd_obj_of e -> rd_gen_of e' <= rd_gen_of e) /\
  (forall e', In e' t -> exists e, In e final /\ rd_obj_of e = rd_obj_of e').
Proof.
  intros t final. pose proof (rd_sort_sorted t) as Hs.
  assert (Hhigh : forall e, In e final -> 0 < rd_obj_of e ->
            forall e', In e' t -> rd_obj_of e' = rd_obj_of e -> rd_gen_of e' <= rd_gen_of e).
  { intros e He Hp e' He' Ho. destruct (rd_sort_keeps t e' He') as (y & Hy & Hk).
    assert (rd_gen_of y <= rd_gen_of e).
    { apply (rd_gen_pass_highest _ e Hs He Hp y Hy). unfold rd_obj_of in *. rewrite Hk. exact Ho. }
    unfold rd_gen_of in *. rewrite <- Hk. exact H. }
  split; [|split].
  - intros e1 e2 H1 H2 Ho Hp.
    pose proof (rd_gen_pass_in _ _ H1) as I1. pose proof (rd_gen_pass_in _ _ H2) as I2.
    apply (rd_sorted_key_inj _ e1 e2 Hs I1 I2 Ho).
    pose proof (Hhigh e1 H1 Hp e2 (rd_sort_in _ _ I2) (eq_sym Ho)).
    assert (Hp2 : 0 < rd_obj_of e2) by lia.
    pose proof (Hhigh e2 H2 Hp2 e1 (rd_sort_in _ _ I1) Ho). lia.
  - intros e He Hp. split; [apply rd_sort_in; apply rd_gen_pass_in; exact He | apply Hhigh; assumption].
  - intros e' He'. destruct (rd_sort_keeps t e' He') as (y & Hy & Hk).
    destruct (rd_gen_pass_survives _ y Hy) as (e & He & Ho). exists e. split; [exact He|].
    unfold rd_obj_of in *. rewrite Ho, Hk. reflexivity.
Qed.

(* ------------------------------------------------------------------ UNPROVED (statements kept for the record)
   rd_reader_agrees_strict : forall file sf, read_strict file = RsOk sf -> rd_no_bare_ref_object sf ->
       rd_lower_agree file (* Lex/TokModel.read_token and Obj/ParseModel.parse_object agree with StrictSyntax.next_tok /
                              parse_obj, positions included, on every suffix of this file *) ->
       exists d, rd_view file = RdDoc d /\ rdd_warn d = [] /\ rd_same_view d sf.
     Not proved.  Where it stops: (a) it is false without rd_no_bare_ref_object (rd_toplevel_ref_differs_lemma above);
     (b) the strict reader is written on StrictSyntax.next_tok / parse_obj and the reader model on TokModel / ParseModel:
     the existing completeness theorems (next_token_complete, parse_complete_scalar, parse_complete_container) are stated against Lex/LexSpec and
     Obj/SynSpec, not against StrictSyntax, and there is no suffix/position lemma for StrictSyntax.next_tok (needed to
     equate `offset_of total rest` with the model's tell()); (c) the strict parse_indirect accepts a negative generation
     in the `n g obj` header (Z.to_N makes it 0), which the reader model rejects (expected n g obj), so the per-object
     statement also needs 0 <= g.  The per-object core (parse_indirect accepts at off  ->  rd_read_at returns the same
     value and extent, no warning) was designed with these hypotheses but not finished.
   rd_reads_writer_output : forall d, wf_doc d -> rd_view (write_doc d) reads d back.
     Not proved as a whole.  The bridge (the parser model reads what the writer model prints) and readObjectAtOffset on an
     emitted object ARE proved in File/C03ProofsRdW.v, which also lists the steps that are still missing.
   What IS proved about the reader: the stream-extent and header lemmas above, for all inputs; the agreement of the whole
   view is tested (harness/c03read.py: model = qpdf = ISO ground truth on about 1200 aimed files per run). *)
