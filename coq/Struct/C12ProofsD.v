(* C12 (extension) - proofs, part D: the operations of the document model.  Pages::cache's repair changes an
   effective /MediaBox or /Resources only where it was not a rectangle / a dictionary; pushInheritedAttributesToPage
   and flattenPagesTree (push-down followed by flattening) preserve every other effective attribute of every page,
   for every tree. *)
From QV Require Import Base.Bytes Struct.PageOps Struct.PageAttr Struct.PageAttrSpec Struct.C12ProofsB Struct.C12ProofsC.
From Coq Require Import List ZArith NArith Bool Lia.
Import ListNotations.
Local Open Scope N_scope.

(* what the repair of Pages::cache / getAllPagesInternal may do to the effective attributes of a page:
   /CropBox and /Rotate untouched; /MediaBox (resp. /Resources) untouched, or - only if it was not a rectangle (resp.
   not a dictionary), i.e. not legal per Table 30 - replaced by [0 0 612 792] (resp. an empty dictionary) *)
Definition pas_repair_rel (a b : N * pas_attrs) : Prop :=
  fst b = fst a /\
  pa_qget (snd b) PaCrop = pa_qget (snd a) PaCrop /\
  pa_qget (snd b) PaRot = pa_qget (snd a) PaRot /\
  (pa_qget (snd b) PaMedia = pa_qget (snd a) PaMedia \/
   (pa_is_rect (pa_qget (snd a) PaMedia) = false /\ pa_qget (snd b) PaMedia = pa_default_rect)) /\
  (pa_qget (snd b) PaRes = pa_qget (snd a) PaRes \/
   (pa_is_dict (pa_qget (snd a) PaRes) = false /\ pa_qget (snd b) PaRes = pa_empty_dict)).

Lemma pas_repair_rel_refl : forall a, pas_repair_rel a a.
Proof. intros a. unfold pas_repair_rel. auto 10. Qed.

Lemma pa_repair_rel_tree : forall st t mb rs inh,
  (mb = false -> pa_is_rect (pa_qget inh PaMedia) = false) ->
  (rs = false -> pa_is_dict (pa_qget inh PaRes) = false) ->
  Forall2 pas_repair_rel (pas_eff st inh t) (pas_eff st inh (pa_repair st mb rs t)).
Proof.
  intros st t. induction t as [i p d | i p c d kids IH] using pa_tree_ind2; intros mb rs inh Hmb Hrs.
  - cbn [pa_repair pas_eff]. constructor; [|constructor]. unfold pas_repair_rel. cbn [fst snd].
    split; [reflexivity|].
    unfold pa_repair_page.
    set (d1 := if negb mb && negb (pa_is_rect (pa_getden st d PaMedia)) then pa_set d PaMedia (PaD pa_default_rect) else d).
    assert (H1 : forall k, k <> PaMedia -> pa_getden st d1 k = pa_getden st d k).
    { intros k Hk. subst d1. destruct (negb mb && negb (pa_is_rect (pa_getden st d PaMedia))); [|reflexivity].
      apply pa_getden_set_other. congruence. }
    set (d2 := if negb rs && negb (pa_is_dict (pa_getden st d1 PaRes)) then pa_set d1 PaRes (PaD pa_empty_dict) else d1).
    assert (H2 : forall k, k <> PaRes -> pa_getden st d2 k = pa_getden st d1 k).
    { intros k Hk. subst d2. destruct (negb rs && negb (pa_is_dict (pa_getden st d1 PaRes))); [|reflexivity].
      apply pa_getden_set_other. congruence. }
    rewrite !pas_over_get.
    split; [rewrite H2, H1 by discriminate; reflexivity|].
    split; [rewrite H2, H1 by discriminate; reflexivity|].
    split.
    + rewrite H2 by discriminate. subst d1.
      destruct mb; cbn [negb andb]; [left; reflexivity|].
      destruct (pa_is_rect (pa_getden st d PaMedia)) eqn:Er; cbn [negb]; [left; reflexivity|].
      right. rewrite pa_getden_set_same. cbn [pa_den]. split; [|reflexivity].
      destruct (pa_getden st d PaMedia); [apply Hmb; reflexivity | reflexivity | exact Er].
    + rewrite <- (H1 PaRes) by discriminate. subst d2.
      destruct rs; cbn [negb andb]; [left; reflexivity|].
      destruct (pa_is_dict (pa_getden st d1 PaRes)) eqn:Er; cbn [negb]; [left; reflexivity|].
      right. rewrite pa_getden_set_same. cbn [pa_den]. split; [|reflexivity].
      destruct (pa_getden st d1 PaRes); [apply Hrs; reflexivity | reflexivity | exact Er].
  - cbn [pa_repair pas_eff].
    apply Forall2_flat_map_map. eapply Forall_impl; [|exact IH]. intros k Hk. apply Hk.
    + intros E. apply orb_false_iff in E as [E1 E2]. rewrite pas_over_get.
      destruct (pa_getden st d PaMedia); [apply Hmb; exact E1 | reflexivity | exact E2].
    + intros E. apply orb_false_iff in E as [E1 E2]. rewrite pas_over_get.
      destruct (pa_getden st d PaRes); [apply Hrs; exact E1 | reflexivity | exact E2].
Qed.

(* Pages::cache on any tree *)
Lemma pa_repair_effective_lemma : forall st t,
  Forall2 pas_repair_rel (pas_doc_eff st t) (pas_doc_eff st (pa_repair st false false t)).
Proof.
  intros. unfold pas_doc_eff. apply pa_repair_rel_tree; intros _; unfold pas_none; rewrite pa_qget_qconst; reflexivity.
Qed.

(* a document whose pages all have a rectangle as effective /MediaBox and a dictionary as effective /Resources
   (what Table 30 requires) is not changed at all *)
Definition pas_boxes_legal (a : N * pas_attrs) : Prop :=
  pa_is_rect (pa_qget (snd a) PaMedia) = true /\ pa_is_dict (pa_qget (snd a) PaRes) = true.

Lemma pas_repair_rel_legal : forall l l', Forall2 pas_repair_rel l l' -> Forall pas_boxes_legal l -> l' = l.
Proof.
  intros l l' H. induction H as [|a b l l' Hab Hl IH]; intros Hleg; [reflexivity|].
  inversion Hleg as [|? ? [Hm Hr] Hleg']; subst. rewrite IH by assumption. f_equal.
  destruct Hab as (Hid & Hc & Ho & Hmb & Hrs). destruct a as [ia aa], b as [ib ab]. cbn [fst snd] in *. subst ib. f_equal.
  apply pa_quad_ext. intros k. destruct k; try assumption.
  - destruct Hmb as [|[E _]]; [assumption | congruence].
  - destruct Hrs as [|[E _]]; [assumption | congruence].
Qed.

Lemma pa_repair_legal_lemma : forall st t,
  Forall pas_boxes_legal (pas_doc_eff st t) ->
  pas_doc_eff st (pa_repair st false false t) = pas_doc_eff st t.
Proof. intros st t H. eapply pas_repair_rel_legal; [apply pa_repair_effective_lemma | exact H]. Qed.

(* ---------------------------------------------------------------- freshness is preserved by the repair *)
Lemma pa_repair_page_lt : forall n st mb rs d, pa_dict_lt n d -> pa_dict_lt n (pa_repair_page st mb rs d).
Proof.
  intros n st mb rs d Hd. unfold pa_repair_page.
  assert (Hset : forall d0 k o, pa_dict_lt n d0 -> pa_dict_lt n (pa_set d0 k (PaD o))).
  { intros d0 k o H0 k' v Hg. destruct (pa_ik_eq_dec k k') as [<-|Hne].
    - rewrite pa_get_set_same in Hg. injection Hg as <-. exact I.
    - rewrite pa_get_set_other in Hg by assumption. eapply H0; eassumption. }
  destruct (negb mb && negb (pa_is_rect (pa_getden st d PaMedia)));
    match goal with |- context [if ?c then _ else _] => destruct c end; auto.
Qed.

Lemma pa_repair_lt : forall n st t mb rs, pa_tree_lt n t -> pa_tree_lt n (pa_repair st mb rs t).
Proof.
  intros n st t. induction t as [i p d | i p c d kids IH] using pa_tree_ind2; intros mb rs Hlt.
  - unfold pa_tree_lt in *. cbn in *. inversion Hlt; subst. constructor; [apply pa_repair_page_lt; assumption | constructor].
  - cbn [pa_repair]. apply pa_tree_lt_node in Hlt as [Hd Hk]. apply pa_tree_lt_node. split; [assumption|].
    apply Forall_map. clear Hd. induction IH; inversion Hk; subst; constructor; auto.
Qed.

Lemma Forall2_trans_rel : forall A (R S T : A -> A -> Prop) l1 l2 l3,
  (forall a b c, R a b -> S b c -> T a c) -> Forall2 R l1 l2 -> Forall2 S l2 l3 -> Forall2 T l1 l3.
Proof.
  intros A R S T l1 l2 l3 H H1. revert l3. induction H1; intros l3 H2; inversion H2; subst; constructor; eauto.
Qed.

Lemma Forall2_eq_refl : forall A (R : A -> A -> Prop) l, (forall a, R a a) -> Forall2 R l l.
Proof. intros A R l H. induction l; constructor; auto. Qed.

(* ---------------------------------------------------------------- the document operations *)
(* every indirect reference of the tree is below the next object id (true of every QPDF: makeIndirectObject uses
   1 + the largest id) *)
Definition pa_doc_fresh (doc : pa_doc) : Prop := pa_tree_lt (pa_next doc) (pa_root doc).

Lemma pa_cache_rel : forall doc, pa_doc_fresh doc ->
  Forall2 pas_repair_rel (pas_doc_eff (pa_st doc) (pa_root doc)) (pas_doc_eff (pa_st (pa_cache doc)) (pa_root (pa_cache doc)))
  /\ pa_doc_fresh (pa_cache doc) /\ pa_st (pa_cache doc) = pa_st doc /\ pa_next (pa_cache doc) = pa_next doc.
Proof.
  intros doc Hf. unfold pa_cache. destruct (pa_cached doc).
  - split; [apply Forall2_eq_refl; apply pas_repair_rel_refl | auto].
  - cbn [pa_st pa_root pa_next]. split; [apply pa_repair_effective_lemma|].
    split; [unfold pa_doc_fresh; cbn; apply pa_repair_lt; exact Hf | auto].
Qed.

(* Pages::pushInheritedAttributesToPage(true, warn) on a document of any tree shape: the page sequence and all
   effective attributes are preserved up to the repair of cache(); afterwards (if the walk ran) no /Pages node
   carries an inheritable attribute *)
Lemma pa_op_push_effective_lemma : forall warn doc doc' r,
  pa_doc_fresh doc -> pa_op_push true warn doc = (doc', r) ->
  Forall2 pas_repair_rel (pas_doc_eff (pa_st doc) (pa_root doc)) (pas_doc_eff (pa_st doc') (pa_root doc')) /\
  pa_doc_fresh doc' /\
  (pa_pushed doc && negb warn = false -> pa_clean (pa_st doc') (pa_root doc')) /\
  r <> PaRErr PaEQ /\ r <> PaRErr PaERt /\ r <> PaRErr PaEUnm.
Proof.
  intros warn doc doc' r Hf Hrun. unfold pa_op_push in Hrun.
  destruct (pa_pushed doc && negb warn) eqn:Ep.
  - injection Hrun as <- <-. split; [apply Forall2_eq_refl; apply pas_repair_rel_refl|]. split; [assumption|].
    split; [discriminate|]. repeat split; discriminate.
  - destruct (pa_cache_rel doc Hf) as (Hrel & Hf1 & Hst & Hnx).
    set (doc1 := pa_cache doc) in *.
    destruct (pa_push_tree warn (pa_root doc1) pa_stk_empty (PaPst (pa_next doc1) (pa_st doc1) [])) as [[t' stk'] ps'] eqn:Et.
    injection Hrun as <- <-. cbn [pa_st pa_root pa_next].
    destruct (pa_pushdown_effective_lemma warn (pa_root doc1) (pa_st doc1) (pa_next doc1) [] t' stk' ps' Hf1 Et) as (A & B & C & D & E).
    split.
    { rewrite A. exact Hrel. }
    split; [exact E|]. split; [intros _; exact B|].
    destruct warn; repeat split; discriminate.
Qed.

Lemma pas_eff_set_parent : forall st inh r t, pas_eff st inh (pa_set_parent r t) = pas_eff st inh t.
Proof. intros st inh r [ | ]; reflexivity. Qed.

(* push-down followed by flattening (Pages::flattenPagesTree, run by every insertion, removal and findPage), for every
   tree: same pages in the same order with the same effective /CropBox and /Rotate, and the same effective
   /MediaBox and /Resources wherever these were legal *)
Lemma pa_flatten_effective_lemma : forall doc doc' e,
  pa_doc_fresh doc -> pa_flatten doc = (doc', e) -> e <> Some PaEUnm ->
  Forall2 pas_repair_rel (pas_doc_eff (pa_st doc) (pa_root doc)) (pas_doc_eff (pa_st doc') (pa_root doc')) /\
  pa_doc_fresh doc'.
Proof.
  intros doc doc' e Hf Hfl Hne. unfold pa_flatten in Hfl.
  destruct (pa_pos doc) eqn:Hpos.
  2:{ injection Hfl as <- <-. split; [apply Forall2_eq_refl; apply pas_repair_rel_refl | assumption]. }
  destruct (pa_op_push true true doc) as [doc1 r1] eqn:Ep. cbn [fst] in Hfl.
  destruct (pa_op_push_effective_lemma true doc doc1 r1 Hf Ep) as (Hrel & Hf1 & Hclean & _).
  specialize (Hclean ltac:(rewrite andb_false_r; reflexivity)).
  destruct doc1 as [root st nx ca pu po de]. cbn [pa_root pa_st pa_next pa_cached pa_pushed pa_det] in *.
  destruct root as [i p d | r p c d kids0]; [injection Hfl as <- <-; congruence|].
  set (pgs := pa_pages (PaNode r p c d kids0)) in *.
  destruct (pa_nodupb (map pa_id pgs)); cbn [negb] in Hfl; [|injection Hfl as <- <-; congruence].
  assert (Heq : pas_doc_eff st (PaNode r p c d (map (pa_set_parent r) pgs)) = pas_doc_eff st (PaNode r p c d kids0)).
  { unfold pas_doc_eff. rewrite (pa_clean_eff st (PaNode r p c d kids0) pas_none Hclean). fold pgs.
    cbn [pas_eff]. apply pa_clean_node in Hclean as [Hd _].
    assert (Eo : pas_over st pas_none d = pas_none).
    { apply pa_quad_ext. intros k. rewrite pas_over_get, Hd. reflexivity. }
    rewrite Eo. apply flat_map_map_eq. apply Forall_forall. intros x _. apply pas_eff_set_parent. }
  assert (Hfr : pa_tree_lt nx (PaNode r p c d (map (pa_set_parent r) pgs))).
  { unfold pa_doc_fresh in Hf1. cbn [pa_next pa_root] in Hf1.
    apply pa_tree_lt_node. split; [apply pa_tree_lt_node in Hf1; tauto|].
    apply Forall_map. apply Forall_forall. intros x Hx.
    assert (Hxl : pa_tree_lt nx x).
    { clear - Hf1 Hx. subst pgs. revert Hf1 Hx. generalize (PaNode r p c d kids0). intros t.
      induction t as [i0 p0 d0 | i0 p0 c0 d0 kids1 IH] using pa_tree_ind2; intros Hlt Hin.
      - cbn in Hin. destruct Hin as [<-|[]]. exact Hlt.
      - cbn [pa_pages] in Hin. apply in_flat_map in Hin as [k [Hk Hin]].
        apply pa_tree_lt_node in Hlt as [_ Hks]. rewrite Forall_forall in IH, Hks. eauto. }
    destruct x; exact Hxl. }
  destruct (Z.eqb (pa_count_uint c) (Z.of_nat (length pgs))); injection Hfl as <- <-;
    cbn [pa_st pa_root]; (split; [rewrite Heq; exact Hrel | exact Hfr]).
Qed.

(* for a document whose pages have legal boxes (rectangle /MediaBox, dictionary /Resources - Table 30) the statement
   is an equality: push-down followed by flattening changes no effective attribute of any page *)
Lemma pa_flatten_legal_lemma : forall doc doc' e,
  pa_doc_fresh doc -> pa_flatten doc = (doc', e) -> e <> Some PaEUnm ->
  Forall pas_boxes_legal (pas_doc_eff (pa_st doc) (pa_root doc)) ->
  pas_doc_eff (pa_st doc') (pa_root doc') = pas_doc_eff (pa_st doc) (pa_root doc).
Proof.
  intros doc doc' e Hf Hfl Hne Hleg.
  destruct (pa_flatten_effective_lemma doc doc' e Hf Hfl Hne) as [Hrel _].
  eapply pas_repair_rel_legal; eassumption.
Qed.
