(* non-vacuity of the guard theorems: cyclic graphs, shared subtrees whose unguarded expansion would be exponential,
   chains just below / above the limits.  All by computation on the models. *)
Fixpoint c4_ex_pchain (d : nat) (i : N) (twice : bool) : list (N * c4_pnode) :=
  match d with
  | O => [(i, mkC4pnode false 0 [] 0)]
  | S d' => (i, mkC4pnode true 0 (if twice then [i + 1; i + 1] else [i + 1]) 0) :: c4_ex_pchain d' (i + 1) twice
  end.
Lemma c4_ex_pchain_wf : forall d i twice, 0 < i -> c4_wf (c4_ex_pchain d i twice).
Proof.
  unfold c4_wf, c4_keys. induction d as [|d IH]; intros i twice Hi; cbn; [lia|].
  intros [H|H]; [lia|]. apply (IH (i + 1) twice); [lia | exact H].
Qed.
(* a cycle in /Kids: reported *)
Example c4_ex_pages_cycle :
  fst (c4_pages [(1, mkC4pnode true 0 [2; 3] 0); (2, mkC4pnode false 0 [] 1); (3, mkC4pnode true 0 [1] 1)] false 1) = C4pLoop.
Proof. vm_compute. reflexivity. Qed.
(* 31 objects, every level lists the next one twice: an unguarded walk would visit 2^30 leaves; the guard stops the walk at
   call 31, the first time a level is reached again *)
Example c4_ex_pages_doubled : exists st, c4_pages (c4_ex_pchain 30 1 true) false 1 = (C4pLoop, st) /\ c4ps_calls st = 31.
Proof. eexists. vm_compute. split; reflexivity. Qed.
(* a chain of 100 /Pages levels is accepted, 101 levels end in "too deeply nested" at level 100 *)
Example c4_ex_pages_depth_100 : exists st, c4_pages (c4_ex_pchain 100 1 false) false 1 = (C4pOk, st) /\ c4ps_pages st = 1 /\ c4ps_maxlevel st = 100%nat.
Proof. eexists. vm_compute. repeat split; reflexivity. Qed.
Example c4_ex_pages_depth_101 : exists st, c4_pages (c4_ex_pchain 101 1 false) false 1 = (C4pDeep, st) /\ c4ps_maxlevel st = 100%nat.
Proof. eexists. vm_compute. split; reflexivity. Qed.
(* shared leaves are pages (copied), or ignored after an xref reconstruction *)
Example c4_ex_pages_shared_leaf :
  c4ps_pages (snd (c4_pages [(1, mkC4pnode true 0 [2; 2; 2] 0); (2, mkC4pnode false 0 [] 1)] false 1)) = 3 /\
  c4ps_pages (snd (c4_pages [(1, mkC4pnode true 0 [2; 2; 2] 0); (2, mkC4pnode false 0 [] 1)] true 1)) = 1.
Proof. vm_compute. split; reflexivity. Qed.
(* two nodes sharing one indirect /Kids array: reported as a loop although there is none *)
Example c4_ex_pages_shared_kids_array :
  fst (c4_pages [(1, mkC4pnode true 0 [2; 3] 0); (2, mkC4pnode true 9 [4] 1); (3, mkC4pnode true 9 [4] 1); (4, mkC4pnode false 0 [] 2)] false 1) = C4pLoop.
Proof. vm_compute. reflexivity. Qed.

(* /Prev loops, also through a hybrid file's stream; a /Prev of an /XRefStm stream is ignored *)
Example c4_ex_xref_cycle :
  c4_read_xref [(100%Z, mkC4xsec C4xTable false 0 200 3 1); (200%Z, mkC4xsec C4xStream false 0 100 3 0)] 100
  = mkC4xout C4xLoop [200; 100]%Z [200; 100]%Z 0.
Proof. vm_compute. reflexivity. Qed.
Example c4_ex_xref_hybrid :
  c4_read_xref [(100%Z, mkC4xsec C4xTable false 300 0 3 1); (300%Z, mkC4xsec C4xStream false 0 100 3 0)] 100
  = mkC4xout C4xOk [300; 100]%Z [100]%Z 0.
Proof. vm_compute. reflexivity. Qed.
(* the hypothesis of xref_walk_cycle_reported is satisfiable, also by a cycle that is closed only through white space:
   the stream's /Prev names the byte in front of the table, the table's /Prev a byte three in front of the stream *)
Example c4_ex_xref_cycle_hyp :
  let g := [(100%Z, mkC4xsec C4xTable false 0 197 3 1); (200%Z, mkC4xsec C4xStream false 0 99 3 0)] in
  c4_xclosed g (fun off => off = 99%Z \/ off = 197%Z) /\
  c4_read_xref g 197 = mkC4xout C4xLoop [100; 200]%Z [99; 197]%Z 1 /\
  c4_read_xref g 200 = mkC4xout C4xLoop [200; 100; 200]%Z [197; 99; 200]%Z 1.
Proof.
  split; [|split; vm_compute; reflexivity].
  intros off [E|E]; subst off.
  - exists 100%Z, (mkC4xsec C4xTable false 0 197 3 1). cbn. repeat split; try discriminate; auto; lia.
  - exists 200%Z, (mkC4xsec C4xStream false 0 99 3 0). cbn. repeat split; try discriminate; auto.
Qed.
(* white space in front of a section: /Prev 1..3 bytes before a stream that was read is still a loop; a table tolerates
   exactly min(gap, 2) bytes and warns; an offset in front of the white space is not a section at all *)
Example c4_ex_xref_ws_self_loops :
  c4xo_res (c4_read_xref [(200%Z, mkC4xsec C4xStream false 0 199 3 0)] 200) = C4xLoop /\
  c4xo_res (c4_read_xref [(200%Z, mkC4xsec C4xStream false 0 197 3 0)] 200) = C4xLoop /\
  c4_read_xref [(200%Z, mkC4xsec C4xStream false 0 197 3 0)] 198 = mkC4xout C4xLoop [200; 200]%Z [197; 198]%Z 0 /\
  c4_read_xref [(100%Z, mkC4xsec C4xTable false 0 99 3 1)] 100 = mkC4xout C4xLoop [100; 100]%Z [99; 100]%Z 1 /\
  c4_read_xref [(100%Z, mkC4xsec C4xTable false 0 98 3 1)] 100 = mkC4xout C4xDamaged [100]%Z [98; 100]%Z 1 /\
  c4_read_xref [(100%Z, mkC4xsec C4xTable false 0 98 3 2)] 100 = mkC4xout C4xLoop [100; 100]%Z [98; 100]%Z 1 /\
  c4xo_res (c4_read_xref [(100%Z, mkC4xsec C4xTable false 0 96 3 1)] 100) = C4xNotFound.
Proof. vm_compute. repeat split; reflexivity. Qed.

(* qpdf JSON import: "value": "4 0 R" is refused whether or not 4 0 is (already) a stream, and counted - also on the stream
   itself (since the repair of C14-F4); a logic_error thrown by a callee would pass importJSON untranslated *)
Example c4_ex_json_value_reference :
  c4_import_json [] false [C4jObj 4 0 [C4jStream true true true false false]; C4jObj 5 0 [C4jValRef 4 0]] = (C4eRuntime, 1, [(4, 0)]) /\
  c4_import_json [] false [C4jObj 5 0 [C4jValRef 4 0]; C4jObj 4 0 [C4jStream true true true false false]] = (C4eRuntime, 1, [(4, 0)]) /\
  c4_import_json [(4, 0)] false [C4jObj 5 0 [C4jValRef 4 0]] = (C4eRuntime, 1, [(4, 0)]) /\
  c4_import_json [(4, 0)] false [C4jObj 4 0 [C4jValRef 4 0]] = (C4eRuntime, 1, [(4, 0)]) /\
  c4_import_json [] false [C4jObj 4 0 [C4jStream true true true false false]; C4jObj 5 0 [C4jValDirect true]] = (C4eNone, 0, [(4, 0)]) /\
  c4_import_json [] false [C4jThrows C4eQPDFExc; C4jObj 5 0 [C4jValRef 4 0]] = (C4eRuntime, 0, []) /\
  c4_import_json [] false [C4jThrows C4eLogic] = (C4eLogic, 0, []).
Proof. vm_compute. repeat split; reflexivity. Qed.

(* outlines: 48 objects in 24 levels of two siblings that both point to the next level: 2^24 helpers unguarded, 95 here *)
Fixpoint c4_ex_odag (d : nat) (i : N) : list (N * c4_onode) :=
  match d with
  | O => []
  | S d' => let nxt := match d' with O => 0 | _ => i + 2 end in
            (i, mkC4onode nxt (i + 1)) :: (i + 1, mkC4onode nxt 0) :: c4_ex_odag d' (i + 2)
  end.
Example c4_ex_outlines_doubled :
  let st := c4_outlines (c4_ex_odag 24 1) 1 in c4os_made st = 94 /\ c4os_warn st = 46 /\ length (c4os_exp st) = 48%nat.
Proof. vm_compute. repeat split; reflexivity. Qed.
Fixpoint c4_ex_ochain (d : nat) (i : N) : list (N * c4_onode) :=
  match d with O => [(i, mkC4onode 0 0)] | S d' => (i, mkC4onode (i + 1) 0) :: c4_ex_ochain d' (i + 1) end.
(* nesting: children are walked down to depth 50; the helper at depth 51 is childless, silently *)
Example c4_ex_outlines_depth : let st := c4_outlines (c4_ex_ochain 59 1) 1 in
  c4os_made st = 51 /\ c4os_cut st = 1 /\ c4os_warn st = 0 /\ c4os_maxdepth st = 50%nat.
Proof. vm_compute. repeat split; reflexivity. Qed.
(* k items whose /First all name the same chain of k children: k + k*k helpers (the quadratic case of outlines_made), all
   but the first k + k with a warning *)
Definition c4_ex_oshared (k : nat) : list (N * c4_onode) :=
  map (fun i => (N.of_nat i, mkC4onode (N.of_nat k + 1) (if Nat.eqb i k then 0 else N.of_nat i + 1))) (seq 1 k) ++
  map (fun j => (N.of_nat (k + j), mkC4onode 0 (if Nat.eqb j k then 0 else N.of_nat (k + j) + 1))) (seq 1 k).
Example c4_ex_outlines_quadratic : let st := c4_outlines (c4_ex_oshared 12) 1 in
  c4os_made st = 12 + 12 * 12 /\ c4os_warn st = 11 * 12 /\ length (c4os_exp st) = 24%nat.
Proof. vm_compute. repeat split; reflexivity. Qed.
Example c4_ex_outlines_next_loop : c4os_warn (c4_outlines [(1, mkC4onode 0 2); (2, mkC4onode 0 3); (3, mkC4onode 0 2)] 1) = 1.
Proof. vm_compute. reflexivity. Qed.

(* AcroForm: every level lists the next field twice (29 objects): 2 calls per level instead of 2^28 *)
Fixpoint c4_ex_fchain (d : nat) (i : N) (twice : bool) : list (N * c4_fnode) :=
  match d with
  | O => [(i, mkC4fnode true true None true (i - 1))]
  | S d' => (i, mkC4fnode true false (Some (if twice then [i + 1; i + 1] else [i + 1])) false (i - 1)) :: c4_ex_fchain d' (i + 1) twice
  end.
Example c4_ex_acroform_doubled : let st := c4_acroform (c4_ex_fchain 28 1 true) [1] in
  c4fs_calls st = 57 /\ c4fs_wloop st = 28 /\ length (c4fs_exp st) = 29%nat.
Proof. vm_compute. repeat split; reflexivity. Qed.
(* the field at depth 100 is still recorded, the one at depth 101 is not (silently) *)
Example c4_ex_acroform_depth :
  c4_mem 101 (c4fs_ann (c4_acroform (c4_ex_fchain 100 1 false) [1])) = true /\
  c4_mem 102 (c4fs_ann (c4_acroform (c4_ex_fchain 101 1 false) [1])) = false /\
  c4fs_maxdepth (c4_acroform (c4_ex_fchain 101 1 false) [1]) = 100%nat.
Proof. vm_compute. repeat split; reflexivity. Qed.
(* a /Parent loop outside the /Kids structure does not make FT inheritance spin *)
Example c4_ex_acroform_parent_loop :
  c4_finherit (3 + 11) [(1, mkC4fnode true false None true 2); (2, mkC4fnode true false None false 3); (3, mkC4fnode false false None false 2)] [] 1 0 [] = Some false.
Proof. vm_compute. reflexivity. Qed.

(* number tree find on a looping path *)
Example c4_ex_nn_find_loop :
  fst (c4_nn_find 4 [(1, mkC4nnode 0 false [2; 3] (Some 1%nat) 0 0); (2, mkC4nnode 2 true [] None 0 0); (3, mkC4nnode 0 false [3] (Some 0%nat) 0 0)] 1 [] 0) = C4fLoop.
Proof. vm_compute. reflexivity. Qed.

(* regression for D-C04-nntree-dag.  The loop of NNTreeImpl::repair() before the fix was the plain iteration: 1024 leaf
   entries on the 11-node tree whose levels list the next level twice, 2^d in general.  The repaired loop enters the
   leaf once, tolerates 1000 re-entries and gives up, with a warning, at the next one - on 11 nodes and on 41 nodes
   (where the old loop would enter 2^40 leaves); validate() ends at the first re-entry. *)
Example c4_ex_nn_repair_old_loop : c4i_leaves (fst (c4_nn_iter (20 * 400) (c4_nn_dag 10 1) 1)) = 1024.
Proof. vm_compute. reflexivity. Qed.
Example c4_ex_nn_repair_fixed :
  (let st := fst (c4_nn_repair (20 * 400) (c4_nn_dag 10 1) 1) in
   c4rp_leaves st = 1002 /\ c4rp_reent st = 1001 /\ c4rp_gaveup st = true /\ c4rp_warns st = 1 /\ c4rp_distinct st = 1) /\
  (let r := c4_nn_repair (400 * 400) (c4_nn_dag 40 1) 1 in
   c4rp_leaves (fst r) = 1002 /\ c4rp_gaveup (fst r) = true /\ snd r = C4wStopped).
Proof. vm_compute. repeat split; reflexivity. Qed.
Example c4_ex_nn_validate_stops :
  let v := c4_nn_validate (20 * 400) (c4_nn_dag 40 1) 1 in c4v_leaves (fst v) = 2 /\ c4v_err (fst v) = true /\ snd v = C4wStopped.
Proof. vm_compute. repeat split; reflexivity. Qed.
(* a proper tree is validated without repair and every leaf is entered once *)
Example c4_ex_nn_open_proper :
  c4_nn_open 100 [(1, mkC4nnode 0 false [2; 3] None 0 0); (2, mkC4nnode 4 true [] None 10 11); (3, mkC4nnode 2 true [] None 20 20)] 1
  = ((mkC4vst false 20 [3; 2] 2 0 false, C4wDone), None).
Proof. vm_compute. reflexivity. Qed.

(* parser: 500 nested containers are accepted with the default limit 499, 501 are refused *)
Example c4_ex_nesting_500 : c4_nest 499 (repeat C4tOpen 499 ++ repeat C4tClose 500) = C4nDone 500.
Proof. vm_compute. reflexivity. Qed.
Example c4_ex_nesting_501 : c4_nest 499 (repeat C4tOpen 500 ++ repeat C4tClose 501) = C4nLimit 500.
Proof. vm_compute. reflexivity. Qed.
(* six bad tokens in a row: given up at the sixth although the budget (15) is not used up; budget 4: the fourth ends it *)
Example c4_ex_bad_tokens :
  c4_bad_run 5000 4294967295 false (repeat (mkC4bev true false 0 0 true) 7) (mkC4bst 15 0 0) 0 = (C4bGiveUp, 6) /\
  c4_bad_run 5000 4294967295 false (repeat (mkC4bev true false 0 0 true) 7) (mkC4bst 4 0 0) 0 = (C4bBudget, 4).
Proof. vm_compute. split; reflexivity. Qed.

(* conversions at the boundaries: to_int(2^31) and to_size(-1) are errors, not -2^31 and 2^64-1 *)
Example c4_ex_conversions :
  c4_convert true 64 true 32 (2 ^ 31) = None /\ c4_convert true 64 true 32 (2 ^ 31 - 1) = Some (2 ^ 31 - 1)%Z /\
  c4_convert true 32 false 64 (-1) = None /\ c4_cast false 64 (-1) = (2 ^ 64 - 1)%Z /\
  c4_convert false 64 true 64 (2 ^ 63) = None /\ c4_fits true 64 false 32 (2 ^ 32) = false.
Proof. vm_compute. repeat split; reflexivity. Qed.

(* two reconstructions are possible (the late-startxref branch resets the flag), never three *)
Example c4_ex_recon_twice :
  c4r_scans (c4_recon_run [mkC4rev false true; mkC4rev true false; mkC4rev true false; mkC4rev true true]) = 2.
Proof. vm_compute. reflexivity. Qed.
