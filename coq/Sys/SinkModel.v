(* C10/C11 - qpdf's output sinks and the exit status, over the stdio model.

   Written from: libqpdf/Pl_StdioFile.cc (write loop, finish), libqpdf/Pl_OStream.cc, QPDFWriter.cc
   (impl::Writer::write: pipeline->finish(); fclose(file); ~Writer: fclose if still open),
   QPDF_json.cc (writeJSONStreamFile: safe_fopen, Pl_StdioFile, finish, fclose; the FILE* leaks on an
   exception), QPDFJob.cc (writeOutfile, writeJSON with QUtil::FileCloser and NO finish, doSplitPages,
   doShowAttachment, the --replace-input renames, getExitCode), QUtil.cc (safe_fopen, rename_file,
   remove_file, os_wrapper), QPDFLogger.cc (saveToStandardOutput: Pl_OStream over std::cout), qpdf/qpdf.cc
   (realmain: any std::exception -> message, exit 2).

   `checks` says which results the code looks at.  c10_unrepaired is the tree as pinned (DESIGN D2/D3);
   c10_repaired is the tree with proposed_fixes/D2_output_errors.diff. *)
From QV Require Import Base.Bytes Sys.StdioModel.
From Coq Require Import Arith.
Local Open Scope nat_scope.

Record c10_checks := mk_checks {
  ck_finish : bool;    (* Pl_StdioFile::finish: throws when fflush fails or ferror is set *)
  ck_wclose : bool;    (* impl::Writer::write: throws when fclose fails *)
  ck_jsclose : bool;   (* writeJSONStreamFile: throws when fclose fails *)
  ck_jclose : bool;    (* QPDFJob::writeJSON: explicit finish + checked fclose before FileCloser's destructor *)
  ck_ostream : bool;   (* Pl_OStream::finish: throws when the stream is not good after flush *)
  ck_stdout : bool;    (* realmain: fflush(stdout)/ferror(stdout) checked before the exit status is chosen *)
  ck_popper : bool     (* QPDFWriter's Pl_stack::Popper destructor does not let finish()'s exception escape
                          (proposed_fixes/D2b_no_throw_in_popper.diff); without it a throwing finish() inside the
                          destructor is std::terminate *)
}.
Definition c10_unrepaired := mk_checks false false false false false false false.
(* /repo at c4309d60: D2 repaired, the Popper destructor can still throw *)
Definition c10_repaired_d2 := mk_checks true true true true true true false.
Definition c10_repaired := mk_checks true true true true true true true.

(* what the fault oracle can do at the n-th output operation *)
Inductive c10_fact :=
| FaNone
| FaFull            (* the stream's device is full from now on (fopen: the file is created, then full;
                       rename/unlink: the call fails) *)
| FaStreamFull      (* as FaFull for streams and fopen; rename/unlink are not affected (a disk that is full) *)
| FaFail            (* fopen/rename/unlink fail without being performed; stream operations as FaFull *)
| FaCap (c : nat)   (* the kernel accepts c more bytes on this stream, then refuses *)
| FaKillB           (* SIGKILL immediately before the operation *)
| FaKillA.          (* SIGKILL immediately after it *)

Inductive c10_eclass := EcOpen | EcWrite | EcFlush | EcClose | EcRename | EcStdout | EcLoop.
Inductive c10_diag :=
| DgErr (c : c10_eclass) (name : nat)    (* "qpdf: <what>: <strerror>" printed by realmain's catch *)
| DgWarn                                  (* "operation succeeded with warnings" *)
| DgKept                                  (* replace-input: "there are warnings; original file kept in" *)
| DgUnlink.                               (* replace-input: "unable to delete original file" (not an error) *)

(* what a C++ exception thrown by a sink carries *)
Inductive c10_exn := Exn (c : c10_eclass) (name : nat).
Definition c10_exn_diag (e : c10_exn) : c10_diag := match e with Exn c n => DgErr c n end.

Inductive c10_ev :=
| EvOpen (name : nat) (ok : bool)
| EvWrite (name : nat) (len ret : nat)
| EvFlush (name : nat) (ok : bool)
| EvClose (name : nat) (ok : bool)
| EvRename (a b : nat) (ok : bool)
| EvUnlink (a : nat) (ok : bool).

Record c10_world := mk_world {
  cw_dir : list (nat * sfile);   (* name -> file; first binding wins *)
  cw_n : nat;                    (* output operations so far *)
  cw_trace : list c10_ev;        (* most recent first *)
  cw_diag : list c10_diag;       (* stderr, most recent first *)
  cw_cout_bad : bool;            (* std::cout has badbit *)
  cw_aborted : bool              (* std::terminate was called: SIGABRT, exit status 134, no destructor, no stdio flush *)
}.

Record c10_env := mk_env {
  en_B : nat;                         (* stdio buffer size *)
  en_fault : nat -> c10_fact;         (* fault oracle, by operation number (1-based) *)
  en_initcap : option nat;            (* RLIMIT_FSIZE: capacity of every file the run creates *)
  en_exit_rounds : nat;               (* how many times the runtime flushes cout and wcout at exit (libstdc++: ios_base::Init) *)
  en_ck : c10_checks;
  (* the job, as far as the sinks see it *)
  en_md5_pops : nat;                  (* --deterministic-id: how many Popper destructors call finish() on the file sink
                                         (the MD5 pipeline of writeStandard) before Writer::write's own finish *)
  en_glitch : option nat              (* Some k: the (k+1)-th write(2) on each file the run creates fails once *)
}.

Inductive c10_res (A : Type) :=
| ROk (a : A) (w : c10_world)
| RExc (e : c10_exn) (w : c10_world)    (* a C++ exception is propagating *)
| RDead (w : c10_world).                 (* the process was killed *)
Arguments ROk {A}. Arguments RExc {A}. Arguments RDead {A}.

Definition c10_bind {A C} (r : c10_res A) (k : A -> c10_world -> c10_res C) : c10_res C :=
  match r with
  | ROk a w => k a w
  | RExc e w => RExc e w
  | RDead w => RDead w
  end.

(* ---- directory *)
Fixpoint c10_lookup (d : list (nat * sfile)) (name : nat) : option sfile :=
  match d with
  | [] => None
  | (n, f) :: tl => if Nat.eqb n name then Some f else c10_lookup tl name
  end.
Fixpoint c10_remove (d : list (nat * sfile)) (name : nat) : list (nat * sfile) :=
  match d with
  | [] => []
  | (n, f) :: tl => if Nat.eqb n name then c10_remove tl name else (n, f) :: c10_remove tl name
  end.
Definition c10_bind_name (d : list (nat * sfile)) (name : nat) (f : sfile) := (name, f) :: c10_remove d name.

Definition c10_set_dir (w : c10_world) (d : list (nat * sfile)) :=
  mk_world d (cw_n w) (cw_trace w) (cw_diag w) (cw_cout_bad w) (cw_aborted w).
Definition c10_put (w : c10_world) (name : nat) (f : sfile) := c10_set_dir w (c10_bind_name (cw_dir w) name f).
Definition c10_tick (w : c10_world) := mk_world (cw_dir w) (S (cw_n w)) (cw_trace w) (cw_diag w) (cw_cout_bad w) (cw_aborted w).
Definition c10_log (w : c10_world) (e : c10_ev) := mk_world (cw_dir w) (cw_n w) (e :: cw_trace w) (cw_diag w) (cw_cout_bad w) (cw_aborted w).
Definition c10_say (w : c10_world) (d : c10_diag) := mk_world (cw_dir w) (cw_n w) (cw_trace w) (d :: cw_diag w) (cw_cout_bad w) (cw_aborted w).
Definition c10_set_bad (w : c10_world) := mk_world (cw_dir w) (cw_n w) (cw_trace w) (cw_diag w) true (cw_aborted w).
Definition c10_set_aborted (w : c10_world) := mk_world (cw_dir w) (cw_n w) (cw_trace w) (cw_diag w) (cw_cout_bad w) true.

(* the fault is applied to the stream the operation is about, before the operation *)
Definition c10_apply_fault (fa : c10_fact) (f : sfile) : sfile :=
  match fa with
  | FaFull | FaStreamFull | FaFail => sio_set_cap f (Some 0)
  | FaCap c => sio_set_cap f (Some c)
  | _ => f
  end.
Definition c10_is_killb (fa : c10_fact) := match fa with FaKillB => true | _ => false end.
Definition c10_is_killa (fa : c10_fact) := match fa with FaKillA => true | _ => false end.

(* one stdio call on an open stream, as the shim counts it *)
Definition c10_stream_op {A} (en : c10_env) (name : nat) (w : c10_world)
           (call : sfile -> A * sfile) (ev : A -> c10_ev) (dflt : A) : c10_res A :=
  let w1 := c10_tick w in
  let fa := en_fault en (cw_n w1) in
  if c10_is_killb fa then RDead w1 else
  match c10_lookup (cw_dir w1) name with
  | None => ROk dflt w1
  | Some f =>
    let '(a, f') := call (c10_apply_fault fa f) in
    let w2 := c10_log (c10_put w1 name f') (ev a) in
    if c10_is_killa fa then RDead w2 else ROk a w2
  end.

Definition c10_fwrite (en : c10_env) (name : nat) (d : list N) (w : c10_world) : c10_res nat :=
  c10_stream_op en name w (fun f => sio_fwrite (en_B en) f d) (fun r => EvWrite name (length d) r) 0.
Definition c10_fflush (en : c10_env) (name : nat) (w : c10_world) : c10_res bool :=
  c10_stream_op en name w sio_fflush (fun ok => EvFlush name ok) true.
Definition c10_fclose (en : c10_env) (name : nat) (w : c10_world) : c10_res bool :=
  c10_stream_op en name w sio_fclose (fun ok => EvClose name ok) true.

(* QUtil::safe_fopen(name, "w..."): creates/truncates *)
Definition c10_fopen (en : c10_env) (name : nat) (w : c10_world) : c10_res bool :=
  let w1 := c10_tick w in
  let fa := en_fault en (cw_n w1) in
  if c10_is_killb fa then RDead w1 else
  match fa with
  | FaFail => ROk false (c10_log w1 (EvOpen name false))
  | _ =>
    let f := c10_apply_fault fa (sio_new_glitch (en_initcap en) false (en_glitch en)) in
    let w2 := c10_log (c10_put w1 name f) (EvOpen name true) in
    if c10_is_killa fa then RDead w2 else ROk true w2
  end.

Definition c10_path_fails (fa : c10_fact) := match fa with FaFull | FaFail | FaCap _ => true | _ => false end.

(* rename(2): atomic replacement of the target *)
Definition c10_rename (en : c10_env) (a b : nat) (w : c10_world) : c10_res bool :=
  let w1 := c10_tick w in
  let fa := en_fault en (cw_n w1) in
  if c10_is_killb fa then RDead w1 else
  if c10_path_fails fa then ROk false (c10_log w1 (EvRename a b false)) else
  match c10_lookup (cw_dir w1) a with
  | None => ROk false (c10_log w1 (EvRename a b false))
  | Some f =>
    let w2 := c10_log (c10_set_dir w1 (c10_bind_name (c10_remove (cw_dir w1) a) b f)) (EvRename a b true) in
    if c10_is_killa fa then RDead w2 else ROk true w2
  end.

Definition c10_unlink (en : c10_env) (a : nat) (w : c10_world) : c10_res bool :=
  let w1 := c10_tick w in
  let fa := en_fault en (cw_n w1) in
  if c10_is_killb fa then RDead w1 else
  if c10_path_fails fa then ROk false (c10_log w1 (EvUnlink a false)) else
  let w2 := c10_log (c10_set_dir w1 (c10_remove (cw_dir w1) a)) (EvUnlink a true) in
  if c10_is_killa fa then RDead w2 else ROk true w2.

Definition c10_ferror (w : c10_world) (name : nat) : bool :=
  match c10_lookup (cw_dir w) name with Some f => sf_err f | None => false end.
Definition c10_is_open (w : c10_world) (name : nat) : bool :=
  match c10_lookup (cw_dir w) name with Some f => sf_open f | None => false end.

(* ---- Pl_StdioFile *)
(* write: while (len > 0) { so_far = fwrite(...); if (so_far == 0) throw; buf += so_far; len -= so_far; } *)
Fixpoint c10_pl_write (fuel : nat) (en : c10_env) (name : nat) (d : list N) (w : c10_world) : c10_res unit :=
  match d with
  | [] => ROk tt w
  | _ =>
    match fuel with
    | O => RExc (Exn EcLoop name) w
    | S fu =>
      c10_bind (c10_fwrite en name d w) (fun r w1 =>
        if Nat.eqb r 0 then RExc (Exn EcWrite name) w1
        else c10_pl_write fu en name (skipn r d) w1)
    end
  end.
Definition c10_pl_write_all (en : c10_env) (name : nat) (d : list N) (w : c10_world) : c10_res unit :=
  c10_pl_write (S (length d)) en name d w.

Fixpoint c10_pl_write_chunks (en : c10_env) (name : nat) (chunks : list (list N)) (w : c10_world) : c10_res unit :=
  match chunks with
  | [] => ROk tt w
  | d :: tl => c10_bind (c10_pl_write_all en name d w) (fun _ w1 => c10_pl_write_chunks en name tl w1)
  end.

(* finish: fflush; pinned tree: only EBADF is looked at (cannot happen here) *)
Definition c10_pl_finish (en : c10_env) (name : nat) (w : c10_world) : c10_res unit :=
  c10_bind (c10_fflush en name w) (fun ok w1 =>
    if ck_finish (en_ck en) && (negb ok || c10_ferror w1 name) then RExc (Exn EcFlush name) w1
    else ROk tt w1).

(* Pl_stack::Popper::~Popper -> Pl_stack::pop -> top->finish(), which reaches Pl_StdioFile::finish through the MD5
   pipeline.  A destructor is noexcept: if finish() throws there, std::terminate is called (pinned tree: finish never
   throws; c4309d60: it can; D2b: the destructor swallows it, the sticky error indicator is still there for
   Writer::write's own finish) *)
Definition c10_pop_finish (en : c10_env) (name : nat) (w : c10_world) : c10_res unit :=
  c10_bind (c10_fflush en name w) (fun ok w1 =>
    if ck_finish (en_ck en) && (negb ok || c10_ferror w1 name) then
      if ck_popper (en_ck en) then ROk tt w1 else RDead (c10_set_aborted w1)
    else ROk tt w1).
Fixpoint c10_pop_finish_n (n : nat) (en : c10_env) (name : nat) (w : c10_world) : c10_res unit :=
  match n with
  | O => ROk tt w
  | S k => c10_bind (c10_pop_finish en name w) (fun _ w1 => c10_pop_finish_n k en name w1)
  end.

(* writeStandard's pp_md5 goes out of scope when the function returns AND when an exception (Pl_StdioFile::write's)
   unwinds through it: the destructor runs in both cases; an exception in flight keeps propagating unless the
   destructor itself terminates the process *)
Definition c10_with_pops (en : c10_env) (name : nat) (r : c10_res unit) : c10_res unit :=
  match r with
  | ROk _ w => c10_pop_finish_n (en_md5_pops en) en name w
  | RExc e w =>
    match c10_pop_finish_n (en_md5_pops en) en name w with
    | ROk _ w' => RExc e w'
    | RExc _ w' => RExc e w'
    | RDead w' => RDead w'
    end
  | RDead w => RDead w
  end.

(* a destructor that closes the stream if it is still open, result ignored; an exception in flight
   keeps propagating; a kill inside the destructor is a kill *)
Definition c10_dtor_close {A} (en : c10_env) (name : nat) (r : c10_res A) : c10_res A :=
  match r with
  | ROk a w => if c10_is_open w name then
                 match c10_fclose en name w with ROk _ w' => ROk a w' | RExc e w' => RExc e w' | RDead w' => RDead w' end
               else ROk a w
  | RExc e w => if c10_is_open w name then
                  match c10_fclose en name w with ROk _ w' => RExc e w' | RExc _ w' => RExc e w' | RDead w' => RDead w' end
                else RExc e w
  | RDead w => RDead w
  end.

(* ---- QPDFWriter to a named file: setOutputFilename (safe_fopen "wb+"), write(), ~Writer *)
Definition c10_writer_file (en : c10_env) (name : nat) (chunks : list (list N)) (w : c10_world) : c10_res unit :=
  c10_bind (c10_fopen en name w) (fun ok w1 =>
    if negb ok then RExc (Exn EcOpen name) w1 else
    c10_dtor_close en name
      (c10_bind (c10_with_pops en name (c10_pl_write_chunks en name chunks w1)) (fun _ w2 =>
       c10_bind (c10_pl_finish en name w2) (fun _ w3 =>
       c10_bind (c10_fclose en name w3) (fun okc w4 =>
         if ck_wclose (en_ck en) && negb okc then RExc (Exn EcClose name) w4 else ROk tt w4))))).

(* ---- std::cout through Pl_OStream.  name 0 is stdout. *)
Definition c10_stdout := 0.
(* write: os.write(): with badbit the sentry fails and nothing is called; a short sputn sets badbit *)
Definition c10_os_write (en : c10_env) (d : list N) (w : c10_world) : c10_res unit :=
  match d with
  | [] => ROk tt w
  | _ =>
    if cw_cout_bad w then ROk tt w else
    c10_bind (c10_fwrite en c10_stdout d w) (fun r w1 =>
      ROk tt (if r <? length d then c10_set_bad w1 else w1))
  end.
(* ostream::flush(): an unformatted output function (LWG 581): with badbit the sentry fails and nothing
   is called; a failing pubsync sets badbit *)
Definition c10_os_flush (en : c10_env) (w : c10_world) : c10_res unit :=
  if cw_cout_bad w then ROk tt w else
  c10_bind (c10_fflush en c10_stdout w) (fun ok w1 => ROk tt (if ok then w1 else c10_set_bad w1)).
Definition c10_os_finish (en : c10_env) (w : c10_world) : c10_res unit :=
  c10_bind (c10_os_flush en w) (fun _ w2 =>
    if ck_ostream (en_ck en) && cw_cout_bad w2 then RExc (Exn EcStdout c10_stdout) w2 else ROk tt w2).
(* std::cerr is tied to std::cout: every insertion into cerr (a warning, the final messages) first
   calls cout.flush() when cout is good; nobody looks at the result *)
Fixpoint c10_os_tie_n (n : nat) (en : c10_env) (w : c10_world) : c10_res unit :=
  match n with
  | O => ROk tt w
  | S k => c10_bind (c10_os_flush en w) (fun _ w1 => c10_os_tie_n k en w1)
  end.
Inductive c10_oitem :=
| OChunk (d : list N)     (* Pl_OStream::write *)
| OTie.                   (* an insertion into cerr while the output is being produced *)
Fixpoint c10_os_items (en : c10_env) (items : list c10_oitem) (w : c10_world) : c10_res unit :=
  match items with
  | [] => ROk tt w
  | OChunk d :: tl => c10_bind (c10_os_write en d w) (fun _ w1 => c10_os_items en tl w1)
  | OTie :: tl => c10_bind (c10_os_flush en w) (fun _ w1 => c10_os_items en tl w1)
  end.
Fixpoint c10_os_finish_n (n : nat) (en : c10_env) (w : c10_world) : c10_res unit :=
  match n with
  | O => ROk tt w
  | S k => c10_bind (c10_os_finish en w) (fun _ w1 => c10_os_finish_n k en w1)
  end.

(* ---- qpdf JSON output: main file + one file per stream *)
Inductive c10_jitem :=
| JChunk (d : list N)                    (* a Pl_StdioFile::write on the main file *)
| JStreamOpen (name : nat)               (* writeJSONStreamFile: safe_fopen(prefix-id, "wb"), Pl_StdioFile *)
| JStreamChunk (name : nat) (d : list N) (* stream.writeStreamJSON piping data into it (main-file writes interleave) *)
| JStreamEnd (name : nat).               (* f_pl.finish(); fclose(f) *)

(* no destructor owns the stream file: an exception leaks it and exit() flushes it *)
Fixpoint c10_json_items (en : c10_env) (main : nat) (items : list c10_jitem) (w : c10_world) : c10_res unit :=
  match items with
  | [] => ROk tt w
  | JChunk d :: tl => c10_bind (c10_pl_write_all en main d w) (fun _ w1 => c10_json_items en main tl w1)
  | JStreamOpen s :: tl =>
    c10_bind (c10_fopen en s w) (fun ok w1 =>
      if negb ok then RExc (Exn EcOpen s) w1 else c10_json_items en main tl w1)
  | JStreamChunk s d :: tl => c10_bind (c10_pl_write_all en s d w) (fun _ w1 => c10_json_items en main tl w1)
  | JStreamEnd s :: tl =>
    c10_bind (c10_pl_finish en s w) (fun _ w1 =>
    c10_bind (c10_fclose en s w1) (fun okc w2 =>
      if ck_jsclose (en_ck en) && negb okc then RExc (Exn EcClose s) w2 else c10_json_items en main tl w2))
  end.

(* QPDFJob::writeJSON to a named file: FileCloser(safe_fopen "w"), Pl_StdioFile, doJSON; pinned tree:
   nobody calls finish, ~FileCloser fcloses and ignores the result *)
Definition c10_json_file (en : c10_env) (main : nat) (items : list c10_jitem) (w : c10_world) : c10_res unit :=
  c10_bind (c10_fopen en main w) (fun ok w1 =>
    if negb ok then RExc (Exn EcOpen main) w1 else
    c10_dtor_close en main
      (c10_bind (c10_json_items en main items w1) (fun _ w2 =>
        if ck_jclose (en_ck en) then
          c10_bind (c10_pl_finish en main w2) (fun _ w3 =>
          c10_bind (c10_fclose en main w3) (fun okc w4 =>
            if negb okc then RExc (Exn EcClose main) w4 else ROk tt w4))
        else ROk tt w2))).

(* ---- the jobs *)
Inductive c10_scen :=
| ScWrite (out : nat) (chunks : list (list N))                    (* qpdf [--linearize|--qdf] in out *)
| ScSplit (outs : list (nat * list (list N)))                     (* --split-pages: one Writer per file *)
| ScJson (main : nat) (items : list c10_jitem)                     (* --json-output --json-stream-data=file *)
| ScStdout (items : list c10_oitem) (nfinish ntie : nat) (swallow : bool)
    (* qpdf in - ; --show-attachment; JSON to stdout. ntie: cerr insertions of the closing messages.
       swallow: the data is piped by QPDF::pipeStreamData (--show-attachment), whose catch (std::exception&)
       turns an exception of the SINK into a warning about the input file and carries on *)
| ScReplace (inp backup temp : nat) (chunks : list (list N)).     (* --replace-input *)

Fixpoint c10_split (en : c10_env) (outs : list (nat * list (list N))) (w : c10_world) : c10_res unit :=
  match outs with
  | [] => ROk tt w
  | (name, chunks) :: tl => c10_bind (c10_writer_file en name chunks w) (fun _ w1 => c10_split en tl w1)
  end.

(* QPDFJob::writeOutfile with replace_input: write temp (Writer in a block), closeInputSource,
   rename(in, backup), rename(temp, in), then remove(backup) unless there were warnings; a failed
   removal is reported and is not an error *)
Definition c10_replace (en : c10_env) (warn : bool) (inp backup temp : nat) (chunks : list (list N))
           (w : c10_world) : c10_res unit :=
  c10_bind (c10_writer_file en temp chunks w) (fun _ w1 =>
  c10_bind (c10_rename en inp backup w1) (fun ok1 w2 =>
    if negb ok1 then RExc (Exn EcRename inp) w2 else
  c10_bind (c10_rename en temp inp w2) (fun ok2 w3 =>
    if negb ok2 then RExc (Exn EcRename temp) w3 else
    if warn then ROk tt (c10_say w3 DgKept) else
    c10_bind (c10_unlink en backup w3) (fun ok3 w4 =>
      ROk tt (if ok3 then w4 else c10_say w4 DgUnlink))))).

(* the boolean result: the job raised a warning of its own *)
Definition c10_no_warning (r : c10_res unit) : c10_res bool := c10_bind r (fun _ w => ROk false w).
Definition c10_job (en : c10_env) (warn : bool) (sc : c10_scen) (w : c10_world) : c10_res bool :=
  match sc with
  | ScWrite out chunks => c10_no_warning (c10_writer_file en out chunks w)
  | ScSplit outs => c10_no_warning (c10_split en outs w)
  | ScJson main items => c10_no_warning (c10_json_file en main items w)
  | ScStdout items nfin _ swallow =>
    match c10_bind (c10_os_items en items w) (fun _ w1 => c10_os_finish_n nfin en w1) with
    | RExc e w' => if swallow then ROk true w' else RExc e w'
    | r => c10_no_warning r
    end
  | ScReplace inp backup temp chunks => c10_no_warning (c10_replace en warn inp backup temp chunks w)
  end.

Definition c10_uses_stdout (sc : c10_scen) := match sc with ScStdout _ _ _ _ => true | _ => false end.

(* ---- realmain + process exit *)
Record c10_result := mk_result {
  rs_exit : option nat;            (* None: killed *)
  rs_world : c10_world }.

Definition c10_exit_flush_all (w : c10_world) : c10_world :=
  c10_set_dir w (map (fun p => (fst p, sio_exit_flush (snd p))) (cw_dir w)).

(* ios_base::Init::~Init: cout.flush() then wcout.flush() (its own stdio_sync_filebuf over stdout, its own
   state), en_exit_rounds times; both are fflush(stdout) for the shim; then libc's own cleanup *)
Fixpoint c10_exit_rounds (n : nat) (en : c10_env) (wbad : bool) (w : c10_world) : c10_res unit :=
  match n with
  | O => ROk tt w
  | S k =>
    c10_bind (c10_os_flush en w) (fun _ w1 =>
      if wbad then c10_exit_rounds k en wbad w1 else
      c10_bind (c10_fflush en c10_stdout w1) (fun ok w2 => c10_exit_rounds k en (negb ok) w2))
  end.
Definition c10_process_exit (en : c10_env) (sc : c10_scen) (code : nat) (w : c10_world) : c10_result :=
  if c10_uses_stdout sc then
    (* QPDFLogger::Members::~Members (the default logger is a static): p_stdout->finish() then p_stderr->finish(),
       i.e. cout.flush() and cerr.flush(), whose sentry flushes the tied cout again; nobody to report to *)
    match c10_bind (c10_os_tie_n 2 en w) (fun _ w0 => c10_exit_rounds (en_exit_rounds en) en false w0) with
    | ROk _ w1 => mk_result (Some code) (c10_exit_flush_all w1)
    | RExc _ w1 => mk_result (Some code) (c10_exit_flush_all w1)
    | RDead w1 => mk_result None w1
    end
  else mk_result (Some code) (c10_exit_flush_all w).

(* the repaired realmain looks at stdout before choosing the status *)
Definition c10_main_stdout_check (en : c10_env) (sc : c10_scen) (w : c10_world) : c10_res unit :=
  if ck_stdout (en_ck en) && c10_uses_stdout sc then
    c10_bind (c10_fflush en c10_stdout w) (fun ok w1 =>
      if negb ok || c10_ferror w1 c10_stdout || cw_cout_bad w1 then RExc (Exn EcStdout c10_stdout) w1 else ROk tt w1)
  else ROk tt w.

Definition c10_initial (en : c10_env) (sc : c10_scen) (orig : list N) : c10_world :=
  let d0 := match sc with
            | ScStdout _ _ _ _ => [(c10_stdout, sio_new (en_initcap en) true)]
            | ScReplace inp _ _ _ => [(inp, sio_static orig)]
            | _ => []
            end in
  mk_world d0 0 [] [] false false.

Definition c10_closing_ties (sc : c10_scen) : nat := match sc with ScStdout _ _ n _ => n | _ => 0 end.
(* realmain's catch: std::cerr << whoami << ": " << e.what() << '\n' : four insertions *)
Definition c10_catch_ties (sc : c10_scen) : nat := match sc with ScStdout _ _ _ _ => 4 | _ => 0 end.

(* realmain's catch (std::exception&): the message, then EXIT_ERROR *)
Definition c10_fail_exit (en : c10_env) (sc : c10_scen) (e : c10_exn) (w : c10_world) : c10_result :=
  match c10_os_tie_n (c10_catch_ties sc) en (c10_say w (c10_exn_diag e)) with
  | ROk _ w' => c10_process_exit en sc 2 w'
  | RExc _ w' => c10_process_exit en sc 2 w'
  | RDead w' => mk_result None w'
  end.

(* QPDFJob::run + writeQPDF's warning message + getExitCode, under realmain's catch *)
Definition c10_run (en : c10_env) (warn warn_exit0 : bool) (sc : c10_scen) (orig : list N) : c10_result :=
  let w0 := c10_initial en sc orig in
  match c10_bind (c10_job en warn sc w0) (fun extra w1 =>
        let wn := warn || extra in
        (* a warning raised by the job itself prints more (the WARNING line, the closing message); with
           swallow that only happens when cout is already bad, so no further flush is attempted *)
        c10_bind (c10_os_tie_n (c10_closing_ties sc) en (if wn then c10_say w1 DgWarn else w1)) (fun _ w2 =>
        c10_bind (c10_main_stdout_check en sc w2) (fun _ w3 => ROk wn w3))) with
  | ROk wn w => c10_process_exit en sc (if wn && negb warn_exit0 then 3 else 0) w
  | RExc e w => c10_fail_exit en sc e w
  | RDead w => mk_result None w
  end.

(* observations *)
Definition c10_file_of (r : c10_result) (name : nat) : option (list N) :=
  match c10_lookup (cw_dir (rs_world r)) name with
  | Some f => Some (sio_disk f)
  | None => None
  end.
Definition c10_no_fault : nat -> c10_fact := fun _ => FaNone.
(* the exit status a parent process sees: 134 after std::terminate, none after SIGKILL *)
Definition c10_exit_status (r : c10_result) : option nat :=
  if cw_aborted (rs_world r) then Some 134 else rs_exit r.
