(* C08 - proofs about cross-reference STREAMS in the recovery model (File/Recover.v rc_xs_ definitions): when the decoded entry
   data are shorter than /W, /Size and /Index announce, processXRefStream throws, parse() reconstructs, and the
   reconstructed table holds every object of the file (File/RecoverSpec.v, recover_complete). *)
From QV Require Import Base.Bytes File.StrictSyntax File.Recover File.RecoverSpec File.C08Proofs.
Local Open Scope N_scope.

(* the object at `off` is a cross-reference stream - readable dictionary, proper /W, /Size, /Index - whose decoded
   data hold fewer bytes than entry size x number of entries *)
Definition xs_short_at (file : list N) (len off : N) : Prop :=
  exists d data w0 w1 w2 size idx,
    rc_xs_object file len off = XoStream d data /\ rc_xs_W d = Some (w0, w1, w2) /\ rc_xs_size d = Some size /\
    rc_xs_index d size = Some idx /\ (Z.of_N (rc_len data) < Z.of_N (w0 + w1 + w2) * rc_xs_count idx)%Z.

(* what read_xref looks at first: after white space, is the keyword xref + white space there (a table)? *)
Definition xs_table_kw (file : list N) (len off : N) : bool :=
  let r := snd (rc_take_while rc_is_space (if len <=? off then [] else rc_drop off file) []) in
  rc_prefix rc_kw_xref (firstn 6 r) && rc_is_space (nth 4 (firstn 6 r) 0).

(* the size check: fewer bytes than announced is thrown, whatever the number of complete entries that are there *)
Lemma xref_stream_short_data_throws_lemma : forall (esize : N) (nent : Z) (actual : N),
  (Z.of_N actual < Z.of_N esize * nent)%Z -> rc_xs_check esize nent actual = None.
Proof.
  intros esize nent actual H. unfold rc_xs_check.
  destruct (Z.eqb_spec (Z.of_N esize * nent) (Z.of_N actual)) as [E|_]; [lia|].
  destruct (Z.ltb_spec (Z.of_N actual) (Z.of_N esize * nent)); [reflexivity | lia].
Qed.

Lemma xs_section_short maxid recovery file len off st :
  xs_short_at file len off -> rc_xs_section maxid recovery file len off st = XsThrow.
Proof.
  intros [d [data [w0 [w1 [w2 [size [idx [Ho [Hw [Hs [Hi Hlt]]]]]]]]]]].
  unfold rc_xs_section. rewrite Ho, Hw, Hs, Hi.
  rewrite (xref_stream_short_data_throws_lemma _ _ _ Hlt). reflexivity.
Qed.

Lemma read_xref_short f maxid file len off visited st trailer :
  xs_table_kw file len off = false -> xs_short_at file len off ->
  rc_read_xref (S f) maxid file len off visited st trailer = mkXR false st trailer false.
Proof.
  intros Hk Hs. unfold xs_table_kw in Hk. cbn [rc_read_xref].
  destruct (rc_take_while rc_is_space (if len <=? off then [] else rc_drop off file) []) as [sp r].
  cbn [snd] in Hk. rewrite Hk. rewrite (xs_section_short _ _ _ _ _ _ Hs). reflexivity.
Qed.

(* once the table is a reconstructed one, resolving objects does not change it any more *)
Lemma after_parse_table recover file l pc st :
  rs_recon st = true -> rs_table (rc_after_parse recover file l pc st st) = rs_table st.
Proof.
  intros Hr. unfold rc_after_parse.
  assert (RD : forall st0 og, rs_recon st0 = true -> rs_table st0 = rs_table st ->
               let '(s1, _) := rc_resolve_dict recover file l pc st st0 og in
               rs_recon s1 = true /\ rs_table s1 = rs_table st).
  { intros st0 og H0 T0. unfold rc_resolve_dict.
    destruct (rc_pc_hit pc og); [split; assumption|].
    destruct (rc_lookup og (rs_table st0)) as [off|]; [|split; assumption].
    destruct (off =? 0); [cbn; split; assumption|].
    destruct (rc_header_ok file l og off); [split; assumption|].
    rewrite H0. rewrite andb_false_r. cbn. split; auto. }
  destruct (rs_root st) as [root|]; [|reflexivity].
  pose proof (RD st root Hr eq_refl) as R1.
  destruct (rc_resolve_dict recover file l pc st st root) as [st1 rd].
  destruct R1 as [R1 T1].
  destruct rd as [d|]; [|exact T1].
  assert (R2 : forall st2 (b : bool) (rt : option rc_og), rs_recon st2 = true -> rs_table st2 = rs_table st ->
          rs_table (if negb b then mkRS (rs_table st2) (rs_recon st2) (rs_warned st2) true rt
                    else if negb (rs_recon st2) && rc_mismatch file l (rs_table st2)
                         then (if recover then mkRS (rs_table st) true true (rs_fatal st) rt
                               else mkRS (rs_table st2) false true false rt)
                         else mkRS (rs_table st2) (rs_recon st2) (rs_warned st2 || rc_has_zero (rs_table st2)) false rt)
          = rs_table st).
  { intros st2 b rt H2 T2. destruct (negb b); [exact T2|]. rewrite H2. exact T2. }
  destruct (dict_get d rc_n_Pages) as [[ |b0|z0|sp0|s0|nm0|l0|d0|n g]|]; try (cbv iota beta zeta; apply (R2 st1 _ _ R1 T1)).
  pose proof (RD st1 (Z.of_N n, Z.of_N g) R1 T1) as R3.
  destruct (rc_resolve_dict recover file l pc st st1 (Z.of_N n, Z.of_N g)) as [s2 pd].
  destruct R3 as [R3 T3]. cbv iota beta zeta. apply (R2 s2 _ _ R3 T3).
Qed.

Lemma view_recon_table maxid file l sx trailer u :
  r_recon (rc_view_recon maxid file l sx [] trailer u) = true /\
  r_table (rc_view_recon maxid file l sx [] trailer u) = rc_recon_table maxid [] (rc_scan_events file).
Proof.
  unfold rc_view_recon.
  set (r := rc_reconstruct maxid file l [] trailer).
  assert (Tr : r_table r = rc_recon_table maxid [] (rc_scan_events file)) by reflexivity.
  destruct (r_fatal r); [split; [reflexivity | exact Tr]|].
  split; [reflexivity|]. cbn [r_table]. rewrite after_parse_table; [exact Tr | reflexivity].
Qed.

(* the whole view: startxref leads to a cross-reference stream with short data => reconstruction, and the table is
   the reconstructed one; with --suppress-recovery the file is rejected *)
Lemma xref_stream_short_data_view_lemma : forall file : list N,
  let len := rc_len file in
  let maxid := Z.min (rc_int_max - 1) (Z.of_N (len / 3)) in
  let sx := rc_startxref file len in
  (0 < sx)%Z -> xs_table_kw file len (Z.to_N sx) = false -> xs_short_at file len (Z.to_N sx) ->
  r_recon (rc_view true file) = true /\
  r_table (rc_view true file) = rc_recon_table maxid [] (rc_scan_events file) /\
  rc_exit_code (rc_view true file) <> 0 /\ rc_exit_code (rc_view false file) = 2.
Proof.
  intros file len maxid sx Hsx Hk Hs.
  assert (Hle : (sx <=? 0)%Z = false) by (apply Z.leb_gt; exact Hsx).
  assert (V : forall recover, rc_view recover file =
              if recover then rc_view_recon maxid file len sx [] None false else mkRes true false false [] None false).
  { intros recover. unfold rc_view. fold len. fold maxid. fold sx. rewrite Hle.
    rewrite (read_xref_short _ _ _ _ _ _ _ _ Hk Hs). cbn [xr_ok xr_state xr_trailer xr_unsupported x_deleted].
    destruct recover; reflexivity. }
  destruct (view_recon_table maxid file len sx None false) as [R T].
  rewrite (V true), (V false). repeat split; try assumption.
  - apply damage_never_exit0_partial_lemma. right. apply view_recon_warn.
Qed.

(* xref_stream_short_data_reconstructs: a written file (blank prefix, objects with no_lookalike bodies - the
   cross-reference stream is one of them -, quiet tail) whose startxref leads to a cross-reference stream with short
   data is reconstructed, reported, and NO object of the file whose id a table can hold is missing from the table:
   each one is there at the offset of its last definition - however many complete entries the short data still hold *)
Lemma xref_stream_short_data_reconstructs_lemma :
  forall (pre : list N) (objs : list rs_obj) (tail : list N) (o : rs_obj),
  let file := rs_write pre objs tail in
  let len := rc_len file in
  let maxid := Z.min (rc_int_max - 1) (Z.of_N (len / 3)) in
  let sx := rc_startxref file len in
  rs_blank pre = true -> Forall (fun o => rs_wf_obj o = true) objs -> rs_tail_quiet tail = true ->
  (0 < sx)%Z -> xs_table_kw file len (Z.to_N sx) = false -> xs_short_at file len (Z.to_N sx) ->
  In o objs -> rs_valid_id maxid (rs_id o) = true ->
  r_recon (rc_view true file) = true /\ rc_exit_code (rc_view true file) <> 0 /\
  exists off, rc_lookup (rs_id o) (r_table (rc_view true file)) = Some off /\
              rs_last_def (rs_id o) (rs_offsets (N.of_nat (length pre)) objs) None = Some off.
Proof.
  intros pre objs tail o file len maxid sx Hb Hwf Hq Hsx Hk Hs Hin Hv.
  destruct (xref_stream_short_data_view_lemma file Hsx Hk Hs) as [R [T [E _]]].
  split; [exact R|]. split; [exact E|].
  fold len in T. fold maxid in T. rewrite T.
  apply (recover_complete_lemma pre objs tail maxid o Hb Hwf Hq Hin Hv).
Qed.

(* witnesses: PDF 1.5, four objects and the cross-reference stream 5 0 (/W [1 2 1], /Size 6, no filter) *)
Definition c08x_pre : list N := [37; 80; 68; 70; 45; 49; 46; 53; 10].
Definition c08x_body (xs : list N) : list rs_obj :=
  [ mkObj [49] [48] ([60; 60; 32; 47; 84; 121; 112; 101; 32; 47; 67; 97; 116; 97; 108; 111; 103; 32; 47; 80; 97; 103; 101; 115; 32; 50; 32; 48; 32; 82; 32; 62; 62] ++ c08_endobj);
    mkObj [50] [48] ([60; 60; 32; 47; 84; 121; 112; 101; 32; 47; 80; 97; 103; 101; 115; 32; 47; 67; 111; 117; 110; 116; 32; 49; 32; 47; 75; 105; 100; 115; 32; 91; 32; 51; 32; 48; 32; 82; 32; 93; 32; 62; 62] ++ c08_endobj);
    mkObj [51] [48] ([60; 60; 32; 47; 84; 121; 112; 101; 32; 47; 80; 97; 103; 101; 32; 47; 80; 97; 114; 101; 110; 116; 32; 50; 32; 48; 32; 82; 32; 62; 62] ++ c08_endobj);
    mkObj [52] [48] ([60; 60; 32; 47; 77; 97; 114; 107; 101; 114; 32; 49; 32; 62; 62] ++ c08_endobj);
    mkObj [53] [48] (xs ++ c08_endobj) ].
Definition c08x_head (l : list N) : list N :=
  [60; 60; 32; 47; 84; 121; 112; 101; 32; 47; 88; 82; 101; 102; 32; 47; 83; 105; 122; 101; 32; 54; 32; 47; 87; 32; 91; 32; 49; 32; 50; 32; 49; 32; 93; 32; 47; 82; 111; 111; 116; 32; 49; 32; 48; 32; 82; 32; 47; 76; 101; 110; 103; 116; 104; 32] ++ l ++ [32; 62; 62; 10; 115; 116; 114; 101; 97; 109; 10].
Definition c08x_end : list N := [10; 101; 110; 100; 115; 116; 114; 101; 97; 109].
(* all six entries; the last entry cut off; the last two entries and a byte cut off; five bytes too many *)
Definition c08x_ok_xs : list N := c08x_head [50; 52] ++ [0; 0; 0; 255; 1; 0; 9; 0; 1; 0; 58; 0; 1; 0; 117; 0; 1; 0; 164; 0; 1; 0; 195; 0] ++ c08x_end.
Definition c08x_short_xs : list N := c08x_head [50; 48] ++ [0; 0; 0; 255; 1; 0; 9; 0; 1; 0; 58; 0; 1; 0; 117; 0; 1; 0; 164; 0] ++ c08x_end.
Definition c08x_short2_xs : list N := c08x_head [49; 53] ++ [0; 0; 0; 255; 1; 0; 9; 0; 1; 0; 58; 0; 1; 0; 117] ++ c08x_end.
Definition c08x_long_xs : list N := c08x_head [50; 57] ++ [0; 0; 0; 255; 1; 0; 9; 0; 1; 0; 58; 0; 1; 0; 117; 0; 1; 0; 164; 0; 1; 0; 195; 0; 0; 0; 0; 0; 0] ++ c08x_end.
Definition c08x_tail : list N := [115; 116; 97; 114; 116; 120; 114; 101; 102; 10; 49; 57; 53; 10; 37; 37; 69; 79; 70; 10].
Definition c08x_file (xs : list N) : list N := rs_write c08x_pre (c08x_body xs) c08x_tail.
Definition c08x_twin_table : rc_table :=
  [((1, 0)%Z, 9); ((2, 0)%Z, 58); ((3, 0)%Z, 117); ((4, 0)%Z, 164); ((5, 0)%Z, 195)].

(* the intact file is read from its stream (status 0); with the last entry - or the last two and a byte - cut off
   the table is reconstructed and is the twin's, object 4 0 and 5 0 included (status 3; 2 without recovery); five
   bytes too many are a warning only (status 3, no reconstruction) *)
Lemma xref_stream_short_data_instances_lemma :
  r_table (rc_view true (c08x_file c08x_ok_xs)) = c08x_twin_table /\ rc_exit_code (rc_view true (c08x_file c08x_ok_xs)) = 0 /\
  r_table (rc_view true (c08x_file c08x_short_xs)) = c08x_twin_table /\ r_recon (rc_view true (c08x_file c08x_short_xs)) = true /\
  rc_exit_code (rc_view true (c08x_file c08x_short_xs)) = 3 /\ rc_exit_code (rc_view false (c08x_file c08x_short_xs)) = 2 /\
  r_table (rc_view true (c08x_file c08x_short2_xs)) = c08x_twin_table /\ rc_exit_code (rc_view true (c08x_file c08x_short2_xs)) = 3 /\
  r_root (rc_view true (c08x_file c08x_short2_xs)) = Some (1, 0)%Z /\
  r_table (rc_view true (c08x_file c08x_long_xs)) = c08x_twin_table /\ r_recon (rc_view true (c08x_file c08x_long_xs)) = false /\
  rc_exit_code (rc_view true (c08x_file c08x_long_xs)) = 3.
Proof. vm_compute. repeat split. Qed.
