// C16 driver: the real Pl_QPDFTokenizer + ContentNormalizer (private header) from libqpdf.a, and the
// page-content entry points of QPDFObjectHandle (pipePageContents, filterPageContents,
// coalesceContentStreams) on pages built in-process.
#include "drv.hh"
#include <qpdf/ContentNormalizer.hh>
#include <qpdf/Pl_Buffer.hh>
#include <qpdf/Pl_QPDFTokenizer.hh>
#include <qpdf/QPDF.hh>
#include <qpdf/QPDFObjectHandle.hh>
#include <qpdf/QPDFPageDocumentHelper.hh>
#include <qpdf/QPDFTokenizer.hh>
#include <memory>
#include <stdexcept>

namespace {
    char const* c16_tt_names[] = {"bad", "array_close", "array_open", "brace_close", "brace_open", "dict_close",
        "dict_open", "integer", "name", "real", "string", "null", "bool", "word", "eof", "space", "comment",
        "inline_image"};

    std::string buf_string(Pl_Buffer& b) {
        auto p = b.getBufferSharedPointer();
        return std::string(reinterpret_cast<char const*>(p->getBuffer()), p->getSize());
    }

    class Recorder: public QPDFObjectHandle::TokenFilter {
      public:
        std::string out;
        void handleToken(QPDFTokenizer::Token const& t) override {
            int ty = static_cast<int>(t.getType());
            if (!out.empty()) out += ";";
            out += std::string((ty >= 0 && ty < 18) ? c16_tt_names[ty] : "type?") + "," + hex(t.getValue()) + "," +
                hex(t.getRawValue());
        }
    };

    std::vector<std::string> split_streams(std::string const& a) {
        std::vector<std::string> r;
        std::stringstream ss(a); std::string item;
        while (std::getline(ss, item, ',')) r.push_back(unhex(item));
        return r;
    }

    // a one-page document whose /Contents is the array of the given streams (a single stream when single)
    QPDFObjectHandle make_page(QPDF& pdf, std::vector<std::string> const& streams, bool single) {
        pdf.emptyPDF();
        QPDFObjectHandle page = pdf.makeIndirectObject(QPDFObjectHandle::parse(
            "<< /Type /Page /MediaBox [0 0 100 100] /Resources << >> >>"));
        if (single && streams.size() == 1) {
            page.replaceKey("/Contents", pdf.newStream(streams[0]));
        } else {
            std::vector<QPDFObjectHandle> v;
            for (auto const& s: streams) v.push_back(pdf.newStream(s));
            page.replaceKey("/Contents", QPDFObjectHandle::newArray(v));
        }
        QPDFPageDocumentHelper(pdf).addPage(page, false);
        return page;
    }
}

// c16norm <hex> [chunk]  ->  <hex output> <anyBadTokens> <lastTokenWasBad>     (chunk: write() granularity)
static Reg r_c16norm("c16norm", [](std::vector<std::string> const& a) -> std::string {
    std::string in = unhex(a.at(0));
    size_t chunk = a.size() > 1 ? static_cast<size_t>(std::stoul(a[1])) : 0;
    Pl_Buffer buf("out");
    ContentNormalizer norm;
    {
        Pl_QPDFTokenizer tk("normalizer", &norm, &buf);
        if (chunk == 0) {
            tk.write(reinterpret_cast<unsigned char const*>(in.data()), in.size());
        } else {
            for (size_t i = 0; i < in.size(); i += chunk) {
                tk.write(reinterpret_cast<unsigned char const*>(in.data()) + i, std::min(chunk, in.size() - i));
            }
        }
        tk.finish();
    }
    return hex(buf_string(buf)) + " " + (norm.anyBadTokens() ? "1" : "0") + " " + (norm.lastTokenWasBad() ? "1" : "0");
});

// c16toks <hex>  ->  type,value,raw;...   (what a token filter behind Pl_QPDFTokenizer sees)
static Reg r_c16toks("c16toks", [](std::vector<std::string> const& a) -> std::string {
    std::string in = unhex(a.at(0));
    Recorder rec;
    Pl_QPDFTokenizer tk("rec", &rec, nullptr);
    tk.write(reinterpret_cast<unsigned char const*>(in.data()), in.size());
    tk.finish();
    return rec.out.empty() ? "-" : rec.out;
});

// c16pipe <hex,hex,...>  ->  <hex of pipePageContents>
static Reg r_c16pipe("c16pipe", [](std::vector<std::string> const& a) -> std::string {
    QPDF pdf;
    auto page = make_page(pdf, split_streams(a.at(0)), false);
    Pl_Buffer buf("out");
    page.pipePageContents(&buf);
    return hex(buf_string(buf));
});

// c16coalesce <hex,hex,...>  ->  <hex of the single stream after coalesceContentStreams> <is stream>
static Reg r_c16coalesce("c16coalesce", [](std::vector<std::string> const& a) -> std::string {
    QPDF pdf;
    auto page = make_page(pdf, split_streams(a.at(0)), false);
    page.coalesceContentStreams();
    auto c = page.getKey("/Contents");
    if (!c.isStream()) return "notstream";
    auto p = c.getStreamData(qpdf_dl_generalized);
    return hex(std::string(reinterpret_cast<char const*>(p->getBuffer()), p->getSize()));
});

// c16filter <hex,hex,...>  ->  filterPageContents(ContentNormalizer): <hex> <any> <last>
static Reg r_c16filter("c16filter", [](std::vector<std::string> const& a) -> std::string {
    QPDF pdf;
    auto page = make_page(pdf, split_streams(a.at(0)), false);
    Pl_Buffer buf("out");
    ContentNormalizer norm;
    page.filterPageContents(&norm, &buf);
    return hex(buf_string(buf)) + " " + (norm.anyBadTokens() ? "1" : "0") + " " + (norm.lastTokenWasBad() ? "1" : "0");
});
