Base/Bytes.vo Base/Bytes.glob Base/Bytes.v.beautified Base/Bytes.required_vo: Base/Bytes.v 
Base/Bytes.vio: Base/Bytes.v 
Base/Bytes.vos Base/Bytes.vok Base/Bytes.required_vos: Base/Bytes.v 
Struct/NumRange.vo Struct/NumRange.glob Struct/NumRange.v.beautified Struct/NumRange.required_vo: Struct/NumRange.v Base/Bytes.vo
Struct/NumRange.vio: Struct/NumRange.v Base/Bytes.vio
Struct/NumRange.vos Struct/NumRange.vok Struct/NumRange.required_vos: Struct/NumRange.v Base/Bytes.vos
Struct/RangeSpec.vo Struct/RangeSpec.glob Struct/RangeSpec.v.beautified Struct/RangeSpec.required_vo: Struct/RangeSpec.v Base/Bytes.vo Struct/NumRange.vo
Struct/RangeSpec.vio: Struct/RangeSpec.v Base/Bytes.vio Struct/NumRange.vio
Struct/RangeSpec.vos Struct/RangeSpec.vok Struct/RangeSpec.required_vos: Struct/RangeSpec.v Base/Bytes.vos Struct/NumRange.vos
Struct/PageOps.vo Struct/PageOps.glob Struct/PageOps.v.beautified Struct/PageOps.required_vo: Struct/PageOps.v Base/Bytes.vo
Struct/PageOps.vio: Struct/PageOps.v Base/Bytes.vio
Struct/PageOps.vos Struct/PageOps.vok Struct/PageOps.required_vos: Struct/PageOps.v Base/Bytes.vos
Struct/C12Proofs.vo Struct/C12Proofs.glob Struct/C12Proofs.v.beautified Struct/C12Proofs.required_vo: Struct/C12Proofs.v Base/Bytes.vo Struct/NumRange.vo Struct/RangeSpec.vo Struct/PageOps.vo
Struct/C12Proofs.vio: Struct/C12Proofs.v Base/Bytes.vio Struct/NumRange.vio Struct/RangeSpec.vio Struct/PageOps.vio
Struct/C12Proofs.vos Struct/C12Proofs.vok Struct/C12Proofs.required_vos: Struct/C12Proofs.v Base/Bytes.vos Struct/NumRange.vos Struct/RangeSpec.vos Struct/PageOps.vos
