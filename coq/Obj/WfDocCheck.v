(* Executable well-formedness check of a writer-model document: wf_doc_b d = true implies the
   hypothesis wf_doc of the write/read theorem (Obj/C01WfProofs.v: wf_doc_b_sound_lemma). No proofs
   here; total functions only (extracted and run by the harness on the generated documents). *)
From QV Require Import Base.Bytes File.StrictSyntax Obj.Queue Obj.WriterModel.
Local Open Scope N_scope.

Definition wfd_b_mem_N (x : N) (l : list N) : bool := existsb (N.eqb x) l.
Fixpoint wfd_b_nodup_N (l : list N) : bool :=
  match l with [] => true | x :: t => negb (wfd_b_mem_N x t) && wfd_b_nodup_N t end.

Definition wfd_b_mem_key (k : list N) (l : list (list N)) : bool := existsb (list_eqb N.eqb k) l.
Fixpoint wfd_b_nodup_keys (l : list (list N)) : bool :=
  match l with [] => true | k :: t => negb (wfd_b_mem_key k t) && wfd_b_nodup_keys t end.

Definition wfd_b_bytes (s : list N) : bool := forallb (fun b => b <? 256) s.
Definition wfd_b_name (n : list N) : bool := forallb (fun b => negb (b =? 0) && (b <? 256)) n.

(* wf_wobj *)
Fixpoint wfd_b_obj (o : obj) : bool :=
  match o with
  | OReal s => match parse_number s with Some (StReal s') => list_eqb N.eqb s' s | _ => false end
  | OName n => wfd_b_name n
  | OStr s => wfd_b_bytes s
  | OArr l => (fix all (l : list obj) : bool := match l with [] => true | x :: t => wfd_b_obj x && all t end) l
  | ODict d => (fix all (l : list (list N * obj)) : bool :=
                  match l with [] => true | kv :: t => wfd_b_name (fst kv) && wfd_b_obj (snd kv) && all t end) d
  | _ => true
  end.

(* closed (graph_of d) (roots_of d): unique ids, every root and every printed reference has an entry *)
Definition wfd_b_closed (d : doc) : bool :=
  let keys := map fst (d_objects d) in
  wfd_b_nodup_N keys
  && forallb (fun x => wfd_b_mem_N x keys) (roots_of d)
  && forallb (fun kc => forallb (fun y => wfd_b_mem_N y keys) (snd kc)) (graph_of d).

Definition wfd_b_version (v : list N) : bool :=
  match v with
  | [a; c; b] => (c =? 46) && is_digit a && is_digit b
  | _ => false
  end.

Definition wfd_b_root (d : doc) : bool :=
  match find (fun kv => beqb (fst kv) k_Root) (d_trailer d) with
  | Some (_, ORef r) =>
      match find_obj (d_objects d) r with Some _ => negb (is_null_val (d_objects d) (ORef r)) | None => false end
  | _ => false
  end.

Definition wfd_b_size (d : doc) : bool :=
  match find (fun kv => beqb (fst kv) k_Size) (d_trailer d) with
  | Some (_, OInt _) => true
  | _ => false
  end.

Definition wfd_b_k_ID : list N := [73; 68].
Definition wfd_b_k_Prev : list N := [80; 114; 101; 118].
Definition wfd_b_k_XRefStm : list N := [88; 82; 101; 102; 83; 116; 109].

Definition wf_doc_b (d : doc) : bool :=
  let tkeys := map fst (d_trailer d) in
  wfd_b_closed d
  && forallb (fun kv => wfd_b_obj (i_val (snd kv))) (d_objects d)
  && wfd_b_obj (ODict (d_trailer d))
  && forallb (fun kv => match i_stream (snd kv) with
                        | None => true
                        | Some data => match i_val (snd kv) with ODict _ => wfd_b_bytes data | _ => false end
                        end) (d_objects d)
  && wfd_b_version (d_version d)
  && wfd_b_bytes (d_id1 d) && wfd_b_bytes (d_id2 d)
  && wfd_b_root d && wfd_b_size d
  && wfd_b_nodup_keys tkeys
  && negb (wfd_b_mem_key wfd_b_k_ID tkeys)
  && forallb (fun kv => match i_val (snd kv) with ODict dd => wfd_b_nodup_keys (map fst dd) | _ => true end) (d_objects d)
  && negb (wfd_b_mem_key wfd_b_k_Prev tkeys)
  && negb (wfd_b_mem_key wfd_b_k_XRefStm tkeys).
