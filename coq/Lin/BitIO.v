(* BitWriter (libqpdf/BitWriter.cc) over a counting pipeline, on top of the model of
   write_bits (bits_functions.hh) in Filters/Filters.v. A hint table is a sequence of
   writeBits / flush calls; it is represented as a list of operations and run. *)
From QV Require Import Base.Bytes Filters.Filters.
Local Open Scope N_scope.

Inductive bitop := BWr (val bits : N) | BFl.

(* state: ch/bit_offset and the bytes handed to the pipeline so far (reversed) *)
Record bwst := { bs_w : bitwr; bs_out : list N }.
Definition bs_init : bwst := {| bs_w := bw_init; bs_out := [] |}.

(* BitWriter::writeBits : None = std::out_of_range (bits > 32) *)
Definition bs_write (s : bwst) (val bits : N) : option bwst :=
  match write_bits (bs_w s) val bits with
  | None => None
  | Some (w', o) => Some {| bs_w := w'; bs_out := rev_append o (bs_out s) |}
  end.

(* BitWriter::flush : if (bit_offset < 7) write_bits(ch, bit_offset, 0, bit_offset + 1) *)
Definition bs_flush (s : bwst) : option bwst :=
  if bw_off (bs_w s) <? 7 then bs_write s 0 (bw_off (bs_w s) + 1) else Some s.

Fixpoint bs_run (ops : list bitop) (s : bwst) : option bwst :=
  match ops with
  | [] => Some s
  | BWr v b :: t => match bs_write s v b with Some s' => bs_run t s' | None => None end
  | BFl :: t => match bs_flush s with Some s' => bs_run t s' | None => None end
  end.

(* pl::Count::getCount() at this point *)
Definition bs_count (s : bwst) : N := N.of_nat (length (bs_out s)).
Definition bs_bytes (s : bwst) : list N := rev' (bs_out s).

(* BitWriter::writeBitsInt(int val, bits): static_cast<unsigned long long>(val); the callers pass
   non-negative ints, a negative one would be sign-extended to 64 bits *)
Definition ull_of_int (v : Z) : N := Z.to_N (v mod 2 ^ 64)%Z.
