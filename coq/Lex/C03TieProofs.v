(* C03 - tie between the C++ source and the tokenizer model's character classes: the definitions generated on every
   run from the clang AST of util::is_space / is_digit / hex_decode_char / is_hex_digit (libqpdf/qpdf/Util.hh), their
   QUtil:: counterparts (QUtil.cc), is_delimiter, Tokenizer::isSpace and Tokenizer::isDelimiter (QPDFTokenizer.cc) equal
   the hand-written definitions of Lex/TokModel.v on all 256 values of `char` (a byte b is seen by the C++ as the signed
   char lf_char_of_byte b).  Each statement is decided by a 256-case sweep (byte_sweep). *)
From QV Require Import Base.Bytes Lex.TokModel Obj.Unparse.
From Coq Require Import Lia.
From QV Require Import Base.LeafSem Base.LeafSemFacts Gen.Leaf.
Local Open Scope N_scope.

Ltac leaf_sweep f :=
  intros b Hb;
  let H := fresh in
  pose proof (byte_sweep f ltac:(vm_compute; reflexivity) b Hb) as H; cbv beta in H;
  first [ apply Bool.eqb_prop in H; exact H | apply Z.eqb_eq in H; exact H ].

(* util::is_space *)
Lemma util_is_space_src_lemma : forall b, b < 256 -> lf_util_is_space (lf_char_of_byte b) = util_is_space b.
Proof. leaf_sweep (fun b => Bool.eqb (lf_util_is_space (lf_char_of_byte b)) (util_is_space b)). Qed.

(* QUtil::is_space forwards to it *)
Lemma QUtil_is_space_src_lemma : forall b, b < 256 -> lf_QUtil_is_space (lf_char_of_byte b) = util_is_space b.
Proof. leaf_sweep (fun b => Bool.eqb (lf_QUtil_is_space (lf_char_of_byte b)) (util_is_space b)). Qed.

(* util::is_digit / QUtil::is_digit: the comparisons are on the signed char *)
Lemma util_is_digit_src_lemma : forall b, b < 256 -> lf_util_is_digit (lf_char_of_byte b) = util_is_digit b.
Proof. leaf_sweep (fun b => Bool.eqb (lf_util_is_digit (lf_char_of_byte b)) (util_is_digit b)). Qed.

Lemma QUtil_is_digit_src_lemma : forall b, b < 256 -> lf_QUtil_is_digit (lf_char_of_byte b) = util_is_digit b.
Proof. leaf_sweep (fun b => Bool.eqb (lf_QUtil_is_digit (lf_char_of_byte b)) (util_is_digit b)). Qed.

(* util::hex_decode_char / QUtil::hex_decode_char, including the char(...) truncations of the C++ *)
Lemma util_hex_decode_char_src_lemma : forall b, b < 256 -> lf_util_hex_decode_char (lf_char_of_byte b) = hex_decode_char b.
Proof. leaf_sweep (fun b => Z.eqb (lf_util_hex_decode_char (lf_char_of_byte b)) (hex_decode_char b)). Qed.

Lemma QUtil_hex_decode_char_src_lemma : forall b, b < 256 -> lf_QUtil_hex_decode_char (lf_char_of_byte b) = hex_decode_char b.
Proof. leaf_sweep (fun b => Z.eqb (lf_QUtil_hex_decode_char (lf_char_of_byte b)) (hex_decode_char b)). Qed.

(* util::is_hex_digit / QUtil::is_hex_digit: the test the model writes as hex_decode_char b < 16 *)
Lemma util_is_hex_digit_src_lemma : forall b, b < 256 ->
  lf_util_is_hex_digit (lf_char_of_byte b) = (hex_decode_char b <? 16)%Z.
Proof. leaf_sweep (fun b => Bool.eqb (lf_util_is_hex_digit (lf_char_of_byte b)) (hex_decode_char b <? 16)%Z). Qed.

Lemma QUtil_is_hex_digit_src_lemma : forall b, b < 256 ->
  lf_QUtil_is_hex_digit (lf_char_of_byte b) = (hex_decode_char b <? 16)%Z.
Proof. leaf_sweep (fun b => Bool.eqb (lf_QUtil_is_hex_digit (lf_char_of_byte b)) (hex_decode_char b <? 16)%Z). Qed.

(* is_delimiter (static, QPDFTokenizer.cc) and Tokenizer::isDelimiter *)
Lemma is_delimiter_src_lemma : forall b, b < 256 -> lf_is_delimiter (lf_char_of_byte b) = tk_is_delimiter b.
Proof. leaf_sweep (fun b => Bool.eqb (lf_is_delimiter (lf_char_of_byte b)) (tk_is_delimiter b)). Qed.

Lemma Tokenizer_isDelimiter_src_lemma : forall b, b < 256 -> lf_Tokenizer_isDelimiter (lf_char_of_byte b) = tk_is_delimiter b.
Proof. leaf_sweep (fun b => Bool.eqb (lf_Tokenizer_isDelimiter (lf_char_of_byte b)) (tk_is_delimiter b)). Qed.

(* Tokenizer::isSpace *)
Lemma Tokenizer_isSpace_src_lemma : forall b, b < 256 -> lf_Tokenizer_isSpace (lf_char_of_byte b) = tk_is_space b.
Proof. leaf_sweep (fun b => Bool.eqb (lf_Tokenizer_isSpace (lf_char_of_byte b)) (tk_is_space b)). Qed.

(* is_iso_latin1_printable (static, QPDF_String.cc), the test the string printer of Obj/Unparse.v is written with:
   (ch >= 32 && ch <= 126) on the signed char, or the unsigned reading >= 160 *)
Lemma is_iso_latin1_printable_src_lemma : forall b, b < 256 ->
  lf_is_iso_latin1_printable (lf_char_of_byte b) = is_iso_latin1_printable b.
Proof. leaf_sweep (fun b => Bool.eqb (lf_is_iso_latin1_printable (lf_char_of_byte b)) (is_iso_latin1_printable b)). Qed.

(* every char is the signed reading of exactly one byte: the statements above cover the whole parameter range *)
Lemma char_range_covered_lemma : forall c, (-128 <= c < 128)%Z -> exists b, b < 256 /\ lf_char_of_byte b = c.
Proof.
  intros c Hc. exists (Z.to_N (if (c <? 0)%Z then (c + 256)%Z else c)). unfold lf_char_of_byte.
  destruct (Z.ltb_spec c 0).
  - split; [lia|]. destruct (N.ltb_spec (Z.to_N (c + 256)) 128); lia.
  - split; [lia|]. destruct (N.ltb_spec (Z.to_N c) 128); lia.
Qed.
