(* C02 extension: theorems about the model of QPDFWriter's object-stream / cross-reference-stream layout
   (Obj/WriterModelXS.v), for every document. The specification side is the strict reader's decoders
   (File/ReadStrict.v: xstream_entries, be_value, objstm_pairs, parse_obj). *)
From QV Require Import Base.Bytes File.StrictSyntax File.ReadStrict File.WriterArith File.C02Proofs.
From QV Require Import Obj.Queue Obj.WriterModel Obj.WmPrinters Obj.WriterModelXS Obj.C01RoundtripProofs Obj.C01FileProofs.
From Coq Require Import Lia.
Local Open Scope N_scope.

(* =================================================================================================
   1. Eligibility: nothing excluded is ever a member of an object stream *)

Lemma xs_rev'_in : forall (A : Type) (l : list A) x, In x (rev' l) <-> In x l.
Proof. intros A l x. rewrite rev'_rev. symmetry. apply in_rev. Qed.

Lemma xs_walk_sound : forall fuel objs st vis res,
  (forall id, In id res -> xs_excluded objs (xs_lookup objs id) = false) ->
  forall id, In id (xs_walk fuel objs st vis res) -> xs_excluded objs (xs_lookup objs id) = false.
Proof.
  induction fuel as [|f IH]; intros objs st vis res Hres id Hin.
  - cbn [xs_walk] in Hin. apply (proj1 (xs_rev'_in _ _ _)) in Hin. auto.
  - cbn [xs_walk] in Hin. destruct st as [|o st].
    + apply (proj1 (xs_rev'_in _ _ _)) in Hin. auto.
    + destruct o; try (eapply IH; [exact Hres | exact Hin]).
      destruct (existsb (N.eqb id0) vis).
      * eapply IH; [exact Hres | exact Hin].
      * eapply IH; [| exact Hin].
        intros x Hx. destruct (xs_excluded objs (xs_lookup objs id0)) eqn:E; [auto|].
        destruct Hx as [<- | Hx]; auto.
Qed.

Lemma xs_eligible_not_excluded : forall d id, In id (xs_eligible d) ->
  xs_excluded (d_objects d) (xs_lookup (d_objects d) id) = false.
Proof. intros d id. unfold xs_eligible. apply xs_walk_sound. intros x []. Qed.

Lemma xs_assign_fst : forall ids n_per n cur, map fst (xs_assign ids n_per n cur) = ids.
Proof.
  induction ids as [|id t IH]; intros; cbn [xs_assign]; [reflexivity|].
  destruct (n =? n_per); cbn [map fst]; rewrite IH; reflexivity.
Qed.

Lemma xs_insert_in : forall x l y, In y (xs_insert x l) <-> y = x \/ In y l.
Proof.
  induction l as [|h t IH]; intros y; cbn [xs_insert].
  - cbn. intuition.
  - destruct (x <=? h); cbn [In]; [intuition|]. rewrite IH. intuition.
Qed.
Lemma xs_sort_in : forall l y, In y (xs_sort l) <-> In y l.
Proof.
  induction l as [|h t IH]; intros y; [reflexivity|].
  unfold xs_sort in *. cbn [fold_right]. rewrite xs_insert_in, IH. cbn. intuition.
Qed.
Lemma xs_insert_length : forall x l, length (xs_insert x l) = S (length l).
Proof. induction l as [|h t IH]; cbn [xs_insert]; [reflexivity|]. destruct (x <=? h); cbn [length]; [reflexivity | rewrite IH; reflexivity]. Qed.
Lemma xs_sort_length : forall l, length (xs_sort l) = length l.
Proof. induction l as [|h t IH]; [reflexivity|]. unfold xs_sort in *. cbn [fold_right]. rewrite xs_insert_length, IH. reflexivity. Qed.

Lemma xs_group_in : forall asg k m, In m (xs_group asg k) -> In (m, k) asg.
Proof.
  intros asg k m H. unfold xs_group in H. apply (proj1 (xs_sort_in _ _)) in H. apply (proj1 (in_map_iff _ _ _)) in H.
  destruct H as [[a b] [Hm Hf]]. apply (proj1 (filter_In _ _ _)) in Hf. destruct Hf as [Hin Hk]. cbn in *. subst.
  apply N.eqb_eq in Hk. subst. exact Hin.
Qed.

Lemma xs_nth_map_in : forall (A B : Type) (f : A -> list B) l k x, In x (nth k (map f l) []) -> exists a, In a l /\ In x (f a).
Proof.
  induction l as [|a l IH]; intros k x H; destruct k; cbn in H; try contradiction.
  - exists a. split; [left; reflexivity | exact H].
  - destruct (IH _ _ H) as [a' [H1 H2]]. exists a'. split; [right; exact H1 | exact H2].
Qed.

Lemma xs_members_assigned : forall d k m, In m (xs_members (xs_make_plan d) k) ->
  exists j, In (m, j) (xs_asg (xs_make_plan d)).
Proof.
  intros d k m H. unfold xs_members, xs_make_plan in H. cbn [xs_groups] in H.
  apply xs_nth_map_in in H. destruct H as [j [_ H]]. apply xs_group_in in H. exists (N.of_nat j). exact H.
Qed.

Lemma xs_members_eligible : forall d k m, In m (xs_members (xs_make_plan d) k) -> In m (xs_eligible d).
Proof.
  intros d k m H. destruct (xs_members_assigned d k m H) as [j Hj].
  unfold xs_make_plan in Hj. cbn [xs_asg] in Hj.
  apply (in_map fst) in Hj. rewrite xs_assign_fst in Hj. exact Hj.
Qed.

(* No stream and no signature dictionary is a member of an object stream (for every document, every stream). *)
Lemma xs_no_excluded_member_lemma : forall d k m, In m (xs_members (xs_make_plan d) k) ->
  i_stream (xs_lookup (d_objects d) m) = None /\ xs_is_sig (d_objects d) (i_val (xs_lookup (d_objects d) m)) = false.
Proof.
  intros d k m H. pose proof (xs_eligible_not_excluded d m (xs_members_eligible d k m H)) as E.
  unfold xs_excluded in E. destruct (i_stream (xs_lookup (d_objects d) m)); [discriminate|]. split; [reflexivity | exact E].
Qed.

(* =================================================================================================
   2. At most 100 members per stream *)

Definition xs_count (j : N) (l : list (N * N)) : N := N.of_nat (length (filter (fun p => snd p =? j) l)).

Lemma xs_assign_ge : forall ids n_per n cur p, In p (xs_assign ids n_per n cur) -> cur <= snd p.
Proof.
  induction ids as [|id t IH]; intros n_per n cur p H; cbn [xs_assign] in H; [contradiction|].
  destruct (n =? n_per); cbn [In] in H; destruct H as [<- | H]; cbn [snd]; try lia; apply IH in H; lia.
Qed.

Lemma xs_filter_none : forall (A : Type) (f : A -> bool) l, (forall x, In x l -> f x = false) -> filter f l = [].
Proof.
  induction l as [|a l IH]; intros H; [reflexivity|]. cbn [filter]. rewrite (H a (or_introl eq_refl)).
  apply IH. intros x Hx. apply H. right. exact Hx.
Qed.

Lemma xs_count_zero : forall ids n_per n cur j, j < cur -> xs_count j (xs_assign ids n_per n cur) = 0.
Proof.
  intros ids n_per n cur j Hj. unfold xs_count. rewrite xs_filter_none; [reflexivity|].
  intros p Hp. apply xs_assign_ge in Hp. apply N.eqb_neq. lia.
Qed.

Lemma xs_count_cons : forall j p l, xs_count j (p :: l) = (if snd p =? j then 1 else 0) + xs_count j l.
Proof. intros j p l. unfold xs_count. cbn [filter]. destruct (snd p =? j); cbn [length]; lia. Qed.

Lemma xs_assign_count : forall ids n_per n cur j, 0 < n_per -> n <= n_per ->
  xs_count j (xs_assign ids n_per n cur) + (if j =? cur then n else 0) <= n_per.
Proof.
  induction ids as [|id t IH]; intros n_per n cur j Hp Hn; cbn [xs_assign].
  - unfold xs_count. cbn. destruct (j =? cur); lia.
  - destruct (n =? n_per) eqn:E.
    + apply N.eqb_eq in E. subst n. rewrite xs_count_cons. cbn [snd].
      assert (H1 : 0 + 1 <= n_per) by lia.
      pose proof (IH n_per (0 + 1) (cur + 1) j Hp H1) as IH1.
      destruct (j =? cur) eqn:Ej.
      * apply N.eqb_eq in Ej. subst j.
        rewrite xs_count_zero by lia.
        destruct (cur + 1 =? cur) eqn:E2; [apply N.eqb_eq in E2; lia | lia].
      * destruct (cur + 1 =? j) eqn:E2.
        -- apply N.eqb_eq in E2. subst j. rewrite N.eqb_refl in IH1. lia.
        -- rewrite N.eqb_sym in E2. rewrite E2 in IH1. lia.
    + apply N.eqb_neq in E. rewrite xs_count_cons. cbn [snd].
      assert (H1 : n + 1 <= n_per) by lia.
      pose proof (IH n_per (n + 1) cur j Hp H1) as IH1.
      destruct (j =? cur) eqn:Ej.
      * apply N.eqb_eq in Ej. subst j. rewrite N.eqb_refl. lia.
      * rewrite N.eqb_sym in Ej. rewrite Ej. lia.
Qed.

(* At most 100 members in every object stream. *)
Lemma xs_members_le_100_lemma : forall d k, (length (xs_members (xs_make_plan d) k) <= 100)%nat.
Proof.
  intros d k. unfold xs_members, xs_make_plan. cbn [xs_groups].
  set (el := xs_eligible d). set (K := N.of_nat (length el)).
  set (asg := xs_assign el (n_per_stream K) 0 0).
  assert (G : forall j, (length (xs_group asg j) <= 100)%nat).
  { intros j. unfold xs_group. rewrite xs_sort_length, map_length.
    destruct (N.eq_dec K 0) as [E0|E0].
    - assert (el = []) by (destruct el; [reflexivity | unfold K in E0; cbn in E0; lia]).
      unfold asg. rewrite H. cbn. lia.
    - destruct (ostream_le_100_lemma K ltac:(lia)) as [H100 [_ Hpos]].
      pose proof (xs_assign_count el (n_per_stream K) 0 0 j Hpos ltac:(lia)) as Hc.
      unfold xs_count in Hc. fold asg in Hc. destruct (j =? 0); lia. }
  set (l := seq 0 (N.to_nat (n_object_streams K))). clearbody l.
  set (kk := N.to_nat k). clearbody kk. revert kk.
  induction l as [|a l IHl]; intros k0; destruct k0; cbn [map nth length]; try lia.
  - apply G.
  - apply IHl.
Qed.

(* =================================================================================================
   3. Cross-reference stream entries: what writeXRefStream writes is what the strict reader's field decoder reads *)

Definition xs_to_xentry (e : xs_xent) : xentry :=
  match e with XsFree => XFree 0 0 | XsOff o => XInUse o 0 | XsIn s i => XComp s i end.
Definition xs_fits (f1 f2 : nat) (e : xs_xent) : Prop :=
  match e with
  | XsFree => True
  | XsOff o => o < 256 ^ N.of_nat f1
  | XsIn s i => s < 256 ^ N.of_nat f1 /\ i < 256 ^ N.of_nat f2
  end.
Fixpoint xs_numbered (num : N) (es : list xs_xent) : list (N * xentry) :=
  match es with [] => [] | e :: t => (num, xs_to_xentry e) :: xs_numbered (num + 1) t end.

Lemma xs_take_n_app : forall (a b : list N), take_n (length a) (a ++ b) = Some (a, b).
Proof. induction a as [|x a IH]; intros b; cbn [length take_n app]; [reflexivity|]. rewrite IH. reflexivity. Qed.

Lemma xs_wb_length : forall v w, length (write_binary v w) = w.
Proof. intros v w. unfold write_binary. rewrite rev'_rev, rev_length. apply wbr_length. Qed.

Lemma xs_wb_take : forall v w rest, take_n w (write_binary v w ++ rest) = Some (write_binary v w, rest).
Proof. intros v w rest. rewrite <- (xs_wb_length v w) at 1. apply xs_take_n_app. Qed.

Lemma xs_pow_pos : forall w, 0 < 256 ^ N.of_nat w.
Proof. intros w. apply N.neq_0_lt_0. apply N.pow_nonzero. discriminate. Qed.

Lemma xs_wb_zero : forall w, be_value (write_binary 0 w) = 0.
Proof. intros w. apply (write_binary_read_lemma 0 w). apply xs_pow_pos. Qed.

Lemma xs_wb_value : forall v w, v < 256 ^ N.of_nat w -> be_value (write_binary v w) = v.
Proof. intros v w H. apply (write_binary_read_lemma v w H). Qed.

Lemma xs_entries_decode : forall es num rest acc f1 f2, Forall (xs_fits f1 f2) es ->
  xstream_entries (length es) num 1 f1 f2 (flat_map (xs_enc_entry f1 f2) es ++ rest) acc
  = Some (rev (xs_numbered num es) ++ acc, rest).
Proof.
  induction es as [|e es IH]; intros num rest acc f1 f2 Hf; [reflexivity|].
  inversion Hf as [|? ? He Hes]; subst.
  cbn [length flat_map xs_numbered rev]. rewrite <- !app_assoc. cbn [xstream_entries].
  destruct e as [|off|stm idx]; unfold xs_enc_entry; rewrite <- !app_assoc; rewrite !xs_wb_take.
  - change (be_value (write_binary 0 1)) with 0. cbn [N.eqb]. rewrite !xs_wb_zero.
    rewrite IH by exact Hes. cbn [xs_to_xentry app]. reflexivity.
  - change (be_value (write_binary 1 1)) with 1. cbn [N.eqb Pos.eqb]. rewrite xs_wb_zero.
    cbn [xs_fits] in He. rewrite (xs_wb_value off f1 He).
    rewrite IH by exact Hes. cbn [xs_to_xentry app]. reflexivity.
  - change (be_value (write_binary 2 1)) with 2. cbn [N.eqb Pos.eqb].
    cbn [xs_fits] in He. destruct He as [H1 H2]. rewrite (xs_wb_value stm f1 H1), (xs_wb_value idx f2 H2).
    rewrite IH by exact Hes. cbn [xs_to_xentry app]. reflexivity.
Qed.

(* the strict reader's /Index walk over the data of a stream without /Index (one range 0 .. Size - 1, no byte left) *)
Lemma xs_index_decode : forall es f1 f2, Forall (xs_fits f1 f2) es ->
  xstream_index 3 [SpInt 0; SpInt (Z.of_nat (length es))] 1 f1 f2 (flat_map (xs_enc_entry f1 f2) es) []
  = Some (rev (xs_numbered 0 es)).
Proof.
  intros es f1 f2 Hf. cbn [xstream_index]. change (0 <? 0)%Z with false. cbn [orb].
  destruct (Z.of_nat (length es) <? 0)%Z eqn:E; [apply Z.ltb_lt in E; lia|].
  rewrite Nat2Z.id. change (Z.to_N 0) with 0.
  rewrite <- (app_nil_r (flat_map (xs_enc_entry f1 f2) es)).
  rewrite xs_entries_decode by exact Hf. rewrite app_nil_r. reflexivity.
Qed.

(* =================================================================================================
   4. The layout computed by xs_layout_of, with the concrete printers *)

Definition xs_P (d : doc) : xs_plan := xs_make_plan d.
Definition xs_Q (d : doc) : xs_qstate := xs_run_queue d (xs_P d).
Definition xs_items (d : doc) : list xs_item := rev' (xs_written_rev (xs_Q d)).
Definition xs_renf (d : doc) (x : N) : N := match lookup_num (xs_ren (xs_Q d)) x with Some n => n | None => 0 end.
Definition xs_srenf (d : doc) (k : N) : N := match lookup_num (xs_sren (xs_Q d)) k with Some n => n | None => 0 end.
Definition xs_hdr (d : doc) : list N := header (xs_version (d_version d)).
Definition xs_E (d : doc) : list N * list (N * xs_xent) * N :=
  xs_emit wm_unparse_string wm_unparse_name (d_objects d) (xs_P d) (xs_renf d) (xs_srenf d) (xs_items d)
          (N.of_nat (length (xs_hdr d))).
Definition xs_L (d : doc) : xs_layout := xs_layout_of wm_unparse_string wm_unparse_name d.
Definition xs_chunk' (d : doc) : xs_item -> list N :=
  xs_chunk wm_unparse_string wm_unparse_name (d_objects d) (xs_P d) (xs_renf d) (xs_srenf d).

Lemma xs_L_eq : forall d,
  xs_L d = {| xs_l_plan := xs_P d; xs_l_items := xs_items d; xs_l_ren := xs_renf d; xs_l_sren := xs_srenf d;
              xs_l_hdr := xs_hdr d; xs_l_bodies := fst (fst (xs_E d)); xs_l_table := snd (fst (xs_E d));
              xs_l_xref_id := xs_next (xs_Q d); xs_l_xref_off := snd (xs_E d);
              xs_l_f1 := f1_size (snd (xs_E d)) 0 (xs_next (xs_Q d)); xs_l_f2 := bytes_needed (xs_max_index (xs_P d));
              xs_l_entries := XsFree :: map (fun j => xs_lookup_ent (snd (fst (xs_E d))) (N.of_nat j))
                                            (seq 1 (N.to_nat (xs_next (xs_Q d)) - 1)) ++ [XsOff (snd (xs_E d))] |}.
Proof.
  intros d. unfold xs_L, xs_layout_of. fold (xs_P d). fold (xs_Q d). fold (xs_items d). fold (xs_hdr d).
  change (fun x : N => match lookup_num (xs_ren (xs_Q d)) x with Some n => n | None => 0 end) with (xs_renf d).
  change (fun k : N => match lookup_num (xs_sren (xs_Q d)) k with Some n => n | None => 0 end) with (xs_srenf d).
  fold (xs_E d). destruct (xs_E d) as [[b t] p]. reflexivity.
Qed.

(* ---- xs_emit: positions ---- *)
Section Emit.
  Variable objs : list (N * indirect).
  Variable p : xs_plan.
  Variable ren sren : N -> N.
  Let emit := xs_emit wm_unparse_string wm_unparse_name objs p ren sren.
  Let chunk := xs_chunk wm_unparse_string wm_unparse_name objs p ren sren.

  Lemma xs_index_entries_in : forall stm ms i0 n e, In (n, e) (xs_index_entries ren stm ms i0) ->
    exists j m, nth_error ms j = Some m /\ n = ren m /\ e = XsIn stm (i0 + N.of_nat j).
  Proof.
    induction ms as [|m ms IH]; intros i0 n e H; cbn [xs_index_entries In] in H; [contradiction|].
    destruct H as [H | H].
    - injection H as <- <-. exists O, m. cbn. rewrite N.add_0_r. auto.
    - destruct (IH _ _ _ H) as [j [m' [H1 [H2 H3]]]]. exists (S j), m'. cbn [nth_error]. repeat split; auto.
      rewrite H3. f_equal. lia.
  Qed.

  Lemma xs_emit_bytes : forall items pos, fst (fst (emit items pos)) = concat (map chunk items).
  Proof.
    induction items as [|it rest IH]; intros pos; [reflexivity|].
    unfold emit in *. cbn [xs_emit map concat].
    specialize (IH (pos + N.of_nat (length (xs_chunk wm_unparse_string wm_unparse_name objs p ren sren it)))).
    destruct (xs_emit wm_unparse_string wm_unparse_name objs p ren sren rest _) as [[b t] e]. cbn [fst] in *. rewrite IH. reflexivity.
  Qed.

  Lemma xs_emit_end : forall items pos, snd (emit items pos) = pos + N.of_nat (length (fst (fst (emit items pos)))).
  Proof.
    induction items as [|it rest IH]; intros pos; [cbn; lia|].
    unfold emit in *. cbn [xs_emit].
    specialize (IH (pos + N.of_nat (length (xs_chunk wm_unparse_string wm_unparse_name objs p ren sren it)))).
    destruct (xs_emit wm_unparse_string wm_unparse_name objs p ren sren rest _) as [[b t] e]. cbn [fst snd] in *.
    rewrite IH, app_length. lia.
  Qed.

  (* the offset recorded for an uncompressed object is the position of its chunk in the output *)
  Lemma xs_emit_off : forall items pos n off, In (n, XsOff off) (snd (fst (emit items pos))) ->
    exists pre it post, items = pre ++ it :: post /\ off = pos + N.of_nat (length (concat (map chunk pre)))
                        /\ n = match it with XsObj id => ren id | XsStm k => sren k end.
  Proof.
    induction items as [|it rest IH]; intros pos n off H; [cbn in H; contradiction|].
    unfold emit in *. cbn [xs_emit] in H.
    specialize (IH (pos + N.of_nat (length (xs_chunk wm_unparse_string wm_unparse_name objs p ren sren it))) n off).
    destruct (xs_emit wm_unparse_string wm_unparse_name objs p ren sren rest _) as [[b t] e]. cbn [fst snd] in *.
    apply in_app_or in H. destruct H as [H | H].
    - exists [], it, rest. cbn [app map concat length]. destruct it as [id | k]; cbn [xs_item_entries In] in H.
      + destruct H as [H | []]. injection H as <- <-. repeat split; lia.
      + apply in_app_or in H. destruct H as [H | H].
        * apply xs_index_entries_in in H. destruct H as [j [m [_ [_ H]]]]. discriminate.
        * destruct H as [H | []]. injection H as <- <-. repeat split; lia.
    - destruct (IH H) as [pre [it' [post [H1 [H2 H3]]]]]. exists (it :: pre), it', post. subst rest.
      repeat split; [| exact H3]. cbn [map concat]. rewrite app_length. fold chunk in H2. fold chunk. lia.
  Qed.

  Lemma xs_emit_in : forall items pos n stm idx, In (n, XsIn stm idx) (snd (fst (emit items pos))) ->
    exists k m, In (XsStm k) items /\ stm = sren k /\ nth_error (xs_members p k) (N.to_nat idx) = Some m /\ n = ren m.
  Proof.
    induction items as [|it rest IH]; intros pos n stm idx H; [cbn in H; contradiction|].
    unfold emit in *. cbn [xs_emit] in H.
    specialize (IH (pos + N.of_nat (length (xs_chunk wm_unparse_string wm_unparse_name objs p ren sren it))) n stm idx).
    destruct (xs_emit wm_unparse_string wm_unparse_name objs p ren sren rest _) as [[b t] e]. cbn [fst snd] in *.
    apply in_app_or in H. destruct H as [H | H].
    - destruct it as [id | k]; cbn [xs_item_entries In] in H.
      + destruct H as [H | []]. discriminate.
      + apply in_app_or in H. destruct H as [H | H].
        * apply xs_index_entries_in in H. destruct H as [j [m [H1 [H2 H3]]]]. injection H3 as E1 E2. subst stm idx.
          exists k, m. rewrite ?N.add_0_l, Nat2N.id. repeat split; auto. left. reflexivity.
        * destruct H as [H | []]. discriminate.
    - destruct (IH H) as [k [m [H1 H2]]]. exists k, m. split; [right; exact H1 | exact H2].
  Qed.
End Emit.

(* ---- numbering: every number handed out is below next_objid ---- *)
Definition xs_inv (s : xs_qstate) : Prop :=
  1 <= xs_next s
  /\ (forall x n, lookup_num (xs_ren s) x = Some n -> 1 <= n < xs_next s)
  /\ (forall k n, lookup_num (xs_sren s) k = Some n -> 1 <= n < xs_next s).

Lemma xs_number_members_spec : forall ms next ren ren' next',
  xs_number_members ms next ren = (ren', next') ->
  next' = next + N.of_nat (length ms)
  /\ forall x n, lookup_num ren' x = Some n -> lookup_num ren x = Some n \/ next <= n < next'.
Proof.
  induction ms as [|m ms IH]; intros next ren ren' next' H; cbn [xs_number_members] in H.
  - injection H as <- <-. split; [cbn; lia | auto].
  - apply IH in H. destruct H as [H1 H2]. split; [cbn [length]; lia|].
    intros x n Hx. apply H2 in Hx. destruct Hx as [Hx | Hx]; [| right; lia].
    cbn [lookup_num] in Hx. destruct (m =? x); [injection Hx as <-; right; cbn [length] in H1; lia | left; exact Hx].
Qed.

Lemma xs_enqueue_inv : forall p s x, xs_inv s -> xs_inv (xs_enqueue p s x).
Proof.
  intros p s x [H1 [H2 H3]]. unfold xs_enqueue.
  destruct (lookup_num (xs_ren s) x); [exact (conj H1 (conj H2 H3))|].
  destruct (lookup_num (xs_asg p) x) as [k|].
  - destruct (lookup_num (xs_sren s) k); [exact (conj H1 (conj H2 H3))|].
    destruct (xs_number_members (xs_members p k) (xs_next s + 1) (xs_ren s)) as [ren' next'] eqn:E.
    apply xs_number_members_spec in E. destruct E as [E1 E2].
    cbv iota beta. unfold xs_inv. cbn [xs_next xs_ren xs_sren]. split; [lia|]. split.
    + intros y n Hy. apply E2 in Hy. destruct Hy as [Hy | Hy]; [apply H2 in Hy; lia | lia].
    + intros j n Hj. cbn [lookup_num] in Hj. destruct (k =? j); [injection Hj as <-; lia | apply H3 in Hj; lia].
  - unfold xs_inv. cbn [xs_next xs_ren xs_sren]. split; [lia|]. split.
    + intros y n Hy. cbn [lookup_num] in Hy. destruct (x =? y); [injection Hy as <-; lia | apply H2 in Hy; lia].
    + intros j n Hj. apply H3 in Hj. lia.
Qed.

Lemma xs_fold_enqueue_inv : forall p l s, xs_inv s -> xs_inv (fold_left (xs_enqueue p) l s).
Proof. induction l as [|x l IH]; intros s H; [exact H|]. cbn [fold_left]. apply IH. apply xs_enqueue_inv. exact H. Qed.

Lemma xs_q_loop_inv : forall fuel g p s, xs_inv s -> xs_inv (xs_q_loop fuel g p s).
Proof.
  induction fuel as [|f IH]; intros g p s H; [exact H|]. cbn [xs_q_loop].
  destruct (xs_queue s) as [|it rest]; [exact H|]. apply IH. apply xs_fold_enqueue_inv.
  destruct H as [H1 [H2 H3]]. exact (conj H1 (conj H2 H3)).
Qed.

Lemma xs_Q_inv : forall d, xs_inv (xs_Q d).
Proof.
  intros d. unfold xs_Q, xs_run_queue. apply xs_q_loop_inv. apply xs_fold_enqueue_inv.
  unfold xs_inv. cbn [xs_next xs_ren xs_sren lookup_num]. split; [lia|]. split; intros ? ? HH; discriminate.
Qed.

Lemma xs_renf_lt : forall d x, xs_renf d x < xs_next (xs_Q d).
Proof.
  intros d x. destruct (xs_Q_inv d) as [H1 [H2 _]]. unfold xs_renf.
  destruct (lookup_num (xs_ren (xs_Q d)) x) eqn:E; [apply H2 in E; lia | lia].
Qed.
Lemma xs_srenf_lt : forall d k, xs_srenf d k < xs_next (xs_Q d).
Proof.
  intros d k. destruct (xs_Q_inv d) as [H1 [_ H3]]. unfold xs_srenf.
  destruct (lookup_num (xs_sren (xs_Q d)) k) eqn:E; [apply H3 in E; lia | lia].
Qed.

(* ---- the index field ---- *)
Lemma xs_fold_max_ge : forall (groups : list (list N)) m g, In g groups ->
  N.of_nat (length g) <= fold_left (fun m g => N.max m (N.of_nat (length g))) groups m.
Proof.
  induction groups as [|h t IH]; intros m g H; [contradiction|]. cbn [fold_left]. destruct H as [<- | H].
  - clear IH. generalize (N.max m (N.of_nat (length h))) (N.le_max_r m (N.of_nat (length h))).
    induction t as [|a t IHt]; intros v Hv; cbn [fold_left]; [exact Hv|]. apply IHt. lia.
  - apply IH. exact H.
Qed.
Lemma xs_fold_max_le : forall (groups : list (list N)) m b, m <= b -> (forall g, In g groups -> N.of_nat (length g) <= b) ->
  fold_left (fun m g => N.max m (N.of_nat (length g))) groups m <= b.
Proof.
  induction groups as [|h t IH]; intros m b Hm H; [exact Hm|]. cbn [fold_left]. apply IH.
  - pose proof (H h (or_introl eq_refl)). lia.
  - intros g Hg. apply H. right. exact Hg.
Qed.

Lemma xs_nth_in_or_nil : forall (A : Type) (l : list (list A)) k, nth k l [] = [] \/ In (nth k l []) l.
Proof. intros A l k. destruct (nth_in_or_default k l []) as [H | H]; [right; exact H | left; exact H]. Qed.

Lemma xs_index_le_max : forall d k j, (j < length (xs_members (xs_P d) k))%nat -> N.of_nat j <= xs_max_index (xs_P d).
Proof.
  intros d k j Hj. unfold xs_members in Hj.
  destruct (xs_nth_in_or_nil N (xs_groups (xs_P d)) (N.to_nat k)) as [E | Hin]; [rewrite E in Hj; cbn in Hj; lia|].
  unfold xs_P, xs_make_plan in *. cbn [xs_groups xs_max_index] in *.
  pose proof (xs_fold_max_ge _ 0 _ Hin). lia.
Qed.

Lemma xs_max_index_le_99 : forall d, xs_max_index (xs_P d) <= 99.
Proof.
  intros d. unfold xs_P, xs_make_plan. cbn [xs_max_index].
  match goal with |- fold_left ?f ?g 0 - 1 <= 99 => assert (H : fold_left f g 0 <= 100) end.
  { apply xs_fold_max_le; [lia|]. intros g Hg. apply in_map_iff in Hg. destruct Hg as [j [<- _]].
    pose proof (xs_members_le_100_lemma d (N.of_nat j)) as H.
    unfold xs_members, xs_make_plan in H. cbn [xs_groups] in H.
    (* the j-th group is the members of stream j, or j is out of range *)
    set (K := N.of_nat (length (xs_eligible d))) in *.
    set (asg := xs_assign (xs_eligible d) (n_per_stream K) 0 0) in *.
    clear H.
    assert (G : (length (xs_group asg (N.of_nat j)) <= 100)%nat).
    { unfold xs_group. rewrite xs_sort_length, map_length.
      destruct (N.eq_dec K 0) as [E0|E0].
      - assert (El : xs_eligible d = []) by (destruct (xs_eligible d); [reflexivity | unfold K in E0; cbn in E0; lia]).
        unfold asg. rewrite El. cbn. lia.
      - destruct (ostream_le_100_lemma K ltac:(lia)) as [H100 [_ Hpos]].
        pose proof (xs_assign_count (xs_eligible d) (n_per_stream K) 0 0 (N.of_nat j) Hpos ltac:(lia)) as Hc.
        unfold xs_count in Hc. fold asg in Hc. destruct (N.of_nat j =? 0); lia. }
    lia. }
  lia.
Qed.

(* ---- every entry fits the chosen widths ---- *)
Lemma xs_fit_le : forall v m w, m < 2 ^ 63 -> v <= m -> bytes_needed m <= w -> v < 256 ^ w.
Proof.
  intros v m w Hm Hv Hw. destruct (bytes_needed_spec_lemma m Hm) as [H _].
  apply N.le_lt_trans with m; [exact Hv|]. apply N.lt_le_trans with (256 ^ bytes_needed m); [exact H|].
  apply N.pow_le_mono_r; [discriminate | exact Hw].
Qed.

Lemma xs_lookup_ent_in : forall tab n, xs_lookup_ent tab n = XsFree \/ In (n, xs_lookup_ent tab n) tab.
Proof.
  induction tab as [|[k e] t IH]; intros n; cbn [xs_lookup_ent]; [left; reflexivity|].
  destruct (k =? n) eqn:E.
  - apply N.eqb_eq in E. subst k. right. left. reflexivity.
  - destruct (IH n) as [H | H]; [left; exact H | right; right; exact H].
Qed.

Lemma xs_E_off_le : forall d n off, In (n, XsOff off) (snd (fst (xs_E d))) -> off <= snd (xs_E d).
Proof.
  intros d n off H. unfold xs_E in *. apply xs_emit_off in H. destruct H as [pre [it [post [H1 [H2 _]]]]].
  rewrite xs_emit_end, xs_emit_bytes, H1, map_app, concat_app, app_length. lia.
Qed.

Lemma xs_E_in_bounds : forall d n stm idx, In (n, XsIn stm idx) (snd (fst (xs_E d))) ->
  stm < xs_next (xs_Q d) /\ idx <= xs_max_index (xs_P d).
Proof.
  intros d n stm idx H. unfold xs_E in H. apply xs_emit_in in H. destruct H as [k [m [_ [H1 [H2 _]]]]].
  split; [subst stm; apply xs_srenf_lt|].
  assert (Hl : (N.to_nat idx < length (xs_members (xs_P d) k))%nat) by (apply nth_error_Some; congruence).
  pose proof (xs_index_le_max d k _ Hl). lia.
Qed.

Lemma xs_entries_fit : forall d, snd (xs_E d) < 2 ^ 63 -> xs_next (xs_Q d) < 2 ^ 63 ->
  Forall (xs_fits (N.to_nat (xs_l_f1 (xs_L d))) (N.to_nat (xs_l_f2 (xs_L d)))) (xs_l_entries (xs_L d)).
Proof.
  intros d Hoff Hid. rewrite xs_L_eq. cbn [xs_l_f1 xs_l_f2 xs_l_entries].
  set (off := snd (xs_E d)) in *. set (id := xs_next (xs_Q d)) in *. set (tab := snd (fst (xs_E d))).
  assert (F1 : forall v, v <= off \/ v <= id -> v < 256 ^ N.of_nat (N.to_nat (f1_size off 0 id))).
  { intros v Hv. rewrite N2Nat.id. unfold f1_size. rewrite N.add_0_r. destruct Hv as [Hv | Hv].
    - apply (xs_fit_le v off); [exact Hoff | exact Hv | apply N.le_max_l].
    - apply (xs_fit_le v id); [exact Hid | exact Hv | apply N.le_max_r]. }
  assert (F2 : forall v, v <= xs_max_index (xs_P d) -> v < 256 ^ N.of_nat (N.to_nat (bytes_needed (xs_max_index (xs_P d))))).
  { intros v Hv. rewrite N2Nat.id. apply (xs_fit_le v (xs_max_index (xs_P d))); [| exact Hv | lia].
    pose proof (xs_max_index_le_99 d). apply N.le_lt_trans with 99; [assumption | reflexivity]. }
  constructor; [exact I|]. apply Forall_app. split.
  - apply Forall_forall. intros e He. apply in_map_iff in He. destruct He as [j [<- _]].
    destruct (xs_lookup_ent_in tab (N.of_nat j)) as [E | Hin]; [rewrite E; exact I|].
    destruct (xs_lookup_ent tab (N.of_nat j)) as [|o|s i]; [exact I | |].
    + cbn [xs_fits]. apply F1. left. apply (xs_E_off_le d _ _ Hin).
    + cbn [xs_fits]. destruct (xs_E_in_bounds d _ _ _ Hin) as [B1 B2]. split; [apply F1; right; lia | apply F2; exact B2].
  - constructor; [| constructor]. cbn [xs_fits]. apply F1. left. lia.
Qed.

Lemma xs_entries_length : forall d, length (xs_l_entries (xs_L d)) = N.to_nat (xs_l_xref_id (xs_L d) + 1).
Proof.
  intros d. rewrite xs_L_eq. cbn [xs_l_entries xs_l_xref_id]. cbn [length]. rewrite app_length, map_length, seq_length. cbn [length].
  destruct (xs_Q_inv d) as [H1 _]. lia.
Qed.

(* The cross-reference stream data decodes, under the strict reader's big-endian field decoder with the written
   /W [ 1 f1 f2 ] and the implicit /Index [ 0 Size ], to exactly the entries recorded while writing: entry i is
   the type, offset (generation 0) or (object stream, index) recorded for object i; no byte is left over. *)
Lemma xs_xref_stream_decodes_lemma : forall d,
  xs_l_xref_off (xs_L d) < 2 ^ 63 -> xs_l_xref_id (xs_L d) < 2 ^ 63 ->
  let L := xs_L d in
  xstream_index 3 [SpInt 0; SpInt (Z.of_N (xs_l_xref_id L + 1))] 1 (N.to_nat (xs_l_f1 L)) (N.to_nat (xs_l_f2 L))
                (flat_map (xs_enc_entry (N.to_nat (xs_l_f1 L)) (N.to_nat (xs_l_f2 L))) (xs_l_entries L)) []
  = Some (rev (xs_numbered 0 (xs_l_entries L))).
Proof.
  intros d Hoff Hid L. unfold L.
  replace (Z.of_N (xs_l_xref_id (xs_L d) + 1)) with (Z.of_nat (length (xs_l_entries (xs_L d))))
    by (rewrite xs_entries_length; lia).
  apply xs_index_decode. rewrite xs_L_eq in Hoff, Hid. cbn [xs_l_xref_off xs_l_xref_id] in Hoff, Hid.
  apply xs_entries_fit; assumption.
Qed.

(* =================================================================================================
   5. Object streams: the header pairs parse to (number, relative offset), and every member parses at its offset *)

Fixpoint xs_pair_list (num : N) (offs : list N) : list (N * N) :=
  match offs with [] => [] | o :: t => (num, o) :: xs_pair_list (num + 1) t end.

Lemma xs_ends_ok_flat : forall (l : list (list N)) X, ends_ok X -> ends_ok (flat_map (fun x => 32 :: x) l ++ X).
Proof. intros [|h t] X H; [exact H|]. cbn. left. reflexivity. Qed.

Lemma xs_objstm_pairs_gen : forall offs num acc X, ends_ok X ->
  objstm_pairs (length offs) (flat_map (fun x => 32 :: x) (xs_pairs num offs) ++ X) acc
  = Some (rev acc ++ xs_pair_list num offs).
Proof.
  induction offs as [|o t IH]; intros num acc X HX.
  - cbn [length objstm_pairs xs_pair_list]. rewrite rev'_rev, app_nil_r. reflexivity.
  - cbn [length xs_pairs flat_map objstm_pairs xs_pair_list].
    set (F := flat_map (fun x => 32 :: x) (xs_pairs (num + 1) t)).
    assert (E : ((32 :: dec_of_N num ++ [32] ++ dec_of_N o) ++ F) ++ X
                = 32 :: dec_of_N num ++ (32 :: dec_of_N o ++ (F ++ X))).
    { cbn [app]. rewrite <- !app_assoc. reflexivity. }
    rewrite E. clear E.
    change (next_tok (32 :: dec_of_N num ++ 32 :: dec_of_N o ++ F ++ X))
      with (next_tok (dec_of_N num ++ 32 :: dec_of_N o ++ F ++ X)).
    rewrite next_tok_dec_of_N by (left; reflexivity).
    change (next_tok (32 :: dec_of_N o ++ F ++ X)) with (next_tok (dec_of_N o ++ F ++ X)).
    rewrite next_tok_dec_of_N by (apply xs_ends_ok_flat; exact HX).
    destruct (Z.of_N num <? 0)%Z eqn:E1; [apply Z.ltb_lt in E1; lia|].
    destruct (Z.of_N o <? 0)%Z eqn:E2; [apply Z.ltb_lt in E2; lia|]. cbn [orb].
    rewrite !N2Z.id. unfold F. rewrite IH by exact HX. cbn [rev]. rewrite <- app_assoc. reflexivity.
Qed.

(* the "id offset" pairs that writeObjectStreamOffsets writes are read back by the strict reader's pair parser *)
Lemma xs_objstm_pairs_sp : forall n s acc, objstm_pairs (S n) (32 :: s) acc = objstm_pairs (S n) s acc.
Proof. reflexivity. Qed.

Lemma xs_objstm_pairs_parse : forall offs num rest,
  objstm_pairs (length offs) (xs_ostm_header num offs ++ rest) [] = Some (xs_pair_list num offs).
Proof.
  intros offs num rest. destruct offs as [|o t]; [reflexivity|].
  cbn [length]. rewrite <- xs_objstm_pairs_sp.
  assert (E : 32 :: xs_ostm_header num (o :: t) ++ rest
              = flat_map (fun x => 32 :: x) (xs_pairs num (o :: t)) ++ 10 :: rest).
  { unfold xs_ostm_header, xs_join_sp. cbn [xs_pairs flat_map app]. rewrite <- !app_assoc. reflexivity. }
  rewrite E. change (S (length t)) with (length (o :: t)).
  rewrite xs_objstm_pairs_gen by (left; reflexivity). reflexivity.
Qed.

Lemma xs_rel_offsets_length : forall bodies pos, length (xs_rel_offsets bodies pos) = length bodies.
Proof. induction bodies as [|b t IH]; intros pos; cbn [xs_rel_offsets length]; [reflexivity | rewrite IH; reflexivity]. Qed.

Lemma xs_rel_offsets_nth : forall bodies pos j b, nth_error bodies j = Some b ->
  nth_error (xs_rel_offsets bodies pos) j = Some (pos + N.of_nat (length (concat (firstn j bodies)))).
Proof.
  induction bodies as [|h t IH]; intros pos j b H; destruct j; cbn [nth_error] in H; try discriminate.
  - cbn. f_equal. lia.
  - cbn [xs_rel_offsets nth_error firstn concat]. rewrite (IH _ _ _ H), app_length. f_equal. lia.
Qed.

Lemma xs_pair_list_nth : forall offs num j o, nth_error offs j = Some o ->
  nth_error (xs_pair_list num offs) j = Some (num + N.of_nat j, o).
Proof.
  induction offs as [|h t IH]; intros num j o H; destruct j; cbn [nth_error] in H; try discriminate.
  - injection H as <-. cbn. f_equal. f_equal. lia.
  - cbn [xs_pair_list nth_error]. rewrite (IH _ _ _ H). f_equal. f_equal. lia.
Qed.
Lemma xs_pair_list_length : forall offs num, length (xs_pair_list num offs) = length offs.
Proof. induction offs as [|h t IH]; intros num; cbn [xs_pair_list length]; [reflexivity | rewrite IH; reflexivity]. Qed.

Lemma xs_concat_split : forall (bodies : list (list N)) j b, nth_error bodies j = Some b ->
  concat bodies = concat (firstn j bodies) ++ b ++ concat (skipn (S j) bodies).
Proof.
  induction bodies as [|h t IH]; intros j b H; destruct j; cbn [nth_error] in H; try discriminate.
  - injection H as <-. reflexivity.
  - cbn [firstn skipn concat]. rewrite (IH _ _ H) at 1. rewrite <- app_assoc. reflexivity.
Qed.

Lemma xs_skipn_exact : forall (A : Type) (a b : list A), skipn (length a) (a ++ b) = b.
Proof. induction a as [|x a IH]; intros b; [reflexivity | apply IH]. Qed.
Lemma xs_firstn_exact : forall (A : Type) (a b : list A), firstn (length a) (a ++ b) = a.
Proof. induction a as [|x a IH]; intros b; [reflexivity | cbn; rewrite IH; reflexivity]. Qed.

Section Member.
  Variable objs : list (N * indirect).
  Variable p : xs_plan.
  Variable ren : N -> N.
  Let body := xs_member_body wm_unparse_string wm_unparse_name objs ren.

  (* For the j-th member m of object stream k: the strict reader's pair parser returns the pair
     (first number + j, relative offset), and parsing the member's extent (up to the next member's offset, or the
     end of the data for the last one) at /First + offset yields the value that was written, references renumbered. *)
  Lemma xs_member_parses : forall k j m fuel,
    let ms := xs_members p k in
    let data := xs_ostm_data wm_unparse_string wm_unparse_name objs p ren k in
    let first := xs_ostm_first wm_unparse_string wm_unparse_name objs p ren k in
    let v := i_val (xs_lookup objs m) in
    nth_error ms j = Some m -> wf_wobj v -> (forall x, In x (refs_of objs v) -> 0 < ren x) ->
    (length data < fuel)%nat ->
    exists pairs ooff,
      objstm_pairs (length ms) data [] = Some pairs
      /\ length pairs = length ms
      /\ nth_error pairs j = Some (ren (hd 0 ms) + N.of_nat j, ooff)
      /\ let extent := match nth_error pairs (S j) with
                       | Some (_, noff) => if ooff <? noff then N.to_nat (noff - ooff) else length data
                       | None => length data
                       end in
         parse_obj fuel (firstn extent (skipn (N.to_nat (first + ooff)) data)) = Some (to_pobj objs ren v, [10]).
  Proof.
    intros k j m fuel ms data first v Hj Hwf Hpos Hfuel.
    set (bodies := map body ms).
    set (offs := xs_rel_offsets bodies 0).
    set (hdr := xs_ostm_header (ren (hd 0 ms)) offs).
    assert (Hdata : data = hdr ++ concat bodies) by reflexivity.
    assert (Hfirst : first = N.of_nat (length hdr)) by reflexivity.
    assert (Hb : nth_error bodies j = Some (body m)) by (unfold bodies; rewrite nth_error_map, Hj; reflexivity).
    set (ooff := N.of_nat (length (concat (firstn j bodies)))).
    assert (Ho : nth_error offs j = Some ooff).
    { unfold offs. rewrite (xs_rel_offsets_nth _ _ _ _ Hb). f_equal. }
    exists (xs_pair_list (ren (hd 0 ms)) offs), ooff.
    assert (Hlen : length offs = length ms) by (unfold offs, bodies; rewrite xs_rel_offsets_length, map_length; reflexivity).
    split; [rewrite Hdata, <- Hlen; apply xs_objstm_pairs_parse|].
    split; [rewrite xs_pair_list_length; exact Hlen|].
    split; [apply xs_pair_list_nth; exact Ho|].
    (* the bytes at /First + offset *)
    assert (Hskip : skipn (N.to_nat (first + ooff)) data = body m ++ concat (skipn (S j) bodies)).
    { rewrite Hdata, Hfirst. unfold ooff. rewrite (xs_concat_split bodies j _ Hb).
      replace (N.to_nat (N.of_nat (length hdr) + N.of_nat (length (concat (firstn j bodies)))))
        with (length (hdr ++ concat (firstn j bodies))) by (rewrite app_length; lia).
      rewrite app_assoc. apply xs_skipn_exact. }
    assert (Hbody : body m = unparse wm_unparse_string wm_unparse_name objs ren v ++ [10]) by reflexivity.
    assert (Hbl : (0 < length (body m))%nat) by (rewrite Hbody, app_length; cbn; lia).
    assert (Hfn : firstn (match nth_error (xs_pair_list (ren (hd 0 ms)) offs) (S j) with
                          | Some (_, noff) => if ooff <? noff then N.to_nat (noff - ooff) else length data
                          | None => length data
                          end) (skipn (N.to_nat (first + ooff)) data) = body m).
    { rewrite Hskip. destruct (nth_error bodies (S j)) as [b'|] eqn:Eb.
      - assert (Ho' : nth_error offs (S j) = Some (ooff + N.of_nat (length (body m)))).
        { unfold offs. rewrite (xs_rel_offsets_nth _ _ _ _ Eb). f_equal. unfold ooff.
          assert (E : firstn (S j) bodies = firstn j bodies ++ [body m]).
          { clear - Hb. revert j Hb. induction bodies as [|h t IH]; intros j Hb; destruct j; cbn [nth_error] in Hb; try discriminate.
            - injection Hb as ->. reflexivity.
            - cbn [firstn app]. rewrite <- (IH _ Hb). reflexivity. }
          rewrite E, concat_app, app_length. cbn [concat]. rewrite app_nil_r. lia. }
        rewrite (xs_pair_list_nth _ _ _ _ Ho').
        destruct (ooff <? ooff + N.of_nat (length (body m))) eqn:El; [| apply N.ltb_ge in El; lia].
        replace (N.to_nat (ooff + N.of_nat (length (body m)) - ooff)) with (length (body m)) by lia.
        apply xs_firstn_exact.
      - assert (En : nth_error (xs_pair_list (ren (hd 0 ms)) offs) (S j) = None).
        { apply nth_error_None. rewrite xs_pair_list_length. unfold offs. rewrite xs_rel_offsets_length.
          apply nth_error_None. exact Eb. }
        rewrite En. 
        assert (Es : skipn (S j) bodies = []) by (apply skipn_all2; apply nth_error_None; exact Eb).
        rewrite Es. cbn [concat]. rewrite app_nil_r. apply firstn_all2.
        rewrite Hdata, (xs_concat_split bodies j _ Hb), !app_length. lia. }
    cbv zeta. rewrite Hfn, Hbody.
    set (ren' := fun x => if ren x =? 0 then 1 else ren x).
    assert (Hext : forall x, In x (refs_of objs v) -> ren x = ren' x).
    { intros x Hx. apply Hpos in Hx. unfold ren'. destruct (ren x =? 0) eqn:E; [apply N.eqb_eq in E; lia | reflexivity]. }
    destruct (ren_ext wm_unparse_string wm_unparse_name objs ren ren' v Hext) as [HU HP].
    rewrite HU, HP. apply unparse_parses_wm_lemma.
    - exact Hwf.
    - intros x. unfold ren'. destruct (ren x =? 0) eqn:E; [lia | apply N.eqb_neq in E; lia].
    - left. reflexivity.
    - intros z _. exact I.
    - rewrite <- HU. rewrite Hdata, (xs_concat_split bodies j _ Hb), Hbody, !app_length in Hfuel. lia.
  Qed.
End Member.

(* =================================================================================================
   6. Statements about the whole layout of a document *)

Definition xs_out (d : doc) : list N := xs_write_doc wm_unparse_string wm_unparse_name d.

Lemma xs_out_layout : forall d, xs_eligible d <> [] ->
  xs_out d = xs_l_hdr (xs_L d) ++ xs_l_bodies (xs_L d)
             ++ xs_xref_object wm_unparse_string wm_unparse_name d (xs_L d)
             ++ xs_s_startxref ++ dec_of_N (xs_l_xref_off (xs_L d)) ++ xs_s_eof.
Proof. intros d H. unfold xs_out, xs_write_doc. destruct (xs_eligible d); [congruence | reflexivity]. Qed.

(* /W widths are adequate for every entry that is written, and least: one byte less could not hold the largest of
   the xref stream's own offset (which is written as the last entry) and its number, resp. the largest index;
   a one-member stream gets an index field of width 0. *)
Lemma xs_widths_adequate_least_lemma : forall d,
  xs_l_xref_off (xs_L d) < 2 ^ 63 -> xs_l_xref_id (xs_L d) < 2 ^ 63 ->
  let L := xs_L d in
  Forall (xs_fits (N.to_nat (xs_l_f1 L)) (N.to_nat (xs_l_f2 L))) (xs_l_entries L)
  /\ In (XsOff (xs_l_xref_off L)) (xs_l_entries L)
  /\ (0 < xs_l_f1 L -> 256 ^ (xs_l_f1 L - 1) <= N.max (xs_l_xref_off L) (xs_l_xref_id L))
  /\ (0 < xs_l_f2 L -> 256 ^ (xs_l_f2 L - 1) <= xs_max_index (xs_l_plan L))
  /\ xs_l_f2 L <= 1.
Proof.
  intros d Hoff Hid L. unfold L. split.
  { rewrite xs_L_eq in Hoff, Hid. cbn [xs_l_xref_off xs_l_xref_id] in Hoff, Hid. apply xs_entries_fit; assumption. }
  rewrite xs_L_eq in *. cbn [xs_l_xref_off xs_l_xref_id xs_l_f1 xs_l_f2 xs_l_entries xs_l_plan] in *.
  set (off := snd (xs_E d)) in *. set (id := xs_next (xs_Q d)) in *.
  split; [right; apply in_or_app; right; left; reflexivity|].
  split; [| split].
  - unfold f1_size. rewrite N.add_0_r. intros Hpos.
    destruct (bytes_needed_spec_lemma off Hoff) as [_ Ho]. destruct (bytes_needed_spec_lemma id Hid) as [_ Hi].
    assert (Z0 : bytes_needed 0 = 0) by reflexivity.
    destruct (N.max_spec (bytes_needed off) (bytes_needed id)) as [[Hlt E] | [Hle E]]; rewrite E in *.
    + assert (0 < id) by (destruct (N.eq_dec id 0) as [E0|]; [rewrite E0, Z0 in Hpos; lia | lia]).
      specialize (Hi H). lia.
    + assert (0 < off) by (destruct (N.eq_dec off 0) as [E0|]; [rewrite E0, Z0 in Hpos; lia | lia]).
      specialize (Ho H). lia.
  - intros Hpos. pose proof (xs_max_index_le_99 d) as H99.
    assert (Hm : xs_max_index (xs_P d) < 2 ^ 63) by (apply N.le_lt_trans with 99; [exact H99 | reflexivity]).
    destruct (bytes_needed_spec_lemma _ Hm) as [_ Hs]. apply Hs.
    destruct (N.eq_dec (xs_max_index (xs_P d)) 0) as [E0|]; [rewrite E0 in Hpos; cbn in Hpos; lia | lia].
  - pose proof (xs_max_index_le_99 d) as H99.
    apply (bytes_needed_mono_lemma _ 99 H99). reflexivity.
Qed.

Lemma xs_numbered_nth : forall es num j,
  nth_error (xs_numbered num es) j = option_map (fun e => (num + N.of_nat j, xs_to_xentry e)) (nth_error es j).
Proof.
  induction es as [|e es IH]; intros num j; destruct j; cbn [xs_numbered nth_error option_map]; try reflexivity.
  - rewrite N.add_0_r. reflexivity.
  - rewrite IH. destruct (nth_error es j); cbn [option_map]; [f_equal; f_equal; lia | reflexivity].
Qed.

Lemma xs_numbered_gen0 : forall es num n off g, In (n, XInUse off g) (xs_numbered num es) -> g = 0.
Proof.
  induction es as [|e es IH]; intros num n off g H; [contradiction|].
  cbn [xs_numbered In] in H. destruct H as [H | H]; [| apply (IH _ _ _ _ H)].
  destruct e; cbn [xs_to_xentry] in H; try discriminate. injection H as _ _ <-. reflexivity.
Qed.

(* The number printed as /Size is the number of entries of the cross-reference stream; the entries are numbered
   0, 1, ..., Size - 1 without gap (highest object number + 1 = /Size: the highest is the xref stream itself, whose
   entry holds the offset that startxref names); entry 0 is the free entry; every in-use entry carries generation 0. *)
Lemma xs_size_and_generation_lemma : forall d,
  let L := xs_L d in
  let ents := xs_numbered 0 (xs_l_entries L) in
  length ents = N.to_nat (xs_l_xref_id L + 1)
  /\ (forall j n e, nth_error ents j = Some (n, e) -> n = N.of_nat j)
  /\ nth_error ents 0 = Some (0, XFree 0 0)
  /\ nth_error ents (N.to_nat (xs_l_xref_id L)) = Some (xs_l_xref_id L, XInUse (xs_l_xref_off L) 0)
  /\ (forall n off g, In (n, XInUse off g) ents -> g = 0).
Proof.
  intros d L ents. unfold ents, L. split; [| split; [| split; [| split]]].
  - rewrite <- xs_entries_length. generalize 0. induction (xs_l_entries (xs_L d)) as [|e es IH]; intros num; [reflexivity|].
    cbn [xs_numbered length]. rewrite IH. reflexivity.
  - intros j n e H. rewrite xs_numbered_nth in H. destruct (nth_error (xs_l_entries (xs_L d)) j); cbn [option_map] in H; [| discriminate].
    injection H as <- _. lia.
  - rewrite xs_L_eq. reflexivity.
  - rewrite xs_numbered_nth. rewrite xs_L_eq. cbn [xs_l_entries xs_l_xref_id xs_l_xref_off].
    set (M := map (fun j => xs_lookup_ent (snd (fst (xs_E d))) (N.of_nat j)) (seq 1 (N.to_nat (xs_next (xs_Q d)) - 1))).
    assert (HM : length (XsFree :: M) = N.to_nat (xs_next (xs_Q d))).
    { cbn [length]. unfold M. rewrite map_length, seq_length. destruct (xs_Q_inv d) as [H1 _]. lia. }
    change (XsFree :: M ++ [XsOff (snd (xs_E d))]) with ((XsFree :: M) ++ [XsOff (snd (xs_E d))]).
    rewrite nth_error_app2 by lia. rewrite HM, Nat.sub_diag. cbn [nth_error option_map xs_to_xentry].
    rewrite N2Nat.id. reflexivity.
  - intros n off g. apply xs_numbered_gen0.
Qed.

(* Every member of every object stream of the modelled output: the header pair at its index parses to
   (first member's number + index, relative offset), and the strict reader's object parser, applied as read_strict
   applies it (at /First + offset, over the extent up to the next member), returns exactly the value that was written,
   references renumbered. Hypotheses: the value is well-formed and the references it prints have been numbered. *)
Lemma xs_objstm_member_parses_lemma : forall d k j m fuel,
  let objs := d_objects d in
  let ms := xs_members (xs_l_plan (xs_L d)) k in
  let data := xs_ostm_data wm_unparse_string wm_unparse_name objs (xs_l_plan (xs_L d)) (xs_l_ren (xs_L d)) k in
  let first := xs_ostm_first wm_unparse_string wm_unparse_name objs (xs_l_plan (xs_L d)) (xs_l_ren (xs_L d)) k in
  let v := i_val (xs_lookup objs m) in
  nth_error ms j = Some m -> wf_wobj v -> (forall x, In x (refs_of objs v) -> 0 < xs_l_ren (xs_L d) x) ->
  (length data < fuel)%nat ->
  exists pairs ooff,
    objstm_pairs (length ms) data [] = Some pairs
    /\ length pairs = length ms
    /\ nth_error pairs j = Some (xs_l_ren (xs_L d) (hd 0 ms) + N.of_nat j, ooff)
    /\ let extent := match nth_error pairs (S j) with
                     | Some (_, noff) => if ooff <? noff then N.to_nat (noff - ooff) else length data
                     | None => length data
                     end in
       parse_obj fuel (firstn extent (skipn (N.to_nat (first + ooff)) data)) = Some (to_pobj objs (xs_l_ren (xs_L d)) v, [10]).
Proof.
  intros d k j m fuel. rewrite xs_L_eq. cbn [xs_l_plan xs_l_ren]. apply xs_member_parses.
Qed.

(* Every entry of the modelled cross-reference stream names its object: a type-1 entry (n, off) is the offset at which
   the output holds "n 0 obj" (generation 0); a type-2 entry (n, stm, idx) says that n is the new number of the idx-th
   member of the object stream whose own number is stm and which is written as an uncompressed object. *)
Lemma xs_entry_names_object_lemma : forall d, xs_eligible d <> [] ->
  let L := xs_L d in
  (forall n off, In (n, XsOff off) (xs_l_table L) -> exists rest, at_off (xs_out d) off = obj_header n ++ rest)
  /\ (exists rest, at_off (xs_out d) (xs_l_xref_off L) = obj_header (xs_l_xref_id L) ++ rest)
  /\ (forall n stm idx, In (n, XsIn stm idx) (xs_l_table L) ->
        exists k m, In (XsStm k) (xs_l_items L) /\ stm = xs_l_sren L k
                    /\ nth_error (xs_members (xs_l_plan L) k) (N.to_nat idx) = Some m /\ n = xs_l_ren L m).
Proof.
  intros d Hel L. unfold L. rewrite (xs_out_layout d Hel). rewrite xs_L_eq.
  cbn [xs_l_table xs_l_hdr xs_l_bodies xs_l_xref_off xs_l_xref_id xs_l_items xs_l_sren xs_l_plan xs_l_ren].
  split; [| split].
  - intros n off H. unfold xs_E in *. pose proof H as H0. apply xs_emit_off in H. destruct H as [pre [it [post [H1 [H2 H3]]]]].
    rewrite xs_emit_bytes, H1, map_app, concat_app. cbn [map concat].
    set (c := xs_chunk wm_unparse_string wm_unparse_name (d_objects d) (xs_P d) (xs_renf d) (xs_srenf d)) in *.
    assert (Hc : exists r, c it = obj_header n ++ r).
    { subst n. destruct it as [id | k]; unfold c; cbn [xs_chunk].
      - unfold emit_object. eexists. reflexivity.
      - unfold xs_ostm_object. eexists. reflexivity. }
    destruct Hc as [r Hc]. rewrite Hc. unfold at_off. rewrite H2.
    replace (N.to_nat (N.of_nat (length (xs_hdr d)) + N.of_nat (length (concat (map c pre)))))
      with (length (xs_hdr d ++ concat (map c pre))) by (rewrite app_length; lia).
    eexists. rewrite <- !app_assoc. rewrite (app_assoc (xs_hdr d)). rewrite xs_skipn_exact. reflexivity.
  - unfold xs_E. rewrite xs_emit_end. unfold at_off.
    set (b := fst (fst (xs_emit wm_unparse_string wm_unparse_name (d_objects d) (xs_P d) (xs_renf d) (xs_srenf d) (xs_items d) (N.of_nat (length (xs_hdr d)))))).
    replace (N.to_nat (N.of_nat (length (xs_hdr d)) + N.of_nat (length b))) with (length (xs_hdr d ++ b)) by (rewrite app_length; lia).
    rewrite (app_assoc (xs_hdr d)). rewrite xs_skipn_exact. unfold xs_xref_object. cbn [xs_l_xref_id].
    eexists. rewrite <- !app_assoc. reflexivity.
  - intros n stm idx H. unfold xs_E in H. apply xs_emit_in in H. exact H.
Qed.

(* =================================================================================================
   7. No object is listed twice *)

Lemma xs_existsb_false : forall id vis, existsb (N.eqb id) vis = false -> ~ In id vis.
Proof.
  intros id vis H Hin. assert (E : existsb (N.eqb id) vis = true) by (apply existsb_exists; exists id; split; [exact Hin | apply N.eqb_refl]).
  congruence.
Qed.

Lemma xs_walk_nodup : forall fuel objs st vis res,
  NoDup res -> (forall x, In x res -> In x vis) -> NoDup (xs_walk fuel objs st vis res).
Proof.
  induction fuel as [|f IH]; intros objs st vis res Hnd Hsub.
  - cbn [xs_walk]. rewrite rev'_rev. apply NoDup_rev. exact Hnd.
  - cbn [xs_walk]. destruct st as [|o st]; [rewrite rev'_rev; apply NoDup_rev; exact Hnd|].
    destruct o; try (apply IH; assumption).
    destruct (existsb (N.eqb id) vis) eqn:E; [apply IH; assumption|].
    apply xs_existsb_false in E. apply IH.
    + destruct (xs_excluded objs (xs_lookup objs id)); [exact Hnd|]. constructor; [| exact Hnd]. intros Hin. apply E. apply Hsub. exact Hin.
    + intros x Hx. destruct (xs_excluded objs (xs_lookup objs id)); [right; apply Hsub; exact Hx|].
      destruct Hx as [<- | Hx]; [left; reflexivity | right; apply Hsub; exact Hx].
Qed.

(* The eligibility walk lists every object at most once, hence every object is assigned to exactly one object stream:
   no object is written twice. *)
Lemma xs_member_of_one_stream_lemma : forall d,
  NoDup (xs_eligible d)
  /\ (forall m j1 j2, In (m, j1) (xs_asg (xs_make_plan d)) -> In (m, j2) (xs_asg (xs_make_plan d)) -> j1 = j2).
Proof.
  intros d. assert (H : NoDup (xs_eligible d)).
  { unfold xs_eligible. apply xs_walk_nodup; [constructor | intros x []]. }
  split; [exact H|]. intros m j1 j2 H1 H2. unfold xs_make_plan in *. cbn [xs_asg] in *.
  eapply nodup_key_unique; [| exact H1 | exact H2]. rewrite xs_assign_fst. exact H.
Qed.
