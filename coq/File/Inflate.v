(* Reference decoder for zlib streams (RFC 1950) carrying DEFLATE data (RFC 1951), written from
   the RFCs (canonical-Huffman decoding by code-length counts, as in the RFC's algorithm).
   It is the independent "Flate reference decoder": qpdf compresses with zlib (not modelled);
   this function must recover the original bytes from what qpdf wrote.  Bits are taken LSB
   first from each byte; Huffman codes are read MSB first. *)
From QV Require Import Base.Bytes.
Local Open Scope N_scope.

Fixpoint byte_bits (n : nat) (b : N) : list bool :=
  match n with
  | O => []
  | S n' => N.odd b :: byte_bits n' (b / 2)
  end.
Fixpoint bits_of (l : list N) : list bool :=
  match l with
  | [] => []
  | b :: t => byte_bits 8 b ++ bits_of t
  end.

(* n bits, least significant first *)
Fixpoint take_bits (n : nat) (bs : list bool) : option (N * list bool) :=
  match n with
  | O => Some (0, bs)
  | S n' => match bs with
            | [] => None
            | b :: t => match take_bits n' t with
                        | None => None
                        | Some (v, r) => Some ((if b then 1 else 0) + 2 * v, r)
                        end
            end
  end.

(* ---- canonical Huffman: table = list of (length, code, symbol) ---- *)
Definition count_len (lens : list N) (l : N) : N :=
  N.of_nat (length (filter (N.eqb l) lens)).

(* next_code[len] per RFC 1951 3.2.2 *)
Fixpoint next_codes (maxbits : nat) (lens : list N) (bits : N) (code : N) : list (N * N) :=
  match maxbits with
  | O => []
  | S m => let code' := (code + (if bits =? 1 then 0 else count_len lens (bits - 1))) * 2 in
           (bits, code') :: next_codes m lens (bits + 1) code'
  end.

Fixpoint assoc_get (k : N) (l : list (N * N)) : N :=
  match l with
  | [] => 0
  | (k', v) :: t => if k =? k' then v else assoc_get k t
  end.
Fixpoint assoc_set (k v : N) (l : list (N * N)) : list (N * N) :=
  match l with
  | [] => [(k, v)]
  | (k', v') :: t => if k =? k' then (k, v) :: t else (k', v') :: assoc_set k v t
  end.

Fixpoint assign_codes (lens : list N) (sym : N) (nc : list (N * N)) (acc : list (N * N * N)) : list (N * N * N) :=
  match lens with
  | [] => rev' acc
  | l :: t => if l =? 0 then assign_codes t (sym + 1) nc acc
              else let c := assoc_get l nc in
                   assign_codes t (sym + 1) (assoc_set l (c + 1) nc) ((l, c, sym) :: acc)
  end.

Definition huff_table (lens : list N) : list (N * N * N) :=
  assign_codes lens 0 (next_codes 15 lens 1 0) [].

Fixpoint huff_lookup (tbl : list (N * N * N)) (len code : N) : option N :=
  match tbl with
  | [] => None
  | (l, c, s) :: t => if (l =? len) && (c =? code) then Some s else huff_lookup t len code
  end.

(* read one symbol: extend the code bit by bit (MSB first), at most 15 bits *)
Fixpoint huff_decode (fuel : nat) (tbl : list (N * N * N)) (len code : N) (bs : list bool) : option (N * list bool) :=
  match fuel with
  | O => None
  | S f => match bs with
           | [] => None
           | b :: t => let code' := 2 * code + (if b then 1 else 0) in
                       match huff_lookup tbl (len + 1) code' with
                       | Some s => Some (s, t)
                       | None => huff_decode f tbl (len + 1) code' t
                       end
           end
  end.
Definition huff_sym (tbl : list (N * N * N)) (bs : list bool) := huff_decode 15 tbl 0 0 bs.

(* ---- length / distance tables (RFC 1951 3.2.5) ---- *)
Definition len_base : list N :=
  [3;4;5;6;7;8;9;10;11;13;15;17;19;23;27;31;35;43;51;59;67;83;99;115;131;163;195;227;258].
Definition len_extra : list N :=
  [0;0;0;0;0;0;0;0;1;1;1;1;2;2;2;2;3;3;3;3;4;4;4;4;5;5;5;5;0].
Definition dist_base : list N :=
  [1;2;3;4;5;7;9;13;17;25;33;49;65;97;129;193;257;385;513;769;1025;1537;2049;3073;4097;6145;8193;12289;16385;24577].
Definition dist_extra : list N :=
  [0;0;0;0;1;1;2;2;3;3;4;4;5;5;6;6;7;7;8;8;9;9;10;10;11;11;12;12;13;13].

Definition fixed_lit_lens : list N :=
  repeat 8 144 ++ repeat 9 112 ++ repeat 7 24 ++ repeat 8 8.
Definition fixed_dist_lens : list N := repeat 5 30.

(* copy len bytes from distance dist back in out_rev (out is kept reversed) *)
Fixpoint copy_back (len : nat) (dist : nat) (out_rev : list N) : option (list N) :=
  match len with
  | O => Some out_rev
  | S l => match nth_error out_rev (dist - 1) with
           | None => None
           | Some b => copy_back l dist (b :: out_rev)
           end
  end.

(* the compressed-block symbol loop *)
Fixpoint inflate_codes (fuel : nat) (lit dist : list (N * N * N)) (bs : list bool) (out_rev : list N)
  : option (list bool * list N) :=
  match fuel with
  | O => None
  | S f =>
      match huff_sym lit bs with
      | None => None
      | Some (s, bs1) =>
          if s <? 256 then inflate_codes f lit dist bs1 (s :: out_rev)
          else if s =? 256 then Some (bs1, out_rev)
          else if 285 <? s then None
          else
            let i := N.to_nat (s - 257) in
            match take_bits (N.to_nat (nth i len_extra 0)) bs1 with
            | None => None
            | Some (e, bs2) =>
                let len := nth i len_base 0 + e in
                match huff_sym dist bs2 with
                | None => None
                | Some (ds, bs3) =>
                    if 29 <? ds then None else
                    let j := N.to_nat ds in
                    match take_bits (N.to_nat (nth j dist_extra 0)) bs3 with
                    | None => None
                    | Some (de, bs4) =>
                        match copy_back (N.to_nat len) (N.to_nat (nth j dist_base 0 + de)) out_rev with
                        | None => None
                        | Some out' => inflate_codes f lit dist bs4 out'
                        end
                    end
                end
            end
      end
  end.

(* code-length alphabet order for dynamic blocks *)
Definition clen_order : list N := [16;17;18;0;8;7;9;6;10;5;11;4;12;3;13;2;14;1;15].

Fixpoint read_clens (n : nat) (order : list N) (bs : list bool) (acc : list (N * N)) : option (list (N * N) * list bool) :=
  match n with
  | O => Some (acc, bs)
  | S n' => match order with
            | [] => None
            | o :: order' => match take_bits 3 bs with
                             | None => None
                             | Some (v, bs') => read_clens n' order' bs' ((o, v) :: acc)
                             end
            end
  end.

(* decode hlit + hdist code lengths with the code-length code *)
Fixpoint read_lens (fuel : nat) (cl : list (N * N * N)) (want : nat) (bs : list bool) (acc_rev : list N)
  : option (list N * list bool) :=
  match fuel with
  | O => None
  | S f =>
      if Nat.leb want (length acc_rev) then Some (rev' acc_rev, bs) else
      match huff_sym cl bs with
      | None => None
      | Some (s, bs1) =>
          if s <? 16 then read_lens f cl want bs1 (s :: acc_rev)
          else if s =? 16 then
            match acc_rev, take_bits 2 bs1 with
            | prev :: _, Some (r, bs2) => read_lens f cl want bs2 (repeat prev (N.to_nat (3 + r)) ++ acc_rev)
            | _, _ => None
            end
          else if s =? 17 then
            match take_bits 3 bs1 with
            | Some (r, bs2) => read_lens f cl want bs2 (repeat 0 (N.to_nat (3 + r)) ++ acc_rev)
            | None => None
            end
          else
            match take_bits 7 bs1 with
            | Some (r, bs2) => read_lens f cl want bs2 (repeat 0 (N.to_nat (11 + r)) ++ acc_rev)
            | None => None
            end
      end
  end.

(* drop bits up to the next byte boundary: [consumed] = number of bits consumed so far *)
Definition align_drop (total_bits : nat) (bs : list bool) : list bool :=
  skipn (Nat.modulo (length bs) 8) bs.

Fixpoint bits_to_bytes (n : nat) (bs : list bool) (acc_rev : list N) : option (list N * list bool) :=
  match n with
  | O => Some (acc_rev, bs)
  | S n' => match take_bits 8 bs with
            | None => None
            | Some (v, bs') => bits_to_bytes n' bs' (v :: acc_rev)
            end
  end.

Fixpoint inflate_blocks (fuel : nat) (bs : list bool) (out_rev : list N) : option (list bool * list N) :=
  match fuel with
  | O => None
  | S f =>
      match take_bits 1 bs with
      | None => None
      | Some (final, bs1) =>
          match take_bits 2 bs1 with
          | None => None
          | Some (btype, bs2) =>
              let cont (r : option (list bool * list N)) :=
                match r with
                | None => None
                | Some (bs', out') => if final =? 1 then Some (bs', out') else inflate_blocks f bs' out'
                end in
              if btype =? 0 then
                let bs3 := align_drop 0 bs2 in
                match take_bits 16 bs3 with
                | None => None
                | Some (len, bs4) =>
                    match take_bits 16 bs4 with
                    | None => None
                    | Some (nlen, bs5) =>
                        if negb (len + nlen =? 65535) then None else
                        match bits_to_bytes (N.to_nat len) bs5 out_rev with
                        | None => None
                        | Some (out', bs6) => cont (Some (bs6, out'))
                        end
                    end
                end
              else if btype =? 1 then
                cont (inflate_codes (length bs2) (huff_table fixed_lit_lens) (huff_table fixed_dist_lens) bs2 out_rev)
              else if btype =? 2 then
                match take_bits 5 bs2 with
                | None => None
                | Some (hlit, bs3) =>
                    match take_bits 5 bs3 with
                    | None => None
                    | Some (hdist, bs4) =>
                        match take_bits 4 bs4 with
                        | None => None
                        | Some (hclen, bs5) =>
                            match read_clens (N.to_nat (hclen + 4)) clen_order bs5 [] with
                            | None => None
                            | Some (cls, bs6) =>
                                let cl_lens := map (fun i => assoc_get i cls) (map N.of_nat (seq 0 19)) in
                                let nl := N.to_nat (hlit + 257) in
                                let nd := N.to_nat (hdist + 1) in
                                match read_lens (S (nl + nd)) (huff_table cl_lens) (nl + nd) bs6 [] with
                                | None => None
                                | Some (lens, bs7) =>
                                    if negb (Nat.eqb (length lens) (nl + nd)) then None else
                                    cont (inflate_codes (length bs7) (huff_table (firstn nl lens))
                                                        (huff_table (skipn nl lens)) bs7 out_rev)
                                end
                            end
                        end
                    end
                end
              else None
          end
      end
  end.

Definition adler32 (d : list N) : N :=
  let '(a, b) := fold_left (fun '(a, b) x => let a' := (a + x) mod 65521 in (a', (b + a') mod 65521)) d (1, 0) in
  b * 65536 + a.

(* zlib wrapper: CMF/FLG, deflate data, Adler-32; returns (decoded, number of input bytes consumed) *)
Definition zlib_inflate (d : list N) : option (list N * N) :=
  match d with
  | cmf :: flg :: rest =>
      if negb (cmf mod 16 =? 8) then None
      else if negb ((cmf * 256 + flg) mod 31 =? 0) then None
      else if N.testbit flg 5 then None
      else
        let bs := bits_of rest in
        match inflate_blocks (S (length rest)) bs [] with
        | None => None
        | Some (bs', out_rev) =>
            let out := rev' out_rev in
            let bs'' := align_drop 0 bs' in
            match bits_to_bytes 4 bs'' [] with
            | Some ([c3; c2; c1; c0], bs3) =>
                (* bits_to_bytes accumulates reversed: stored big-endian a0 a1 a2 a3 *)
                let stored := c0 * 16777216 + c1 * 65536 + c2 * 256 + c3 in
                if stored =? adler32 out
                then Some (out, 2 + N.of_nat (length rest) - N.of_nat (length bs3) / 8)
                else None
            | _ => None
            end
        end
  | _ => None
  end.
