(* C10 - "qpdf exits 0 only if it reported no warning about the files it processed": QPDFJob's warning accounting
   (Sys/JobWarnModel.v) against the role-free statement (Sys/JobWarnSpec.v). *)
From QV Require Import Base.Bytes Sys.JobWarnModel Sys.JobWarnSpec.
From Coq Require Import Arith Lia Bool.
Local Open Scope nat_scope.

Lemma c10j_copy_attachments_spec fs w : c10j_copy_attachments fs w = w || existsb c10j_open_warn fs.
Proof.
  unfold c10j_copy_attachments. revert w. induction fs as [|f tl IH]; intros w; simpl; [rewrite orb_false_r; reflexivity|].
  rewrite IH. unfold c10j_copy_from. destruct (c10j_open_warn f), w; reflexivity.
Qed.
Lemma c10j_inputs_clear_spec fs : c10j_inputs_clear fs = existsb c10j_open_warn fs.
Proof.
  unfold c10j_inputs_clear. assert (H : forall w, fold_left (fun acc f => acc || c10j_open_warn f) fs w = w || existsb c10j_open_warn fs).
  { induction fs as [|f tl IH]; intros w; simpl; [rewrite orb_false_r; reflexivity|]. rewrite IH. rewrite orb_assoc. reflexivity. }
  rewrite H. reflexivity.
Qed.
Lemma c10j_uo_loop_spec fs w : c10j_uo_loop fs w = w || existsb c10j_open_warn fs.
Proof.
  unfold c10j_uo_loop. revert w. induction fs as [|f tl IH]; intros w; simpl; [rewrite orb_false_r; reflexivity|].
  rewrite IH. destruct (c10j_open_warn f), w; reflexivity.
Qed.

(* m->warnings in closed form: every role, and decode-time warnings with and without --split-pages *)
Lemma c10j_warnings_spec j :
  c10j_warnings j =
  existsb c10j_open_warn (c10j_opt (c10j_main j)) || existsb c10j_open_warn (c10j_pages j) ||
  existsb c10j_open_warn (c10j_uo j) || existsb c10j_open_warn (c10j_attach j) ||
  existsb c10j_open_warn (c10j_opt (c10j_enc j)) ||
  (c10j_main_late j && c10j_decode j).
Proof.
  unfold c10j_warnings. rewrite c10j_uo_loop_spec, c10j_copy_attachments_spec, c10j_inputs_clear_spec.
  unfold c10j_main_warnings, c10j_split_warnings.
  destruct (existsb c10j_open_warn (c10j_opt (c10j_main j))), (existsb c10j_open_warn (c10j_pages j)),
           (existsb c10j_open_warn (c10j_uo j)), (existsb c10j_open_warn (c10j_attach j)),
           (existsb c10j_open_warn (c10j_opt (c10j_enc j))),
           (c10j_main_late j), (c10j_decode j), (c10j_split j); reflexivity.
Qed.

(* C10, first sentence, for every job over any number of files in the roles main input / --pages / --overlay /
   --underlay / --copy-attachments-from (with or without embedded files in the source, in any order) /
   --copy-encryption, with or without --split-pages, --warning-exit-0 and decoded output: the exit status is 3 exactly
   when a warning was reported about one of the files processed. *)
Lemma job_exit_counts_every_file_lemma : forall j, c10j_exit j = c10j_spec_exit j.
Proof.
  intros j. unfold c10j_exit, c10j_spec_exit, c10j_reported, c10j_files_processed.
  rewrite c10j_warnings_spec. rewrite !existsb_app.
  destruct (existsb c10j_open_warn (c10j_opt (c10j_main j))), (existsb c10j_open_warn (c10j_pages j)),
           (existsb c10j_open_warn (c10j_uo j)), (existsb c10j_open_warn (c10j_attach j)),
           (existsb c10j_open_warn (c10j_opt (c10j_enc j))),
           (c10j_main_late j), (c10j_decode j); simpl in *; reflexivity.
Qed.

(* whatever else the job does: a file, in ANY role, that gave warnings when opened makes the exit status 3; for
   --copy-attachments-from this does not depend on whether the source has any embedded file, nor on its position *)
Lemma job_warned_file_never_exit0_lemma : forall j f,
  c10j_wx0 j = false -> c10j_open_warn f = true -> In f (c10j_files_processed j) -> c10j_exit j = 3.
Proof.
  intros j f Hx Hw Hin. unfold c10j_exit. rewrite Hx, c10j_warnings_spec.
  assert (E : existsb c10j_open_warn (c10j_files_processed j) = true).
  { apply existsb_exists. exists f. split; assumption. }
  unfold c10j_files_processed in E. rewrite !existsb_app in E.
  destruct (existsb c10j_open_warn (c10j_opt (c10j_main j))), (existsb c10j_open_warn (c10j_pages j)),
           (existsb c10j_open_warn (c10j_uo j)), (existsb c10j_open_warn (c10j_attach j)),
           (existsb c10j_open_warn (c10j_opt (c10j_enc j))); simpl in *; try reflexivity; discriminate.
Qed.

(* the warnings about one attachment source count whether or not it has embedded files: changing only that bit of any
   source never changes the exit status *)
Lemma job_attachment_presence_irrelevant_lemma : forall j pre f post b,
  c10j_attach j = pre ++ f :: post ->
  c10j_exit j =
  c10j_exit (mk_c10j_job (c10j_main j) (c10j_main_late j) (c10j_pages j) (c10j_uo j)
                         (pre ++ mk_c10j_file (c10j_open_warn f) b :: post) (c10j_enc j) (c10j_split j) (c10j_decode j) (c10j_wx0 j)).
Proof.
  intros j pre f post b Ha. unfold c10j_exit. rewrite !c10j_warnings_spec. simpl. rewrite Ha, !existsb_app. simpl. reflexivity.
Qed.

(* exit status 3 is never reported without a warning about a file processed *)
Lemma job_exit3_implies_warning_lemma : forall j, c10j_exit j = 3 -> c10j_reported j = true /\ c10j_wx0 j = false.
Proof.
  intros j H. unfold c10j_exit in H. destruct (c10j_warnings j && negb (c10j_wx0 j)) eqn:E; [|discriminate].
  apply andb_true_iff in E. destruct E as [Ew Ex]. split; [|destruct (c10j_wx0 j); simpl in Ex; [discriminate|reflexivity]].
  rewrite c10j_warnings_spec in Ew. unfold c10j_reported, c10j_files_processed. rewrite !existsb_app.
  destruct (existsb c10j_open_warn (c10j_opt (c10j_main j))), (existsb c10j_open_warn (c10j_pages j)),
           (existsb c10j_open_warn (c10j_uo j)), (existsb c10j_open_warn (c10j_attach j)),
           (existsb c10j_open_warn (c10j_opt (c10j_enc j))),
           (c10j_main_late j), (c10j_decode j); simpl in *; try reflexivity; discriminate.
Qed.

(* the --copy-encryption role in particular (finding C08-F16, repaired by /repo d4bc1464: before it the model said 0
   here and job_copy_encryption_warnings_refuted was the theorem) *)
Lemma job_copy_encryption_warnings_count_lemma : forall j f,
  c10j_enc j = Some f -> c10j_open_warn f = true -> c10j_wx0 j = false -> c10j_exit j = 3.
Proof.
  intros j f He Hw Hx. apply (job_warned_file_never_exit0_lemma j f Hx Hw).
  unfold c10j_files_processed. rewrite He. rewrite !in_app_iff. right; right; right; right. left. reflexivity.
Qed.

(* --split-pages with decoded output on an input with a stream that fails to decode (finding
   C10-F1-split-pages-late-warnings, repaired by /repo PENDING10: before it the warnings were recorded on a QPDF object
   nobody asked, the model said 0 and job_split_pages_late_warnings_refuted was the theorem), for every job ... *)
Lemma job_split_pages_late_warnings_count_lemma : forall j,
  c10j_split j = true -> c10j_main_late j = true -> c10j_decode j = true -> c10j_wx0 j = false -> c10j_exit j = 3.
Proof.
  intros j Hs Hl Hd Hx. unfold c10j_exit. rewrite Hx, c10j_warnings_spec, Hl, Hd. simpl. rewrite !orb_true_r. reflexivity.
Qed.

(* ... and pinned on the former witness *)
Lemma job_split_pages_late_warnings_witness_lemma :
  let j := mk_c10j_job (Some (mk_c10j_file false false)) true [] [] [] None true true false in
  c10j_reported j = true /\ c10j_exit j = 3 /\ c10j_spec_exit j = 3.
Proof. repeat split. Qed.
